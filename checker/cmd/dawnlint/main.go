// dawnlint decides structural necessary conditions of the properties in /verif/properties.jsonl
// from /repo's current source. See /verif/DESIGN.md.
package main

import (
	"encoding/json"
	"flag"
	"fmt"
	"os"
	"path/filepath"
	"runtime/debug"
	"sort"
	"strconv"
	"time"

	"dawnverif/checker/core"
	"dawnverif/checker/rules"
)

func main() {
	prop := flag.String("property", "", "property id (C01..C20) or 'list'")
	tier := flag.String("tier", "quick", "quick|thorough")
	repo := flag.String("repo", "/repo", "repository to analyse")
	verif := flag.String("verif", "/verif", "verif directory (evidence, known findings)")
	goos := flag.String("goos", "", "GOOS for loading")
	goarch := flag.String("goarch", "", "GOARCH for loading")
	extraFile := flag.String("extra", "", "JSON object merged into coverage (thorough tier: configurations, sensitivity)")
	listAll := flag.Bool("list", false, "print every obligation")
	noEvidence := flag.Bool("no-evidence", false, "print the report only (used by the mutant sensitivity runs)")
	flag.Parse()
	if *prop == "list" {
		var ids []string
		for id := range rules.Registry {
			ids = append(ids, id)
		}
		sort.Strings(ids)
		for _, id := range ids {
			fmt.Println(id)
		}
		return
	}
	rs := rules.Registry[*prop]
	if rs == nil {
		fmt.Fprintf(os.Stderr, "unknown property %q\n", *prop)
		os.Exit(2)
	}
	seed, _ := strconv.ParseInt(os.Getenv("VERIF_SEED"), 10, 64)
	start := time.Now()
	res := core.NewResult(*prop)
	var prog *core.Prog
	func() {
		defer func() {
			if e := recover(); e != nil {
				res.Unk("R0.panic", "dawnlint#panic", "-", "analyser panic: %v\n%s", e, debug.Stack())
			}
		}()
		var err error
		prog, err = core.Load(core.Config{Dir: *repo, GOOS: *goos, GOARCH: *goarch, Full: rs.Full})
		if err != nil {
			res.Unk("R0.load", "dawnlint#load", "-", "cannot load/type-check %s: %v", *repo, err)
			return
		}
		res.Analysed["packages"] = len(prog.Pkgs)
		res.Analysed["module_functions"] = len(prog.ModuleFuncs())
		res.Analysed["whole_program"] = rs.Full
		rs.Run(prog, res)
		res.Analysed["ssa_functions"] = prog.NumFuncs()
		res.Analysed["load_s"] = prog.LoadS
		if len(prog.Renamed) > 0 {
			res.Analysed["anchors_resolved_by_role"] = prog.Renamed
		}
	}()
	known, err := core.LoadKnown(filepath.Join(*verif, "known_findings.json"))
	if err != nil {
		fmt.Fprintf(os.Stderr, "known_findings.json: %v\n", err)
		os.Exit(2)
	}
	vd := *verif
	if *noEvidence {
		vd, _ = os.MkdirTemp("", "dawnlint-ne")
		defer os.RemoveAll(vd)
	}
	extra := map[string]any{"goos": *goos, "goarch": *goarch}
	if *extraFile != "" {
		if b, err := os.ReadFile(*extraFile); err == nil {
			var m map[string]any
			if json.Unmarshal(b, &m) == nil {
				for k, v := range m {
					extra[k] = v
				}
			}
		}
	}
	if *listAll {
		for _, o := range res.Obls {
			fmt.Printf("  %-10s %-8s [%s] %s: %s\n", o.Status, o.Rule, o.Pos, o.Construct, o.Detail)
		}
	}
	code := res.Finish(vd, *tier, seed, time.Since(start).Seconds(), known, extra)
	if *noEvidence {
		os.RemoveAll(vd)
	}
	os.Exit(code)
}

package main

import (
	"fmt"
	"os"

	"dawnverif/checker/core"
)

func main() {
	p, err := core.Load(core.Config{Dir: "/repo"})
	if err != nil {
		panic(err)
	}
	fn := p.Func(os.Args[1], os.Args[2], os.Args[3])
	if len(os.Args) > 4 {
		fn.WriteTo(os.Stdout)
		return
	}
	facts := p.Facts(fn)
	for _, b := range fn.Blocks {
		fmt.Printf("block %d:", b.Index)
		for f := range facts[b] {
			fmt.Printf(" (%s=%s:%v)", f.Cond.Name(), f.Cond.String(), f.Val)
		}
		fmt.Println()
	}
}

package main

import (
	"fmt"
	"os"

	"dawnverif/checker/core"
)

func main() {
	dir := "/repo"
	if d := os.Getenv("DBGREPO"); d != "" {
		dir = d
	}
	p, err := core.Load(core.Config{Dir: dir})
	if err != nil {
		panic(err)
	}
	if os.Args[2] == "*" {
		// zone analysis of every function of a package
		tot, ok := 0, 0
		for _, f := range p.ModuleFuncs() {
			if f.Pkg == nil || f.Pkg.Pkg.Path() != core.ModulePath+"/"+os.Args[1] && !(os.Args[1] == "" && f.Pkg.Pkg.Path() == core.ModulePath) {
				continue
			}
			res := p.ZoneAnalyze(f)
			if res == nil {
				continue
			}
			for _, s := range res.Sites {
				tot++
				if s.Proved {
					ok++
					continue
				}
				fmt.Printf("%-50s %-6s %-36s %s (%s)\n", f, s.Kind, s.Expr, s.Missing, p.InstrPos(s.Instr))
			}
		}
		fmt.Printf("%d sites, %d proved\n", tot, ok)
		return
	}
	if os.Args[2] == "byname" {
		for _, f := range p.ModuleFuncs() {
			if f.String() == os.Args[3] || f.Name() == os.Args[3] {
				f.WriteTo(os.Stdout)
			}
		}
		return
	}
	fn := p.Func(os.Args[1], os.Args[2], os.Args[3])
	if len(os.Args) > 4 && os.Args[4] == "zone" {
		for _, f := range core.WithAnons(fn) {
			res := p.ZoneAnalyze(f)
			fmt.Printf("%s: vars=%d iter=%d\n", f, res.Vars, res.Iter)
			for _, s := range res.Sites {
				fmt.Printf("  %-6s %-40s proved=%v dead=%v %s  (%s)\n", s.Kind, s.Expr, s.Proved, s.Dead, s.Missing, p.InstrPos(s.Instr))
			}
		}
		return
	}
	if len(os.Args) > 4 {
		fn.WriteTo(os.Stdout)
		return
	}
	facts := p.Facts(fn)
	for _, b := range fn.Blocks {
		fmt.Printf("block %d:", b.Index)
		for f := range facts[b] {
			fmt.Printf(" (%s=%s:%v)", f.Cond.Name(), f.Cond.String(), f.Val)
		}
		fmt.Println()
	}
}

// Package core holds the loader, the shared analyses (A1..A7 of DESIGN.md) and the
// obligation/report machinery of dawnlint.
package core

import (
	"fmt"
	"go/token"
	"go/types"
	"os"
	"sort"
	"strings"
	"time"

	"golang.org/x/tools/go/callgraph"
	"golang.org/x/tools/go/callgraph/cha"
	"golang.org/x/tools/go/callgraph/vta"
	"golang.org/x/tools/go/packages"
	"golang.org/x/tools/go/ssa"
	"golang.org/x/tools/go/ssa/ssautil"
)

// ModulePath is the import path prefix of the repository under analysis.
const ModulePath = "github.com/pgavlin/dawn"

// MinPackages is the number of packages confirmed by hand on the pinned tree.
const MinPackages = 16

// Config selects a build configuration for loading.
type Config struct {
	Dir    string
	GOOS   string
	GOARCH string
	Full   bool // load dependency syntax and build whole-program SSA (needed for VTA)
}

// Prog is a loaded, type-checked, SSA-built program.
type Prog struct {
	Cfg     Config
	Fset    *token.FileSet
	Pkgs    []*packages.Package // module packages, sorted by path
	ByPath  map[string]*packages.Package
	SSA     *ssa.Program
	SSAPkgs map[string]*ssa.Package
	LoadS   float64

	cg        *callgraph.Graph
	modFuncs  []*ssa.Function
	allFuncs  map[*ssa.Function]bool
	facts     map[*ssa.Function]map[*ssa.BasicBlock]FactSet
	edgeOut   map[*ssa.Function]func(*ssa.BasicBlock, int) FactSet
	refined   map[*ssa.BasicBlock]FactSet
	callersOf map[*ssa.Function][]ssa.CallInstruction

	zoneInContext bool                              // a calling-context analysis is in progress (no nesting)
	context       map[*ssa.Function]ssa.Instruction // function -> its only call site (SetContext)

	// Renamed records anchors that were resolved by role: "rel.recv.name" -> current name.
	Renamed map[string]string
}

// Load loads /repo (or cfg.Dir) and builds SSA. Any load or type error is fatal.
func Load(cfg Config) (*Prog, error) {
	start := time.Now()
	if cfg.Dir == "" {
		cfg.Dir = "/repo"
	}
	mode := packages.NeedName | packages.NeedFiles | packages.NeedCompiledGoFiles | packages.NeedImports |
		packages.NeedTypes | packages.NeedTypesSizes | packages.NeedSyntax | packages.NeedTypesInfo | packages.NeedDeps | packages.NeedModule
	env := []string{}
	for _, e := range os.Environ() {
		if strings.HasPrefix(e, "GOWORK=") || strings.HasPrefix(e, "GOFLAGS=") || strings.HasPrefix(e, "GOOS=") || strings.HasPrefix(e, "GOARCH=") {
			continue
		}
		env = append(env, e)
	}
	env = append(env, "GOWORK=off", "GOFLAGS=-mod=mod", "GOPROXY=off", "GOSUMDB=off", "GOTOOLCHAIN=local", "CGO_ENABLED=0")
	if cfg.GOOS != "" {
		env = append(env, "GOOS="+cfg.GOOS)
	}
	if cfg.GOARCH != "" {
		env = append(env, "GOARCH="+cfg.GOARCH)
	}
	pc := &packages.Config{Mode: mode, Dir: cfg.Dir, Env: env, Tests: false}
	initial, err := packages.Load(pc, "./...")
	if err != nil {
		return nil, fmt.Errorf("packages.Load: %w", err)
	}
	var errs []string
	packages.Visit(initial, nil, func(p *packages.Package) {
		for _, e := range p.Errors {
			// errors in dependencies outside the module are fatal as well in Full mode only
			if strings.HasPrefix(p.PkgPath, ModulePath) || cfg.Full {
				errs = append(errs, fmt.Sprintf("%s: %v", p.PkgPath, e))
			}
		}
	})
	if len(errs) > 0 {
		sort.Strings(errs)
		if len(errs) > 10 {
			errs = errs[:10]
		}
		return nil, fmt.Errorf("type/load errors: %s", strings.Join(errs, "; "))
	}
	p := &Prog{Cfg: cfg, ByPath: map[string]*packages.Package{}, SSAPkgs: map[string]*ssa.Package{}}
	for _, pk := range initial {
		if strings.HasPrefix(pk.PkgPath, ModulePath) {
			p.Pkgs = append(p.Pkgs, pk)
		}
	}
	sort.Slice(p.Pkgs, func(i, j int) bool { return p.Pkgs[i].PkgPath < p.Pkgs[j].PkgPath })
	if len(p.Pkgs) < MinPackages {
		return nil, fmt.Errorf("only %d module packages loaded, expected >= %d", len(p.Pkgs), MinPackages)
	}
	packages.Visit(initial, nil, func(pk *packages.Package) { p.ByPath[pk.PkgPath] = pk })
	p.Fset = initial[0].Fset

	bmode := ssa.InstantiateGenerics
	var prog *ssa.Program
	if cfg.Full {
		prog, _ = ssautil.AllPackages(initial, bmode)
	} else {
		prog, _ = ssautil.Packages(initial, bmode)
	}
	prog.Build()
	p.SSA = prog
	for _, sp := range prog.AllPackages() {
		p.SSAPkgs[sp.Pkg.Path()] = sp
	}
	for _, pk := range p.Pkgs {
		if p.SSAPkgs[pk.PkgPath] == nil {
			return nil, fmt.Errorf("no SSA package for %s", pk.PkgPath)
		}
	}
	p.LoadS = time.Since(start).Seconds()
	return p, nil
}

// Pkg returns the SSA package with the given path relative to the module ("" = root).
func (p *Prog) Pkg(rel string) *ssa.Package {
	path := ModulePath
	if rel != "" {
		path += "/" + rel
	}
	return p.SSAPkgs[path]
}

// TPkg returns the go/packages package with the given module-relative path.
func (p *Prog) TPkg(rel string) *packages.Package {
	path := ModulePath
	if rel != "" {
		path += "/" + rel
	}
	return p.ByPath[path]
}

// InModule reports whether fn belongs to the analysed module.
func InModule(fn *ssa.Function) bool {
	if fn == nil {
		return false
	}
	if fn.Pkg != nil {
		return strings.HasPrefix(fn.Pkg.Pkg.Path(), ModulePath)
	}
	if fn.Parent() != nil {
		return InModule(fn.Parent())
	}
	if o := fn.Origin(); o != nil && o != fn {
		return InModule(o)
	}
	if obj := fn.Object(); obj != nil && obj.Pkg() != nil {
		return strings.HasPrefix(obj.Pkg().Path(), ModulePath)
	}
	return false
}

// ModuleFuncs returns every function with a body defined in the module (methods,
// package-level functions, init functions and anonymous functions), sorted by name.
func (p *Prog) ModuleFuncs() []*ssa.Function {
	if p.modFuncs != nil {
		return p.modFuncs
	}
	seen := map[*ssa.Function]bool{}
	var add func(fn *ssa.Function)
	add = func(fn *ssa.Function) {
		if fn == nil || seen[fn] || fn.Blocks == nil {
			return
		}
		seen[fn] = true
		p.modFuncs = append(p.modFuncs, fn)
		for _, a := range fn.AnonFuncs {
			add(a)
		}
	}
	for _, pk := range p.Pkgs {
		sp := p.SSAPkgs[pk.PkgPath]
		for _, m := range sp.Members {
			switch m := m.(type) {
			case *ssa.Function:
				add(m)
			case *ssa.Type:
				for _, t := range []types.Type{m.Type(), types.NewPointer(m.Type())} {
					ms := p.SSA.MethodSets.MethodSet(t)
					for i := 0; i < ms.Len(); i++ {
						fn := p.SSA.MethodValue(ms.At(i))
						if fn != nil && fn.Synthetic == "" {
							add(fn)
						}
					}
				}
			}
		}
	}
	sort.Slice(p.modFuncs, func(i, j int) bool { return p.modFuncs[i].String() < p.modFuncs[j].String() })
	return p.modFuncs
}

// Func finds a package-level function or a method. recv is the receiver's named type ("" for
// functions). Returns nil when absent.
func (p *Prog) Func(rel, recv, name string) *ssa.Function {
	if fn := p.funcByName(rel, recv, name); fn != nil {
		return fn
	}
	return p.funcByRole(rel, recv, name)
}

// funcByRole: the named function does not exist. If the frozen table knows it, the unique function of the same package
// and receiver with the same signature whose own name is not in the table (i.e. a new name) has taken its role.
func (p *Prog) funcByRole(rel, recv, name string) *ssa.Function {
	sp := p.Pkg(rel)
	if sp == nil {
		return nil
	}
	want, ok := FrozenFuncs[sp.Pkg.Path()+"|"+recv+"|"+name]
	if !ok {
		return nil
	}
	var cands []*ssa.Function
	for _, fn := range p.ModuleFuncs() {
		if fn.Pkg != sp || fn.Parent() != nil || fn.Synthetic != "" {
			continue
		}
		k := FuncKey(fn)
		if k == "" {
			continue
		}
		if _, known := FrozenFuncs[k]; known {
			continue
		}
		parts := strings.SplitN(k, "|", 3)
		if parts[1] != recv {
			continue
		}
		if SigString(fn.Signature) == want {
			cands = append(cands, fn)
		}
	}
	if len(cands) == 1 {
		if p.Renamed == nil {
			p.Renamed = map[string]string{}
		}
		p.Renamed[rel+"."+recv+"."+name] = cands[0].Name()
		return cands[0]
	}
	return nil
}

func (p *Prog) funcByName(rel, recv, name string) *ssa.Function {
	sp := p.Pkg(rel)
	if sp == nil {
		return nil
	}
	if recv == "" {
		return sp.Func(name)
	}
	t := sp.Type(recv)
	if t == nil {
		return nil
	}
	var wrapper *ssa.Function
	for _, ty := range []types.Type{types.NewPointer(t.Type()), t.Type()} {
		sel := p.SSA.MethodSets.MethodSet(ty).Lookup(sp.Pkg, name)
		if sel != nil {
			if fn := p.SSA.MethodValue(sel); fn != nil {
				if fn.Synthetic == "" {
					return fn // the declared method, not a pointer-receiver or promotion wrapper
				}
				wrapper = fn
			}
		}
	}
	return wrapper
}

// Named returns the named type rel.name.
func (p *Prog) Named(rel, name string) *types.Named {
	sp := p.Pkg(rel)
	if sp == nil {
		return nil
	}
	t := sp.Type(name)
	if t == nil {
		return nil
	}
	n, _ := t.Type().(*types.Named)
	return n
}

// Pos renders a position relative to the repo dir.
func (p *Prog) Pos(pos token.Pos) string {
	if !pos.IsValid() {
		return "-"
	}
	ps := p.Fset.Position(pos)
	f := strings.TrimPrefix(ps.Filename, p.Cfg.Dir+"/")
	return fmt.Sprintf("%s:%d", f, ps.Line)
}

// InstrPos returns the best available position for an instruction.
func (p *Prog) InstrPos(in ssa.Instruction) string {
	if in == nil {
		return "-"
	}
	if in.Pos().IsValid() {
		return p.Pos(in.Pos())
	}
	// synthesised instruction: fall back to nearest positioned instruction in the block, then the function
	b := in.Block()
	if b != nil {
		for _, o := range b.Instrs {
			if o.Pos().IsValid() {
				return p.Pos(o.Pos()) + "~"
			}
		}
	}
	if in.Parent() != nil {
		return p.Pos(in.Parent().Pos()) + "~"
	}
	return "-"
}

// CallGraph builds (once) the VTA call graph over the whole program. Requires Cfg.Full.
func (p *Prog) CallGraph() *callgraph.Graph {
	if p.cg != nil {
		return p.cg
	}
	all := ssautil.AllFunctions(p.SSA)
	p.allFuncs = all
	p.cg = vta.CallGraph(all, cha.CallGraph(p.SSA))
	return p.cg
}

// NumFuncs is the number of SSA functions in the program (after CallGraph) or module functions.
func (p *Prog) NumFuncs() int {
	if p.allFuncs != nil {
		return len(p.allFuncs)
	}
	return len(p.ModuleFuncs())
}

// TPkgPath returns the type-checked package with the given import path (a dependency of the module), or nil.
func (p *Prog) TPkgPath(path string) *types.Package {
	for _, pkg := range p.Pkgs {
		if pkg.Types != nil && pkg.Types.Path() == path {
			return pkg.Types
		}
		for _, imp := range pkg.Imports {
			if imp.Types != nil && imp.Types.Path() == path {
				return imp.Types
			}
		}
	}
	if sp := p.SSAPkgs[path]; sp != nil {
		return sp.Pkg
	}
	return nil
}

// FuncKey is the key of fn in the frozen anchor table: "import path|receiver type name|name" ("" for closures).
func FuncKey(fn *ssa.Function) string {
	if fn == nil || fn.Pkg == nil || fn.Parent() != nil {
		return ""
	}
	recv := ""
	if r := fn.Signature.Recv(); r != nil {
		t := r.Type()
		if pt, ok := t.(*types.Pointer); ok {
			t = pt.Elem()
		}
		if n, ok := t.(*types.Named); ok {
			recv = n.Obj().Name()
		} else {
			return ""
		}
	}
	return fn.Pkg.Pkg.Path() + "|" + recv + "|" + fn.Name()
}

// SigString renders a signature without parameter names (a rename of parameters is not a change of role).
func SigString(sig *types.Signature) string {
	var b strings.Builder
	b.WriteString("func(")
	for i := 0; i < sig.Params().Len(); i++ {
		if i > 0 {
			b.WriteString(", ")
		}
		if sig.Variadic() && i == sig.Params().Len()-1 {
			b.WriteString("...")
		}
		b.WriteString(types.TypeString(sig.Params().At(i).Type(), nil))
	}
	b.WriteString(")")
	for i := 0; i < sig.Results().Len(); i++ {
		b.WriteString(" " + types.TypeString(sig.Results().At(i).Type(), nil))
	}
	if r := sig.Recv(); r != nil {
		b.WriteString(" recv " + types.TypeString(r.Type(), nil))
	}
	return b.String()
}

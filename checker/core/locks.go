package core

import (
	"go/types"
	"sort"
	"strings"

	"golang.org/x/tools/go/ssa"
)

// LockKey identifies a mutex: Path is the canonical access path of its address, Class the
// (struct type, field) it lives in ("pkg.Type.field"), or the path itself for other mutexes.
type LockKey struct {
	Path  string
	Class string
}

// Lock modes.
const (
	ModeR = 1
	ModeW = 2
)

type lockState struct {
	must map[LockKey]int
	may  map[LockKey]bool
}

func (s lockState) clone() lockState {
	n := lockState{must: map[LockKey]int{}, may: map[LockKey]bool{}}
	for k, v := range s.must {
		n.must[k] = v
	}
	for k := range s.may {
		n.may[k] = true
	}
	return n
}

func (s lockState) equal(o lockState) bool {
	if len(s.must) != len(o.must) || len(s.may) != len(o.may) {
		return false
	}
	for k, v := range s.must {
		if o.must[k] != v {
			return false
		}
	}
	for k := range s.may {
		if !o.may[k] {
			return false
		}
	}
	return true
}

// LockOp is a recognised mutex operation.
type LockOp struct {
	Instr   ssa.CallInstruction
	Key     LockKey
	Acquire bool
	Mode    int
	Defer   bool
}

// LockInfo is the result of the lock-set analysis of one function.
type LockInfo struct {
	Fn      *ssa.Function
	Ops     []LockOp
	entry   map[*ssa.BasicBlock]lockState
	opAt    map[ssa.Instruction]*LockOp
	relAt   map[ssa.Instruction][]LockKey // direct calls of closures/functions that release locks
	Defers  []LockKey                     // locks released by deferred calls (held until return)
	DeferAt map[LockKey]ssa.Instruction
}

// MutexKey computes the LockKey for the receiver address of a sync mutex method call.
func MutexKey(addr ssa.Value) LockKey {
	k := LockKey{Path: Path(addr)}
	if n, f := FieldOf(addr); n != nil {
		pk := ""
		if n.Obj().Pkg() != nil {
			pk = n.Obj().Pkg().Path()
		}
		k.Class = pk + "." + n.Obj().Name() + "." + f
	} else {
		k.Class = k.Path
	}
	return k
}

// ClassOf builds a lock class string for module-relative package rel.
func ClassOf(rel, typ, field string) string {
	pk := ModulePath
	if rel != "" {
		pk += "/" + rel
	}
	return pk + "." + typ + "." + field
}

func asLockOp(c ssa.CallInstruction) (LockOp, bool) {
	mc, ok := AsMethodCall(c)
	if !ok || mc.RecvPkg != "sync" || mc.Invoke {
		return LockOp{}, false
	}
	if mc.RecvType != "Mutex" && mc.RecvType != "RWMutex" {
		return LockOp{}, false
	}
	op := LockOp{Instr: c}
	switch mc.Method {
	case "Lock":
		op.Acquire, op.Mode = true, ModeW
	case "RLock":
		op.Acquire, op.Mode = true, ModeR
	case "Unlock":
		op.Mode = ModeW
	case "RUnlock":
		op.Mode = ModeR
	default:
		return LockOp{}, false
	}
	op.Key = MutexKey(mc.Recv)
	_, op.Defer = c.(*ssa.Defer)
	return op, true
}

// releases returns the locks a function releases unconditionally without acquiring them first
// (used for closures such as `unlock := func() { t.m.Unlock(); ... }`).
func (p *Prog) releases(fn *ssa.Function) []LockKey {
	if fn == nil || fn.Blocks == nil {
		return nil
	}
	var out []LockKey
	acquired := map[LockKey]bool{}
	Instrs(fn, func(in ssa.Instruction) {
		if c, ok := in.(ssa.CallInstruction); ok {
			if op, ok := asLockOp(c); ok {
				if op.Acquire {
					acquired[op.Key] = true
				} else if !acquired[op.Key] {
					out = append(out, op.Key)
				}
			}
		}
	})
	return out
}

// Locks runs the lock-set analysis for fn (memoised by the caller if needed).
func (p *Prog) Locks(fn *ssa.Function) *LockInfo {
	li := &LockInfo{Fn: fn, entry: map[*ssa.BasicBlock]lockState{}, opAt: map[ssa.Instruction]*LockOp{}, relAt: map[ssa.Instruction][]LockKey{}, DeferAt: map[LockKey]ssa.Instruction{}}
	if len(fn.Blocks) == 0 {
		return li
	}
	Instrs(fn, func(in ssa.Instruction) {
		c, ok := in.(ssa.CallInstruction)
		if !ok {
			return
		}
		if op, ok := asLockOp(c); ok {
			li.Ops = append(li.Ops, op)
			li.opAt[in] = &li.Ops[len(li.Ops)-1]
			if op.Defer && !op.Acquire {
				li.Defers = append(li.Defers, op.Key)
				li.DeferAt[op.Key] = in
			}
			return
		}
		if callee := Callee(c); callee != nil && InModule(callee) && callee != fn {
			if rel := p.releases(callee); len(rel) > 0 {
				if _, isDefer := c.(*ssa.Defer); isDefer {
					for _, k := range rel {
						li.Defers = append(li.Defers, k)
						li.DeferAt[k] = in
					}
				} else if _, isGo := c.(*ssa.Go); !isGo {
					li.relAt[in] = rel
				}
			}
		}
	})
	// fix pointers (slice may have been reallocated)
	for i := range li.Ops {
		li.opAt[li.Ops[i].Instr.(ssa.Instruction)] = &li.Ops[i]
	}
	empty := lockState{must: map[LockKey]int{}, may: map[LockKey]bool{}}
	li.entry[fn.Blocks[0]] = empty
	work := []*ssa.BasicBlock{fn.Blocks[0]}
	for iter := 0; len(work) > 0 && iter < 100000; iter++ {
		b := work[0]
		work = work[1:]
		st := li.entry[b].clone()
		for _, in := range b.Instrs {
			li.apply(&st, in)
		}
		for _, s := range b.Succs {
			old, ok := li.entry[s]
			var nw lockState
			if !ok {
				nw = st.clone()
			} else {
				nw = lockState{must: map[LockKey]int{}, may: map[LockKey]bool{}}
				for k, v := range old.must {
					if v2, ok := st.must[k]; ok {
						if v2 < v {
							v = v2
						}
						nw.must[k] = v
					}
				}
				for k := range old.may {
					nw.may[k] = true
				}
				for k := range st.may {
					nw.may[k] = true
				}
			}
			if !ok || !nw.equal(old) {
				li.entry[s] = nw
				work = append(work, s)
			}
		}
	}
	return li
}

func (li *LockInfo) apply(st *lockState, in ssa.Instruction) {
	if op, ok := li.opAt[in]; ok {
		if op.Defer {
			return // runs at function exit
		}
		if op.Acquire {
			st.must[op.Key] = op.Mode
			st.may[op.Key] = true
		} else {
			delete(st.must, op.Key)
			delete(st.may, op.Key)
			// an unlock through a different alias of the same class conservatively clears must for that class
			for k := range st.must {
				if k.Class == op.Key.Class && k.Path != op.Key.Path && strings.Contains(op.Key.Path, "?") {
					delete(st.must, k)
				}
			}
		}
		return
	}
	if rel, ok := li.relAt[in]; ok {
		for _, k := range rel {
			delete(st.must, k)
			delete(st.may, k)
		}
	}
}

// stateAt returns the lock state just before instruction in.
func (li *LockInfo) stateAt(in ssa.Instruction) (lockState, bool) {
	b := in.Block()
	e, ok := li.entry[b]
	if !ok {
		return lockState{}, false // unreachable block
	}
	st := e.clone()
	for _, o := range b.Instrs {
		if o == in {
			break
		}
		li.apply(&st, o)
	}
	return st, true
}

// MustHoldClass: a lock of class is certainly held (in at least the given mode) just before in.
func (li *LockInfo) MustHoldClass(in ssa.Instruction, class string, mode int) bool {
	st, ok := li.stateAt(in)
	if !ok {
		return true // unreachable code holds vacuously
	}
	for k, m := range st.must {
		if k.Class == class && m >= mode {
			return true
		}
	}
	return false
}

// MustHoldKey: exactly this lock is certainly held.
func (li *LockInfo) MustHoldKey(in ssa.Instruction, key LockKey, mode int) bool {
	st, ok := li.stateAt(in)
	if !ok {
		return true
	}
	return st.must[key] >= mode
}

// MayHold lists the locks that may be held just before in.
func (li *LockInfo) MayHold(in ssa.Instruction) []LockKey {
	st, ok := li.stateAt(in)
	if !ok {
		return nil
	}
	var out []LockKey
	for k := range st.may {
		out = append(out, k)
	}
	sort.Slice(out, func(i, j int) bool { return out[i].Path < out[j].Path })
	return out
}

// HeldAtReturn lists locks that may still be held at a return and are not released by a deferred call.
func (li *LockInfo) HeldAtReturn() map[*ssa.Return][]LockKey {
	out := map[*ssa.Return][]LockKey{}
	for _, r := range ReturnsOf(li.Fn) {
		for _, k := range li.MayHold(r) {
			deferred := false
			for _, d := range li.Defers {
				if d == k {
					deferred = true
				}
			}
			if !deferred {
				out[r] = append(out[r], k)
			}
		}
	}
	return out
}

// AcquiresClass computes the set of lock classes that calling fn may acquire, transitively through
// static in-module callees (including closures and deferred calls).
func (p *Prog) AcquiresClass(fn *ssa.Function, seen map[*ssa.Function]bool) map[string][]string {
	out := map[string][]string{} // class -> call chain
	if fn == nil || fn.Blocks == nil || seen[fn] {
		return out
	}
	seen[fn] = true
	for _, c := range Calls(fn) {
		if _, isGo := c.(*ssa.Go); isGo {
			continue
		}
		if op, ok := asLockOp(c); ok {
			if op.Acquire {
				if _, dup := out[op.Key.Class]; !dup {
					out[op.Key.Class] = []string{FuncName(fn)}
				}
			}
			continue
		}
		callee := Callee(c)
		if callee == nil || !InModule(callee) {
			continue
		}
		for cl, chain := range p.AcquiresClass(callee, seen) {
			if _, dup := out[cl]; !dup {
				out[cl] = append([]string{FuncName(fn)}, chain...)
			}
		}
	}
	return out
}

// GuardSpec: field Field of struct (Rel,Type) must be accessed with lock field Lock of the same
// struct instance held. ReadMode is the mode sufficient for reads (ModeR for RWMutex).
type GuardSpec struct {
	Rel, Type, Field, Lock string
	// Exempt maps function name (FuncName) to the one-line reason its unguarded access is legitimate.
	Exempt map[string]string
}

// Access is one access to a guarded field.
type Access struct {
	Instr  ssa.Instruction
	Write  bool
	Fn     *ssa.Function
	Base   string // path of the struct the field belongs to
	Fresh  bool   // struct is a fresh allocation of this function (constructor exemption)
	What   string
	Guard  bool
	Reason string
}

// fieldAccesses enumerates loads/stores (and map/slice operations on the loaded value) of the field.
func (p *Prog) fieldAccesses(spec GuardSpec) []Access {
	pkg := ModulePath
	if spec.Rel != "" {
		pkg += "/" + spec.Rel
	}
	var out []Access
	for _, fn := range p.ModuleFuncs() {
		Instrs(fn, func(in ssa.Instruction) {
			fa, ok := in.(*ssa.FieldAddr)
			if !ok || !IsField(fa, pkg, spec.Type, spec.Field) {
				return
			}
			base := Path(fa.X)
			fresh := isFresh(fa.X)
			for _, r := range *fa.Referrers() {
				switch u := r.(type) {
				case *ssa.Store:
					if u.Addr == ssa.Value(fa) {
						out = append(out, Access{Instr: u, Write: true, Fn: fn, Base: base, Fresh: fresh, What: "store"})
					}
				case *ssa.UnOp:
					out = append(out, Access{Instr: u, Fn: fn, Base: base, Fresh: fresh, What: "load"})
					// uses of a loaded reference-typed value (map, slice) are accesses too
					if isRefContainer(u.Type()) {
						for _, r2 := range *u.Referrers() {
							switch u2 := r2.(type) {
							case *ssa.MapUpdate:
								if u2.Map == ssa.Value(u) {
									out = append(out, Access{Instr: u2, Write: true, Fn: fn, Base: base, Fresh: fresh, What: "map update"})
								}
							case *ssa.Lookup:
								out = append(out, Access{Instr: u2, Fn: fn, Base: base, Fresh: fresh, What: "map lookup"})
							case *ssa.Range:
								out = append(out, Access{Instr: u2, Fn: fn, Base: base, Fresh: fresh, What: "map range"})
								// iteration continues through Next instructions
								for _, r3 := range *u2.Referrers() {
									if nx, ok := r3.(*ssa.Next); ok {
										out = append(out, Access{Instr: nx, Fn: fn, Base: base, Fresh: fresh, What: "map range next"})
									}
								}
							case *ssa.Call:
								if b, ok := u2.Call.Value.(*ssa.Builtin); ok && (b.Name() == "delete") {
									out = append(out, Access{Instr: u2, Write: true, Fn: fn, Base: base, Fresh: fresh, What: "map delete"})
								} else if ok && b.Name() == "len" {
									out = append(out, Access{Instr: u2, Fn: fn, Base: base, Fresh: fresh, What: "len"})
								}
							}
						}
					}
				default:
					// address escapes (passed to a call, stored): treat as a write access at that instruction
					if _, isDbg := r.(*ssa.DebugRef); !isDbg {
						out = append(out, Access{Instr: r, Write: true, Fn: fn, Base: base, Fresh: fresh, What: "address use"})
					}
				}
			}
		})
	}
	return out
}

func isRefContainer(t types.Type) bool {
	switch t.Underlying().(type) {
	case *types.Map, *types.Slice:
		return true
	}
	return false
}

// isFresh: v is (a load of a cell holding) an allocation made in the same function.
func isFresh(v ssa.Value) bool {
	v = Unwrap(v)
	if a, ok := v.(*ssa.Alloc); ok {
		return a.Heap || true
	}
	return false
}

// CheckGuardedBy evaluates a guarded-by specification. For each access it requires the lock (same
// base path, or same class when paths cannot be compared) in the must-set; failing that, every static
// caller of the function must hold the class at the call site (two levels). Fresh allocations and
// exempt functions are accepted with their reason.
func (p *Prog) CheckGuardedBy(spec GuardSpec) []Access {
	class := ClassOf(spec.Rel, spec.Type, spec.Lock)
	accs := p.fieldAccesses(spec)
	linfo := map[*ssa.Function]*LockInfo{}
	li := func(fn *ssa.Function) *LockInfo {
		if l, ok := linfo[fn]; ok {
			return l
		}
		l := p.Locks(fn)
		linfo[fn] = l
		return l
	}
	var heldByCallers func(fn *ssa.Function, depth int) (bool, string)
	heldByCallers = func(fn *ssa.Function, depth int) (bool, string) {
		callers := p.StaticCallers(fn)
		if len(callers) == 0 || depth > 2 {
			return false, "no static callers hold it"
		}
		if len(p.FuncValueUses(fn)) > 0 {
			return false, "function escapes as a value"
		}
		for _, c := range callers {
			cf := c.Parent()
			if li(cf).MustHoldClass(c, class, ModeR) {
				continue
			}
			if ok, _ := heldByCallers(cf, depth+1); ok {
				continue
			}
			return false, "caller " + FuncName(cf) + " does not hold " + class
		}
		return true, "held by all static callers"
	}
	// a helper that is only ever called (statically, never spawned, never taken as a value) from exempt functions runs
	// in the same phase as they do
	var exemptByCallers func(fn *ssa.Function, depth int) (string, bool)
	exemptByCallers = func(fn *ssa.Function, depth int) (string, bool) {
		callers := p.StaticCallers(fn)
		if len(callers) == 0 || depth > 2 || len(p.FuncValueUses(fn)) > 0 || fn.Parent() != nil {
			return "", false
		}
		via := ""
		for _, c := range callers {
			if _, isGo := c.(*ssa.Go); isGo {
				return "", false
			}
			cf := c.Parent()
			if cf.Parent() != nil {
				return "", false // called from a closure (possibly a goroutine body)
			}
			name := FuncName(cf)
			if _, ok := spec.Exempt[name]; ok {
				via = name
				continue
			}
			// called on a struct the caller has just allocated (constructor phase)
			if args := c.Common().Args; len(args) > 0 {
				if _, fresh := args[0].(*ssa.Alloc); fresh {
					if via == "" {
						via = name
					}
					continue
				}
			}
			if v, ok := exemptByCallers(cf, depth+1); ok {
				via = v
				continue
			}
			return "", false
		}
		return via, via != ""
	}
	for i := range accs {
		a := &accs[i]
		mode := ModeR
		if a.Write {
			mode = ModeW
		}
		key := LockKey{Path: a.Base + "." + spec.Lock, Class: class}
		l := li(a.Fn)
		switch {
		case l.MustHoldKey(a.Instr, key, mode):
			a.Guard, a.Reason = true, "holds "+key.Path
		case strings.Contains(a.Base, "?") && l.MustHoldClass(a.Instr, class, mode):
			a.Guard, a.Reason = true, "holds a lock of class "+class
		case a.Fresh:
			a.Guard, a.Reason = true, "constructor: the struct is a fresh allocation not yet shared"
		default:
			if r, ok := spec.Exempt[FuncName(a.Fn)]; ok {
				a.Guard, a.Reason = true, "exempt: "+r
			} else if via, ok := exemptByCallers(a.Fn, 0); ok {
				why := spec.Exempt[via]
				if why == "" {
					why = "on a freshly allocated struct"
				}
				a.Guard, a.Reason = true, "exempt: helper called only from "+via+": "+why
			} else if ok, why := heldByCallers(a.Fn, 0); ok {
				a.Guard, a.Reason = true, why
			} else {
				a.Reason = "lock " + key.Path + " not held (" + why + ")"
			}
		}
	}
	return accs
}

// MustHoldClassX is MustHoldClass with calling context: a function that performs no operation on locks of the class
// itself inherits what every one of its static call sites certainly holds (no go/defer sites, no use as a function value;
// three levels). It decides "the caller took the lock, the helper does the work".
func (p *Prog) MustHoldClassX(in ssa.Instruction, class string, mode int) bool {
	return p.mustHoldClassX(in, class, mode, 0)
}

func (p *Prog) mustHoldClassX(in ssa.Instruction, class string, mode int, depth int) bool {
	fn := in.Parent()
	if fn == nil {
		return false
	}
	li := p.Locks(fn)
	if li.MustHoldClass(in, class, mode) {
		return true
	}
	for _, op := range li.Ops {
		if op.Key.Class == class {
			return false
		}
	}
	if depth >= 3 || fn.Parent() != nil || len(p.FuncValueUses(fn)) > 0 {
		return false
	}
	callers := p.StaticCallers(fn)
	if len(callers) == 0 {
		return false
	}
	for _, c := range callers {
		if _, isCall := c.(*ssa.Call); !isCall {
			return false
		}
		if !p.mustHoldClassX(c.(ssa.Instruction), class, mode, depth+1) {
			return false
		}
	}
	return true
}

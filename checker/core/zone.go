package core

import (
	"fmt"
	"go/ast"
	"go/constant"
	"go/token"
	"go/types"
	"sort"

	"golang.org/x/tools/go/ast/astutil"
	"golang.org/x/tools/go/ssa"
)

// Zone analysis: a forward abstract interpretation of one function over difference-bound matrices
// (constraints x - y <= c between integer SSA values, lengths of strings/slices and constants), used to
// decide whether every index and slice expression is in range on every path. Nothing is executed: the
// analysis walks the SSA control-flow graph to a fixpoint (widening at loop heads, then narrowing).
//
// Terms. An integer SSA value built from another one by adding/subtracting constants is not a variable of
// its own: it is normalised to (root, offset), so that `r+1` computed twice (go/ssa has no CSE) is the same
// term. len(x) is the variable L(x) of the sequence value x. Variable 0 is the constant zero.
//
// Branch conditions are taken from the must-fact analysis (Facts / EdgeFacts), which already handles
// short-circuit && / || and structurally equal comparisons; every integer comparison, string comparison
// with a constant and strings.HasPrefix/HasSuffix fact is turned into constraints.
//
// Assumptions: signed integer arithmetic does not overflow; lengths are non-negative.

const zInf = int64(1) << 50

type zstate struct {
	n int
	m []int64 // n*n; m[i*n+j] = c  means  x_i - x_j <= c ; nil = unreachable
}

func newTop(n int) *zstate {
	s := &zstate{n: n, m: make([]int64, n*n)}
	for i := range s.m {
		s.m[i] = zInf
	}
	for i := 0; i < n; i++ {
		s.m[i*n+i] = 0
	}
	return s
}

func (s *zstate) bottom() bool { return s == nil || s.m == nil }

func (s *zstate) clone() *zstate {
	if s.bottom() {
		return &zstate{n: s.n}
	}
	c := &zstate{n: s.n, m: make([]int64, len(s.m))}
	copy(c.m, s.m)
	return c
}

func zadd(a, b int64) int64 {
	if a >= zInf || b >= zInf {
		return zInf
	}
	r := a + b
	if r >= zInf {
		return zInf
	}
	if r < -zInf {
		return -zInf
	}
	return r
}

// add the constraint x_i - x_j <= c, keeping the matrix closed.
func (s *zstate) add(i, j int, c int64) {
	if s.bottom() || i == j && c >= 0 {
		return
	}
	n := s.n
	if i == j && c < 0 {
		s.m = nil
		return
	}
	if s.m[i*n+j] <= c {
		return
	}
	if zadd(s.m[j*n+i], c) < 0 {
		s.m = nil
		return
	}
	s.m[i*n+j] = c
	for a := 0; a < n; a++ {
		ai := s.m[a*n+i]
		if ai >= zInf {
			continue
		}
		base := zadd(ai, c)
		for b := 0; b < n; b++ {
			jb := s.m[j*n+b]
			if jb >= zInf {
				continue
			}
			if v := zadd(base, jb); v < s.m[a*n+b] {
				s.m[a*n+b] = v
			}
		}
	}
	for k := 0; k < n; k++ {
		if s.m[k*n+k] < 0 {
			s.m = nil
			return
		}
	}
}

func (s *zstate) forget(i int) {
	if s.bottom() || i == 0 {
		return
	}
	n := s.n
	for k := 0; k < n; k++ {
		if k != i {
			s.m[i*n+k] = zInf
			s.m[k*n+i] = zInf
		}
	}
}

// closeFull recomputes the closure (Floyd-Warshall); used after widening.
func (s *zstate) closeFull() {
	if s.bottom() {
		return
	}
	n := s.n
	for k := 0; k < n; k++ {
		for i := 0; i < n; i++ {
			ik := s.m[i*n+k]
			if ik >= zInf {
				continue
			}
			for j := 0; j < n; j++ {
				if v := zadd(ik, s.m[k*n+j]); v < s.m[i*n+j] {
					s.m[i*n+j] = v
				}
			}
		}
	}
	for k := 0; k < n; k++ {
		if s.m[k*n+k] < 0 {
			s.m = nil
			return
		}
	}
}

func zjoin(a, b *zstate) *zstate {
	if a.bottom() {
		return b.clone()
	}
	if b.bottom() {
		return a.clone()
	}
	r := a.clone()
	for i := range r.m {
		if b.m[i] > r.m[i] {
			r.m[i] = b.m[i]
		}
	}
	return r
}

// zwiden keeps the constraints of old that new still satisfies.
func zwiden(old, new *zstate) *zstate {
	if old.bottom() {
		return new.clone()
	}
	if new.bottom() {
		return old.clone()
	}
	r := old.clone()
	for i := range r.m {
		if new.m[i] > r.m[i] {
			r.m[i] = zInf
		}
	}
	return r
}

func zleq(a, b *zstate) bool { // a ⊑ b
	if a.bottom() {
		return true
	}
	if b.bottom() {
		return false
	}
	for i := range a.m {
		if a.m[i] > b.m[i] {
			return false
		}
	}
	return true
}

// BoundSite is one index or slice expression with the verdict of the analysis.
type BoundSite struct {
	Instr   ssa.Instruction
	Kind    string // "index" | "slice"
	Expr    string // source text of the expression (types.ExprString), "" when not found
	Proved  bool
	Missing string // which bound could not be established
	Dead    bool   // the site is unreachable under the established facts
}

// ZoneResult is the outcome for one function.
type ZoneResult struct {
	Fn    *ssa.Function
	Sites []BoundSite
	Vars  int
	Iter  int
}

type zoneFn struct {
	p      *Prog
	fn     *ssa.Function
	vars   map[ssa.Value]int
	lens   map[ssa.Value]int
	names  []string
	frozen bool
	tmp0   int // first scratch variable
	ntmp   int
	rpo    []*ssa.BasicBlock
	rpoIdx map[*ssa.BasicBlock]int
	in     map[*ssa.BasicBlock]*zstate
}

func isSignedInt(t types.Type) bool {
	b, ok := t.Underlying().(*types.Basic)
	return ok && b.Info()&types.IsInteger != 0 && b.Info()&types.IsUnsigned == 0
}

func isIntegerT(t types.Type) bool {
	b, ok := t.Underlying().(*types.Basic)
	return ok && b.Info()&types.IsInteger != 0
}

func isSeq(t types.Type) bool {
	switch u := t.Underlying().(type) {
	case *types.Basic:
		return u.Info()&types.IsString != 0
	case *types.Slice:
		return true
	}
	return false
}

func (z *zoneFn) newVar(name string) int {
	z.names = append(z.names, name)
	return len(z.names) - 1
}

func (z *zoneFn) varOf(v ssa.Value) (int, bool) {
	if i, ok := z.vars[v]; ok {
		return i, true
	}
	if z.frozen {
		return 0, false
	}
	i := z.newVar(v.Name())
	z.vars[v] = i
	return i, true
}

// seqRoot strips length-preserving conversions.
func seqRoot(x ssa.Value) ssa.Value {
	for {
		switch y := x.(type) {
		case *ssa.Convert:
			if isSeq(y.X.Type()) && isSeq(y.Type()) {
				// string <-> []byte keeps the length; string <-> []rune does not
				if sl, ok := y.Type().Underlying().(*types.Slice); ok {
					if b, ok := sl.Elem().Underlying().(*types.Basic); !ok || b.Kind() != types.Byte && b.Kind() != types.Uint8 {
						return x
					}
				}
				if sl, ok := y.X.Type().Underlying().(*types.Slice); ok {
					if b, ok := sl.Elem().Underlying().(*types.Basic); !ok || b.Kind() != types.Byte && b.Kind() != types.Uint8 {
						return x
					}
				}
				x = y.X
				continue
			}
		case *ssa.ChangeType:
			x = y.X
			continue
		}
		return x
	}
}

// lenTerm returns the term for len(x): (variable, offset).
func (z *zoneFn) lenTerm(x ssa.Value) (int, int64, bool) {
	x = seqRoot(x)
	if c, ok := x.(*ssa.Const); ok {
		if c.Value != nil && c.Value.Kind() == constant.String {
			return 0, int64(len(constant.StringVal(c.Value))), true
		}
		if c.Value == nil { // nil slice
			return 0, 0, true
		}
	}
	// pointer to array / array value: constant length
	t := x.Type().Underlying()
	if pt, ok := t.(*types.Pointer); ok {
		t = pt.Elem().Underlying()
	}
	if at, ok := t.(*types.Array); ok {
		return 0, at.Len(), true
	}
	if !isSeq(x.Type()) {
		return 0, 0, false
	}
	if i, ok := z.lens[x]; ok {
		return i, 0, true
	}
	if z.frozen {
		return 0, 0, false
	}
	i := z.newVar("len(" + x.Name() + ")")
	z.lens[x] = i
	return i, 0, true
}

// lin normalises an integer value to (variable, offset).
func (z *zoneFn) lin(v ssa.Value) (int, int64, bool) {
	switch x := v.(type) {
	case *ssa.Const:
		if c, ok := ConstInt(x); ok && c > -zInf/4 && c < zInf/4 {
			return 0, c, true
		}
		return 0, 0, false
	case *ssa.BinOp:
		if isSignedInt(x.Type()) {
			switch x.Op {
			case token.ADD:
				if c, ok := ConstInt(x.Y); ok {
					if i, k, ok := z.lin(x.X); ok {
						return i, k + c, true
					}
				}
				if c, ok := ConstInt(x.X); ok {
					if i, k, ok := z.lin(x.Y); ok {
						return i, k + c, true
					}
				}
			case token.SUB:
				if c, ok := ConstInt(x.Y); ok {
					if i, k, ok := z.lin(x.X); ok {
						return i, k - c, true
					}
				}
			}
		}
	case *ssa.Call:
		if b, ok := x.Call.Value.(*ssa.Builtin); ok && b.Name() == "len" && len(x.Call.Args) == 1 {
			if i, k, ok := z.lenTerm(x.Call.Args[0]); ok {
				return i, k, true
			}
		}
	case *ssa.Convert:
		// widening or same-size signed conversions keep the value
		if isSignedInt(x.Type()) && isSignedInt(x.X.Type()) {
			if z.p.sizeof(x.X.Type()) <= z.p.sizeof(x.Type()) {
				return z.lin(x.X)
			}
		}
	case *ssa.ChangeType:
		if isIntegerT(x.Type()) {
			return z.lin(x.X)
		}
	}
	if !isIntegerT(v.Type()) {
		return 0, 0, false
	}
	i, ok := z.varOf(v)
	return i, 0, ok
}

func (p *Prog) sizeof(t types.Type) int64 {
	if len(p.Pkgs) > 0 && p.Pkgs[0].TypesSizes != nil {
		return p.Pkgs[0].TypesSizes.Sizeof(t)
	}
	return types.SizesFor("gc", "amd64").Sizeof(t)
}

// isOwnVar: v is a variable of its own (not a linear function of another value).
func (z *zoneFn) isOwnVar(v ssa.Value) (int, bool) {
	i, ok := z.vars[v]
	return i, ok
}

// constrain: x_i + ki  <=  x_j + kj + c
func (s *zstate) le(i int, ki int64, j int, kj int64, c int64) { s.add(i, j, kj-ki+c) }

// holdsLe: x_i + ki <= x_j + kj is implied.
func (s *zstate) holdsLe(i int, ki int64, j int, kj int64) bool {
	if s.bottom() {
		return true
	}
	return s.m[i*s.n+j] <= kj-ki
}

func (s *zstate) upper(i int) int64 { // x_i <= ?
	if s.bottom() {
		return -zInf
	}
	return s.m[i*s.n+0]
}
func (s *zstate) lower(i int) int64 { // x_i >= ?
	if s.bottom() {
		return zInf
	}
	v := s.m[0*s.n+i]
	if v >= zInf {
		return -zInf
	}
	return -v
}

// applyCond adds the constraints implied by `cond == val`.
func (z *zoneFn) applyCond(s *zstate, cond ssa.Value, val bool) {
	if s.bottom() {
		return
	}
	switch c := cond.(type) {
	case *ssa.UnOp:
		if c.Op == token.NOT {
			z.applyCond(s, c.X, !val)
		}
	case *ssa.BinOp:
		op := c.Op
		switch op {
		case token.LSS, token.LEQ, token.GTR, token.GEQ, token.EQL, token.NEQ:
		default:
			return
		}
		// strings compared with a constant
		if isSeq(c.X.Type()) {
			if op != token.EQL && op != token.NEQ {
				return
			}
			eq := (op == token.EQL) == val
			for _, pr := range [][2]ssa.Value{{c.X, c.Y}, {c.Y, c.X}} {
				k, isConst := ConstString(pr[1])
				if !isConst {
					continue
				}
				i, ki, ok := z.lenTerm(pr[0])
				if !ok {
					continue
				}
				if eq {
					s.le(i, ki, 0, int64(len(k)), 0)
					s.le(0, int64(len(k)), i, ki, 0)
				} else if k == "" {
					s.le(0, 1, i, ki, 0)
				}
			}
			return
		}
		if !isSignedInt(c.X.Type()) && !isIntegerT(c.X.Type()) {
			return
		}
		i, ki, ok1 := z.lin(c.X)
		j, kj, ok2 := z.lin(c.Y)
		if !ok1 || !ok2 {
			return
		}
		if !val {
			switch op {
			case token.LSS:
				op = token.GEQ
			case token.LEQ:
				op = token.GTR
			case token.GTR:
				op = token.LEQ
			case token.GEQ:
				op = token.LSS
			case token.EQL:
				op = token.NEQ
			case token.NEQ:
				op = token.EQL
			}
		}
		switch op {
		case token.LSS: // X < Y
			s.le(i, ki, j, kj, -1)
		case token.LEQ:
			s.le(i, ki, j, kj, 0)
		case token.GTR:
			s.le(j, kj, i, ki, -1)
		case token.GEQ:
			s.le(j, kj, i, ki, 0)
		case token.EQL:
			s.le(i, ki, j, kj, 0)
			s.le(j, kj, i, ki, 0)
		case token.NEQ:
			if s.bottom() {
				return
			}
			// integer tightening at a bound
			if s.holdsLe(i, ki, j, kj) && !s.holdsLe(i, ki, j, kj-1) {
				s.le(i, ki, j, kj, -1)
			} else if s.holdsLe(j, kj, i, ki) && !s.holdsLe(j, kj, i, ki-1) {
				s.le(j, kj, i, ki, -1)
			}
		}
	case *ssa.Call:
		cal := Callee(c)
		if cal == nil || cal.Pkg == nil || !val {
			return
		}
		pk := cal.Pkg.Pkg.Path()
		if (pk == "strings" || pk == "bytes") && (cal.Name() == "HasPrefix" || cal.Name() == "HasSuffix") && len(c.Call.Args) == 2 {
			i, ki, ok1 := z.lenTerm(c.Call.Args[0])
			j, kj, ok2 := z.lenTerm(c.Call.Args[1])
			if ok1 && ok2 {
				s.le(j, kj, i, ki, 0)
			}
		}
	}
}

func (z *zoneFn) applyFacts(s *zstate, fs FactSet) {
	if s.bottom() {
		return
	}
	fs.Find(func(c ssa.Value, v bool) bool {
		z.applyCond(s, c, v)
		return false
	})
}

// define: value v gets a new instance: drop what was known about its variable(s).
func (z *zoneFn) define(s *zstate, v ssa.Value) {
	if i, ok := z.vars[v]; ok {
		s.forget(i)
	}
	if i, ok := z.lens[v]; ok {
		s.forget(i)
		s.add(0, i, 0) // len >= 0
	}
}

var indexFuncs = map[string]bool{"Index": true, "IndexByte": true, "IndexRune": true, "IndexAny": true, "IndexFunc": true,
	"LastIndex": true, "LastIndexByte": true, "LastIndexAny": true, "LastIndexFunc": true}

func (z *zoneFn) transfer(s *zstate, in ssa.Instruction, sites *[]BoundSite) {
	if s.bottom() {
		return
	}
	if v, ok := in.(ssa.Value); ok {
		if _, isPhi := in.(*ssa.Phi); !isPhi {
			z.define(s, v)
		}
	}
	switch x := in.(type) {
	case *ssa.BinOp:
		vi, own := z.isOwnVar(x)
		if !own {
			return
		}
		if !isSignedInt(x.Type()) {
			if isIntegerT(x.Type()) {
				s.add(0, vi, 0) // unsigned: >= 0
				if x.Op == token.AND {
					for _, o := range []ssa.Value{x.X, x.Y} {
						if c, ok := ConstInt(o); ok && c >= 0 {
							s.add(vi, 0, c)
						}
					}
				}
				if x.Op == token.REM {
					if c, ok := ConstInt(x.Y); ok && c > 0 {
						s.add(vi, 0, c-1)
					}
				}
			}
			return
		}
		a, ka, oka := z.lin(x.X)
		b, kb, okb := z.lin(x.Y)
		switch x.Op {
		case token.ADD:
			if oka && okb {
				// v - a in [lb(b)+kb .. ub(b)+kb] + ka
				if ub := s.upper(b); ub < zInf {
					s.add(vi, a, ub+kb+ka)
				}
				if lb := s.lower(b); lb > -zInf {
					s.add(a, vi, -(lb + kb + ka))
				}
				if ub := s.upper(a); ub < zInf {
					s.add(vi, b, ub+ka+kb)
				}
				if lb := s.lower(a); lb > -zInf {
					s.add(b, vi, -(lb + ka + kb))
				}
			}
		case token.SUB:
			if oka && okb {
				// v = (a+ka) - (b+kb)
				if d := s.m[a*s.n+b]; d < zInf { // a - b <= d
					s.add(vi, 0, d+ka-kb)
				}
				if d := s.m[b*s.n+a]; d < zInf { // b - a <= d  =>  v >= -d + ka - kb
					s.add(0, vi, d-ka+kb)
				}
				if lb := s.lower(b); lb > -zInf { // v - a <= ka - kb - lb
					s.add(vi, a, ka-kb-lb)
				}
				if ub := s.upper(b); ub < zInf { // v - a >= ka - kb - ub
					s.add(a, vi, -(ka - kb - ub))
				}
			}
		case token.REM:
			if c, ok := ConstInt(x.Y); ok && c > 0 {
				s.add(vi, 0, c-1)
				if oka && s.lower(a)+ka >= 0 {
					s.add(0, vi, 0)
				} else {
					s.add(0, vi, c-1)
				}
			}
		case token.QUO:
			if c, ok := ConstInt(x.Y); ok && c > 0 && oka && s.lower(a)+ka >= 0 {
				s.add(0, vi, 0)
				s.add(vi, a, ka)
			}
		case token.SHR:
			if oka && s.lower(a)+ka >= 0 {
				s.add(0, vi, 0)
				s.add(vi, a, ka)
			}
		case token.AND:
			for _, o := range []ssa.Value{x.X, x.Y} {
				if c, ok := ConstInt(o); ok && c >= 0 {
					s.add(0, vi, 0)
					s.add(vi, 0, c)
				}
			}
		case token.MUL:
			if oka && okb && s.lower(a)+ka >= 0 && s.lower(b)+kb >= 0 {
				s.add(0, vi, 0)
			}
		}
	case *ssa.Call:
		if b, ok := x.Call.Value.(*ssa.Builtin); ok {
			switch b.Name() {
			case "copy":
				if vi, own := z.isOwnVar(x); own {
					s.add(0, vi, 0)
					for _, a := range x.Call.Args {
						if j, kj, ok := z.lenTerm(a); ok {
							s.le(vi, 0, j, kj, 0)
						}
					}
				}
			case "append":
				if li, ok := z.lens[ssa.Value(x)]; ok && len(x.Call.Args) > 0 {
					if j, kj, ok := z.lenTerm(x.Call.Args[0]); ok {
						s.le(j, kj, li, 0, 0)
					}
				}
			case "min", "max":
				if vi, own := z.isOwnVar(x); own {
					for _, a := range x.Call.Args {
						if j, kj, ok := z.lin(a); ok {
							if b.Name() == "min" {
								s.le(vi, 0, j, kj, 0)
							} else {
								s.le(j, kj, vi, 0, 0)
							}
						}
					}
				}
			}
			return
		}
		cal := Callee(x)
		if cal == nil || cal.Pkg == nil {
			return
		}
		pk := cal.Pkg.Pkg.Path()
		if (pk == "strings" || pk == "bytes") && cal.Signature.Recv() == nil {
			if vi, own := z.isOwnVar(x); own && indexFuncs[cal.Name()] && len(x.Call.Args) >= 1 {
				s.add(0, vi, 1) // v >= -1
				if j, kj, ok := z.lenTerm(x.Call.Args[0]); ok {
					k := int64(1)
					if cal.Name() == "Index" || cal.Name() == "LastIndex" {
						if sep, ok := ConstString(x.Call.Args[1]); ok && len(sep) > 0 {
							k = int64(len(sep))
						} else {
							k = 0 // an empty separator is found at len(s)
						}
					}
					s.le(vi, 0, j, kj, -k)
				}
			}
			if li, ok := z.lens[ssa.Value(x)]; ok && len(x.Call.Args) >= 1 {
				switch cal.Name() {
				case "TrimPrefix", "TrimSuffix", "TrimSpace", "Trim", "TrimLeft", "TrimRight", "TrimFunc", "TrimLeftFunc", "TrimRightFunc":
					if j, kj, ok := z.lenTerm(x.Call.Args[0]); ok {
						s.le(li, 0, j, kj, 0)
					}
				}
			}
		}
	case *ssa.Slice:
		li, hasLen := z.lens[ssa.Value(x)]
		xl, xk, okx := z.lenTerm(x.X)
		lo, klo, oklo := 0, int64(0), true
		if x.Low != nil {
			lo, klo, oklo = z.lin(x.Low)
		}
		hi, khi, okhi := xl, xk, okx
		if x.High != nil {
			hi, khi, okhi = z.lin(x.High)
		}
		if sites != nil {
			site := BoundSite{Instr: in, Kind: "slice", Expr: z.p.ExprAt(in.Pos()), Proved: true}
			var missing []string
			if !(oklo && s.holdsLe(0, 0, lo, klo)) {
				missing = append(missing, "low >= 0")
			}
			if !(oklo && okhi && s.holdsLe(lo, klo, hi, khi)) {
				missing = append(missing, "low <= high")
			}
			if x.High != nil {
				// slices may be re-sliced up to their capacity; only strings and arrays are bounded by their length
				_, isSlice := x.X.Type().Underlying().(*types.Slice)
				if !isSlice && !(okhi && okx && s.holdsLe(hi, khi, xl, xk)) {
					missing = append(missing, "high <= len")
				}
				if isSlice && !(okhi && okx && s.holdsLe(hi, khi, xl, xk)) {
					missing = append(missing, "high <= len (cap not tracked)")
				}
			}
			if len(missing) > 0 {
				site.Proved = false
				site.Missing = fmt.Sprint(missing)
			}
			*sites = append(*sites, site)
		}
		// the slice expression did not panic: its bounds hold from here on
		if oklo {
			s.le(0, 0, lo, klo, 0)
		}
		if oklo && okhi {
			s.le(lo, klo, hi, khi, 0)
		}
		if _, isSlice := x.X.Type().Underlying().(*types.Slice); !isSlice && okhi && okx {
			s.le(hi, khi, xl, xk, 0)
		}
		if hasLen && !s.bottom() {
			// len(y) = high - low
			switch {
			case x.Low == nil && okhi:
				s.le(li, 0, hi, khi, 0)
				s.le(hi, khi, li, 0, 0)
			case oklo && lo == 0 && okhi:
				s.le(li, 0, hi, khi, -klo)
				s.le(hi, khi, li, 0, klo)
			case oklo && okhi:
				// three-variable relation: approximate through the bounds of low
				if ub := s.upper(lo); ub < zInf { // len(y) >= high - ub(low)
					s.le(hi, khi, li, 0, ub+klo)
				}
				if lb := s.lower(lo); lb > -zInf { // len(y) <= high - lb(low)
					s.le(li, 0, hi, khi, -(lb + klo))
				}
				if d := s.m[hi*s.n+lo]; d < zInf { // high - low <= d
					s.add(li, 0, d+khi-klo)
				}
				if d := s.m[lo*s.n+hi]; d < zInf { // low - high <= d  => len >= -d
					s.add(0, li, d-khi+klo)
				}
			}
			if okx {
				if _, isSlice := x.X.Type().Underlying().(*types.Slice); !isSlice {
					s.le(li, 0, xl, xk, 0)
				}
			}
		}
	case *ssa.MakeSlice:
		if li, ok := z.lens[ssa.Value(x)]; ok {
			if j, kj, ok := z.lin(x.Len); ok {
				s.le(li, 0, j, kj, 0)
				s.le(j, kj, li, 0, 0)
			}
		}
	case *ssa.Index:
		z.indexSite(s, in, x.X, x.Index, sites)
	case *ssa.IndexAddr:
		z.indexSite(s, in, x.X, x.Index, sites)
	case *ssa.Extract:
		// key of a range-over-string/slice iteration is non-negative
		if vi, own := z.isOwnVar(x); own {
			if nx, ok := x.Tuple.(*ssa.Next); ok && x.Index == 1 {
				_ = nx
				s.add(0, vi, 0)
			}
		}
	}
}

func (z *zoneFn) indexSite(s *zstate, in ssa.Instruction, seq, idx ssa.Value, sites *[]BoundSite) {
	if _, isMap := seq.Type().Underlying().(*types.Map); isMap {
		return
	}
	l, kl, okl := z.lenTerm(seq)
	i, ki, oki := z.lin(idx)
	if sites != nil {
		site := BoundSite{Instr: in, Kind: "index", Expr: z.p.ExprAt(in.Pos()), Proved: true}
		var missing []string
		if !(oki && s.holdsLe(0, 0, i, ki)) {
			missing = append(missing, "index >= 0")
		}
		if !(oki && okl && s.holdsLe(i, ki, l, kl-1)) {
			missing = append(missing, "index < len")
		}
		if len(missing) > 0 {
			site.Proved = false
			site.Missing = fmt.Sprint(missing)
		}
		*sites = append(*sites, site)
	}
	if oki {
		s.le(0, 0, i, ki, 0)
		if okl {
			s.le(i, ki, l, kl, -1)
		}
	}
}

// edgeOut computes the state along the edge pred -> pred.Succs[k], including the phi assignments of the successor.
func (z *zoneFn) edgeOut(end *zstate, pred *ssa.BasicBlock, k int) *zstate {
	if end.bottom() {
		return end
	}
	s := end.clone()
	z.applyFacts(s, z.p.EdgeFacts(pred, k))
	if s.bottom() {
		return s
	}
	succ := pred.Succs[k]
	// which predecessor index of succ is this edge? (a block can be a predecessor twice)
	pidx := -1
	seen := 0
	for i, q := range succ.Preds {
		if q == pred {
			// the k-th successor edge of pred that leads to succ corresponds to the matching occurrence
			occ := 0
			for kk := 0; kk < k; kk++ {
				if pred.Succs[kk] == succ {
					occ++
				}
			}
			if seen == occ {
				pidx = i
				break
			}
			seen++
		}
	}
	if pidx < 0 {
		return s
	}
	// parallel assignment through scratch variables
	type asg struct {
		dst, tmp int
	}
	var as []asg
	t := z.tmp0
	for _, in := range succ.Instrs {
		ph, ok := in.(*ssa.Phi)
		if !ok {
			break
		}
		inc := ph.Edges[pidx]
		if vi, own := z.vars[ssa.Value(ph)]; own {
			if t < z.tmp0+z.ntmp {
				s.forget(t)
				if j, kj, ok := z.lin(inc); ok {
					s.le(t, 0, j, kj, 0)
					s.le(j, kj, t, 0, 0)
				}
				as = append(as, asg{vi, t})
				t++
			} else {
				as = append(as, asg{vi, -1})
			}
		}
		if li, ok := z.lens[ssa.Value(ph)]; ok {
			if t < z.tmp0+z.ntmp {
				s.forget(t)
				if j, kj, ok := z.lenTerm(inc); ok {
					s.le(t, 0, j, kj, 0)
					s.le(j, kj, t, 0, 0)
				}
				as = append(as, asg{li, t})
				t++
			} else {
				as = append(as, asg{li, -1})
			}
		}
	}
	for _, a := range as {
		s.forget(a.dst)
	}
	for _, a := range as {
		if a.tmp >= 0 {
			s.add(a.dst, a.tmp, 0)
			s.add(a.tmp, a.dst, 0)
		}
	}
	for _, a := range as {
		if a.tmp >= 0 {
			s.forget(a.tmp)
		}
	}
	// lengths are non-negative
	for _, a := range as {
		for _, li := range z.lens {
			if li == a.dst {
				s.add(0, li, 0)
			}
		}
	}
	return s
}

// ZoneAnalyze runs the analysis on fn.
func (p *Prog) ZoneAnalyze(fn *ssa.Function) *ZoneResult {
	if fn.Blocks == nil {
		return nil
	}
	z := &zoneFn{p: p, fn: fn, vars: map[ssa.Value]int{}, lens: map[ssa.Value]int{}, in: map[*ssa.BasicBlock]*zstate{}}
	z.newVar("0")
	// prescan: allocate variables
	maxPhi := 0
	for _, b := range fn.Blocks {
		nphi := 0
		for _, in := range b.Instrs {
			if ph, ok := in.(*ssa.Phi); ok {
				if isIntegerT(ph.Type()) {
					z.varOf(ph)
					nphi++
				}
				if isSeq(ph.Type()) {
					z.lenTerm(ph)
					nphi++
				}
			}
			if v, ok := in.(ssa.Value); ok {
				if isIntegerT(v.Type()) {
					z.lin(v)
				}
				if isSeq(v.Type()) {
					z.lenTerm(v)
				}
			}
			for _, op := range in.Operands(nil) {
				if *op == nil {
					continue
				}
				if isIntegerT((*op).Type()) {
					z.lin(*op)
				}
				if isSeq((*op).Type()) {
					z.lenTerm(*op)
				}
				t := (*op).Type().Underlying()
				if pt, ok := t.(*types.Pointer); ok {
					if _, ok := pt.Elem().Underlying().(*types.Array); ok {
						z.lenTerm(*op)
					}
				}
			}
		}
		if nphi > maxPhi {
			maxPhi = nphi
		}
	}
	for _, prm := range fn.Params {
		if isIntegerT(prm.Type()) {
			z.varOf(prm)
		}
		if isSeq(prm.Type()) {
			z.lenTerm(prm)
		}
	}
	z.tmp0 = len(z.names)
	z.ntmp = maxPhi
	for i := 0; i < maxPhi; i++ {
		z.newVar(fmt.Sprintf("tmp%d", i))
	}
	z.frozen = true
	n := len(z.names)
	res := &ZoneResult{Fn: fn, Vars: n}
	if n > 400 {
		return res // too large: nothing proved (callers treat missing sites as not decided)
	}

	// reverse postorder
	seen := map[*ssa.BasicBlock]bool{}
	var post []*ssa.BasicBlock
	var dfs func(b *ssa.BasicBlock)
	dfs = func(b *ssa.BasicBlock) {
		seen[b] = true
		for _, s := range b.Succs {
			if !seen[s] {
				dfs(s)
			}
		}
		post = append(post, b)
	}
	dfs(fn.Blocks[0])
	z.rpoIdx = map[*ssa.BasicBlock]int{}
	for i := len(post) - 1; i >= 0; i-- {
		z.rpoIdx[post[i]] = len(z.rpo)
		z.rpo = append(z.rpo, post[i])
	}
	isHead := map[*ssa.BasicBlock]bool{}
	for _, b := range z.rpo {
		for _, s := range b.Succs {
			if z.rpoIdx[s] <= z.rpoIdx[b] {
				isHead[s] = true
			}
		}
	}

	entry := newTop(n)
	for _, li := range z.lens {
		entry.add(0, li, 0)
	}
	// unsigned parameters
	for v, vi := range z.vars {
		if _, isPrm := v.(*ssa.Parameter); isPrm && !isSignedInt(v.Type()) {
			entry.add(0, vi, 0)
		}
	}
	outs := map[*ssa.BasicBlock][]*zstate{}
	blockFacts := p.Facts(fn)
	computeIn := func(b *ssa.BasicBlock) *zstate {
		if b == fn.Blocks[0] {
			return entry.clone()
		}
		var acc *zstate = &zstate{n: n}
		for _, q := range b.Preds {
			if !seen[q] {
				continue
			}
			os := outs[q]
			if os == nil {
				continue
			}
			// all successor edges of q that lead to b
			for k, s := range q.Succs {
				if s == b && k < len(os) && !os[k].bottom() {
					acc = zjoin(acc, os[k])
				}
			}
			break // edges from the same q are all handled in the loop above
		}
		// (the loop above handled only the first predecessor; handle the rest, skipping duplicates)
		done := map[*ssa.BasicBlock]bool{}
		if len(b.Preds) > 0 {
			done[b.Preds[0]] = true
		}
		for _, q := range b.Preds[min(1, len(b.Preds)):] {
			if done[q] || !seen[q] {
				continue
			}
			done[q] = true
			os := outs[q]
			if os == nil {
				continue
			}
			for k, s := range q.Succs {
				if s == b && k < len(os) && !os[k].bottom() {
					acc = zjoin(acc, os[k])
				}
			}
		}
		return acc
	}
	flow := func(b *ssa.BasicBlock, in *zstate, sites *[]BoundSite) {
		s := in.clone()
		if !s.bottom() {
			z.applyFacts(s, blockFacts[b])
			if len(b.Instrs) > 0 {
				z.applyFacts(s, p.FactsAt(b.Instrs[0]))
			}
		}
		if s.bottom() && sites != nil {
			// unreachable under the facts: every site in it is vacuously fine
			for _, in := range b.Instrs {
				switch in.(type) {
				case *ssa.Index, *ssa.IndexAddr:
					if ia, ok := in.(*ssa.IndexAddr); ok {
						if _, isMap := ia.X.Type().Underlying().(*types.Map); isMap {
							continue
						}
					}
					*sites = append(*sites, BoundSite{Instr: in, Kind: "index", Expr: p.ExprAt(in.Pos()), Proved: true, Dead: true})
				case *ssa.Slice:
					*sites = append(*sites, BoundSite{Instr: in, Kind: "slice", Expr: p.ExprAt(in.Pos()), Proved: true, Dead: true})
				}
			}
		}
		for _, in := range b.Instrs {
			z.transfer(s, in, sites)
		}
		os := make([]*zstate, len(b.Succs))
		for k := range b.Succs {
			os[k] = z.edgeOut(s, b, k)
		}
		outs[b] = os
	}
	visits := map[*ssa.BasicBlock]int{}
	for iter := 0; iter < 60; iter++ {
		changed := false
		for _, b := range z.rpo {
			ni := computeIn(b)
			old, had := z.in[b]
			if had && isHead[b] {
				visits[b]++
				if visits[b] > 3 {
					ni = zwiden(old, zjoin(old, ni))
					ni.closeFull()
				} else {
					ni = zjoin(old, ni)
				}
			}
			if had && zleq(ni, old) && outs[b] != nil {
				continue
			}
			z.in[b] = ni
			changed = true
			flow(b, ni, nil)
		}
		res.Iter = iter + 1
		if !changed {
			break
		}
	}
	// narrowing: two descending passes without widening
	for pass := 0; pass < 2; pass++ {
		for _, b := range z.rpo {
			ni := computeIn(b)
			z.in[b] = ni
			flow(b, ni, nil)
		}
	}
	// final pass: verdicts
	for _, b := range z.rpo {
		flow(b, z.in[b], &res.Sites)
	}
	sort.SliceStable(res.Sites, func(i, j int) bool { return res.Sites[i].Instr.Pos() < res.Sites[j].Instr.Pos() })
	return res
}

// ExprAt returns the source text of the index or slice expression whose '[' is at pos.
func (p *Prog) ExprAt(pos token.Pos) string {
	if !pos.IsValid() {
		return ""
	}
	for _, pkg := range p.Pkgs {
		for _, f := range pkg.Syntax {
			if f.Pos() <= pos && pos < f.End() {
				path, _ := astutil.PathEnclosingInterval(f, pos, pos)
				for _, n := range path {
					switch e := n.(type) {
					case *ast.IndexExpr:
						if e.Lbrack == pos {
							return types.ExprString(e)
						}
					case *ast.SliceExpr:
						if e.Lbrack == pos {
							return types.ExprString(e)
						}
					}
				}
				for _, n := range path {
					switch e := n.(type) {
					case *ast.IndexExpr, *ast.SliceExpr:
						return types.ExprString(e.(ast.Expr))
					}
				}
				return ""
			}
		}
	}
	return ""
}

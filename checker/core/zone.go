package core

import (
	"fmt"
	"go/ast"
	"go/constant"
	"go/token"
	"go/types"
	"os"
	"sort"

	"golang.org/x/tools/go/ast/astutil"
	"golang.org/x/tools/go/ssa"
)

// Zone analysis: a forward abstract interpretation of one function over difference-bound matrices
// (constraints x - y <= c between integer SSA values, lengths of strings/slices and constants), used to
// decide whether every index and slice expression is in range on every path. Nothing is executed: the
// analysis walks the SSA control-flow graph to a fixpoint (widening at loop heads, then narrowing).
//
// Terms. An integer SSA value built from another one by adding/subtracting constants is not a variable of
// its own: it is normalised to (root, offset), so that `r+1` computed twice (go/ssa has no CSE) is the same
// term. len(x) is the variable L(x) of the sequence value x. Variable 0 is the constant zero.
//
// Branch conditions are taken from the must-fact analysis (Facts / EdgeFacts), which already handles
// short-circuit && / || and structurally equal comparisons; every integer comparison, string comparison
// with a constant and strings.HasPrefix/HasSuffix fact is turned into constraints.
//
// Assumptions: signed integer arithmetic does not overflow; lengths are non-negative.

const zInf = int64(1) << 50

var zoneDebug = os.Getenv("ZONEDEBUG") != ""

type zstate struct {
	n   int
	m   []int64       // n*n; m[i*n+j] = c  means  x_i - x_j <= c ; nil = unreachable
	neq map[zneq]bool // x_i - x_j != c   (i < j normalised)
}

type zneq struct {
	i, j int
	c    int64
}

func newTop(n int) *zstate {
	s := &zstate{n: n, m: make([]int64, n*n)}
	for i := range s.m {
		s.m[i] = zInf
	}
	for i := 0; i < n; i++ {
		s.m[i*n+i] = 0
	}
	return s
}

func (s *zstate) bottom() bool { return s == nil || s.m == nil }

func (s *zstate) clone() *zstate {
	if s.bottom() {
		return &zstate{n: s.n}
	}
	c := &zstate{n: s.n, m: make([]int64, len(s.m))}
	copy(c.m, s.m)
	if len(s.neq) > 0 {
		c.neq = make(map[zneq]bool, len(s.neq))
		for k := range s.neq {
			c.neq[k] = true
		}
	}
	return c
}

// excludes: the bounds of s already rule out x_i - x_j == c.
func (s *zstate) excludes(k zneq) bool {
	if s.bottom() {
		return true
	}
	if s.m[k.i*s.n+k.j] < k.c {
		return true
	}
	if lo := s.m[k.j*s.n+k.i]; lo < zInf && -lo > k.c {
		return true
	}
	return false
}

// addNeq records x_i - x_j != c.
func (s *zstate) addNeq(i, j int, c int64) {
	if s.bottom() || i == j {
		return
	}
	if i > j {
		i, j, c = j, i, -c
	}
	// already decided?
	if s.m[i*s.n+j] <= c && s.m[j*s.n+i] <= -c {
		s.m = nil // x_i - x_j == c is implied
		return
	}
	if s.neq == nil {
		s.neq = map[zneq]bool{}
	}
	s.neq[zneq{i, j, c}] = true
	s.tighten()
}

// tighten applies the recorded disequalities at the bounds, and detects violated ones.
func (s *zstate) tighten() {
	for changed := true; changed && !s.bottom(); {
		changed = false
		for k := range s.neq {
			i, j, c := k.i, k.j, k.c
			ub := s.m[i*s.n+j]  // x_i - x_j <= ub
			lb := -s.m[j*s.n+i] // x_i - x_j >= lb
			if s.m[j*s.n+i] >= zInf {
				lb = -zInf
			}
			if ub == c && lb == c {
				s.m = nil
				return
			}
			if ub == c {
				s.addRaw(i, j, c-1)
				changed = true
			} else if lb == c {
				s.addRaw(j, i, -(c + 1))
				changed = true
			}
			if s.bottom() {
				return
			}
		}
	}
}

func zadd(a, b int64) int64 {
	if a >= zInf || b >= zInf {
		return zInf
	}
	r := a + b
	if r >= zInf {
		return zInf
	}
	if r < -zInf {
		return -zInf
	}
	return r
}

// add the constraint x_i - x_j <= c, keeping the matrix closed and the disequalities applied.
func (s *zstate) add(i, j int, c int64) {
	s.addRaw(i, j, c)
	if len(s.neq) > 0 && !s.bottom() {
		s.tighten()
	}
}

func (s *zstate) addRaw(i, j int, c int64) {
	if s.bottom() || i == j && c >= 0 {
		return
	}
	n := s.n
	if i == j && c < 0 {
		s.m = nil
		return
	}
	if s.m[i*n+j] <= c {
		return
	}
	if zadd(s.m[j*n+i], c) < 0 {
		s.m = nil
		return
	}
	s.m[i*n+j] = c
	for a := 0; a < n; a++ {
		ai := s.m[a*n+i]
		if ai >= zInf {
			continue
		}
		base := zadd(ai, c)
		for b := 0; b < n; b++ {
			jb := s.m[j*n+b]
			if jb >= zInf {
				continue
			}
			if v := zadd(base, jb); v < s.m[a*n+b] {
				s.m[a*n+b] = v
			}
		}
	}
	for k := 0; k < n; k++ {
		if s.m[k*n+k] < 0 {
			s.m = nil
			return
		}
	}
}

func (s *zstate) forget(i int) {
	if s.bottom() || i == 0 {
		return
	}
	n := s.n
	for k := 0; k < n; k++ {
		if k != i {
			s.m[i*n+k] = zInf
			s.m[k*n+i] = zInf
		}
	}
	for k := range s.neq {
		if k.i == i || k.j == i {
			delete(s.neq, k)
		}
	}
}

// closeFull recomputes the closure (Floyd-Warshall); used after widening.
func (s *zstate) closeFull() {
	if s.bottom() {
		return
	}
	n := s.n
	for k := 0; k < n; k++ {
		for i := 0; i < n; i++ {
			ik := s.m[i*n+k]
			if ik >= zInf {
				continue
			}
			for j := 0; j < n; j++ {
				if v := zadd(ik, s.m[k*n+j]); v < s.m[i*n+j] {
					s.m[i*n+j] = v
				}
			}
		}
	}
	for k := 0; k < n; k++ {
		if s.m[k*n+k] < 0 {
			s.m = nil
			return
		}
	}
}

func zjoin(a, b *zstate) *zstate {
	if a.bottom() {
		return b.clone()
	}
	if b.bottom() {
		return a.clone()
	}
	r := a.clone()
	for i := range r.m {
		if b.m[i] > r.m[i] {
			r.m[i] = b.m[i]
		}
	}
	// a disequality survives when the other side has it too, or excludes the value by its bounds
	for k := range r.neq {
		if b.neq[k] || b.excludes(k) {
			continue
		}
		delete(r.neq, k)
	}
	for k := range b.neq {
		if r.neq[k] {
			continue
		}
		if a.excludes(k) {
			if r.neq == nil {
				r.neq = map[zneq]bool{}
			}
			r.neq[k] = true
		}
	}
	return r
}

// zwiden keeps the constraints of old that new still satisfies.
func zwiden(old, new *zstate) *zstate {
	if old.bottom() {
		return new.clone()
	}
	if new.bottom() {
		return old.clone()
	}
	r := old.clone()
	for i := range r.m {
		if new.m[i] > r.m[i] {
			r.m[i] = zInf
		}
	}
	for k := range r.neq {
		if !new.neq[k] && !new.excludes(k) {
			delete(r.neq, k)
		}
	}
	return r
}

func zleq(a, b *zstate) bool { // a ⊑ b
	if a.bottom() {
		return true
	}
	if b.bottom() {
		return false
	}
	for i := range a.m {
		if a.m[i] > b.m[i] {
			return false
		}
	}
	for k := range b.neq {
		if a.neq[k] || a.excludes(k) {
			continue
		}
		return false
	}
	return true
}

// BoundSite is one index or slice expression with the verdict of the analysis.
type BoundSite struct {
	Instr       ssa.Instruction
	Kind        string // "index" | "slice"
	Expr        string // source text of the expression (types.ExprString), "" when not found
	Proved      bool
	Missing     string // which bound could not be established
	Dead        bool   // the site is unreachable under the established facts
	Partitioned bool   // proved by case analysis over the last edge into a dominating merge block
	Context     int    // >0: proved per calling context of an unexported helper (number of contexts analysed)
}

// ZoneResult is the outcome for one function.
type ZoneResult struct {
	Fn    *ssa.Function
	Sites []BoundSite
	Vars  int
	Iter  int
}

type zoneFn struct {
	p          *Prog
	fn         *ssa.Function
	vars       map[ssa.Value]int
	lens       map[ssa.Value]int
	mems       map[memKey]int // contents of an immutable string at (root, offset): one variable per structural key
	memOf      map[int][]int  // variable -> memory variables whose key mentions it
	names      []string
	frozen     bool
	tmp0       int // first scratch variable
	ntmp       int
	rpo        []*ssa.BasicBlock
	rpoIdx     map[*ssa.BasicBlock]int
	in         map[*ssa.BasicBlock]*zstate
	blockFacts map[*ssa.BasicBlock]FactSet
	sub        map[ssa.Value]ssa.Value // callee value -> caller value, while facts of a helper are being applied
	subDepth   int
	barrier    func(ssa.Instruction) bool // reach mode: executing such an instruction ends the path
	target     func(ssa.Instruction) bool // reach mode: instructions whose reachability is asked
	hits       map[ssa.Instruction]bool
	seeds      map[*ssa.BasicBlock]*zstate // extra entry states (reach mode)
	caseSel    map[*ssa.Call]int           // helper call -> selected return case (case analysis); absent = join of all cases
	captureAt  ssa.Instruction             // flow records (a copy of) the state right before this instruction
	captured   *zstate
	summaries  map[*ssa.Function][]retCase
}

// retCase is one way an integer helper can return: the value and the facts that hold at that return.
type retCase struct {
	val   ssa.Value
	facts FactSet
}

type memKey struct {
	seq  ssa.Value
	root int
	off  int64
}

func isBoolT(t types.Type) bool {
	b, ok := t.Underlying().(*types.Basic)
	return ok && b.Info()&types.IsBoolean != 0
}

func isSignedInt(t types.Type) bool {
	b, ok := t.Underlying().(*types.Basic)
	return ok && b.Info()&types.IsInteger != 0 && b.Info()&types.IsUnsigned == 0
}

func isIntegerT(t types.Type) bool {
	b, ok := t.Underlying().(*types.Basic)
	return ok && b.Info()&types.IsInteger != 0
}

func isSeq(t types.Type) bool {
	switch u := t.Underlying().(type) {
	case *types.Basic:
		return u.Info()&types.IsString != 0
	case *types.Slice:
		return true
	}
	return false
}

func (z *zoneFn) newVar(name string) int {
	z.names = append(z.names, name)
	return len(z.names) - 1
}

func (z *zoneFn) varOf(v ssa.Value) (int, bool) {
	if i, ok := z.vars[v]; ok {
		return i, true
	}
	if z.frozen {
		return 0, false
	}
	i := z.newVar(v.Name())
	z.vars[v] = i
	return i, true
}

// seqRoot strips length-preserving conversions.
func seqRoot(x ssa.Value) ssa.Value {
	for {
		switch y := x.(type) {
		case *ssa.Convert:
			if isSeq(y.X.Type()) && isSeq(y.Type()) {
				// string <-> []byte keeps the length; string <-> []rune does not
				if sl, ok := y.Type().Underlying().(*types.Slice); ok {
					if b, ok := sl.Elem().Underlying().(*types.Basic); !ok || b.Kind() != types.Byte && b.Kind() != types.Uint8 {
						return x
					}
				}
				if sl, ok := y.X.Type().Underlying().(*types.Slice); ok {
					if b, ok := sl.Elem().Underlying().(*types.Basic); !ok || b.Kind() != types.Byte && b.Kind() != types.Uint8 {
						return x
					}
				}
				x = y.X
				continue
			}
		case *ssa.ChangeType:
			x = y.X
			continue
		}
		return x
	}
}

// lenTerm returns the term for len(x): (variable, offset).
func (z *zoneFn) lenTerm(x ssa.Value) (int, int64, bool) {
	x = seqRoot(x)
	if a, ok := z.sub[x]; ok {
		x = seqRoot(a)
	}
	if c, ok := x.(*ssa.Const); ok {
		if c.Value != nil && c.Value.Kind() == constant.String {
			return 0, int64(len(constant.StringVal(c.Value))), true
		}
		if c.Value == nil { // nil slice
			return 0, 0, true
		}
	}
	// pointer to array / array value: constant length
	t := x.Type().Underlying()
	if pt, ok := t.(*types.Pointer); ok {
		t = pt.Elem().Underlying()
	}
	if at, ok := t.(*types.Array); ok {
		return 0, at.Len(), true
	}
	if !isSeq(x.Type()) {
		return 0, 0, false
	}
	if i, ok := z.lens[x]; ok {
		return i, 0, true
	}
	if z.frozen {
		return 0, 0, false
	}
	i := z.newVar("len(" + x.Name() + ")")
	z.lens[x] = i
	return i, 0, true
}

// lin normalises an integer value to (variable, offset).
func (z *zoneFn) lin(v ssa.Value) (int, int64, bool) {
	if a, ok := z.sub[v]; ok {
		v = a
	}
	switch x := v.(type) {
	case *ssa.Const:
		if b, ok := ConstBool(x); ok {
			if b {
				return 0, 1, true
			}
			return 0, 0, true
		}
		if c, ok := ConstInt(x); ok && c > -zInf/4 && c < zInf/4 {
			return 0, c, true
		}
		return 0, 0, false
	case *ssa.Index:
		// a byte of an immutable string: the same (string, index term) is the same value
		if b, ok := x.X.Type().Underlying().(*types.Basic); ok && b.Info()&types.IsString != 0 {
			z.lenTerm(x.X)
			if ri, rk, ok := z.lin(x.Index); ok {
				seq := seqRoot(x.X)
				if a, ok := z.sub[x.X]; ok {
					seq = seqRoot(a)
				} else if a, ok := z.sub[seq]; ok {
					seq = seqRoot(a)
				}
				k := memKey{seq, ri, rk}
				if mi, ok := z.mems[k]; ok {
					return mi, 0, true
				}
				if !z.frozen {
					mi := z.newVar(fmt.Sprintf("%s[%s%+d]", x.X.Name(), z.names[ri], rk))
					z.mems[k] = mi
					z.memOf[ri] = append(z.memOf[ri], mi)
					if li, ok := z.lens[seq]; ok {
						z.memOf[li] = append(z.memOf[li], mi)
					}
					return mi, 0, true
				}
			}
		}
	case *ssa.BinOp:
		if isSignedInt(x.Type()) {
			switch x.Op {
			case token.ADD:
				if c, ok := ConstInt(x.Y); ok {
					if i, k, ok := z.lin(x.X); ok {
						return i, k + c, true
					}
				}
				if c, ok := ConstInt(x.X); ok {
					if i, k, ok := z.lin(x.Y); ok {
						return i, k + c, true
					}
				}
			case token.SUB:
				if c, ok := ConstInt(x.Y); ok {
					if i, k, ok := z.lin(x.X); ok {
						return i, k - c, true
					}
				}
			}
		}
	case *ssa.Call:
		if b, ok := x.Call.Value.(*ssa.Builtin); ok && b.Name() == "len" && len(x.Call.Args) == 1 {
			if i, k, ok := z.lenTerm(x.Call.Args[0]); ok {
				return i, k, true
			}
		}
	case *ssa.Convert:
		// widening or same-size signed conversions keep the value
		if isSignedInt(x.Type()) && isSignedInt(x.X.Type()) {
			if z.p.sizeof(x.X.Type()) <= z.p.sizeof(x.Type()) {
				return z.lin(x.X)
			}
		}
	case *ssa.ChangeType:
		if isIntegerT(x.Type()) {
			return z.lin(x.X)
		}
	}
	if !isIntegerT(v.Type()) && !isBoolT(v.Type()) {
		return 0, 0, false
	}
	i, ok := z.varOf(v)
	return i, 0, ok
}

// kill forgets variable i and every memory variable whose key mentions it.
func (z *zoneFn) kill(s *zstate, i int) {
	s.forget(i)
	for _, m := range z.memOf[i] {
		s.forget(m)
	}
}

func (p *Prog) sizeof(t types.Type) int64 {
	if len(p.Pkgs) > 0 && p.Pkgs[0].TypesSizes != nil {
		return p.Pkgs[0].TypesSizes.Sizeof(t)
	}
	return types.SizesFor("gc", "amd64").Sizeof(t)
}

// isOwnVar: v is a variable of its own (not a linear function of another value).
func (z *zoneFn) isOwnVar(v ssa.Value) (int, bool) {
	i, ok := z.vars[v]
	return i, ok
}

// constrain: x_i + ki  <=  x_j + kj + c
func (s *zstate) le(i int, ki int64, j int, kj int64, c int64) { s.add(i, j, kj-ki+c) }

// holdsLe: x_i + ki <= x_j + kj is implied.
func (s *zstate) holdsLe(i int, ki int64, j int, kj int64) bool {
	if s.bottom() {
		return true
	}
	return s.m[i*s.n+j] <= kj-ki
}

func (s *zstate) upper(i int) int64 { // x_i <= ?
	if s.bottom() {
		return -zInf
	}
	return s.m[i*s.n+0]
}
func (s *zstate) lower(i int) int64 { // x_i >= ?
	if s.bottom() {
		return zInf
	}
	v := s.m[0*s.n+i]
	if v >= zInf {
		return -zInf
	}
	return -v
}

// applyCond adds the constraints implied by `cond == val`.
func (z *zoneFn) applyCond(s *zstate, cond ssa.Value, val bool) {
	if s.bottom() {
		return
	}
	// the condition as a 0/1 variable (bool phis, parameters, results)
	if vi, ok := z.vars[cond]; ok && isBoolT(cond.Type()) {
		if val {
			s.add(0, vi, -1)
		} else {
			s.add(vi, 0, 0)
		}
		if s.bottom() {
			return
		}
	}
	switch c := cond.(type) {
	case *ssa.UnOp:
		if c.Op == token.NOT {
			z.applyCond(s, c.X, !val)
		}
	case *ssa.BinOp:
		op := c.Op
		switch op {
		case token.LSS, token.LEQ, token.GTR, token.GEQ, token.EQL, token.NEQ:
		default:
			return
		}
		// strings compared with a constant
		if isSeq(c.X.Type()) {
			if op != token.EQL && op != token.NEQ {
				return
			}
			eq := (op == token.EQL) == val
			for _, pr := range [][2]ssa.Value{{c.X, c.Y}, {c.Y, c.X}} {
				k, isConst := ConstString(pr[1])
				if !isConst {
					continue
				}
				i, ki, ok := z.lenTerm(pr[0])
				if !ok {
					continue
				}
				if eq {
					s.le(i, ki, 0, int64(len(k)), 0)
					s.le(0, int64(len(k)), i, ki, 0)
				} else if k == "" {
					s.le(0, 1, i, ki, 0)
				}
			}
			return
		}
		if !isIntegerT(c.X.Type()) && !isBoolT(c.X.Type()) {
			return
		}
		i, ki, ok1 := z.lin(c.X)
		j, kj, ok2 := z.lin(c.Y)
		if !ok1 || !ok2 {
			return
		}
		if !val {
			switch op {
			case token.LSS:
				op = token.GEQ
			case token.LEQ:
				op = token.GTR
			case token.GTR:
				op = token.LEQ
			case token.GEQ:
				op = token.LSS
			case token.EQL:
				op = token.NEQ
			case token.NEQ:
				op = token.EQL
			}
		}
		switch op {
		case token.LSS: // X < Y
			s.le(i, ki, j, kj, -1)
		case token.LEQ:
			s.le(i, ki, j, kj, 0)
		case token.GTR:
			s.le(j, kj, i, ki, -1)
		case token.GEQ:
			s.le(j, kj, i, ki, 0)
		case token.EQL:
			s.le(i, ki, j, kj, 0)
			s.le(j, kj, i, ki, 0)
		case token.NEQ:
			// x_i + ki != x_j + kj
			s.addNeq(i, j, kj-ki)
		}
	case *ssa.Call:
		cal := Callee(c)
		if cal == nil || cal.Pkg == nil {
			return
		}
		if InModule(cal) && cal.Blocks != nil && z.subDepth < 3 {
			// a boolean helper of the module: the facts its result implies, over the caller's values
			if fs, sub := z.p.CalleeFacts(c, val); len(fs) > 0 {
				outer := z.sub
				if outer != nil {
					for k, a := range sub {
						if aa, ok := outer[a]; ok {
							sub[k] = aa
						}
					}
				}
				z.sub = sub
				z.subDepth++
				z.applyFacts(s, fs)
				z.subDepth--
				z.sub = outer
			}
			return
		}
		if !val {
			return
		}
		pk := cal.Pkg.Pkg.Path()
		if (pk == "strings" || pk == "bytes") && (cal.Name() == "HasPrefix" || cal.Name() == "HasSuffix") && len(c.Call.Args) == 2 {
			i, ki, ok1 := z.lenTerm(c.Call.Args[0])
			j, kj, ok2 := z.lenTerm(c.Call.Args[1])
			if ok1 && ok2 {
				s.le(j, kj, i, ki, 0)
			}
		}
	}
}

func (z *zoneFn) applyFacts(s *zstate, fs FactSet) {
	if s.bottom() {
		return
	}
	fs.Find(func(c ssa.Value, v bool) bool {
		z.applyCond(s, c, v)
		return false
	})
}

// define: value v gets a new instance: drop what was known about its variable(s).
func (z *zoneFn) define(s *zstate, v ssa.Value) {
	if i, ok := z.vars[v]; ok {
		z.kill(s, i)
		if isBoolT(v.Type()) {
			s.add(0, i, 0)
			s.add(i, 0, 1)
		}
	}
	if i, ok := z.lens[v]; ok {
		z.kill(s, i)
		s.add(0, i, 0) // len >= 0
	}
	// a byte read from a string: 0..255 (the shared memory variable is not reset: the contents are immutable)
	if ix, ok := v.(*ssa.Index); ok {
		if mi, _, ok := z.lin(ix); ok && mi != 0 {
			s.add(0, mi, 0)
			s.add(mi, 0, 255)
		}
	}
}

var indexFuncs = map[string]bool{"Index": true, "IndexByte": true, "IndexRune": true, "IndexAny": true, "IndexFunc": true,
	"LastIndex": true, "LastIndexByte": true, "LastIndexAny": true, "LastIndexFunc": true}

func (z *zoneFn) transfer(s *zstate, in ssa.Instruction, sites *[]BoundSite) {
	if s.bottom() {
		return
	}
	if v, ok := in.(ssa.Value); ok {
		if _, isPhi := in.(*ssa.Phi); !isPhi {
			z.define(s, v)
		}
	}
	switch x := in.(type) {
	case *ssa.BinOp:
		vi, own := z.isOwnVar(x)
		if !own {
			return
		}
		if !isSignedInt(x.Type()) {
			if isIntegerT(x.Type()) {
				s.add(0, vi, 0) // unsigned: >= 0
				if x.Op == token.AND {
					for _, o := range []ssa.Value{x.X, x.Y} {
						if c, ok := ConstInt(o); ok && c >= 0 {
							s.add(vi, 0, c)
						}
					}
				}
				if x.Op == token.REM {
					if c, ok := ConstInt(x.Y); ok && c > 0 {
						s.add(vi, 0, c-1)
					}
				}
			}
			return
		}
		a, ka, oka := z.lin(x.X)
		b, kb, okb := z.lin(x.Y)
		switch x.Op {
		case token.ADD:
			// off + strings.Index*(y[off:], …): an index into the suffix, rebased, is an index into y
			for _, pr := range [][2]ssa.Value{{x.X, x.Y}, {x.Y, x.X}} {
				call, isCall := pr[1].(*ssa.Call)
				if !isCall {
					continue
				}
				cal := Callee(call)
				if cal == nil || cal.Pkg == nil || cal.Signature.Recv() != nil || !indexFuncs[cal.Name()] || len(call.Call.Args) < 1 {
					continue
				}
				if pk := cal.Pkg.Pkg.Path(); pk != "strings" && pk != "bytes" {
					continue
				}
				sub, isSlice := call.Call.Args[0].(*ssa.Slice)
				if !isSlice || sub.High != nil || sub.Low == nil {
					continue
				}
				lo, klo, oklo := z.lin(sub.Low)
				off, koff, okoff := z.lin(pr[0])
				yl, yk, oky := z.lenTerm(sub.X)
				ri, _, okr := z.lin(call)
				if !oklo || !okoff || !oky || lo != off || klo != koff {
					continue
				}
				k := int64(1)
				if cal.Name() == "Index" || cal.Name() == "LastIndex" {
					k = 0
					if sep, ok := ConstString(call.Call.Args[1]); ok && len(sep) > 0 {
						k = int64(len(sep))
					}
				}
				if k > 1 && !(okr && s.lower(ri) >= 0) {
					k = 1
				}
				s.le(vi, 0, yl, yk, -k) // v <= len(y) - k
			}
			if oka && okb {
				// v - a in [lb(b)+kb .. ub(b)+kb] + ka
				if ub := s.upper(b); ub < zInf {
					s.add(vi, a, ub+kb+ka)
				}
				if lb := s.lower(b); lb > -zInf {
					s.add(a, vi, -(lb + kb + ka))
				}
				if ub := s.upper(a); ub < zInf {
					s.add(vi, b, ub+ka+kb)
				}
				if lb := s.lower(a); lb > -zInf {
					s.add(b, vi, -(lb + ka + kb))
				}
			}
		case token.SUB:
			if oka && okb {
				// v = (a+ka) - (b+kb)
				if d := s.m[a*s.n+b]; d < zInf { // a - b <= d
					s.add(vi, 0, d+ka-kb)
				}
				if d := s.m[b*s.n+a]; d < zInf { // b - a <= d  =>  v >= -d + ka - kb
					s.add(0, vi, d-ka+kb)
				}
				if lb := s.lower(b); lb > -zInf { // v - a <= ka - kb - lb
					s.add(vi, a, ka-kb-lb)
				}
				if ub := s.upper(b); ub < zInf { // v - a >= ka - kb - ub
					s.add(a, vi, -(ka - kb - ub))
				}
			}
		case token.REM:
			if c, ok := ConstInt(x.Y); ok && c > 0 {
				s.add(vi, 0, c-1)
				if oka && s.lower(a)+ka >= 0 {
					s.add(0, vi, 0)
				} else {
					s.add(0, vi, c-1)
				}
			}
		case token.QUO:
			if c, ok := ConstInt(x.Y); ok && c > 0 && oka && s.lower(a)+ka >= 0 {
				s.add(0, vi, 0)
				s.add(vi, a, ka)
			}
		case token.SHR:
			if oka && s.lower(a)+ka >= 0 {
				s.add(0, vi, 0)
				s.add(vi, a, ka)
			}
		case token.AND:
			for _, o := range []ssa.Value{x.X, x.Y} {
				if c, ok := ConstInt(o); ok && c >= 0 {
					s.add(0, vi, 0)
					s.add(vi, 0, c)
				}
			}
		case token.MUL:
			if oka && okb && s.lower(a)+ka >= 0 && s.lower(b)+kb >= 0 {
				s.add(0, vi, 0)
			}
		}
	case *ssa.Call:
		if z.applySummary(s, x) {
			return
		}
		if b, ok := x.Call.Value.(*ssa.Builtin); ok {
			switch b.Name() {
			case "copy":
				if vi, own := z.isOwnVar(x); own {
					s.add(0, vi, 0)
					for _, a := range x.Call.Args {
						if j, kj, ok := z.lenTerm(a); ok {
							s.le(vi, 0, j, kj, 0)
						}
					}
				}
			case "append":
				if li, ok := z.lens[ssa.Value(x)]; ok && len(x.Call.Args) > 0 {
					if j, kj, ok := z.lenTerm(x.Call.Args[0]); ok {
						s.le(j, kj, li, 0, 0)
					}
				}
			case "min", "max":
				if vi, own := z.isOwnVar(x); own {
					for _, a := range x.Call.Args {
						if j, kj, ok := z.lin(a); ok {
							if b.Name() == "min" {
								s.le(vi, 0, j, kj, 0)
							} else {
								s.le(j, kj, vi, 0, 0)
							}
						}
					}
				}
			}
			return
		}
		cal := Callee(x)
		if cal == nil || cal.Pkg == nil {
			return
		}
		pk := cal.Pkg.Pkg.Path()
		if (pk == "strings" || pk == "bytes") && cal.Signature.Recv() == nil {
			if vi, own := z.isOwnVar(x); own && indexFuncs[cal.Name()] && len(x.Call.Args) >= 1 {
				s.add(0, vi, 1) // v >= -1
				if j, kj, ok := z.lenTerm(x.Call.Args[0]); ok {
					k := int64(1)
					if cal.Name() == "Index" || cal.Name() == "LastIndex" {
						if sep, ok := ConstString(x.Call.Args[1]); ok && len(sep) > 0 {
							k = int64(len(sep))
						} else {
							k = 0 // an empty separator is found at len(s)
						}
					}
					s.le(vi, 0, j, kj, -k)
				}
			}
			if li, ok := z.lens[ssa.Value(x)]; ok && len(x.Call.Args) >= 1 {
				switch cal.Name() {
				case "TrimPrefix", "TrimSuffix", "TrimSpace", "Trim", "TrimLeft", "TrimRight", "TrimFunc", "TrimLeftFunc", "TrimRightFunc":
					if j, kj, ok := z.lenTerm(x.Call.Args[0]); ok {
						s.le(li, 0, j, kj, 0)
					}
				}
			}
		}
	case *ssa.Slice:
		li, hasLen := z.lens[ssa.Value(x)]
		xl, xk, okx := z.lenTerm(x.X)
		lo, klo, oklo := 0, int64(0), true
		if x.Low != nil {
			lo, klo, oklo = z.lin(x.Low)
		}
		hi, khi, okhi := xl, xk, okx
		if x.High != nil {
			hi, khi, okhi = z.lin(x.High)
		}
		if sites != nil {
			site := BoundSite{Instr: in, Kind: "slice", Expr: z.p.ExprAt(in.Pos()), Proved: true}
			var missing []string
			if !(oklo && s.holdsLe(0, 0, lo, klo)) {
				missing = append(missing, "low >= 0")
			}
			if !(oklo && okhi && s.holdsLe(lo, klo, hi, khi)) {
				missing = append(missing, "low <= high")
			}
			if x.High != nil {
				// slices may be re-sliced up to their capacity; only strings and arrays are bounded by their length
				_, isSlice := x.X.Type().Underlying().(*types.Slice)
				if !isSlice && !(okhi && okx && s.holdsLe(hi, khi, xl, xk)) {
					missing = append(missing, "high <= len")
				}
				if isSlice && !(okhi && okx && s.holdsLe(hi, khi, xl, xk)) {
					missing = append(missing, "high <= len (cap not tracked)")
				}
			}
			if len(missing) > 0 {
				site.Proved = false
				site.Missing = fmt.Sprint(missing)
			}
			*sites = append(*sites, site)
		}
		// the slice expression did not panic: its bounds hold from here on
		if oklo {
			s.le(0, 0, lo, klo, 0)
		}
		if oklo && okhi {
			s.le(lo, klo, hi, khi, 0)
		}
		if _, isSlice := x.X.Type().Underlying().(*types.Slice); !isSlice && okhi && okx {
			s.le(hi, khi, xl, xk, 0)
		}
		if hasLen && !s.bottom() {
			// len(y) = high - low
			switch {
			case x.Low == nil && okhi:
				s.le(li, 0, hi, khi, 0)
				s.le(hi, khi, li, 0, 0)
			case oklo && lo == 0 && okhi:
				s.le(li, 0, hi, khi, -klo)
				s.le(hi, khi, li, 0, klo)
			case oklo && okhi:
				// three-variable relation: approximate through the bounds of low
				if ub := s.upper(lo); ub < zInf { // len(y) >= high - ub(low)
					s.le(hi, khi, li, 0, ub+klo)
				}
				if lb := s.lower(lo); lb > -zInf { // len(y) <= high - lb(low)
					s.le(li, 0, hi, khi, -(lb + klo))
				}
				if d := s.m[hi*s.n+lo]; d < zInf { // high - low <= d
					s.add(li, 0, d+khi-klo)
				}
				if d := s.m[lo*s.n+hi]; d < zInf { // low - high <= d  => len >= -d
					s.add(0, li, d-khi+klo)
				}
			}
			if okx {
				if _, isSlice := x.X.Type().Underlying().(*types.Slice); !isSlice {
					s.le(li, 0, xl, xk, 0)
				}
			}
		}
	case *ssa.MakeSlice:
		if li, ok := z.lens[ssa.Value(x)]; ok {
			if j, kj, ok := z.lin(x.Len); ok {
				s.le(li, 0, j, kj, 0)
				s.le(j, kj, li, 0, 0)
			}
		}
	case *ssa.Index:
		z.indexSite(s, in, x.X, x.Index, sites)
	case *ssa.IndexAddr:
		z.indexSite(s, in, x.X, x.Index, sites)
	case *ssa.Extract:
		// key of a range-over-string/slice iteration is non-negative
		if vi, own := z.isOwnVar(x); own {
			if nx, ok := x.Tuple.(*ssa.Next); ok && x.Index == 1 {
				_ = nx
				s.add(0, vi, 0)
			}
		}
	}
}

// summaryOf: the return cases of a small integer-valued helper of the module (nil when not applicable).
func (z *zoneFn) summaryOf(h *ssa.Function) []retCase {
	if cs, ok := z.summaries[h]; ok {
		return cs
	}
	var cs []retCase
	if h != nil && InModule(h) && h.Blocks != nil && h != z.fn && h.Signature.Results().Len() == 1 && isSignedInt(h.Signature.Results().At(0).Type()) && len(h.Blocks) <= 12 {
		for _, ret := range ReturnsOf(h) {
			cs = append(cs, retCase{val: RetVals(ret)[0], facts: z.p.FactsAt(ret)})
		}
		if len(cs) > 6 {
			cs = nil
		}
	}
	if z.summaries == nil {
		z.summaries = map[*ssa.Function][]retCase{}
	}
	z.summaries[h] = cs
	return cs
}

// applySummary handles v = h(args) for an integer helper h by cases: for every way h can return, the facts at that
// return (over the caller's arguments) and v == the returned value; the results are joined, or a single case is
// taken when a case analysis selected one.
func (z *zoneFn) applySummary(s *zstate, x *ssa.Call) bool {
	vi, own := z.isOwnVar(x)
	if !own || z.sub != nil {
		return false
	}
	h := Callee(x)
	cs := z.summaryOf(h)
	if len(cs) == 0 {
		return false
	}
	sub := map[ssa.Value]ssa.Value{}
	for i, prm := range h.Params {
		if i < len(x.Call.Args) {
			sub[prm] = x.Call.Args[i]
		}
	}
	sel, hasSel := z.caseSel[x]
	acc := &zstate{n: s.n}
	for k, c := range cs {
		if hasSel && k != sel {
			continue
		}
		t := s.clone()
		z.sub = sub
		z.applyFacts(t, c.facts)
		if j, kj, ok := z.lin(c.val); ok && !t.bottom() {
			t.le(vi, 0, j, kj, 0)
			t.le(j, kj, vi, 0, 0)
		}
		z.sub = nil
		acc = zjoin(acc, t)
	}
	s.m, s.neq = acc.m, acc.neq
	return true
}

func (z *zoneFn) indexSite(s *zstate, in ssa.Instruction, seq, idx ssa.Value, sites *[]BoundSite) {
	if _, isMap := seq.Type().Underlying().(*types.Map); isMap {
		return
	}
	l, kl, okl := z.lenTerm(seq)
	i, ki, oki := z.lin(idx)
	if sites != nil {
		if zoneDebug && !s.bottom() {
			fmt.Printf("      site %s: neq=%v\n", in, s.neq)
			for a := 0; a < s.n; a++ {
				for b := 0; b < s.n; b++ {
					if a != b && s.m[a*s.n+b] < zInf {
						fmt.Printf("        %s - %s <= %d\n", z.names[a], z.names[b], s.m[a*s.n+b])
					}
				}
			}
		}
		site := BoundSite{Instr: in, Kind: "index", Expr: z.p.ExprAt(in.Pos()), Proved: true}
		var missing []string
		if !(oki && s.holdsLe(0, 0, i, ki)) {
			missing = append(missing, "index >= 0")
		}
		if !(oki && okl && s.holdsLe(i, ki, l, kl-1)) {
			missing = append(missing, "index < len")
		}
		if len(missing) > 0 {
			site.Proved = false
			site.Missing = fmt.Sprint(missing)
		}
		*sites = append(*sites, site)
	}
	if oki {
		s.le(0, 0, i, ki, 0)
		if okl {
			s.le(i, ki, l, kl, -1)
		}
	}
}

// edgeOut computes the state along the edge pred -> pred.Succs[k], including the phi assignments of the successor.
func (z *zoneFn) edgeOut(end *zstate, pred *ssa.BasicBlock, k int) *zstate {
	if end.bottom() {
		return end
	}
	s := end.clone()
	z.applyFacts(s, z.p.EdgeFacts(pred, k))
	if s.bottom() {
		return s
	}
	succ := pred.Succs[k]
	// which predecessor index of succ is this edge? (a block can be a predecessor twice)
	pidx := -1
	seen := 0
	for i, q := range succ.Preds {
		if q == pred {
			// the k-th successor edge of pred that leads to succ corresponds to the matching occurrence
			occ := 0
			for kk := 0; kk < k; kk++ {
				if pred.Succs[kk] == succ {
					occ++
				}
			}
			if seen == occ {
				pidx = i
				break
			}
			seen++
		}
	}
	if pidx < 0 {
		return s
	}
	// parallel assignment through scratch variables
	type asg struct {
		dst, tmp int
	}
	var as []asg
	t := z.tmp0
	for _, in := range succ.Instrs {
		ph, ok := in.(*ssa.Phi)
		if !ok {
			break
		}
		inc := ph.Edges[pidx]
		if vi, own := z.vars[ssa.Value(ph)]; own {
			if t < z.tmp0+z.ntmp {
				s.forget(t)
				if j, kj, ok := z.lin(inc); ok {
					s.le(t, 0, j, kj, 0)
					s.le(j, kj, t, 0, 0)
				}
				as = append(as, asg{vi, t})
				t++
			} else {
				as = append(as, asg{vi, -1})
			}
		}
		if li, ok := z.lens[ssa.Value(ph)]; ok {
			if t < z.tmp0+z.ntmp {
				s.forget(t)
				if j, kj, ok := z.lenTerm(inc); ok {
					s.le(t, 0, j, kj, 0)
					s.le(j, kj, t, 0, 0)
				}
				as = append(as, asg{li, t})
				t++
			} else {
				as = append(as, asg{li, -1})
			}
		}
	}
	for _, a := range as {
		z.kill(s, a.dst)
	}
	for _, a := range as {
		if a.tmp >= 0 {
			s.add(a.dst, a.tmp, 0)
			s.add(a.tmp, a.dst, 0)
		}
	}
	// bytes of immutable strings indexed through a phi: pkg[i'] is pkg[src+k] when i' := src+k on this edge
	for _, in := range succ.Instrs {
		ph, ok := in.(*ssa.Phi)
		if !ok {
			break
		}
		dst, own := z.vars[ssa.Value(ph)]
		if !own || s.bottom() {
			continue
		}
		src, ks, ok := z.lin(ph.Edges[pidx])
		if !ok || src == 0 || src == dst {
			continue
		}
		// the source root must not itself have been re-assigned on this edge
		reassigned := false
		for _, a := range as {
			if a.dst == src {
				reassigned = true
			}
		}
		if reassigned {
			continue
		}
		for k, md := range z.mems {
			if k.root != dst {
				continue
			}
			if ms, ok := z.mems[memKey{k.seq, src, k.off + ks}]; ok && ms != md {
				s.add(md, ms, 0)
				s.add(ms, md, 0)
				for nk := range s.neq {
					switch {
					case nk.i == ms && nk.j != md:
						s.addNeq(md, nk.j, nk.c)
					case nk.j == ms && nk.i != md:
						s.addNeq(nk.i, md, nk.c)
					}
				}
			}
		}
	}
	for _, a := range as {
		if a.tmp >= 0 {
			s.forget(a.tmp)
		}
	}
	// lengths are non-negative
	for _, a := range as {
		for _, li := range z.lens {
			if li == a.dst {
				s.add(0, li, 0)
			}
		}
	}
	return s
}

// ZoneAnalyze runs the analysis on fn.
func (p *Prog) zoneSetup(fn *ssa.Function) (*zoneFn, *ZoneResult, *zstate, map[*ssa.BasicBlock]bool) {
	z := &zoneFn{p: p, fn: fn, vars: map[ssa.Value]int{}, lens: map[ssa.Value]int{}, mems: map[memKey]int{}, memOf: map[int][]int{}, in: map[*ssa.BasicBlock]*zstate{}}
	z.newVar("0")
	// prescan: allocate variables
	maxPhi := 0
	for _, b := range fn.Blocks {
		nphi := 0
		for _, in := range b.Instrs {
			if ph, ok := in.(*ssa.Phi); ok {
				if isIntegerT(ph.Type()) || isBoolT(ph.Type()) {
					z.varOf(ph)
					nphi++
				}
				if isSeq(ph.Type()) {
					z.lenTerm(ph)
					nphi++
				}
			}
			if v, ok := in.(ssa.Value); ok {
				if isIntegerT(v.Type()) {
					z.lin(v)
				}
				if isBoolT(v.Type()) {
					// only bools that are not comparisons need a variable (phis, calls, loads)
					if _, isCmp := v.(*ssa.BinOp); !isCmp {
						if u, isNot := v.(*ssa.UnOp); !isNot || u.Op != token.NOT {
							z.varOf(v)
						}
					}
				}
				if isSeq(v.Type()) {
					z.lenTerm(v)
				}
			}
			for _, op := range in.Operands(nil) {
				if *op == nil {
					continue
				}
				if isIntegerT((*op).Type()) {
					z.lin(*op)
				}
				if isSeq((*op).Type()) {
					z.lenTerm(*op)
				}
				t := (*op).Type().Underlying()
				if pt, ok := t.(*types.Pointer); ok {
					if _, ok := pt.Elem().Underlying().(*types.Array); ok {
						z.lenTerm(*op)
					}
				}
			}
		}
		if nphi > maxPhi {
			maxPhi = nphi
		}
	}
	for _, prm := range fn.Params {
		if isIntegerT(prm.Type()) || isBoolT(prm.Type()) {
			z.varOf(prm)
		}
		if isSeq(prm.Type()) {
			z.lenTerm(prm)
		}
	}
	z.tmp0 = len(z.names)
	z.ntmp = maxPhi
	for i := 0; i < maxPhi; i++ {
		z.newVar(fmt.Sprintf("tmp%d", i))
	}
	z.frozen = true
	n := len(z.names)
	res := &ZoneResult{Fn: fn, Vars: n}
	if n > 400 {
		return nil, res, nil, nil // too large: nothing proved (callers treat missing sites as not decided)
	}

	// reverse postorder
	seen := map[*ssa.BasicBlock]bool{}
	var post []*ssa.BasicBlock
	var dfs func(b *ssa.BasicBlock)
	dfs = func(b *ssa.BasicBlock) {
		seen[b] = true
		for _, s := range b.Succs {
			if !seen[s] {
				dfs(s)
			}
		}
		post = append(post, b)
	}
	dfs(fn.Blocks[0])
	z.rpoIdx = map[*ssa.BasicBlock]int{}
	for i := len(post) - 1; i >= 0; i-- {
		z.rpoIdx[post[i]] = len(z.rpo)
		z.rpo = append(z.rpo, post[i])
	}

	entry := newTop(n)
	for _, li := range z.lens {
		entry.add(0, li, 0)
	}
	for v, vi := range z.vars {
		if _, isPrm := v.(*ssa.Parameter); isPrm {
			if isBoolT(v.Type()) {
				entry.add(0, vi, 0)
				entry.add(vi, 0, 1)
			} else if !isSignedInt(v.Type()) {
				entry.add(0, vi, 0)
			}
		}
	}
	z.blockFacts = p.Facts(fn)
	return z, res, entry, seen
}

// ZoneAnalyze runs the analysis on fn.
func (p *Prog) ZoneAnalyze(fn *ssa.Function) *ZoneResult {
	if fn.Blocks == nil {
		return nil
	}
	z, res, entry, seen := p.zoneSetup(fn)
	if z == nil {
		return res
	}
	n := len(z.names)
	_ = n
	// global solution
	ins, outs, iters := z.solve(z.rpo, map[*ssa.BasicBlock]*zstate{fn.Blocks[0]: entry})
	res.Iter = iters
	for _, b := range z.rpo {
		z.flow(b, ins[b], &res.Sites, nil)
	}
	// sites that are not proved: partition by the last edge taken into a dominating merge block and re-analyse the
	// region it dominates (sound: every execution reaching the site entered that merge block last through one of
	// its edges, with a state covered by the global solution for that edge)
	for si := range res.Sites {
		site := &res.Sites[si]
		if site.Proved {
			continue
		}
		sb := site.Instr.Block()
		tried := 0
		for m := sb; m != nil && tried < 6 && !site.Proved; m = m.Idom() {
			if len(m.Preds) < 2 {
				continue
			}
			tried++
			// region: blocks dominated by m, in reverse postorder
			var region []*ssa.BasicBlock
			for _, b := range z.rpo {
				if m.Dominates(b) {
					region = append(region, b)
				}
			}
			all, any := true, false
			for ei, est := range z.entryStates(m, outs, seen, 0) {
				any = true
				if zoneDebug {
					fmt.Printf("  partition at block %d entry %d for %s\n", m.Index, ei, site.Expr)
				}
				lins, _, _ := z.solve(region, map[*ssa.BasicBlock]*zstate{m: est})
				var ls []BoundSite
				z.flow(sb, lins[sb], &ls, nil)
				ok := false
				for _, l := range ls {
					if l.Instr == site.Instr && l.Proved {
						ok = true
					}
				}
				if zoneDebug {
					fmt.Printf("    -> proved=%v sites=%v\n", ok, ls)
				}
				if !ok {
					all = false
					break
				}
			}
			if any && all {
				site.Proved = true
				site.Missing = ""
				site.Partitioned = true
			}
		}
		// case analysis over the ways a dominating integer helper call can return
		for m := sb; m != nil && !site.Proved; m = m.Idom() {
			for ii := len(m.Instrs) - 1; ii >= 0 && !site.Proved; ii-- {
				call, ok := m.Instrs[ii].(*ssa.Call)
				if !ok || (m == sb && !Dominates(call, site.Instr)) {
					continue
				}
				if _, own := z.isOwnVar(call); !own {
					continue
				}
				cs := z.summaryOf(Callee(call))
				if len(cs) < 2 {
					continue
				}
				var region []*ssa.BasicBlock
				for _, b := range z.rpo {
					if m.Dominates(b) {
						region = append(region, b)
					}
				}
				all := true
				for k := range cs {
					z.caseSel = map[*ssa.Call]int{call: k}
					lins, _, _ := z.solve(region, map[*ssa.BasicBlock]*zstate{m: ins[m]})
					var ls []BoundSite
					z.flow(sb, lins[sb], &ls, nil)
					ok := false
					for _, l := range ls {
						if l.Instr == site.Instr && l.Proved {
							ok = true
						}
					}
					z.caseSel = nil
					if !ok {
						all = false
						break
					}
				}
				if all {
					site.Proved = true
					site.Missing = ""
					site.Partitioned = true
				}
			}
		}
	}
	// sites of an unexported helper that are still open: analyse the helper once per calling context (what its
	// callers' states say about the arguments, and the outcomes of helper predicates on the same arguments that are
	// known at the call) - sound because such a function is entered only through the static calls enumerated here
	open := false
	for _, st := range res.Sites {
		if !st.Proved {
			open = true
		}
	}
	if open && !p.zoneInContext {
		if entries := p.zoneCallContexts(z, entry); len(entries) > 0 {
			provedAll := map[ssa.Instruction]bool{}
			for si := range res.Sites {
				if !res.Sites[si].Proved {
					provedAll[res.Sites[si].Instr] = true
				}
			}
			for _, est := range entries {
				lins, _, _ := z.solve(z.rpo, map[*ssa.BasicBlock]*zstate{fn.Blocks[0]: est})
				var ls []BoundSite
				for _, b := range z.rpo {
					z.flow(b, lins[b], &ls, nil)
				}
				ok := map[ssa.Instruction]bool{}
				for _, l := range ls {
					if l.Proved {
						ok[l.Instr] = true
					}
				}
				for in := range provedAll {
					if !ok[in] {
						provedAll[in] = false
					}
				}
			}
			for si := range res.Sites {
				site := &res.Sites[si]
				if !site.Proved && provedAll[site.Instr] {
					site.Proved, site.Missing, site.Context = true, "", len(entries)
				}
			}
		}
	}
	sort.SliceStable(res.Sites, func(i, j int) bool { return res.Sites[i].Instr.Pos() < res.Sites[j].Instr.Pos() })
	return res
}

// zoneCallContexts: the entry states of the unexported, never-escaping function analysed by z, one per calling
// context: per static call site the caller's zone state right before the call, projected onto the arguments
// (integers, lengths, and bytes of immutable strings at argument-relative positions), refined - by cases - with the
// known outcomes of boolean helper predicates that were applied to the same arguments. nil when the function can
// be entered in other ways (exported, used as a value, no callers, recursive) or a caller is too large.
func (p *Prog) zoneCallContexts(z *zoneFn, entry *zstate) []*zstate {
	fn := z.fn
	if fn.Parent() != nil || fn.Object() == nil || fn.Object().Exported() || fn.Signature.Recv() != nil || len(p.FuncValueUses(fn)) > 0 {
		return nil // closures, exported functions, methods (interface dispatch) and escaping functions have callers that are not enumerable here
	}
	callers := p.StaticCallers(fn)
	if len(callers) == 0 || len(callers) > 12 {
		return nil
	}
	p.zoneInContext = true
	defer func() { p.zoneInContext = false }()
	var out []*zstate
	for _, ci := range callers {
		call, ok := ci.(*ssa.Call)
		if !ok || call.Parent() == fn || len(call.Call.Args) != len(fn.Params) {
			return nil
		}
		g := call.Parent()
		zg, _, gentry, _ := p.zoneSetup(g)
		if zg == nil {
			return nil
		}
		gins, _, _ := zg.solve(zg.rpo, map[*ssa.BasicBlock]*zstate{g.Blocks[0]: gentry})
		zg.captureAt = call
		zg.flow(call.Block(), gins[call.Block()], nil, nil)
		sg := zg.captured
		if sg == nil || sg.bottom() {
			continue // the call is unreachable under the caller's facts
		}
		// pairs (caller variable + offset) = callee variable
		type pair struct {
			gv int
			gk int64
			cv int
		}
		pairs := []pair{{0, 0, 0}}
		prmIdx := map[int]int{} // callee variable of an integer parameter -> parameter index
		for i, prm := range fn.Params {
			a := call.Call.Args[i]
			if cv, ok := z.vars[prm]; ok {
				if gv, gk, ok := zg.lin(a); ok {
					pairs = append(pairs, pair{gv, gk, cv})
					prmIdx[cv] = i
				}
			}
			if cl, ok := z.lens[seqRoot(prm)]; ok {
				if gv, gk, ok := zg.lenTerm(a); ok {
					pairs = append(pairs, pair{gv, gk, cl})
				}
			}
		}
		for k, cm := range z.mems {
			seqP, isPrm := k.seq.(*ssa.Parameter)
			rootI, rootIsPrm := prmIdx[k.root]
			if !isPrm || seqP.Parent() != fn || (!rootIsPrm && k.root != 0) {
				continue
			}
			var seqArg ssa.Value
			for i, prm := range fn.Params {
				if prm == seqP {
					seqArg = seqRoot(call.Call.Args[i])
				}
			}
			gv, gk := 0, int64(0)
			if k.root != 0 {
				var ok bool
				gv, gk, ok = zg.lin(call.Call.Args[rootI])
				if !ok {
					continue
				}
			}
			if gm, ok := zg.mems[memKey{seqArg, gv, gk + k.off}]; ok {
				pairs = append(pairs, pair{gm, 0, cm})
			}
		}
		est := entry.clone()
		for _, a := range pairs {
			for _, b := range pairs {
				if a.cv == b.cv {
					continue
				}
				if d := sg.m[a.gv*sg.n+b.gv]; d < zInf {
					est.add(a.cv, b.cv, d+a.gk-b.gk)
				}
			}
		}
		for nk := range sg.neq {
			for _, a := range pairs {
				for _, b := range pairs {
					if a.gv == nk.i && b.gv == nk.j && a.cv != b.cv {
						est.addNeq(a.cv, b.cv, nk.c+a.gk-b.gk)
					}
				}
			}
		}
		states := []*zstate{est}
		// outcomes of helper predicates over the same arguments, known at the call
		toParam := func(v ssa.Value) (ssa.Value, bool) {
			if _, isConst := v.(*ssa.Const); isConst {
				return v, true
			}
			for i, a := range call.Call.Args {
				if a == v {
					return fn.Params[i], true
				}
			}
			return nil, false
		}
		for f := range p.FactsAt(call) {
			hc, ok := f.Cond.(*ssa.Call)
			if !ok || hc == call {
				continue
			}
			h := Callee(hc)
			if h == nil || !InModule(h) || h.Blocks == nil {
				continue
			}
			sub := map[ssa.Value]ssa.Value{}
			mappable := true
			for i, prm := range h.Params {
				if i >= len(hc.Call.Args) {
					mappable = false
					break
				}
				if v, ok := toParam(hc.Call.Args[i]); ok {
					sub[prm] = v
				} else {
					mappable = false
				}
			}
			cases, _ := p.CalleeCases(hc, f.Val)
			if !mappable || len(cases) == 0 || len(states)*len(cases) > 16 {
				continue
			}
			var next []*zstate
			for _, st := range states {
				for _, cs := range cases {
					ns := st.clone()
					z.sub = sub
					z.subDepth++
					z.applyFacts(ns, cs)
					z.subDepth--
					z.sub = nil
					if !ns.bottom() {
						next = append(next, ns)
					}
				}
			}
			states = next
		}
		out = append(out, states...)
	}
	return out
}

// ZoneReach answers a path-feasibility question with the zone analysis: starting right after instruction `from`
// (in the state the global solution establishes there), which instructions satisfying `target` can be reached without
// first executing an instruction satisfying `barrier`? Infeasible branches (conditions the state contradicts) are not
// followed. Returns nil, false when the function is too large to analyse.
func (p *Prog) ZoneReach(from ssa.Instruction, barrier, target func(ssa.Instruction) bool) ([]ssa.Instruction, bool) {
	fn := from.Parent()
	z, _, entry, _ := p.zoneSetup(fn)
	if z == nil {
		return nil, false
	}
	ins, _, _ := z.solve(z.rpo, map[*ssa.BasicBlock]*zstate{fn.Blocks[0]: entry})
	fb := from.Block()
	s := ins[fb].clone()
	if !s.bottom() {
		z.applyFacts(s, z.blockFacts[fb])
		z.applyFacts(s, p.FactsAt(fb.Instrs[0]))
	}
	z.hits = map[ssa.Instruction]bool{}
	after := false
	for _, in := range fb.Instrs {
		if after {
			if !s.bottom() && target(in) {
				z.hits[in] = true
			}
			if barrier(in) {
				s.m, s.neq = nil, nil
			}
		}
		z.transfer(s, in, nil)
		if in == from {
			after = true
		}
	}
	z.seeds = map[*ssa.BasicBlock]*zstate{}
	for k, succ := range fb.Succs {
		o := z.edgeOut(s, fb, k)
		if o.bottom() {
			continue
		}
		if old, ok := z.seeds[succ]; ok {
			z.seeds[succ] = zjoin(old, o)
		} else {
			z.seeds[succ] = o
		}
	}
	z.barrier, z.target = barrier, target
	z.solve(z.rpo, map[*ssa.BasicBlock]*zstate{})
	var out []ssa.Instruction
	for in := range z.hits {
		out = append(out, in)
	}
	sort.Slice(out, func(i, j int) bool { return out[i].Pos() < out[j].Pos() })
	return out, true
}

// entryStates lists the states with which block m can be entered, one per incoming edge; an edge from a merge block
// that merely jumps to m is expanded into that block's own incoming edges (up to three levels), so that the case
// analysis distinguishes the paths through short-circuit && / || diamonds.
func (z *zoneFn) entryStates(m *ssa.BasicBlock, outs map[*ssa.BasicBlock][]*zstate, reach map[*ssa.BasicBlock]bool, depth int) []*zstate {
	var res []*zstate
	done := map[*ssa.BasicBlock]bool{}
	for _, q := range m.Preds {
		if done[q] || !reach[q] {
			continue
		}
		done[q] = true
		for k, sc := range q.Succs {
			if sc != m {
				continue
			}
			if depth < 3 && len(q.Preds) >= 2 && len(q.Succs) == 1 {
				for _, e := range z.entryStates(q, outs, reach, depth+1) {
					tmp := map[*ssa.BasicBlock][]*zstate{}
					z.flow(q, e, nil, tmp)
					if o := tmp[q]; len(o) > k && !o[k].bottom() {
						res = append(res, o[k])
					}
				}
				continue
			}
			if outs[q] != nil && k < len(outs[q]) && !outs[q][k].bottom() {
				res = append(res, outs[q][k])
			}
		}
	}
	return res
}

// solve computes the fixpoint over the given blocks (in reverse postorder). Blocks in `fixed` keep the given entry
// state (edges into them are ignored); predecessors outside the block set are ignored.
func (z *zoneFn) solve(blocks []*ssa.BasicBlock, fixed map[*ssa.BasicBlock]*zstate) (map[*ssa.BasicBlock]*zstate, map[*ssa.BasicBlock][]*zstate, int) {
	n := len(z.names)
	inSet := map[*ssa.BasicBlock]bool{}
	idx := map[*ssa.BasicBlock]int{}
	for i, b := range blocks {
		inSet[b] = true
		idx[b] = i
	}
	isHead := map[*ssa.BasicBlock]bool{}
	for _, b := range blocks {
		for _, s := range b.Succs {
			if inSet[s] && idx[s] <= idx[b] {
				isHead[s] = true
			}
		}
	}
	ins := map[*ssa.BasicBlock]*zstate{}
	outs := map[*ssa.BasicBlock][]*zstate{}
	computeIn := func(b *ssa.BasicBlock) *zstate {
		if f, ok := fixed[b]; ok {
			return f.clone()
		}
		acc := &zstate{n: n}
		if sd, ok := z.seeds[b]; ok {
			acc = zjoin(acc, sd)
		}
		done := map[*ssa.BasicBlock]bool{}
		for _, q := range b.Preds {
			if done[q] || !inSet[q] {
				continue
			}
			done[q] = true
			os := outs[q]
			if os == nil {
				continue
			}
			for k, s := range q.Succs {
				if s == b && k < len(os) && !os[k].bottom() {
					acc = zjoin(acc, os[k])
				}
			}
		}
		return acc
	}
	visits := map[*ssa.BasicBlock]int{}
	iters := 0
	for iter := 0; iter < 60; iter++ {
		changed := false
		for _, b := range blocks {
			ni := computeIn(b)
			old, had := ins[b]
			if _, isFixed := fixed[b]; had && isHead[b] && !isFixed {
				visits[b]++
				if visits[b] > 3 {
					ni = zwiden(old, zjoin(old, ni))
					ni.closeFull()
				} else {
					ni = zjoin(old, ni)
				}
			}
			if had && zleq(ni, old) && outs[b] != nil {
				continue
			}
			ins[b] = ni
			changed = true
			z.flow(b, ni, nil, outs)
		}
		iters = iter + 1
		if !changed {
			break
		}
	}
	// narrowing: two descending passes without widening
	for pass := 0; pass < 2; pass++ {
		for _, b := range blocks {
			ni := computeIn(b)
			ins[b] = ni
			z.flow(b, ni, nil, outs)
		}
	}
	return ins, outs, iters
}

// flow pushes a state through block b; records site verdicts when sites != nil and edge states when outs != nil.
func (z *zoneFn) flow(b *ssa.BasicBlock, in *zstate, sites *[]BoundSite, outs map[*ssa.BasicBlock][]*zstate) {
	p := z.p
	s := in.clone()
	if !s.bottom() {
		z.applyFacts(s, z.blockFacts[b])
		if len(b.Instrs) > 0 {
			z.applyFacts(s, p.FactsAt(b.Instrs[0]))
		}
	}
	if s.bottom() && sites != nil {
		// unreachable under the facts: every site in it is vacuously fine
		for _, in := range b.Instrs {
			switch x := in.(type) {
			case *ssa.Index:
				*sites = append(*sites, BoundSite{Instr: in, Kind: "index", Expr: p.ExprAt(in.Pos()), Proved: true, Dead: true})
			case *ssa.IndexAddr:
				if _, isMap := x.X.Type().Underlying().(*types.Map); !isMap {
					*sites = append(*sites, BoundSite{Instr: in, Kind: "index", Expr: p.ExprAt(in.Pos()), Proved: true, Dead: true})
				}
			case *ssa.Slice:
				*sites = append(*sites, BoundSite{Instr: in, Kind: "slice", Expr: p.ExprAt(in.Pos()), Proved: true, Dead: true})
			}
		}
	}
	for _, in := range b.Instrs {
		if z.target != nil && !s.bottom() && z.target(in) {
			z.hits[in] = true
		}
		if z.barrier != nil && z.barrier(in) {
			s.m, s.neq = nil, nil
		}
		if z.captureAt != nil && in == z.captureAt {
			z.captured = s.clone()
		}
		z.transfer(s, in, sites)
	}
	if outs != nil {
		os := make([]*zstate, len(b.Succs))
		for k := range b.Succs {
			os[k] = z.edgeOut(s, b, k)
		}
		outs[b] = os
	}
}

// ExprAt returns the source text of the index or slice expression whose '[' is at pos.
func (p *Prog) ExprAt(pos token.Pos) string {
	if !pos.IsValid() {
		return ""
	}
	for _, pkg := range p.Pkgs {
		for _, f := range pkg.Syntax {
			if f.Pos() <= pos && pos < f.End() {
				path, _ := astutil.PathEnclosingInterval(f, pos, pos)
				for _, n := range path {
					switch e := n.(type) {
					case *ast.IndexExpr:
						if e.Lbrack == pos {
							return types.ExprString(e)
						}
					case *ast.SliceExpr:
						if e.Lbrack == pos {
							return types.ExprString(e)
						}
					}
				}
				for _, n := range path {
					switch e := n.(type) {
					case *ast.IndexExpr, *ast.SliceExpr:
						return types.ExprString(e.(ast.Expr))
					}
				}
				return ""
			}
		}
	}
	return ""
}

// SizeofType returns the size in bytes of t under the sizes of the loaded program's target platform.
func (p *Prog) SizeofType(t types.Type) int64 { return p.sizeof(t) }

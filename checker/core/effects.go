package core

import (
	"go/types"
	"sort"
	"strings"

	"golang.org/x/tools/go/callgraph"
	"golang.org/x/tools/go/ssa"
)

// LeafHit is one classified callee reachable from a root, with one call chain.
type LeafHit struct {
	Class  string
	Callee *ssa.Function
	Site   ssa.CallInstruction
	Chain  []*ssa.Function // root ... caller of Callee
}

// CalleeKey renders "pkg.Func" or "pkg.(*T).Method" for table lookups.
func CalleeKey(fn *ssa.Function) string {
	if fn == nil {
		return ""
	}
	if o := fn.Origin(); o != nil {
		fn = o
	}
	if fn.Signature.Recv() != nil {
		rt := fn.Signature.Recv().Type()
		ptr := ""
		if pt, ok := rt.(*types.Pointer); ok {
			rt = pt.Elem()
			ptr = "*"
		}
		if n, ok := rt.(*types.Named); ok && n.Obj().Pkg() != nil {
			return n.Obj().Pkg().Path() + ".(" + ptr + n.Obj().Name() + ")." + fn.Name()
		}
		return fn.String()
	}
	if fn.Pkg != nil {
		return fn.Pkg.Pkg.Path() + "." + fn.Name()
	}
	if obj := fn.Object(); obj != nil && obj.Pkg() != nil {
		return obj.Pkg().Path() + "." + obj.Name()
	}
	return fn.String()
}

// Reach walks the VTA call graph from roots. classify(callee) returns a non-empty class for leaves of
// interest (they are recorded and not expanded); expand(callee) says whether to continue into a callee.
// One shortest chain per (class, callee, caller) is kept.
func (p *Prog) Reach(roots []*ssa.Function, classify func(callee *ssa.Function, site ssa.CallInstruction) string, expand func(caller, callee *ssa.Function, site ssa.CallInstruction) bool) (hits []LeafHit, visited map[*ssa.Function]bool) {
	cg := p.CallGraph()
	visited = map[*ssa.Function]bool{}
	type item struct {
		fn    *ssa.Function
		chain []*ssa.Function
	}
	var queue []item
	for _, r := range roots {
		if r != nil && !visited[r] {
			visited[r] = true
			queue = append(queue, item{r, []*ssa.Function{r}})
		}
	}
	seenHit := map[string]bool{}
	for len(queue) > 0 {
		it := queue[0]
		queue = queue[1:]
		node := cg.Nodes[it.fn]
		if node == nil {
			continue
		}
		// deterministic order
		edges := append([]*callgraph.Edge{}, node.Out...)
		sort.SliceStable(edges, func(i, j int) bool {
			a, b := edges[i], edges[j]
			if a.Callee.Func.String() != b.Callee.Func.String() {
				return a.Callee.Func.String() < b.Callee.Func.String()
			}
			return a.Pos() < b.Pos()
		})
		for _, e := range edges {
			callee := e.Callee.Func
			if callee == nil {
				continue
			}
			if cl := classify(callee, e.Site); cl != "" {
				key := cl + "|" + callee.String() + "|" + it.fn.String()
				if !seenHit[key] {
					seenHit[key] = true
					hits = append(hits, LeafHit{Class: cl, Callee: callee, Site: e.Site, Chain: it.chain})
				}
				continue
			}
			if visited[callee] {
				continue
			}
			if !expand(it.fn, callee, e.Site) {
				continue
			}
			visited[callee] = true
			queue = append(queue, item{callee, append(append([]*ssa.Function{}, it.chain...), callee)})
		}
		// closures created here are reachable when called; anonymous functions are included when
		// referenced through MakeClosure (VTA has edges for calls; keep conservative by adding them)
		for _, a := range it.fn.AnonFuncs {
			if !visited[a] {
				visited[a] = true
				queue = append(queue, item{a, append(append([]*ssa.Function{}, it.chain...), a)})
			}
		}
	}
	return hits, visited
}

// ChainString renders a call chain.
func ChainString(chain []*ssa.Function, callee *ssa.Function) string {
	var s []string
	for _, f := range chain {
		s = append(s, FuncName(f))
	}
	if callee != nil {
		s = append(s, CalleeKey(callee))
	}
	return strings.Join(s, " -> ")
}

// FSMutators is the table of file-system / process effects (A5).
var FSMutators = map[string]bool{
	"os.Create": true, "os.OpenFile": true, "os.WriteFile": true, "os.Rename": true, "os.Remove": true, "os.RemoveAll": true,
	"os.Mkdir": true, "os.MkdirAll": true, "os.MkdirTemp": true, "os.CreateTemp": true, "os.Chmod": true, "os.Chown": true, "os.Chtimes": true,
	"os.Symlink": true, "os.Link": true, "os.Truncate": true, "os.Chdir": true, "os.Setenv": true, "os.Unsetenv": true,
	"os.(*File).Write": true, "os.(*File).WriteString": true, "os.(*File).WriteAt": true, "os.(*File).Truncate": true, "os.(*File).ReadFrom": true,
	"os/exec.(*Cmd).Run": true, "os/exec.(*Cmd).Start": true, "os/exec.(*Cmd).Output": true, "os/exec.(*Cmd).CombinedOutput": true,
	"os.StartProcess": true, "syscall.Exec": true,
	"mvdan.cc/sh/v3/interp.(*Runner).Run": true,
	"io/ioutil.WriteFile":                 true, "io/ioutil.TempFile": true, "io/ioutil.TempDir": true,
}

// NondetSources is the table of nondeterminism sources for fingerprint code (A5).
var NondetSources = map[string]string{
	"time.Now": "wall clock", "time.Since": "wall clock", "time.Until": "wall clock",
	"os.Getpid": "process id", "os.Getppid": "process id", "os.Hostname": "host name", "os.Getwd": "working directory",
	"os.(*File).ReadDir": "directory order (unsorted)", "os.(*File).Readdir": "directory order (unsorted)", "os.(*File).Readdirnames": "directory order (unsorted)",
	"reflect.Value.Pointer": "address", "reflect.Value.UnsafePointer": "address", "reflect.Value.UnsafeAddr": "address",
	"os.(*File).Stat":        "", // Stat itself is fine; ModTime is the source
	"io/fs.FileInfo.ModTime": "modification time", "os.(*fileStat).ModTime": "modification time", "os.Chtimes": "modification time",
	"runtime.NumGoroutine": "scheduler state",
}

// IsNondet classifies a callee as a nondeterminism source.
func IsNondet(callee *ssa.Function) string {
	k := CalleeKey(callee)
	if why, ok := NondetSources[k]; ok && why != "" {
		return why
	}
	if strings.HasPrefix(k, "math/rand.") || strings.HasPrefix(k, "math/rand/v2.") || strings.HasPrefix(k, "crypto/rand.") {
		return "random numbers"
	}
	if callee.Name() == "ModTime" {
		return "modification time"
	}
	return ""
}

package core

import (
	"encoding/json"
	"fmt"
	"os"
	"path/filepath"
	"sort"
	"strings"
)

// Status of an obligation.
type Status string

const (
	Discharged Status = "discharged"
	Violated   Status = "violated"
	Undecided  Status = "undecided"
	Info       Status = "info" // reported in evidence only, never affects the verdict
)

// Obligation is one rule instance examined on the current tree.
type Obligation struct {
	Property  string `json:"property"`
	Rule      string `json:"rule"`
	Construct string `json:"construct"` // stable key: pkg.(Recv).Func#role — never a line number
	Pos       string `json:"pos"`
	Status    Status `json:"status"`
	Detail    string `json:"detail"`
}

// Result accumulates the obligations of one property run.
type Result struct {
	Property    string
	Obls        []Obligation
	Decided     []string // clauses decided (for the explanation)
	NotDecided  []string // clauses not decided
	Assumptions []string
	Trusted     []string
	Analysed    map[string]any
}

func NewResult(prop string) *Result {
	return &Result{Property: prop, Analysed: map[string]any{}}
}

func (r *Result) add(rule, construct, pos string, st Status, format string, args ...any) {
	r.Obls = append(r.Obls, Obligation{Property: r.Property, Rule: rule, Construct: construct, Pos: pos, Status: st, Detail: fmt.Sprintf(format, args...)})
}

func (r *Result) OK(rule, construct, pos, format string, args ...any) {
	r.add(rule, construct, pos, Discharged, format, args...)
}
func (r *Result) Bad(rule, construct, pos, format string, args ...any) {
	r.add(rule, construct, pos, Violated, format, args...)
}
func (r *Result) Unk(rule, construct, pos, format string, args ...any) {
	r.add(rule, construct, pos, Undecided, format, args...)
}
func (r *Result) Note(rule, construct, pos, format string, args ...any) {
	r.add(rule, construct, pos, Info, format, args...)
}

// Check records discharged when ok, violated otherwise.
func (r *Result) Check(ok bool, rule, construct, pos, okMsg, badMsg string) bool {
	if ok {
		r.OK(rule, construct, pos, "%s", okMsg)
	} else {
		r.Bad(rule, construct, pos, "%s", badMsg)
	}
	return ok
}

// Floor records an undecided obligation when fewer than min instances of a rule were found.
func (r *Result) Floor(rule string, got, min int, what string) {
	if got < min {
		r.Unk(rule, "floor:"+what, "-", "only %d instance(s) of %s found, %d confirmed by hand on the pinned tree: the rule would pass vacuously", got, what, min)
	} else {
		r.OK(rule, "floor:"+what, "-", "%d instance(s) of %s (floor %d)", got, what, min)
	}
}

// KnownFinding is one entry of /verif/known_findings.json.
type KnownFinding struct {
	Status    string `json:"status"` // "known" or "fixed"
	Property  string `json:"property"`
	Rule      string `json:"rule"`
	Construct string `json:"construct"`
	What      string `json:"what"`
	Commit    string `json:"commit,omitempty"`
	Line      string `json:"line,omitempty"` // the textual "fixed: property=.. <commit> <what>" form
}

type KnownFile struct {
	Comment  string         `json:"comment"`
	Findings []KnownFinding `json:"findings"`
}

func LoadKnown(path string) (*KnownFile, error) {
	b, err := os.ReadFile(path)
	if err != nil {
		if os.IsNotExist(err) {
			return &KnownFile{}, nil
		}
		return nil, err
	}
	var k KnownFile
	if err := json.Unmarshal(b, &k); err != nil {
		return nil, err
	}
	return &k, nil
}

// Finish prints the report, writes evidence and the violations file, and returns the exit code.
func (r *Result) Finish(verifDir, tier string, seed int64, wall float64, known *KnownFile, extra map[string]any) int {
	// vacuity guard over the whole rule list: every rule the property declares as decided must have produced at least
	// one obligation (of any status) - a rule that matched nothing passes vacuously and says so here instead
	if len(r.Obls) > 0 || len(r.Decided) > 0 {
		have := map[string]bool{}
		for _, o := range r.Obls {
			have[o.Rule] = true
		}
		aborted := have["R0.panic"] || have["R0.load"]
		for _, d := range r.Decided {
			head := d
			if i := strings.IndexByte(d, ' '); i > 0 {
				head = d[:i]
			}
			for _, id := range strings.Split(head, "/") {
				if len(id) < 2 || id[0] != 'R' || have[id] || aborted {
					continue
				}
				// some other obligation of the same rule family counts when the model could not be built (R1.0 etc.)
				r.Unk(id, "rule#no-obligation", "-", "the rule is declared as decided but produced no obligation on this tree: nothing it looks for was found, so it would pass vacuously")
			}
		}
	}
	sort.SliceStable(r.Obls, func(i, j int) bool {
		a, b := r.Obls[i], r.Obls[j]
		if a.Rule != b.Rule {
			return a.Rule < b.Rule
		}
		return a.Construct < b.Construct
	})
	isKnown := func(o Obligation) *KnownFinding {
		if o.Status != Violated {
			return nil
		}
		for i := range known.Findings {
			k := &known.Findings[i]
			if k.Status == "known" && k.Property == o.Property && k.Rule == o.Rule && k.Construct == o.Construct {
				return k
			}
		}
		return nil
	}
	var open, knownHits []Obligation
	discharged, total, infos := 0, 0, 0
	constructs := map[string]bool{}
	for _, o := range r.Obls {
		if o.Status == Info {
			infos++
			continue
		}
		total++
		constructs[o.Rule+"|"+o.Construct] = true
		switch o.Status {
		case Discharged:
			discharged++
		case Violated, Undecided:
			if k := isKnown(o); k != nil {
				knownHits = append(knownHits, o)
				fmt.Printf("KNOWN-FINDING: property=%s %s %s: %s\n", o.Property, o.Rule, o.Construct, k.What)
			} else {
				open = append(open, o)
			}
		}
	}
	evDir := filepath.Join(verifDir, "evidence")
	os.MkdirAll(evDir, 0o755)
	violPath := filepath.Join(evDir, r.Property+".violations.txt")
	os.Remove(violPath)

	fmt.Printf("dawnlint property=%s tier=%s obligations=%d discharged=%d known=%d open=%d info=%d\n", r.Property, tier, total, discharged, len(knownHits), len(open), infos)
	byRule := map[string][3]int{}
	for _, o := range r.Obls {
		c := byRule[o.Rule]
		switch o.Status {
		case Discharged:
			c[0]++
		case Violated, Undecided:
			c[1]++
		case Info:
			c[2]++
		}
		byRule[o.Rule] = c
	}
	var rules []string
	for k := range byRule {
		rules = append(rules, k)
	}
	sort.Strings(rules)
	for _, k := range rules {
		c := byRule[k]
		fmt.Printf("  rule %-8s discharged=%d open-or-known=%d info=%d\n", k, c[0], c[1], c[2])
	}
	if len(open) > 0 {
		var sb strings.Builder
		for _, o := range open {
			line := fmt.Sprintf("%s %s %s [%s] %s: %s\n", o.Property, o.Rule, o.Status, o.Pos, o.Construct, o.Detail)
			sb.WriteString(line)
			fmt.Print("  OPEN ", line)
		}
		os.WriteFile(violPath, []byte(sb.String()), 0o644)
	}

	// evidence
	samples := []any{}
	addSample := func(o Obligation) {
		if len(samples) < 14 {
			samples = append(samples, o)
		}
	}
	for _, o := range open {
		addSample(o)
	}
	for _, o := range knownHits {
		addSample(o)
	}
	seenRule := map[string]int{}
	for _, o := range r.Obls {
		if o.Status == Discharged && !strings.HasPrefix(o.Construct, "floor:") && seenRule[o.Rule] < 1 {
			seenRule[o.Rule]++
			addSample(o)
		}
	}
	expl := "Static analysis of /repo's current source (go/packages + go/ssa; no code of dawn is executed). " +
		"DECIDED (structural necessary conditions, on every path of the code): " + strings.Join(r.Decided, " | ") +
		". NOT DECIDED (behavioural; outside static reach): " + strings.Join(r.NotDecided, " | ") + "."
	cov := map[string]any{
		"explanation":         expl,
		"obligations":         total,
		"discharged":          discharged,
		"known_findings":      len(knownHits),
		"open":                len(open),
		"info":                infos,
		"evaluations":         total,
		"distinct_nontrivial": len(constructs),
		"rule":                "one obligation per (rule, construct) instance found in the SSA/AST of the current tree; distinct = distinct (rule, construct) keys",
		"samples":             samples,
		"trusted_base":        append([]string{"go/types and go/ssa (x/tools v0.29.0)", "sync.Mutex/Cond/RWMutex/Map and os.Rename semantics"}, r.Trusted...),
		"checker_cmd":         fmt.Sprintf("/verif/run.sh %s %s", r.Property, tier),
		"analysed":            r.Analysed,
		"per_rule":            byRule,
		"exhaustive":          false,
	}
	for k, v := range extra {
		cov[k] = v
	}
	assumptions := append([]string{"the analysed source is what gets built (go list ./... of /repo with default tags; thorough tier adds windows, darwin, 386)", "standard-library synchronisation, file-system and regexp primitives behave as documented"}, r.Assumptions...)
	ev := map[string]any{
		"property_id": r.Property,
		"tier":        tier,
		"seed":        seed,
		"level":       "other",
		"coverage":    cov,
		"assumptions": assumptions,
		"wall_s":      wall,
		"violations":  len(open),
	}
	b, _ := json.MarshalIndent(ev, "", " ")
	if err := os.WriteFile(filepath.Join(evDir, r.Property+".json"), b, 0o644); err != nil {
		fmt.Printf("cannot write evidence: %v\n", err)
		return 2
	}
	if len(open) > 0 {
		fmt.Printf("VIOLATION property=%s replay=%s\n", r.Property, violPath)
		return 1
	}
	return 0
}

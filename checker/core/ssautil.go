package core

import (
	"fmt"
	"go/constant"
	"go/token"
	"go/types"
	"strings"

	"golang.org/x/tools/go/ssa"
)

// ---------- iteration helpers ----------

// Instrs calls f for every instruction of fn.
func Instrs(fn *ssa.Function, f func(ssa.Instruction)) {
	for _, b := range fn.Blocks {
		for _, in := range b.Instrs {
			f(in)
		}
	}
}

// WithAnons returns fn and all functions lexically nested in it.
func WithAnons(fn *ssa.Function) []*ssa.Function {
	out := []*ssa.Function{fn}
	for _, a := range fn.AnonFuncs {
		out = append(out, WithAnons(a)...)
	}
	return out
}

// Index of an instruction in its block.
func Index(in ssa.Instruction) int {
	for i, o := range in.Block().Instrs {
		if o == in {
			return i
		}
	}
	return -1
}

// Dominates reports whether instruction a is executed before b on every path to b.
func Dominates(a, b ssa.Instruction) bool {
	if a.Parent() != b.Parent() {
		return false
	}
	if a.Block() == b.Block() {
		return Index(a) < Index(b)
	}
	return a.Block().Dominates(b.Block())
}

// ---------- callee resolution ----------

// Callee returns the static callee of a call instruction (following closures made in the same
// function: `t1 = make closure f$1 [...]; t1()` and `defer t1()`), or nil.
func Callee(c ssa.CallInstruction) *ssa.Function {
	// a nil *ssa.Call (a failed type assertion handed on) has no callee
	switch x := c.(type) {
	case nil:
		return nil
	case *ssa.Call:
		if x == nil {
			return nil
		}
	case *ssa.Go:
		if x == nil {
			return nil
		}
	case *ssa.Defer:
		if x == nil {
			return nil
		}
	}
	cc := c.Common()
	if cc.IsInvoke() {
		return nil
	}
	if f := cc.StaticCallee(); f != nil {
		return f
	}
	v := Unwrap(cc.Value)
	// a closure handed out by a function of the module: `pred, err := newPredicate(...); pred(x)` - when every
	// return of that function yields a closure over the same function, that function is the callee
	if fn := closureResultOf(v, 0); fn != nil {
		return fn
	}
	switch v := v.(type) {
	case *ssa.MakeClosure:
		if f, ok := v.Fn.(*ssa.Function); ok {
			return f
		}
	case *ssa.Function:
		return v
	}
	return nil
}

// Unwrap resolves loads of single-assignment local cells (spilled captured variables) and
// interface/type changes to the underlying value.
func Unwrap(v ssa.Value) ssa.Value {
	for i := 0; i < 20; i++ {
		switch x := v.(type) {
		case *ssa.ChangeInterface:
			v = x.X
		case *ssa.ChangeType:
			v = x.X
		case *ssa.MakeInterface:
			v = x.X
		case *ssa.UnOp:
			if x.Op != token.MUL {
				return v
			}
			if s := SingleStore(x.X); s != nil {
				v = s
			} else {
				return v
			}
		default:
			return v
		}
	}
	return v
}

// SingleStore returns the unique value stored into the cell addr (an *ssa.Alloc or a FreeVar
// bound to one), or nil when there is not exactly one store.
func SingleStore(addr ssa.Value) ssa.Value {
	switch a := addr.(type) {
	case *ssa.Alloc:
		var stored ssa.Value
		n := 0
		for _, fn := range WithAnons(a.Parent()) {
			Instrs(fn, func(in ssa.Instruction) {
				if st, ok := in.(*ssa.Store); ok {
					if st.Addr == a || boundTo(st.Addr, a) {
						stored = st.Val
						n++
					}
				}
			})
		}
		if n == 1 {
			return stored
		}
	case *ssa.FreeVar:
		if b := Binding(a); b != nil {
			return SingleStore(b)
		}
	}
	return nil
}

// boundTo: v is a FreeVar whose binding in the (unique) MakeClosure is the alloc a.
func boundTo(v ssa.Value, a *ssa.Alloc) bool {
	fv, ok := v.(*ssa.FreeVar)
	if !ok {
		return false
	}
	return Binding(fv) == ssa.Value(a)
}

// Binding returns the value bound to free variable fv at the (unique) MakeClosure site of its function.
func Binding(fv *ssa.FreeVar) ssa.Value {
	fn := fv.Parent()
	parent := fn.Parent()
	if parent == nil {
		return nil
	}
	idx := -1
	for i, f := range fn.FreeVars {
		if f == fv {
			idx = i
		}
	}
	var res ssa.Value
	n := 0
	Instrs(parent, func(in ssa.Instruction) {
		if mc, ok := in.(*ssa.MakeClosure); ok && mc.Fn == fn && idx < len(mc.Bindings) {
			res = mc.Bindings[idx]
			n++
		}
	})
	if n == 1 {
		return res
	}
	return nil
}

// ---------- access paths ----------

// Path renders a canonical access path for an address or value: parameters by index, free
// variables resolved through their closure binding, single-store cells resolved, fields by name.
// Values that cannot be canonicalised get a unique name "?tN".
func Path(v ssa.Value) string {
	return path(v, 0)
}

func path(v ssa.Value, d int) string {
	if d > 12 {
		return "?deep"
	}
	switch x := v.(type) {
	case *ssa.Parameter:
		for i, p := range x.Parent().Params {
			if p == x {
				return fmt.Sprintf("%s.p%d", x.Parent().String(), i)
			}
		}
	case *ssa.FreeVar:
		if b := Binding(x); b != nil {
			return path(b, d+1)
		}
		return "?fv:" + x.Name()
	case *ssa.FieldAddr:
		return path(x.X, d+1) + "." + fieldName(x.X.Type(), x.Field)
	case *ssa.Field:
		return path(x.X, d+1) + "." + fieldNameStruct(x.X.Type(), x.Field)
	case *ssa.UnOp:
		if x.Op == token.MUL {
			if s := SingleStore(x.X); s != nil {
				return path(s, d+1)
			}
			return path(x.X, d+1) // load of a field address: path of the address names the field
		}
	case *ssa.Alloc:
		if s := SingleStore(x); s != nil && !x.Heap {
			return path(s, d+1)
		}
		return fmt.Sprintf("%s.alloc@%s", x.Parent().String(), x.Name()) // register names are unique per function, not per closure family
	case *ssa.ChangeInterface:
		return path(x.X, d+1)
	case *ssa.ChangeType:
		return path(x.X, d+1)
	case *ssa.MakeInterface:
		return path(x.X, d+1)
	case *ssa.Global:
		return "global:" + x.String()
	case *ssa.Phi, *ssa.Call, *ssa.Extract, *ssa.TypeAssert, *ssa.Lookup, *ssa.IndexAddr, *ssa.Index, *ssa.Next:
		return fmt.Sprintf("%s.%s", v.Parent().String(), v.Name())
	}
	if v.Parent() != nil {
		return fmt.Sprintf("%s.%s", v.Parent().String(), v.Name())
	}
	return "?" + v.Name()
}

func fnKey(fn *ssa.Function) string {
	// closures share the key space of their outermost parent so that paths unify
	for fn.Parent() != nil {
		fn = fn.Parent()
	}
	return fn.String()
}

func fieldName(ptrT types.Type, i int) string {
	if pt, ok := ptrT.Underlying().(*types.Pointer); ok {
		return fieldNameStruct(pt.Elem(), i)
	}
	return fmt.Sprintf("f%d", i)
}

// fieldAlias maps "import path.Type.currentName" -> frozen name for struct fields that were renamed: the frozen
// table knows a field of that struct that no longer exists, and exactly one field of the same type carries a name the
// table does not know. Rules keep using the frozen names.
var fieldAlias = map[string]string{}
var fieldAliasDone = map[string]bool{}

func canonicalFieldName(t types.Type, name string) string {
	n, ok := t.(*types.Named)
	if !ok || n.Obj().Pkg() == nil {
		return name
	}
	st, ok := n.Underlying().(*types.Struct)
	if !ok {
		return name
	}
	prefix := n.Obj().Pkg().Path() + "." + n.Obj().Name() + "."
	if !fieldAliasDone[prefix] {
		fieldAliasDone[prefix] = true
		current := map[string]string{}
		for i := 0; i < st.NumFields(); i++ {
			current[st.Field(i).Name()] = types.TypeString(st.Field(i).Type(), nil)
		}
		for k, ft := range FrozenFields {
			if !strings.HasPrefix(k, prefix) {
				continue
			}
			old := strings.TrimPrefix(k, prefix)
			if strings.Contains(old, ".") {
				continue
			}
			if _, still := current[old]; still {
				continue
			}
			var cands []string
			for cn, ct := range current {
				if _, known := FrozenFields[prefix+cn]; !known && ct == ft {
					cands = append(cands, cn)
				}
			}
			if len(cands) == 1 {
				fieldAlias[prefix+cands[0]] = old
			}
		}
	}
	if old, ok := fieldAlias[prefix+name]; ok {
		return old
	}
	return name
}

func fieldNameStruct(t types.Type, i int) string {
	if st, ok := t.Underlying().(*types.Struct); ok && i < st.NumFields() {
		return canonicalFieldName(t, st.Field(i).Name())
	}
	return fmt.Sprintf("f%d", i)
}

// FieldOf returns (struct named type name with package, field name) for a FieldAddr/Field, or "".
func FieldOf(v ssa.Value) (owner *types.Named, field string) {
	switch x := v.(type) {
	case *ssa.FieldAddr:
		t := x.X.Type()
		if pt, ok := t.Underlying().(*types.Pointer); ok {
			t = pt.Elem()
		}
		n, _ := t.(*types.Named)
		return n, fieldNameStruct(t, x.Field)
	case *ssa.Field:
		n, _ := x.X.Type().(*types.Named)
		return n, fieldNameStruct(x.X.Type(), x.Field)
	}
	return nil, ""
}

// IsField reports whether v is an address-of or a read of field `field` of named struct type
// `typ` declared in package path pkg.
func IsField(v ssa.Value, pkg, typ, field string) bool {
	n, f := FieldOf(v)
	if n == nil || f != field {
		return false
	}
	return n.Obj().Name() == typ && n.Obj().Pkg() != nil && n.Obj().Pkg().Path() == pkg
}

// LoadOfField: v is `*(&x.field)` or `x.field` of the given struct.
func LoadOfField(v ssa.Value, pkg, typ, field string) bool {
	switch x := v.(type) {
	case *ssa.UnOp:
		return x.Op == token.MUL && IsField(x.X, pkg, typ, field)
	case *ssa.Field:
		return IsField(x, pkg, typ, field)
	}
	return false
}

// ---------- calls of interest ----------

// MethodCall describes a call to a method, static or invoke.
type MethodCall struct {
	Instr    ssa.CallInstruction
	RecvPkg  string // package path of receiver's named type (or interface's)
	RecvType string // name of receiver's named type (generic origin name)
	Method   string
	Recv     ssa.Value // receiver value (address for pointer receivers)
	Invoke   bool
}

// AsMethodCall classifies c as a method call when it is one.
func AsMethodCall(c ssa.CallInstruction) (MethodCall, bool) {
	cc := c.Common()
	if cc.IsInvoke() {
		mc := MethodCall{Instr: c, Method: cc.Method.Name(), Recv: cc.Value, Invoke: true}
		if n, ok := cc.Value.Type().(*types.Named); ok {
			mc.RecvType = n.Obj().Name()
			if n.Obj().Pkg() != nil {
				mc.RecvPkg = n.Obj().Pkg().Path()
			}
		} else {
			mc.RecvType = cc.Value.Type().String()
		}
		return mc, true
	}
	f := Callee(c)
	if f == nil {
		return MethodCall{}, false
	}
	if o := f.Origin(); o != nil {
		f = o
	}
	sig := f.Signature
	if sig.Recv() == nil {
		return MethodCall{}, false
	}
	rt := sig.Recv().Type()
	if pt, ok := rt.(*types.Pointer); ok {
		rt = pt.Elem()
	}
	n, ok := rt.(*types.Named)
	if !ok {
		return MethodCall{}, false
	}
	mc := MethodCall{Instr: c, Method: f.Name(), RecvType: n.Obj().Name()}
	if n.Obj().Pkg() != nil {
		mc.RecvPkg = n.Obj().Pkg().Path()
	}
	if len(cc.Args) > 0 {
		mc.Recv = cc.Args[0]
	}
	return mc, true
}

// IsCallTo reports whether c statically calls the package-level function pkg.name.
func IsCallTo(c ssa.CallInstruction, pkg, name string) bool {
	f := Callee(c)
	if f == nil {
		return false
	}
	if o := f.Origin(); o != nil {
		f = o
	}
	if f.Signature.Recv() != nil {
		return false
	}
	obj := f.Object()
	if obj == nil || obj.Pkg() == nil {
		return false
	}
	return obj.Pkg().Path() == pkg && obj.Name() == name
}

// IsMethod reports whether c calls method pkg.(typ).name (static or invoke on an interface named typ).
func IsMethod(c ssa.CallInstruction, pkg, typ, name string) bool {
	mc, ok := AsMethodCall(c)
	return ok && mc.RecvPkg == pkg && mc.RecvType == typ && mc.Method == name
}

// Calls lists all call instructions (call, go, defer) of fn.
func Calls(fn *ssa.Function) []ssa.CallInstruction {
	var out []ssa.CallInstruction
	Instrs(fn, func(in ssa.Instruction) {
		if c, ok := in.(ssa.CallInstruction); ok {
			out = append(out, c)
		}
	})
	return out
}

// CallsTo lists call instructions of fn whose static callee is target.
func CallsTo(fn *ssa.Function, target *ssa.Function) []ssa.CallInstruction {
	var out []ssa.CallInstruction
	for _, c := range Calls(fn) {
		if Callee(c) == target {
			out = append(out, c)
		}
	}
	return out
}

// StaticCallers returns all call sites in module functions that statically call target
// (including go/defer and calls through locally made closures).
func (p *Prog) StaticCallers(target *ssa.Function) []ssa.CallInstruction {
	if p.callersOf == nil {
		p.callersOf = map[*ssa.Function][]ssa.CallInstruction{}
		for _, fn := range p.ModuleFuncs() {
			for _, c := range Calls(fn) {
				if f := Callee(c); f != nil {
					p.callersOf[f] = append(p.callersOf[f], c)
				}
			}
		}
	}
	return p.callersOf[target]
}

// FuncValueUses lists instructions in the module that use fn as a value other than as the
// callee of a direct call (method values, function arguments, stores) — such uses defeat
// who-may-call rules and are reported by them.
func (p *Prog) FuncValueUses(target *ssa.Function) []ssa.Instruction {
	var out []ssa.Instruction
	for _, fn := range p.ModuleFuncs() {
		Instrs(fn, func(in ssa.Instruction) {
			var ops []*ssa.Value
			ops = in.Operands(ops)
			for i, op := range ops {
				if *op != ssa.Value(target) {
					continue
				}
				if c, ok := in.(ssa.CallInstruction); ok && i == 0 && c.Common().Value == *op && !c.Common().IsInvoke() {
					continue // direct callee position
				}
				if mc, ok := in.(*ssa.MakeClosure); ok && mc.Fn == *op {
					// closure creation: treated as a value use unless it is only called locally
					onlyCalled := true
					for _, r := range *mc.Referrers() {
						if c, ok := r.(ssa.CallInstruction); !ok || c.Common().Value != ssa.Value(mc) {
							onlyCalled = false
						}
					}
					if onlyCalled {
						continue
					}
				}
				out = append(out, in)
			}
		})
	}
	return out
}

// ---------- constants ----------

func ConstString(v ssa.Value) (string, bool) {
	v = Unwrap(v)
	if c, ok := v.(*ssa.Const); ok && c.Value != nil && c.Value.Kind() == constant.String {
		return constant.StringVal(c.Value), true
	}
	if cv, ok := v.(*ssa.Convert); ok {
		return ConstString(cv.X)
	}
	return "", false
}

func ConstInt(v ssa.Value) (int64, bool) {
	v = Unwrap(v)
	if cv, ok := v.(*ssa.Convert); ok {
		return ConstInt(cv.X)
	}
	if c, ok := v.(*ssa.Const); ok && c.Value != nil && c.Value.Kind() == constant.Int {
		i, exact := constant.Int64Val(c.Value)
		return i, exact
	}
	return 0, false
}

func ConstBool(v ssa.Value) (bool, bool) {
	v = Unwrap(v)
	if c, ok := v.(*ssa.Const); ok && c.Value != nil && c.Value.Kind() == constant.Bool {
		return constant.BoolVal(c.Value), true
	}
	return false, false
}

func IsNilConst(v ssa.Value) bool {
	c, ok := v.(*ssa.Const)
	return ok && c.Value == nil
}

// ---------- must-facts: conditions that hold on every path to a block ----------

// Fact: SSA boolean value Cond had the given truth value the last time it was computed.
type Fact struct {
	Cond ssa.Value
	Val  bool
}

type FactSet map[Fact]bool

// Facts computes, for every block of fn, the set of branch conditions that necessarily hold on
// entry (forward must-analysis; facts about a value are killed when its defining block is re-entered).
func (p *Prog) Facts(fn *ssa.Function) map[*ssa.BasicBlock]FactSet {
	if p.facts == nil {
		p.facts = map[*ssa.Function]map[*ssa.BasicBlock]FactSet{}
	}
	if f, ok := p.facts[fn]; ok {
		return f
	}
	in := map[*ssa.BasicBlock]FactSet{}
	// nil = top (unvisited)
	if len(fn.Blocks) == 0 {
		return in
	}
	in[fn.Blocks[0]] = FactSet{}
	var outFn func(b *ssa.BasicBlock, succIdx int, depth int) FactSet
	outFn = func(b *ssa.BasicBlock, succIdx int, depth int) FactSet {
		s := FactSet{}
		for f := range in[b] {
			if vb := defBlock(f.Cond); vb == b {
				continue // recomputed in b
			}
			s[f] = true
		}
		if len(b.Instrs) > 0 {
			if iff, ok := b.Instrs[len(b.Instrs)-1].(*ssa.If); ok && b.Succs[0] != b.Succs[1] {
				addCond(s, iff.Cond, succIdx == 0)
				// short-circuit conditions (`a && b`, `a || b`) are phis of a boolean constant and the
				// last operand: when the phi's value excludes all but one incoming edge, everything
				// known on that edge holds too.
				if phi, ok := iff.Cond.(*ssa.Phi); ok && phi.Block() == b && depth < 6 {
					val := succIdx == 0
					cand := -1
					n := 0
					for i, e := range phi.Edges {
						if c, isConst := ConstBool(e); isConst && c != val {
							continue
						}
						cand = i
						n++
					}
					if n == 1 && cand < len(b.Preds) {
						pred := b.Preds[cand]
						if in[pred] != nil {
							for si, sb := range pred.Succs {
								if sb == b {
									for f := range outFn(pred, si, depth+1) {
										if vb := defBlock(f.Cond); vb == b {
											continue
										}
										s[f] = true
									}
								}
							}
						}
						if _, isConst := phi.Edges[cand].(*ssa.Const); !isConst {
							addCond(s, phi.Edges[cand], val)
						}
					}
				}
			}
		}
		return s
	}
	out := func(b *ssa.BasicBlock, succIdx int) FactSet { return outFn(b, succIdx, 0) }
	changed := true
	for iter := 0; changed && iter < 1000; iter++ {
		changed = false
		for _, b := range fn.Blocks {
			if b == fn.Blocks[0] {
				continue
			}
			var acc FactSet
			for _, pr := range b.Preds {
				if in[pr] == nil {
					continue // top
				}
				for si, s := range pr.Succs {
					if s != b {
						continue
					}
					o := out(pr, si)
					if acc == nil {
						acc = o
					} else {
						for f := range acc {
							if !o[f] {
								delete(acc, f)
							}
						}
					}
				}
			}
			if acc == nil {
				continue
			}
			if !sameFacts(in[b], acc) {
				in[b] = acc
				changed = true
			}
		}
	}
	p.facts[fn] = in
	if p.edgeOut == nil {
		p.edgeOut = map[*ssa.Function]func(*ssa.BasicBlock, int) FactSet{}
	}
	p.edgeOut[fn] = out
	return in
}

// EdgeFacts returns the facts that hold when control flows along the edge pred -> pred.Succs[succIdx].
func (p *Prog) EdgeFacts(pred *ssa.BasicBlock, succIdx int) FactSet {
	fn := pred.Parent()
	p.Facts(fn)
	if f := p.edgeOut[fn]; f != nil {
		return f(pred, succIdx)
	}
	return FactSet{}
}

// PhiEdgeFacts returns, for each incoming edge of phi, the facts that hold on that edge.
func (p *Prog) PhiEdgeFacts(phi *ssa.Phi) []FactSet {
	b := phi.Block()
	out := make([]FactSet, len(phi.Edges))
	used := map[*ssa.BasicBlock]int{}
	for i, pred := range b.Preds {
		// the i-th predecessor may reach b through several successor slots; take them in order
		n := used[pred]
		k := 0
		for si, s := range pred.Succs {
			if s == b {
				if k == n {
					out[i] = p.EdgeFacts(pred, si)
				}
				k++
			}
		}
		used[pred]++
	}
	return out
}

func defBlock(v ssa.Value) *ssa.BasicBlock {
	if in, ok := v.(ssa.Instruction); ok {
		return in.Block()
	}
	return nil
}

func sameFacts(a, b FactSet) bool {
	if a == nil || len(a) != len(b) {
		return false
	}
	for f := range a {
		if !b[f] {
			return false
		}
	}
	return true
}

// addCond records cond==val, decomposing negations.
func addCond(s FactSet, cond ssa.Value, val bool) {
	s[Fact{cond, val}] = true
	if u, ok := cond.(*ssa.UnOp); ok && u.Op == token.NOT {
		addCond(s, u.X, !val)
	}
}

// FactsAt returns the facts that hold just before instruction in (block-entry facts, refined: a short-circuit
// phi whose remaining candidate edges are narrowed to one by other known facts contributes that edge's facts).
func (p *Prog) FactsAt(in ssa.Instruction) FactSet {
	fn := in.Parent()
	base := p.Facts(fn)[in.Block()]
	if p.refined == nil {
		p.refined = map[*ssa.BasicBlock]FactSet{}
	}
	if r, ok := p.refined[in.Block()]; ok {
		return r
	}
	// a function that is entered only through one call site inherits the facts that hold at that site: they are
	// about SSA values of the caller, which do not change while the callee runs
	if site, ok := p.context[fn]; ok && site.Parent() != fn {
		merged := FactSet{}
		for f := range base {
			merged[f] = true
		}
		for f := range p.FactsAt(site) {
			merged[f] = true
		}
		base = merged
	}
	r := p.RefineFacts(base)
	p.refined[in.Block()] = r
	return r
}

// SetContext declares that fn is entered only through the call instruction site (the caller checks this: one
// static caller, no use as a value): facts at the site then hold throughout fn. Must be called before facts of fn
// are asked for.
func (p *Prog) SetContext(fn *ssa.Function, site ssa.Instruction) {
	if p.context == nil {
		p.context = map[*ssa.Function]ssa.Instruction{}
	}
	if old, ok := p.context[fn]; ok && old == site {
		return
	}
	p.context[fn] = site
	for _, b := range fn.Blocks {
		delete(p.refined, b)
	}
}

// ContextSite returns the call site registered for fn with SetContext, or nil.
func (p *Prog) ContextSite(fn *ssa.Function) ssa.Instruction { return p.context[fn] }

// DominatesX is Dominates across a registered calling context: an instruction of the caller that dominates the call
// site dominates everything in the callee; an instruction of the callee that dominates all of the callee's returns
// dominates what the call site dominates in the caller.
func (p *Prog) DominatesX(a, b ssa.Instruction) bool {
	if a.Parent() == b.Parent() {
		return Dominates(a, b)
	}
	if site := p.context[b.Parent()]; site != nil && site.Parent() == a.Parent() {
		return Dominates(a, site)
	}
	if site := p.context[a.Parent()]; site != nil && site.Parent() == b.Parent() {
		for _, ret := range ReturnsOf(a.Parent()) {
			if !Dominates(a, ret) {
				return false
			}
		}
		return Dominates(site, b)
	}
	return false
}

// RefineFacts closes a fact set under: (phi, val) with exactly one incoming edge consistent with the set => the
// facts of that edge (and the edge's value having value val).
func (p *Prog) RefineFacts(fs FactSet) FactSet {
	if fs == nil {
		return fs
	}
	out := FactSet{}
	for f := range fs {
		out[f] = true
	}
	// go/ssa performs no common-subexpression elimination: `v == ""` evaluated twice yields two values. Pure
	// comparisons over identical operands are identified by a structural key for contradiction tests.
	known := func(c ssa.Value, val bool) bool {
		if out[Fact{c, val}] {
			return true
		}
		k := pureKey(c)
		if k == "" {
			return false
		}
		for f := range out {
			if f.Val == val && pureKey(f.Cond) == k {
				return true
			}
		}
		return false
	}
	for iter := 0; iter < 4; iter++ {
		changed := false
		for f := range out {
			phi, ok := f.Cond.(*ssa.Phi)
			if !ok {
				continue
			}
			efs := p.PhiEdgeFacts(phi)
			cand, n := -1, 0
			for i, e := range phi.Edges {
				if c, isConst := ConstBool(e); isConst && c != f.Val {
					continue
				}
				contradicted := false
				if _, isConst := e.(*ssa.Const); !isConst && known(e, !f.Val) {
					contradicted = true
				}
				for ef := range efs[i] {
					if known(ef.Cond, !ef.Val) {
						contradicted = true
					}
				}
				if contradicted {
					continue
				}
				cand = i
				n++
			}
			if n != 1 {
				continue
			}
			add := FactSet{}
			for ef := range efs[cand] {
				add[ef] = true
			}
			if _, isConst := phi.Edges[cand].(*ssa.Const); !isConst {
				addCond(add, phi.Edges[cand], f.Val)
			}
			for a := range add {
				if !out[a] {
					out[a] = true
					changed = true
				}
			}
		}
		if !changed {
			break
		}
	}
	return out
}

// HoldsCmp reports whether facts imply a comparison `x op y` identified by pred having value val.
func (fs FactSet) Find(pred func(cond ssa.Value, val bool) bool) bool {
	for f := range fs {
		if pred(f.Cond, f.Val) {
			return true
		}
	}
	return false
}

// ErrNilEdge: facts contain "v != nil" == want (i.e. the block is on the error edge of v when want is true).
// Recognises `v != nil` and `v == nil` comparisons on v (after Unwrap).
func (fs FactSet) ErrNonNil(v ssa.Value) (nonNil bool, known bool) {
	for f := range fs {
		b, ok := f.Cond.(*ssa.BinOp)
		if !ok || (b.Op != token.NEQ && b.Op != token.EQL) {
			continue
		}
		var other ssa.Value
		if sameValue(b.X, v) {
			other = b.Y
		} else if sameValue(b.Y, v) {
			other = b.X
		} else {
			continue
		}
		if !IsNilConst(other) {
			continue
		}
		if b.Op == token.NEQ {
			return f.Val, true
		}
		return !f.Val, true
	}
	return false, false
}

func sameValue(a, b ssa.Value) bool {
	return a == b || Unwrap(a) == Unwrap(b)
}

// ---------- generic backward slice ----------

// SliceOpts controls BackwardSlice.
type SliceOpts struct {
	// ThroughCall decides whether the slice continues into the arguments of a call whose result
	// is in the slice. nil = never.
	ThroughCall func(c *ssa.Call) bool
	// Stop: do not expand operands of this value (it is still included).
	Stop func(v ssa.Value) bool
	// IntoFields: follow loads of fields/cells to the values stored in them within the same function.
	Stores bool
	// Helpers: a static call of an in-module function (not otherwise followed) is followed into exactly those
	// arguments whose parameters the function's results data-depend on (two levels of calls).
	Helpers bool
	depth   int
}

// ParamsReachingResult: the indices of the parameters of the in-module function cal on which one of its results
// data-depends (receiver included as index 0 for methods, as in cal.Params).
func ParamsReachingResult(cal *ssa.Function, o SliceOpts) map[int]bool {
	out := map[int]bool{}
	if cal == nil || cal.Blocks == nil {
		return out
	}
	o.depth++
	o.Stores = true
	for _, ret := range ReturnsOf(cal) {
		for _, rv := range RetVals(ret) {
			for x := range BackwardSlice(rv, o) {
				if prm, ok := x.(*ssa.Parameter); ok {
					for i, q := range cal.Params {
						if q == prm {
							out[i] = true
						}
					}
				}
			}
		}
	}
	return out
}

// BackwardSlice returns the set of values on which v data-depends (intraprocedurally).
func BackwardSlice(v ssa.Value, o SliceOpts) map[ssa.Value]bool {
	seen := map[ssa.Value]bool{}
	var visit func(v ssa.Value)
	visit = func(v ssa.Value) {
		if v == nil || seen[v] {
			return
		}
		seen[v] = true
		if o.Stop != nil && o.Stop(v) {
			return
		}
		switch x := v.(type) {
		case *ssa.FreeVar:
			if b := Binding(x); b != nil {
				visit(b)
			}
			return
		case *ssa.Alloc:
			if o.Stores {
				// composite literals and variadic argument arrays: what is stored into the cell or its elements
				// stores into the cell, its elements and fields (nested: an array of structs built by a literal)
				var stores func(addr ssa.Value, depth int)
				stores = func(addr ssa.Value, depth int) {
					refs := addr.Referrers()
					if refs == nil || depth > 3 {
						return
					}
					for _, ref := range *refs {
						switch a := ref.(type) {
						case *ssa.Store:
							if a.Addr == addr {
								visit(a.Val)
							}
						case *ssa.IndexAddr:
							if a.X == addr {
								stores(a, depth+1)
							}
						case *ssa.FieldAddr:
							if a.X == addr {
								stores(a, depth+1)
							}
						}
					}
				}
				stores(x, 0)
			}
			return
		case *ssa.Call:
			if _, isBuiltin := x.Call.Value.(*ssa.Builtin); isBuiltin {
				// len, cap, append, copy, min, max …: pure operators over their arguments
				for _, a := range x.Call.Args {
					visit(a)
				}
				return
			}
			if o.ThroughCall != nil && o.ThroughCall(x) {
				for _, a := range x.Call.Args {
					visit(a)
				}
				if x.Call.IsInvoke() {
					visit(x.Call.Value)
				}
			} else if cal := Callee(x); o.Helpers && o.depth < 2 && cal != nil && InModule(cal) && cal.Blocks != nil {
				reach := ParamsReachingResult(cal, o)
				for i, a := range x.Call.Args {
					if reach[i] {
						visit(a)
					}
				}
			}
			return
		case *ssa.UnOp:
			if x.Op == token.MUL && o.Stores {
				// load: follow stores to the same address value / same cell within the function family
				addr := x.X
				visit(addr)
				for _, fn := range WithAnons(outer(x.Parent())) {
					Instrs(fn, func(in ssa.Instruction) {
						if st, ok := in.(*ssa.Store); ok && sameAddr(st.Addr, addr) {
							visit(st.Val)
						}
					})
				}
				return
			}
		}
		if in, ok := v.(ssa.Instruction); ok {
			var ops []*ssa.Value
			for _, op := range in.Operands(ops) {
				if *op != nil {
					visit(*op)
				}
			}
		}
	}
	visit(v)
	return seen
}

func outer(fn *ssa.Function) *ssa.Function {
	for fn.Parent() != nil {
		fn = fn.Parent()
	}
	return fn
}

func sameAddr(a, b ssa.Value) bool {
	if a == b {
		return true
	}
	pa, pb := Path(a), Path(b)
	return pa == pb && !strings.Contains(pa, "?")
}

// closureResultOf: v is (a load of a cell holding / a captured variable bound to) a result of a call of a module function
// all of whose returns yield, at that position, a closure over one and the same function.
func closureResultOf(v ssa.Value, depth int) *ssa.Function {
	if depth > 4 || v == nil {
		return nil
	}
	switch x := v.(type) {
	case *ssa.UnOp:
		if x.Op == token.MUL {
			if s := SingleStore(x.X); s != nil {
				return closureResultOf(Unwrap(s), depth+1)
			}
		}
	case *ssa.FreeVar:
		if b := Binding(x); b != nil {
			return closureResultOf(Unwrap(b), depth+1)
		}
	case *ssa.Alloc:
		if s := SingleStore(x); s != nil {
			return closureResultOf(Unwrap(s), depth+1)
		}
	case *ssa.Extract:
		if c, ok := x.Tuple.(*ssa.Call); ok {
			return closureAtResult(c, x.Index)
		}
	case *ssa.Call:
		return closureAtResult(x, 0)
	}
	return nil
}

func closureAtResult(c *ssa.Call, idx int) *ssa.Function {
	h := c.Call.StaticCallee()
	if h == nil || h.Blocks == nil || !InModule(h) {
		return nil
	}
	var fn *ssa.Function
	for _, ret := range ReturnsOf(h) {
		if idx >= len(ret.Results) {
			return nil
		}
		rv := Unwrap(ret.Results[idx])
		if IsNilConst(rv) {
			continue // an error return
		}
		mc, ok := rv.(*ssa.MakeClosure)
		if !ok {
			return nil
		}
		f, ok := mc.Fn.(*ssa.Function)
		if !ok || (fn != nil && fn != f) {
			return nil
		}
		fn = f
	}
	return fn
}

// DependsOn reports whether v's backward slice contains a value satisfying pred.
func DependsOn(v ssa.Value, o SliceOpts, pred func(ssa.Value) bool) bool {
	for s := range BackwardSlice(v, o) {
		if pred(s) {
			return true
		}
	}
	return false
}

// ---------- misc ----------

// ReturnsOf lists the return instructions of fn.
func ReturnsOf(fn *ssa.Function) []*ssa.Return {
	// returns in the synthetic recover block (no predecessors) are not on any normal path
	var out []*ssa.Return
	Instrs(fn, func(in ssa.Instruction) {
		if r, ok := in.(*ssa.Return); ok {
			if fn.Recover != nil && in.Block() == fn.Recover {
				return
			}
			out = append(out, r)
		}
	})
	return out
}

// Reaches reports whether block `to` is reachable from block `from` (from itself counts only via a cycle or equality when incl).
func Reaches(from, to *ssa.BasicBlock, incl bool) bool {
	if incl && from == to {
		return true
	}
	seen := map[*ssa.BasicBlock]bool{}
	stack := append([]*ssa.BasicBlock{}, from.Succs...)
	for len(stack) > 0 {
		b := stack[len(stack)-1]
		stack = stack[:len(stack)-1]
		if seen[b] {
			continue
		}
		seen[b] = true
		if b == to {
			return true
		}
		stack = append(stack, b.Succs...)
	}
	return false
}

// InstrReaches: is there a CFG path from instruction a to instruction b (a executed, later b executed)?
func InstrReaches(a, b ssa.Instruction) bool {
	if a.Parent() != b.Parent() {
		return false
	}
	if a.Block() == b.Block() && Index(a) < Index(b) {
		return true
	}
	return Reaches(a.Block(), b.Block(), false)
}

// ReachesAvoiding: is there a path from instruction a to instruction b that does not execute any instruction in avoid?
func ReachesAvoiding(a, b ssa.Instruction, avoid func(ssa.Instruction) bool) bool {
	type pos struct {
		b *ssa.BasicBlock
	}
	// scan remainder of a's block
	ab := a.Block()
	for i := Index(a) + 1; i < len(ab.Instrs); i++ {
		in := ab.Instrs[i]
		if in == b {
			return true
		}
		if avoid(in) {
			return false
		}
	}
	seen := map[*ssa.BasicBlock]bool{}
	stack := append([]*ssa.BasicBlock{}, ab.Succs...)
	for len(stack) > 0 {
		blk := stack[len(stack)-1]
		stack = stack[:len(stack)-1]
		if seen[blk] {
			continue
		}
		seen[blk] = true
		blocked := false
		for _, in := range blk.Instrs {
			if in == b {
				return true
			}
			if avoid(in) {
				blocked = true
				break
			}
		}
		if !blocked {
			stack = append(stack, blk.Succs...)
		}
	}
	return false
}

// FuncName renders pkg-relative function names for construct keys: "dawn.(*runTarget).Evaluate".
func FuncName(fn *ssa.Function) string {
	s := fn.String()
	s = strings.ReplaceAll(s, ModulePath+"/", "")
	s = strings.ReplaceAll(s, ModulePath, "dawn")
	return s
}

// EffectivePoints returns program points such that every execution reaching `in` most recently
// passed through one of them with strictly more information: when the facts at `in` contain a
// condition that is a phi of boolean constants (a flag variable such as `spawn := false; if c { spawn = true }`),
// the points are the terminators of the predecessor blocks whose incoming constant agrees with the
// fact. Without such a fact the result is [in]. A rule that must hold "at in" may be checked at every
// effective point instead (path-sensitivity for flag variables).
func (p *Prog) EffectivePoints(in ssa.Instruction) []ssa.Instruction {
	return p.effPoints(in, 0)
}

func (p *Prog) effPoints(in ssa.Instruction, depth int) []ssa.Instruction {
	if depth > 3 {
		return []ssa.Instruction{in}
	}
	for f := range p.FactsAt(in) {
		phi, ok := f.Cond.(*ssa.Phi)
		if !ok {
			continue
		}
		allConstOrSkip := true
		var pts []ssa.Instruction
		for i, e := range phi.Edges {
			b, okc := ConstBool(e)
			if !okc {
				allConstOrSkip = false
				break
			}
			if b == f.Val {
				pred := phi.Block().Preds[i]
				pts = append(pts, p.effPoints(pred.Instrs[len(pred.Instrs)-1], depth+1)...)
			}
		}
		if allConstOrSkip && len(pts) > 0 {
			return pts
		}
	}
	return []ssa.Instruction{in}
}

// LoopIndexCoversAll reports whether idx is the induction value of a loop that starts at 0, steps by 1
// and whose body (the block of user) executes exactly when idx < len(slice): both the rotated
// `for i := range s` form and the `for i := 0; i < len(s); i++` form are recognised.
func (p *Prog) LoopIndexCoversAll(idx ssa.Value, slice ssa.Value, user ssa.Instruction, sameSlice func(a, b ssa.Value) bool) bool {
	startsAtZeroStepOne := false
	switch x := idx.(type) {
	case *ssa.BinOp: // rangeindex: idx = phi + 1, phi = [-1, idx]
		if x.Op == token.ADD {
			if phi, ok := x.X.(*ssa.Phi); ok && len(phi.Edges) == 2 {
				k, okk := ConstInt(x.Y)
				for i := 0; i < 2; i++ {
					c, okc := ConstInt(phi.Edges[i])
					if okk && k == 1 && okc && c == -1 && phi.Edges[1-i] == ssa.Value(x) {
						startsAtZeroStepOne = true
					}
				}
			}
		}
	case *ssa.Phi: // for i := 0; ...; i++
		if len(x.Edges) == 2 {
			for i := 0; i < 2; i++ {
				c, okc := ConstInt(x.Edges[i])
				if inc, ok := x.Edges[1-i].(*ssa.BinOp); ok && okc && c == 0 && inc.Op == token.ADD && inc.X == ssa.Value(x) {
					if k, okk := ConstInt(inc.Y); okk && k == 1 {
						startsAtZeroStepOne = true
					}
				}
			}
		}
	}
	if !startsAtZeroStepOne {
		return false
	}
	return p.FactsAt(user).Find(func(cond ssa.Value, val bool) bool {
		cmp, ok := cond.(*ssa.BinOp)
		if !ok || !val || cmp.Op != token.LSS || cmp.X != idx {
			return false
		}
		ln, ok := cmp.Y.(*ssa.Call)
		if !ok {
			return false
		}
		b, ok := ln.Call.Value.(*ssa.Builtin)
		return ok && b.Name() == "len" && sameSlice(ln.Call.Args[0], slice)
	})
}

// RetVals resolves the results of a return instruction through defer-spilled result cells:
// `*t0 = v; rundefers; t5 = *t0; return t5` yields v. When the last store cannot be found in the
// block chain the load itself is returned.
func RetVals(ret *ssa.Return) []ssa.Value {
	out := make([]ssa.Value, len(ret.Results))
	for i, rv := range ret.Results {
		out[i] = rv
		ld, ok := rv.(*ssa.UnOp)
		if !ok || ld.Op != token.MUL {
			continue
		}
		cell, ok := ld.X.(*ssa.Alloc)
		if !ok {
			continue
		}
		if v := lastStoreBefore(cell, ld); v != nil {
			out[i] = v
		}
	}
	return out
}

// lastStoreBefore finds the value most recently stored into cell on every path to `at`, following
// unique predecessors; nil when ambiguous.
func lastStoreBefore(cell *ssa.Alloc, at ssa.Instruction) ssa.Value {
	b := at.Block()
	idx := Index(at)
	for hops := 0; hops < 64; hops++ {
		for i := idx - 1; i >= 0; i-- {
			if st, ok := b.Instrs[i].(*ssa.Store); ok && st.Addr == ssa.Value(cell) {
				return st.Val
			}
		}
		if len(b.Preds) != 1 {
			return nil
		}
		b = b.Preds[0]
		idx = len(b.Instrs)
	}
	return nil
}

// BlockReachesAvoiding: is there a path starting at the first instruction of start that reaches
// target without executing an instruction satisfying avoid?
func BlockReachesAvoiding(start *ssa.BasicBlock, target ssa.Instruction, avoid func(ssa.Instruction) bool) bool {
	seen := map[*ssa.BasicBlock]bool{}
	stack := []*ssa.BasicBlock{start}
	for len(stack) > 0 {
		blk := stack[len(stack)-1]
		stack = stack[:len(stack)-1]
		if seen[blk] {
			continue
		}
		seen[blk] = true
		blocked := false
		for _, in := range blk.Instrs {
			if in == target {
				return true
			}
			if avoid(in) {
				blocked = true
				break
			}
		}
		if !blocked {
			stack = append(stack, blk.Succs...)
		}
	}
	return false
}

// SameKey: two values are the same map key: identical SSA values, equal string constants, or two calls of
// the same static method (a pure stringer such as (*label.Label).String) on the same receiver.
func SameKey(a, b ssa.Value) bool {
	if a == b {
		return true
	}
	if sa, ok := ConstString(a); ok {
		if sb, ok := ConstString(b); ok {
			return sa == sb
		}
	}
	ca, ok1 := a.(*ssa.Call)
	cb, ok2 := b.(*ssa.Call)
	if ok1 && ok2 {
		fa, fb := Callee(ca), Callee(cb)
		if fa != nil && fa == fb && fa.Name() == "String" && len(ca.Call.Args) == 1 && len(cb.Call.Args) == 1 {
			return Unwrap(ca.Call.Args[0]) == Unwrap(cb.Call.Args[0])
		}
	}
	return false
}

// DominatesModuloFacts: every execution that reaches b has executed a before — either because a dominates b, or
// because a sits in the exclusive successor S of a branch `if c` in a block H that dominates b, and the facts at b
// say that c had the value that leads to S (the same SSA value c, so the same evaluation: two `if first {…}`
// statements on one flag).
func (p *Prog) DominatesModuloFacts(a, b ssa.Instruction) bool {
	return p.DominatesModuloFactSet(a, b, nil)
}

// DominatesModuloFactSet is DominatesModuloFacts with the facts known at b given explicitly (nil: FactsAt(b)), e.g.
// the facts at a return of a boolean helper together with the value it returns.
func (p *Prog) DominatesModuloFactSet(a, b ssa.Instruction, known FactSet) bool {
	if Dominates(a, b) {
		return true
	}
	if known == nil {
		known = p.FactsAt(b)
	}
	if a.Parent() != b.Parent() {
		return false
	}
	A := a.Block()
	// climb: A (or a block that A's execution implies, i.e. a dominator of A within the guarded region)
	for hops := 0; hops < 8 && A != nil; hops++ {
		if len(A.Preds) == 1 {
			H := A.Preds[0]
			if iff, ok := H.Instrs[len(H.Instrs)-1].(*ssa.If); ok && H.Succs[0] != H.Succs[1] && H.Dominates(b.Block()) {
				val := H.Succs[0] == A
				for f := range known {
					if f.Cond == iff.Cond && f.Val == val {
						return true
					}
					// negation wrappers
					if u, ok := iff.Cond.(*ssa.UnOp); ok && u.Op == token.NOT && f.Cond == u.X && f.Val == !val {
						return true
					}
				}
			}
			// a is executed whenever A is entered; A is entered whenever its single predecessor took that edge:
			// continue upwards only through unconditional edges
			if len(H.Succs) == 1 {
				A = H
				continue
			}
		}
		break
	}
	return false
}

// ResolvePhiAt returns the unique incoming value of phi that is consistent with the facts holding at `at`
// (edges whose edge facts contradict a fact at `at` are excluded); the phi itself when not unique.
func (p *Prog) ResolvePhiAt(v ssa.Value, at ssa.Instruction) ssa.Value {
	for depth := 0; depth < 4; depth++ {
		phi, ok := v.(*ssa.Phi)
		if !ok {
			return v
		}
		facts := p.FactsAt(at)
		efs := p.PhiEdgeFacts(phi)
		var cand ssa.Value
		n := 0
		for i, e := range phi.Edges {
			contradicted := false
			for f := range efs[i] {
				if facts[Fact{f.Cond, !f.Val}] {
					contradicted = true
				}
			}
			if !contradicted {
				cand = e
				n++
			}
		}
		if n != 1 {
			return v
		}
		v = cand
	}
	return v
}

// pureKey returns a structural key for pure boolean expressions over immutable operands (comparisons of SSA values
// and constants); "" when the expression is not of that kind.
func pureKey(v ssa.Value) string {
	b, ok := v.(*ssa.BinOp)
	if !ok {
		return ""
	}
	switch b.Op {
	case token.EQL, token.NEQ, token.LSS, token.LEQ, token.GTR, token.GEQ:
	default:
		return ""
	}
	opnd := func(x ssa.Value) string {
		if c, ok := x.(*ssa.Const); ok {
			if c.Value == nil {
				return "nil:" + c.Type().String()
			}
			return "c:" + c.Value.ExactString()
		}
		return fmt.Sprintf("%p", x)
	}
	return b.Op.String() + "|" + opnd(b.X) + "|" + opnd(b.Y)
}

// CalleeFacts: the facts (over the callee's own SSA values) that necessarily hold inside the in-module boolean
// function called by `call` whenever it returns `val`, together with the parameter -> argument substitution.
// Used to see through small predicate helpers such as `func escapesRoot(p string) bool { return p == ".." || … }`.
func (p *Prog) CalleeFacts(call *ssa.Call, val bool) (FactSet, map[ssa.Value]ssa.Value) {
	h := Callee(call)
	if h == nil || !InModule(h) || h.Blocks == nil || h.Signature.Results().Len() != 1 {
		return nil, nil
	}
	if b, ok := h.Signature.Results().At(0).Type().Underlying().(*types.Basic); !ok || b.Kind() != types.Bool {
		return nil, nil
	}
	subst := map[ssa.Value]ssa.Value{}
	for i, prm := range h.Params {
		if i < len(call.Call.Args) {
			subst[prm] = call.Call.Args[i]
		}
	}
	var acc FactSet
	for _, ret := range ReturnsOf(h) {
		rv := RetVals(ret)[0]
		var fs FactSet
		if c, isConst := ConstBool(rv); isConst {
			if c != val {
				continue
			}
			fs = p.FactsAt(ret)
		} else {
			tmp := FactSet{}
			for f := range p.FactsAt(ret) {
				tmp[f] = true
			}
			addCond(tmp, rv, val)
			fs = p.RefineFacts(tmp)
		}
		if acc == nil {
			acc = FactSet{}
			for f := range fs {
				acc[f] = true
			}
			continue
		}
		for f := range acc {
			if fs[f] {
				continue
			}
			// structurally equal pure comparison?
			k, found := pureKey(f.Cond), false
			if k != "" {
				for g := range fs {
					if g.Val == f.Val && pureKey(g.Cond) == k {
						found = true
					}
				}
			}
			if !found {
				delete(acc, f)
			}
		}
	}
	return acc, subst
}

// RetFacts pairs a return instruction with the facts that hold there when the function returns a given boolean.
type RetFacts struct {
	Ret   *ssa.Return
	Facts FactSet
}

// CalleeReturnFacts: per return instruction of the in-module boolean function h that can yield val, the facts that
// hold there when it does.
func (p *Prog) CalleeReturnFacts(h *ssa.Function, val bool) []RetFacts {
	if h == nil || !InModule(h) || h.Blocks == nil || h.Signature.Results().Len() != 1 {
		return nil
	}
	if b, ok := h.Signature.Results().At(0).Type().Underlying().(*types.Basic); !ok || b.Kind() != types.Bool {
		return nil
	}
	var out []RetFacts
	for _, ret := range ReturnsOf(h) {
		rv := RetVals(ret)[0]
		if c, isConst := ConstBool(rv); isConst {
			if c == val {
				out = append(out, RetFacts{ret, p.FactsAt(ret)})
			}
			continue
		}
		tmp := FactSet{}
		for f := range p.FactsAt(ret) {
			tmp[f] = true
		}
		addCond(tmp, rv, val)
		out = append(out, RetFacts{ret, p.RefineFacts(tmp)})
	}
	return out
}

// CalleeCases: one fact set (over the callee's own SSA values) per way in which the in-module boolean function
// called by `call` can return `val` - per return instruction, and per incoming edge where the returned value is a
// short-circuit phi - together with the parameter -> argument substitution. Where CalleeFacts gives what holds on
// all of them (a conjunction), this serves disjunctive predicates (`return !ok || a || b`).
func (p *Prog) CalleeCases(call *ssa.Call, val bool) ([]FactSet, map[ssa.Value]ssa.Value) {
	h := Callee(call)
	if h == nil || !InModule(h) || h.Blocks == nil || h.Signature.Results().Len() != 1 {
		return nil, nil
	}
	if b, ok := h.Signature.Results().At(0).Type().Underlying().(*types.Basic); !ok || b.Kind() != types.Bool {
		return nil, nil
	}
	subst := map[ssa.Value]ssa.Value{}
	for i, prm := range h.Params {
		if i < len(call.Call.Args) {
			subst[prm] = call.Call.Args[i]
		}
	}
	var out []FactSet
	var cases func(rv ssa.Value, base FactSet, depth int)
	cases = func(rv ssa.Value, base FactSet, depth int) {
		if c, isConst := ConstBool(rv); isConst {
			if c == val {
				out = append(out, p.RefineFacts(base))
			}
			return
		}
		if ph, ok := rv.(*ssa.Phi); ok && depth < 4 && !Reaches(ph.Block(), ph.Block(), false) {
			efs := p.PhiEdgeFacts(ph)
			for i, e := range ph.Edges {
				cases(e, efs[i], depth+1)
			}
			return
		}
		tmp := FactSet{}
		for f := range base {
			tmp[f] = true
		}
		addCond(tmp, rv, val)
		out = append(out, p.RefineFacts(tmp))
	}
	for _, ret := range ReturnsOf(h) {
		rv := RetVals(ret)[0]
		// a constant returned from a block that several branches jump to (`if a || b { return true }`): one case per
		// incoming edge, each with the facts of that edge
		if _, isConst := ConstBool(rv); isConst && len(ret.Block().Preds) > 1 && len(ret.Block().Instrs) == 1 {
			b := ret.Block()
			used := map[*ssa.BasicBlock]int{}
			for _, pred := range b.Preds {
				n := used[pred]
				k := 0
				for si, sc := range pred.Succs {
					if sc == b {
						if k == n {
							cases(rv, p.EdgeFacts(pred, si), 0)
						}
						k++
					}
				}
				used[pred]++
			}
			continue
		}
		cases(rv, p.FactsAt(ret), 0)
	}
	return out, subst
}

// TupleCase is one way in which a multi-result helper can return a given boolean in one of its results: the facts
// (over the helper's own values) that hold then, and the values returned alongside.
type TupleCase struct {
	Facts FactSet
	Rets  []ssa.Value
}

// CalleeTupleCases is CalleeCases for helpers of the form `func(...) (T, bool)`: the ways in which result j of the
// in-module function called by `call` can be `val`, each with the other values returned on that path.
func (p *Prog) CalleeTupleCases(call *ssa.Call, j int, val bool) []TupleCase {
	h := Callee(call)
	if h == nil || !InModule(h) || h.Blocks == nil || j >= h.Signature.Results().Len() {
		return nil
	}
	if b, ok := h.Signature.Results().At(j).Type().Underlying().(*types.Basic); !ok || b.Kind() != types.Bool {
		return nil
	}
	var out []TupleCase
	for _, ret := range ReturnsOf(h) {
		vals := RetVals(ret)
		if j >= len(vals) {
			return nil
		}
		var cases func(rv ssa.Value, base FactSet, depth int)
		cases = func(rv ssa.Value, base FactSet, depth int) {
			if c, isConst := ConstBool(rv); isConst {
				if c == val {
					out = append(out, TupleCase{p.RefineFacts(base), vals})
				}
				return
			}
			if ph, ok := rv.(*ssa.Phi); ok && depth < 4 && !Reaches(ph.Block(), ph.Block(), false) {
				efs := p.PhiEdgeFacts(ph)
				for i, e := range ph.Edges {
					merged := FactSet{}
					for f := range base {
						merged[f] = true
					}
					if i < len(efs) {
						for f := range efs[i] {
							merged[f] = true
						}
					}
					cases(e, merged, depth+1)
				}
				return
			}
			tmp := FactSet{}
			for f := range base {
				tmp[f] = true
			}
			addCond(tmp, rv, val)
			out = append(out, TupleCase{p.RefineFacts(tmp), vals})
		}
		cases(vals[j], p.FactsAt(ret), 0)
	}
	return out
}

// Outer returns the outermost enclosing function of fn.
func Outer(fn *ssa.Function) *ssa.Function { return outer(fn) }

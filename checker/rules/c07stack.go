package rules

import (
	"fmt"
	"go/token"
	"go/types"
	"sort"
	"strings"

	"dawnverif/checker/core"

	"golang.org/x/tools/go/ssa"
)

// stackEffect is the effect of one opcode on the decoder's operand stack, derived from the decoder's case.
type stackEffect struct {
	Pops     int
	Pushes   int
	OpenMark bool // pushes the mark sentinel
	PopFrame bool // truncates the stack down to (and including) the topmost mark
	Stops    bool
}

// deriveStackEffects reads the operand-stack effect of every decoder case from the case's code:
// pop()/push() calls, a push of the mark sentinel, and a store of a truncated slice into Decoder.stack.
func deriveStackEffects(dt *decoderTable) map[int64]stackEffect {
	out := map[int64]stackEffect{}
	for k, dc := range dt.Cases {
		ef := stackEffect{Pops: len(dc.Pops), Pushes: len(dc.Pushes)}
		for _, ps := range dc.Pushes {
			if mi, ok := ps.Call.Args[1].(*ssa.MakeInterface); ok {
				if ld, ok := mi.X.(*ssa.UnOp); ok {
					if g, ok := ld.X.(*ssa.Global); ok && g.Name() == "mark" {
						ef.OpenMark = true
						ef.Pushes--
					}
				}
			}
		}
		for _, b := range dc.Region {
			for _, in := range b.Instrs {
				if st, ok := in.(*ssa.Store); ok && core.IsField(st.Addr, pkgPickle, "Decoder", "stack") {
					if _, isSlice := st.Val.(*ssa.Slice); isSlice {
						ef.PopFrame = true
					}
				}
				if _, ok := in.(*ssa.Return); ok {
					ef.Stops = true
				}
			}
		}
		out[k] = ef
	}
	return out
}

// abstract operand stack: frame counters; a frame opened by MARK has an untracked element count (-1).
type absStack []int

func (s absStack) String() string {
	var p []string
	for _, c := range s {
		if c < 0 {
			p = append(p, "MARK…")
		} else {
			p = append(p, fmt.Sprint(c))
		}
	}
	return "[" + strings.Join(p, " | ") + "]"
}

func (s absStack) eq(o absStack) bool {
	if len(s) != len(o) {
		return false
	}
	for i := range s {
		if s[i] != o[i] {
			return false
		}
	}
	return true
}

func (s absStack) clone() absStack { return append(absStack{}, s...) }

// apply returns the new state or an error description.
func (s absStack) apply(ef stackEffect) (absStack, string) {
	n := s.clone()
	top := len(n) - 1
	if ef.OpenMark {
		return append(n, -1), ""
	}
	if ef.PopFrame {
		if n[top] >= 0 {
			return n, "collector opcode without an open MARK"
		}
		n = n[:top]
		top--
	}
	if n[top] >= 0 {
		n[top] -= ef.Pops
		if n[top] < 0 {
			return n, "pops more values than this value's encoding has pushed"
		}
		n[top] += ef.Pushes
	}
	return n, ""
}

// checkStackDiscipline implements R7.9: bytecode-verifier style height checking of the encoder against the
// stack effects of the decoder: every encoder function that encodes one value leaves exactly one value,
// and at every control-flow join the abstract stacks agree.
func checkStackDiscipline(p *core.Prog, r *core.Result, ops *opTable, dt *decoderTable, ems []emission) {
	effects := deriveStackEffects(dt)
	emAt := map[ssa.Instruction][]emission{}
	for _, e := range ems {
		if !e.Raw {
			emAt[e.Instr] = append(emAt[e.Instr], e)
		}
	}
	// summaries: net pushes of the encoder's functions. The functions that encode one value are the roots (net 1,
	// verified below); every other method of the encoder they call is summarised from its own body: an unconditional
	// net effect, or - for a helper returning a bool - one effect per constant result (`if e.encodeRef(x) { return }`).
	type summ struct {
		fn  *ssa.Function
		net int
	}
	var fns []summ
	for _, a := range [][2]string{{"encode", "1"}, {"encodeComplex", "1"}, {"encodeString", "1"}, {"memoize", "0"}} {
		if f := p.Func("pickle", "Encoder", a[0]); f != nil {
			n := 0
			if a[1] == "1" {
				n = 1
			}
			fns = append(fns, summ{f, n})
		}
	}
	type helperSumm struct {
		ok         bool
		cond       bool // effect depends on the boolean result
		net        int
		netT, netF int
	}
	helperCache := map[*ssa.Function]*helperSumm{}
	var run func(fn *ssa.Function, want *int, report bool) (map[*ssa.Return]absStack, bool)
	netOf := func(f *ssa.Function) (int, bool) {
		for _, s := range fns {
			if s.fn == f {
				return s.net, true
			}
		}
		return 0, false
	}
	summarize := func(h *ssa.Function) *helperSumm {
		if hs, ok := helperCache[h]; ok {
			return hs
		}
		hs := &helperSumm{}
		helperCache[h] = hs // (recursion guard: an unfinished summary is "not ok")
		if h == nil || h.Blocks == nil || h.Signature.Recv() == nil || recvNamed(h) != "Encoder" || h.Pkg == nil || h.Pkg.Pkg.Path() != pkgPickle {
			return hs
		}
		// does it (transitively) emit at all? otherwise: no effect
		rets, fine := run(h, nil, false)
		if !fine {
			return hs
		}
		isBool := h.Signature.Results().Len() == 1 && func() bool {
			b, ok := h.Signature.Results().At(0).Type().Underlying().(*types.Basic)
			return ok && b.Kind() == types.Bool
		}()
		first := true
		haveT, haveF := false, false
		uniform := true
		for ret, st := range rets {
			if len(st) != 1 {
				return hs // leaves an open frame
			}
			n := st[0]
			if first {
				hs.net = n
				first = false
			} else if hs.net != n {
				uniform = false
			}
			if isBool {
				if b, isConst := core.ConstBool(core.RetVals(ret)[0]); isConst {
					if b {
						if haveT && hs.netT != n {
							return hs
						}
						hs.netT, haveT = n, true
					} else {
						if haveF && hs.netF != n {
							return hs
						}
						hs.netF, haveF = n, true
					}
				} else if !uniform {
					return hs
				}
			}
		}
		if uniform {
			hs.ok = true
			return hs
		}
		if isBool && haveT && haveF {
			hs.ok, hs.cond = true, true
			return hs
		}
		return hs
	}
	r.Floor("R7.9", len(fns), 2, "encoder functions under stack verification")
	run = func(fn *ssa.Function, want *int, report bool) (map[*ssa.Return]absStack, bool) {
		in := map[*ssa.BasicBlock]absStack{fn.Blocks[0]: {0}}
		work := []*ssa.BasicBlock{fn.Blocks[0]}
		reported := map[string]bool{}
		fine := true
		rets := map[*ssa.Return]absStack{}
		bad := func(construct string, at ssa.Instruction, format string, args ...any) {
			fine = false
			if !reported[construct] {
				reported[construct] = true
				if report {
					r.Bad("R7.9", construct, p.InstrPos(at), format, args...)
				}
			}
		}
		nJoin := 0
		for len(work) > 0 {
			b := work[0]
			work = work[1:]
			st := in[b].clone()
			failed := false
			var condCall *ssa.Call
			var condT, condF int
			for _, ins := range b.Instrs {
				if es, ok := emAt[ins]; ok {
					// opcode-parameterised emitters: all candidate opcodes must have the same effect
					var ef stackEffect
					for i, e := range es {
						x, known := effects[e.Op]
						if !known {
							continue
						}
						if i > 0 && x != ef {
							bad(fname(fn)+"#template-effects", ins, "the opcodes this emitter can write have different stack effects")
						}
						ef = x
					}
					var why string
					st, why = st.apply(ef)
					if why != "" {
						bad(fmt.Sprintf("%s#stack:%s", fname(fn), ops.name(es[0].Op)), ins, "%s (%s): %s", ops.name(es[0].Op), why, st)
						failed = true
						break
					}
					continue
				}
				if c, ok := ins.(*ssa.Call); ok {
					if cal := core.Callee(c); cal != nil {
						if n, ok := netOf(cal); ok {
							st, _ = st.apply(stackEffect{Pushes: n})
						} else if hs := summarize(cal); hs.ok {
							if hs.cond {
								condCall, condT, condF = c, hs.netT, hs.netF
							} else if hs.net != 0 {
								st, _ = st.apply(stackEffect{Pushes: hs.net})
							}
						}
					}
				}
				if ret, ok := ins.(*ssa.Return); ok {
					rets[ret] = st.clone()
					if want != nil {
						w := absStack{*want}
						if !st.eq(w) {
							types := assertedTypes(p, ret)
							tag := "default"
							if len(types) > 0 {
								tag = shortType(types[len(types)-1])
							}
							bad(fmt.Sprintf("%s#stack-at-return:%s", fname(fn), tag), ret, "encoding one value leaves %s on the decoder's stack instead of %s: when the value is nested in another container the surplus becomes extra elements of the enclosing container", st, w)
						}
					}
				}
			}
			if failed {
				continue
			}
			if _, isPanic := b.Instrs[len(b.Instrs)-1].(*ssa.Panic); isPanic {
				continue
			}
			for si, succ := range b.Succs {
				out := st
				if condCall != nil {
					iff, isIf := b.Instrs[len(b.Instrs)-1].(*ssa.If)
					if isIf && iff.Cond == ssa.Value(condCall) {
						n := condT
						if si == 1 {
							n = condF
						}
						out, _ = st.clone().apply(stackEffect{Pushes: n})
					} else {
						bad(fname(fn)+"#conditional-helper:"+core.Callee(condCall).Name(), condCall, "the stack effect of %s depends on its boolean result, which is not branched on directly here: not verified", core.Callee(condCall).Name())
					}
				}
				old, seen := in[succ]
				if !seen {
					in[succ] = out.clone()
					work = append(work, succ)
					continue
				}
				nJoin++
				if !old.eq(out) {
					types := assertedTypes(p, succ.Instrs[0])
					tag := "default"
					if len(types) > 0 {
						tag = shortType(types[len(types)-1])
					}
					bad(fmt.Sprintf("%s#stack-join:%s", fname(fn), tag), succ.Instrs[0], "paths reach this point with different operand-stack heights (%s vs %s): one path pushes a value the other does not, so the decoder's stack depends on the path taken (e.g. the number of 1000-element batches)", old, out)
				}
			}
		}
		if report && len(reported) == 0 && want != nil {
			r.OK("R7.9", fname(fn)+"#stack-verified", p.Pos(fn.Pos()), "operand-stack heights agree at all %d joins and every return leaves exactly %d value(s), using the stack effects derived from the decoder's cases", nJoin, *want)
		}
		return rets, fine
	}
	for _, s := range fns {
		n := s.net
		run(s.fn, &n, true)
	}
	// Encode: encode(x) then STOP which pops the single value
	if stop, ok := ops.byName["opSTOP"]; ok {
		ef := effects[stop]
		r.Check(ef.Stops && ef.Pops == 1, "R7.9", "pickle.(*Decoder).decode#case-opSTOP", "-", "STOP pops the single remaining value and returns it", "STOP does not pop exactly one value")
	}
}

// checkNoStackAliasing implements R7.10: slices of the decoder's operand stack or memo never escape into
// decoded values (the stack's backing array keeps being overwritten by later pushes).
func checkNoStackAliasing(p *core.Prog, r *core.Result) {
	n := 0
	sp := p.Pkg("pickle")
	for _, fn := range p.ModuleFuncs() {
		if fn.Pkg != sp {
			continue
		}
		cnt := 0
		core.Instrs(fn, func(in ssa.Instruction) {
			sl, ok := in.(*ssa.Slice)
			if !ok {
				return
			}
			field := ""
			for _, f := range []string{"stack", "memo"} {
				if core.LoadOfField(sl.X, pkgPickle, "Decoder", f) {
					field = f
				}
			}
			if field == "" {
				return
			}
			n++
			cnt++
			construct := fmt.Sprintf("%s#slice-of-%s-%d", fname(fn), field, cnt)
			var escapes []string
			for _, ref := range *sl.Referrers() {
				switch x := ref.(type) {
				case *ssa.DebugRef:
				case *ssa.Store:
					if x.Val == ssa.Value(sl) && core.IsField(x.Addr, pkgPickle, "Decoder", field) {
						continue // truncation: stored back into the same field
					}
					escapes = append(escapes, "stored into "+x.Addr.String())
				case *ssa.IndexAddr, *ssa.Index, *ssa.Range:
					// element reads
				case *ssa.Call:
					if b, ok := x.Call.Value.(*ssa.Builtin); ok {
						switch b.Name() {
						case "len", "cap":
							continue
						case "copy":
							if len(x.Call.Args) == 2 && x.Call.Args[1] == ssa.Value(sl) {
								continue // copy source
							}
						case "append":
							if len(x.Call.Args) == 2 && x.Call.Args[1] == ssa.Value(sl) {
								continue // elements are copied
							}
							// append(d.stack[:i], v...) stored back into d.stack: truncate-and-push
							if len(x.Call.Args) >= 1 && x.Call.Args[0] == ssa.Value(sl) {
								back := true
								for _, r2 := range *x.Referrers() {
									if _, dbg := r2.(*ssa.DebugRef); dbg {
										continue
									}
									st, ok := r2.(*ssa.Store)
									if !ok || !core.IsField(st.Addr, pkgPickle, "Decoder", field) {
										back = false
									}
								}
								if back {
									continue
								}
							}
						}
					}
					escapes = append(escapes, "passed to "+x.Call.Value.Name())
				case *ssa.Phi:
					// a cursor over the operands (items = items[k:]): fine when the phi is only read, measured or re-sliced into itself
					readOnly := true
					for _, r2 := range *x.Referrers() {
						switch y := r2.(type) {
						case *ssa.DebugRef, *ssa.IndexAddr, *ssa.Index, *ssa.Range:
						case *ssa.Slice:
							for _, r3 := range *y.Referrers() {
								if r3 != ssa.Instruction(x) {
									if _, dbg := r3.(*ssa.DebugRef); !dbg {
										readOnly = false
									}
								}
							}
						case *ssa.Call:
							if b, ok := y.Call.Value.(*ssa.Builtin); !ok || (b.Name() != "len" && b.Name() != "cap") {
								readOnly = false
							}
						default:
							readOnly = false
						}
					}
					if !readOnly {
						escapes = append(escapes, "flows into a variable that escapes")
					}
				case *ssa.Slice:
					escapes = append(escapes, "re-sliced")
				default:
					escapes = append(escapes, fmt.Sprintf("%T", ref))
				}
			}
			if len(escapes) == 0 {
				r.OK("R7.10", construct, p.InstrPos(sl), "the slice of Decoder.%s is only read, copied from, or stored back (truncation)", field)
			} else {
				r.Bad("R7.10", construct, p.InstrPos(sl), "a slice of the decoder's %s escapes (%s): the decoded value shares the backing array that later pushes overwrite, so elements change after the value has been built", field, strings.Join(escapes, ", "))
			}
		})
	}
	r.Floor("R7.10", n, 3, "slices of the decoder's stack")
}

// checkInPlaceIdentity implements R7.11: a memoized container is one object shared by the memo and the
// operand stack. A decoder case that pushes nothing (the in-place collectors APPENDS/SETITEMS/ADDITEMS, and
// the pure pops) leaves the container on the stack, so it may only shorten the stack: writing any
// operand-stack slot, or storing anything but a truncation of the stack into Decoder.stack, would replace
// the object under its memo entry (later BINGETs then yield the orphaned, unfilled object).
func checkInPlaceIdentity(p *core.Prog, r *core.Result, ops *opTable, dt *decoderTable) {
	isStack := func(v ssa.Value) bool {
		for depth := 0; depth < 4; depth++ {
			if core.LoadOfField(v, pkgPickle, "Decoder", "stack") {
				return true
			}
			sl, ok := v.(*ssa.Slice)
			if !ok {
				return false
			}
			v = sl.X
		}
		return false
	}
	n := 0
	keys := make([]int64, 0, len(dt.Cases))
	for k := range dt.Cases {
		keys = append(keys, k)
	}
	sort.Slice(keys, func(i, j int) bool { return keys[i] < keys[j] })
	for _, k := range keys {
		dc := dt.Cases[k]
		if len(dc.Pushes) != 0 {
			continue
		}
		// appends to the stack that bypass push()
		bypass := false
		var bad []string
		var badAt ssa.Instruction
		mutates := false
		for _, b := range dc.Region {
			for _, in := range b.Instrs {
				switch x := in.(type) {
				case *ssa.Store:
					if ia, ok := x.Addr.(*ssa.IndexAddr); ok && isStack(ia.X) {
						bad = append(bad, "overwrites an operand-stack slot")
						badAt = in
					}
					if core.IsField(x.Addr, pkgPickle, "Decoder", "stack") {
						if sl, ok := x.Val.(*ssa.Slice); !ok || !isStack(sl.X) {
							bypass = true
							bad = append(bad, "stores something other than a truncation of the stack into Decoder.stack")
							badAt = in
						}
					}
				case *ssa.Call:
					if x.Call.IsInvoke() || (core.Callee(x) != nil && core.Callee(x).Signature.Recv() != nil && core.Callee(x).Pkg != nil && core.Callee(x).Pkg.Pkg.Path() != pkgPickle) {
						mutates = true
					}
				}
			}
		}
		_ = bypass
		if !mutates && len(bad) == 0 {
			continue // pure pops, STOP, PROTO…
		}
		n++
		construct := "pickle.(*Decoder).decode#case-" + ops.name(k) + ":in-place"
		if len(bad) == 0 {
			r.OK("R7.11", construct, p.InstrPos(dc.Entry.Instrs[0]), "fills the container found on the stack and only shortens the stack: the object stays the one the memo refers to")
		} else {
			r.Bad("R7.11", construct, p.InstrPos(badAt), "a case that pushes nothing "+strings.Join(bad, " and ")+": the container was memoized when it was created, so the memo keeps the old object and every later reference (sharing, self-reference) decodes to the unfilled one")
		}
	}
	r.Floor("R7.11", n, 2, "in-place decoder cases")
}

// checkMemoIdentity implements R7.12: the encoder's memo is keyed by the identity of the value being encoded. A key
// constructed inside the encoder from a value's contents (e.g. starlark.String(s) for the text of both a String and a
// Bytes) makes values of different types share one memo entry: the second one is written as a back-reference to the
// first and decodes with the wrong type.
func checkMemoIdentity(p *core.Prog, r *core.Result) {
	memoize := p.Func("pickle", "Encoder", "memoize")
	memoized := p.Func("pickle", "Encoder", "memoized")
	if memoize == nil || memoized == nil {
		r.Unk("R7.12", "anchor:pickle.Encoder.memoize/memoized", "-", "not found")
		return
	}
	// functions that take a value and hand it (unchanged) to the memo: memoize, memoized and their forwarders
	tracked := map[*ssa.Function]int{memoize: 1, memoized: 1} // function -> index of the value parameter
	strip := func(v ssa.Value) ssa.Value {
		for {
			switch x := v.(type) {
			case *ssa.MakeInterface:
				if _, isTA := x.X.(*ssa.TypeAssert); isTA {
					v = x.X
					continue
				}
				if e, isE := x.X.(*ssa.Extract); isE {
					if _, isTA := e.Tuple.(*ssa.TypeAssert); isTA {
						v = e.Tuple
						continue
					}
				}
				return v
			case *ssa.ChangeInterface:
				v = x.X
			case *ssa.TypeAssert:
				v = x.X
			default:
				return v
			}
		}
	}
	for changed := true; changed; {
		changed = false
		for _, fn := range p.ModuleFuncs() {
			if fn.Pkg == nil || fn.Pkg != memoize.Pkg || tracked[fn] != 0 {
				continue
			}
			for _, c := range core.Calls(fn) {
				idx, ok := tracked[core.Callee(c)]
				if !ok || idx >= len(c.Common().Args) {
					continue
				}
				if prm, isPrm := c.Common().Args[idx].(*ssa.Parameter); isPrm {
					// a pure forwarder: the parameter is used for nothing but being handed to the memo (a function that
					// also inspects or encodes the value is an encoder of that value, not a memo accessor)
					pure := true
					for _, ref := range *prm.Referrers() {
						if _, dbg := ref.(*ssa.DebugRef); dbg {
							continue
						}
						rc, isCall := ref.(ssa.CallInstruction)
						if !isCall {
							pure = false
							continue
						}
						if _, isTracked := tracked[core.Callee(rc)]; !isTracked {
							pure = false
						}
					}
					if pi := paramIndex(fn, prm); pi >= 0 && tracked[fn] == 0 && pure {
						tracked[fn] = pi
						changed = true
					}
				}
			}
		}
	}
	n := 0
	for _, fn := range p.ModuleFuncs() {
		if fn.Pkg == nil || fn.Pkg != memoize.Pkg {
			continue
		}
		k := 0
		for _, c := range core.Calls(fn) {
			idx, ok := tracked[core.Callee(c)]
			if !ok || idx >= len(c.Common().Args) {
				continue
			}
			n++
			k++
			construct := fmt.Sprintf("%s#memo-key-%d", fname(fn), k)
			a := strip(c.Common().Args[idx])
			constructed := ""
			if mi, isMI := a.(*ssa.MakeInterface); isMI {
				switch x := mi.X.(type) {
				case *ssa.Convert:
					constructed = "a conversion of " + shortType(x.X.Type()) + " to " + shortType(x.Type())
				case *ssa.ChangeType:
					if _, basic := x.X.Type().Underlying().(*types.Basic); basic {
						if _, named := x.X.Type().(*types.Named); !named {
							constructed = "a conversion of " + shortType(x.X.Type()) + " to " + shortType(x.Type())
						}
					}
				case *ssa.Const:
					constructed = "a constant"
				case *ssa.Call:
					constructed = "the result of " + x.Call.Value.Name()
				}
			}
			if constructed != "" {
				r.Bad("R7.12", construct, p.InstrPos(c.(ssa.Instruction)), "the memo is consulted or filled under a key built inside the encoder (%s) instead of the value being encoded: values of different types with equal contents (a string and a bytes value, a value and a host pickler's module/name string) then share one memo entry, the later one is written as a back-reference and decodes as the earlier one's type", constructed)
			} else {
				r.OK("R7.12", construct, p.InstrPos(c.(ssa.Instruction)), "keyed by the value being encoded itself")
			}
		}
	}
	r.Floor("R7.12", n, 3, "memo accesses of the encoder")
	// inside the accessors the map itself is keyed by the value parameter (an interface holding the value: the memo keeps
	// every memoized object alive). A key derived from the value - its address as an integer, a hash, a (type, pointer)
	// pair - does not retain the object: a temporary produced by a host pickler is collected during the encoding, its
	// address is reused by a later object, and that object is written as a back-reference to the dead one.
	na := 0
	for _, fn := range []*ssa.Function{memoize, memoized} {
		core.Instrs(fn, func(in ssa.Instruction) {
			var m, key ssa.Value
			switch x := in.(type) {
			case *ssa.MapUpdate:
				m, key = x.Map, x.Key
			case *ssa.Lookup:
				m, key = x.X, x.Index
			default:
				return
			}
			if owner, _ := fieldOfLoad(m); owner != "Encoder" {
				return // any table of the encoder that memoize/memoized consult: the memo, or a second one beside it
			}
			na++
			k := key
			for {
				switch x := k.(type) {
				case *ssa.ChangeInterface:
					k = x.X
					continue
				case *ssa.MakeInterface:
					if _, isIface := x.X.Type().Underlying().(*types.Interface); isIface {
						k = x.X
						continue
					}
				}
				break
			}
			prm, isPrm := k.(*ssa.Parameter)
			_, keyIsIface := key.Type().Underlying().(*types.Interface)
			r.Check(isPrm && paramIndex(fn, prm) == 1 && keyIsIface, "R7.12", fmt.Sprintf("%s#map-key-%d", fname(fn), na), p.InstrPos(in), "the memo map is keyed by the value itself (an interface value that keeps the object alive)", "the memo map is keyed by something derived from the value (an address, a hash, a type/pointer pair) rather than the value itself: the memo no longer keeps memoized objects alive, so the address of a collected temporary can be reused by a different object, which is then written as a back-reference to the dead one and decodes as its contents")
		})
	}
	r.Floor("R7.12", na, 2, "map accesses of the memo in memoize/memoized")
}

// fieldOfLoad: v is a load of a struct field; returns the struct's and the field's name.
func fieldOfLoad(v ssa.Value) (owner, field string) {
	var addr ssa.Value
	switch x := v.(type) {
	case *ssa.UnOp:
		if x.Op == token.MUL {
			addr = x.X
		}
	case *ssa.Field:
		addr = x
	}
	if addr == nil {
		return "", ""
	}
	n, f := core.FieldOf(addr)
	if n == nil {
		return "", ""
	}
	return n.Obj().Name(), f
}

// checkInsertionErrors implements R7.16 (error discipline on the decoder's container insertions).
func checkInsertionErrors(p *core.Prog, r *core.Result, rule string) {
	n := 0
	perKind := map[string]int{}
	for _, fn := range p.ModuleFuncs() {
		top := fn
		for top.Parent() != nil {
			top = top.Parent()
		}
		if top.Pkg == nil || top.Pkg.Pkg.Path() != pkgPickle || recvNamed(top) != "Decoder" {
			continue
		}
		k := 0
		for _, c := range core.Calls(fn) {
			what := ""
			switch {
			case core.IsMethod(c, pkgStar, "Dict", "SetKey"):
				what = "SetKey"
			case core.IsMethod(c, pkgStar, "Set", "Insert"):
				what = "Insert"
			default:
				continue
			}
			// a constant key cannot fail
			keyArg := c.Common().Args[1]
			if mi, ok := keyArg.(*ssa.MakeInterface); ok {
				if _, isConst := mi.X.(*ssa.Const); isConst {
					continue
				}
			}
			n++
			k++
			used := false
			if v := c.Value(); v != nil {
				for _, ref := range *v.Referrers() {
					if _, dbg := ref.(*ssa.DebugRef); !dbg {
						used = true
					}
				}
			}
			// name the site after the opcode case it serves when the call sits in the dispatch function
			perKind[what]++
			construct := fmt.Sprintf("pickle.Decoder#%s-of-decoded-key-%d", what, perKind[what])
			r.Check(used, rule, construct, p.InstrPos(c.(ssa.Instruction)), "the error of "+what+" is looked at", "the error of "+what+" on a decoded key is dropped: a key that is not hashable in its decoded form (a function, which the host unpickler rebuilds as a dict) disappears from the container without an error - FLAGS = {compile: \"-O2\"} decodes to {} for both the recorded and the current environment, so editing the value leaves the fingerprint equal")
		}
	}
	r.Floor(rule, n, 2, "container insertions of decoded keys in the decoder")
}

// checkPicklerAlwaysConsulted implements R7.15.
func checkPicklerAlwaysConsulted(p *core.Prog, r *core.Result, rule string) {
	n := 0
	for _, fn := range p.ModuleFuncs() {
		if fn.Pkg == nil || fn.Pkg.Pkg.Path() != pkgPickle {
			continue
		}
		k := 0
		for _, c := range core.Calls(fn) {
			cc := c.Common()
			if !cc.IsInvoke() || cc.Method.Name() != "Pickle" {
				continue
			}
			if nm, ok := cc.Value.Type().(*types.Named); !ok || nm.Obj().Name() != "Pickler" {
				continue
			}
			n++
			k++
			var other []string
			for f := range p.FactsAt(c.(ssa.Instruction)) {
				b, ok := f.Cond.(*ssa.BinOp)
				if ok && (b.Op == token.NEQ || b.Op == token.EQL) {
					isPickler := func(v ssa.Value) bool {
						if ci, ok := v.(*ssa.ChangeInterface); ok {
							v = ci.X
						}
						return core.LoadOfField(v, pkgPickle, "Encoder", "pickler") || v == cc.Value
					}
					if isPickler(b.X) && core.IsNilConst(b.Y) || isPickler(b.Y) && core.IsNilConst(b.X) {
						continue
					}
				}
				other = append(other, strings.TrimSpace(f.Cond.String()))
			}
			sort.Strings(other)
			construct := fmt.Sprintf("%s#pickler-consulted-%d", fname(fn), k)
			if len(other) == 0 {
				r.OK(rule, construct, p.InstrPos(c.(ssa.Instruction)), "the pickler is asked whenever one is present")
			} else {
				r.Bad(rule, construct, p.InstrPos(c.(ssa.Instruction)), "the host pickler is asked only under a further condition (%s): for the values that fail it the pickler is bypassed and they are encoded structurally - a value the pickler would have turned into a host object then decodes as a plain container, depending on what the encoder has seen before", strings.Join(other, "; "))
			}
		}
	}
	r.Floor(rule, n, 1, "calls of Pickler.Pickle in package pickle")
}

// checkDecodedFromPayload implements R7.13: every value the decoder pushes is built from the payload of the opcode
// being decoded, taken from the operand stack or the memo, or produced by the host unpickler - never taken from
// other decoder-wide state (an interning table, a cache of boxed values): such state is shared by opcodes of
// different types, so a value can come back as what another opcode produced for equal bytes.
func checkDecodedFromPayload(p *core.Prog, r *core.Result) {
	decode := p.Func("pickle", "Decoder", "decode")
	push := p.Func("pickle", "Decoder", "push")
	if decode == nil || push == nil {
		r.Unk("R7.13", "anchor:pickle.Decoder.decode/push", "-", "not found")
		return
	}
	allowed := map[string]bool{"stack": true, "memo": true, "r": true, "unpickler": true}
	// interprocedural backward slice: through the returns of helpers of the package
	var offending func(v ssa.Value, depth int, seen map[ssa.Value]bool) string
	offending = func(v ssa.Value, depth int, seen map[ssa.Value]bool) string {
		for x := range core.BackwardSlice(v, core.SliceOpts{Stores: true, ThroughCall: func(*ssa.Call) bool { return true }}) {
			if seen[x] {
				continue
			}
			seen[x] = true
			if fa, ok := x.(*ssa.FieldAddr); ok {
				if owner, name := core.FieldOf(fa); owner != nil && owner.Obj().Name() == "Decoder" && owner.Obj().Pkg() != nil && owner.Obj().Pkg().Path() == pkgPickle && !allowed[name] {
					// scratch byte buffers are payload staging, not values
					if at, isArr := fa.Type().Underlying().(*types.Pointer).Elem().Underlying().(*types.Array); isArr {
						if b, isB := at.Elem().Underlying().(*types.Basic); isB && (b.Kind() == types.Byte || b.Kind() == types.Uint8) {
							continue
						}
					}
					return name
				}
			}
			if c, ok := x.(*ssa.Call); ok && depth < 3 {
				if h := core.Callee(c); h != nil && h.Blocks != nil && h.Pkg != nil && h.Pkg.Pkg.Path() == pkgPickle && h != decode {
					for _, ret := range core.ReturnsOf(h) {
						for _, rv := range core.RetVals(ret) {
							if name := offending(rv, depth+1, seen); name != "" {
								return name
							}
						}
					}
				}
			}
		}
		return ""
	}
	n := 0
	for _, c := range decoderPushSites(p, decode, push) {
		n++
		construct := fmt.Sprintf("pickle.(*Decoder).decode#push-source-%d", n)
		if name := offending(c.Common().Args[1], 0, map[ssa.Value]bool{}); name != "" {
			r.Bad("R7.13", construct, p.InstrPos(c.(ssa.Instruction)), "the pushed value can come from the decoder-wide field %q rather than from this opcode's payload, the stack or the memo: state shared between opcodes of different types (e.g. a table of interned literals keyed by their bytes) hands a string back where a bytes value was encoded, or the reverse", name)
		} else {
			r.OK("R7.13", construct, p.InstrPos(c.(ssa.Instruction)), "built from this opcode's payload, the stack, the memo or the unpickler")
		}
	}
	r.Floor("R7.13", n, 10, "push sites in decode")
}

// decoderPushSites: the calls of (*Decoder).push in decode, followed by those in the other functions of the package
// (opcode helpers such as decodeScalar(op)), in a fixed order.
func decoderPushSites(p *core.Prog, decode, push *ssa.Function) []ssa.CallInstruction {
	sites := core.CallsTo(decode, push)
	var others []ssa.CallInstruction
	for _, c := range p.StaticCallers(push) {
		f := c.Parent()
		for f.Parent() != nil {
			f = f.Parent()
		}
		if f == decode || f.Pkg != decode.Pkg {
			continue
		}
		others = append(others, c)
	}
	sort.SliceStable(others, func(i, j int) bool {
		a, b := others[i].(ssa.Instruction), others[j].(ssa.Instruction)
		if fa, fb := fname(a.Parent()), fname(b.Parent()); fa != fb {
			return fa < fb
		}
		return a.Pos() < b.Pos()
	})
	return append(sites, others...)
}

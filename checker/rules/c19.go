package rules

import (
	"fmt"
	"go/token"
	"go/types"
	"os"
	"reflect"
	"regexp"
	"sort"
	"strconv"
	"strings"

	"dawnverif/checker/core"

	"golang.org/x/tools/go/ssa"
)

func init() { register("C19", false, runC19) }

type tomlField struct {
	Struct, Field, Key string
}

func tomlFields(p *core.Prog, typ string) []tomlField {
	n := p.Named("internal/project", typ)
	if n == nil {
		return nil
	}
	st, ok := n.Underlying().(*types.Struct)
	if !ok {
		return nil
	}
	var out []tomlField
	for i := 0; i < st.NumFields(); i++ {
		tag := reflect.StructTag(st.Tag(i)).Get("toml")
		if tag == "" || tag == "-" {
			continue
		}
		key := strings.Split(tag, ",")[0]
		out = append(out, tomlField{typ, st.Field(i).Name(), key})
	}
	return out
}

var (
	reKeyVerb = regexp.MustCompile(`([A-Za-z0-9_-]+) = %v`)
	reSection = regexp.MustCompile(`\[([A-Za-z0-9_-]+)\]`)
)

func runC19(p *core.Prog, r *core.Result) {
	r.Decided = []string{
		"R19.6 the loader assigns no decoded field of Config, and of a requirement only its path (CleanPath): name, version and ignore list are returned as written",
		"R19.7 path cleaning on load keeps every version suffix except the ones compared equal to a constant (\"\", v0, v1): JoinPathVersion returns the bare path only on edges where the major version was tested equal to a string constant, and otherwise a string built from the path, \"@\" and the major version in that order - an ordering or validity test (semver.Compare, IsValid) in that place drops an open-ended family of suffixes, so an already clean path such as tools/gen@edge loads back as tools/gen and get/tidy rewrite it",
		"R19.8 rewriting an existing file leaves nothing of the old contents behind: the writer opens its destination with os.Create, or with os.OpenFile whose constant flags include O_TRUNC (or writes a fresh temporary that is renamed over it) - without truncation a shorter configuration (tidy dropping requirements) keeps the tail of the old file, which is often still valid TOML: the dropped requirements come back",
		"R19.9 what get and tidy can write, the loader accepts: the loader admits a requirement version only if semver.IsValid(v) and semver.Canonical(v) == v, so every version a repository lists (the only source of versions for get's queries) is admitted to the list on the edge where the same two tests hold - a tag such as v1.3 or v1.4.0+build7 would otherwise be resolved by `get x@latest`, written to dawn.toml, and make the file unloadable",
		"R19.10 get and tidy rewrite dawn.toml only from steps that succeeded: at every WriteConfigFile call outside the configuration package, each fallible in-module call of the same function from which the write is reachable (loading the file, mvs.Get / UpgradeAll / Tidy) is known to have returned a nil error - an unchecked step hands a nil requirement set to the writer and the file loses its [requirements] table",
		"R19.11 get and tidy lose no requirement: every existing name of a project that stays in the graph is written back (C11's R11.2: the name lists are kept per path and stored in a loop over all names) - a table keyed by path with one name per project drops the second name of an aliased requirement from the rewritten dawn.toml",
		"R19.5 loading a configuration touches no package-level state: every load decodes the bytes afresh, so no two loaded configurations share maps or slices through a cache",
		"R19.4 every format string of the writer is a constant: configuration data is only ever an operand, never the format",
		"R19.1 the hand-written writer emits every toml-tagged field of Config and RequirementConfig, under the key given by the field's tag",
		"R19.2 requirements are written in sorted key order (no Go-map iteration order reaches the output)",
		"R19.3 every configuration value is written through the TOML encoder; a requirement name is written bare only when it is non-empty and consists of bare-key characters (A-Z a-z 0-9 _ -)",
	}
	r.NotDecided = []string{"that go-toml decodes what its encoder produces for every string (library behaviour)", "byte identity of a second write as observed", "validation of versions on load, and path.Clean on the path part"}
	w := need(p, r, "R19.0", "internal/project", "", "WriteConfigFile")
	enc := need(p, r, "R19.0", "internal/project", "", "encodeValue")
	plain := need(p, r, "R19.0", "internal/project", "", "isPlainRune")
	if w == nil || enc == nil || plain == nil {
		return
	}
	fields := append(tomlFields(p, "Config"), tomlFields(p, "RequirementConfig")...)
	r.Floor("R19.1", len(fields), 3, "toml-tagged configuration fields")

	// formatted emissions: calls (in w or its closures) whose first argument is a constant format string with %v verbs
	type emit struct {
		call   ssa.CallInstruction
		format string
		args   []ssa.Value
	}
	var emits []emit
	// the writer, its closures, and the in-package helpers they call (which may format a line and return it)
	scope := core.WithAnons(w)
	inScope := map[*ssa.Function]bool{}
	for _, f := range scope {
		inScope[f] = true
	}
	for depth := 0; depth < 2; depth++ {
		for _, f := range append([]*ssa.Function{}, scope...) {
			for _, c := range core.Calls(f) {
				cal := core.Callee(c)
				if cal == nil || inScope[cal] || cal == enc || cal == plain || cal.Blocks == nil || cal.Pkg != w.Pkg {
					continue
				}
				inScope[cal] = true
				scope = append(scope, core.WithAnons(cal)...)
			}
		}
	}
	isForwarder := func(f *ssa.Function) bool { return f != w && f.Parent() != nil && core.Outer(f) == w }
	for _, f := range scope {
		for _, c := range core.Calls(f) {
			args := c.Common().Args
			if c.Common().IsInvoke() || len(args) == 0 {
				continue
			}
			for i, a := range args {
				s, ok := core.ConstString(a)
				if !ok || !(strings.Contains(s, "=") || strings.Contains(s, "[")) {
					continue
				}
				// variadic tail
				var va []ssa.Value
				if i+1 < len(args) {
					if sl, ok := args[i+1].(*ssa.Slice); ok {
						va, _ = tupleElems(sl)
					}
				}
				// closures of the writer forward their parameters: count the emissions of the writer and of helpers
				if !isForwarder(f) {
					emits = append(emits, emit{c, s, va})
				}
				break
			}
		}
	}
	r.Floor("R19.1", len(emits), 2, "formatted emissions in WriteConfigFile")
	fieldsOf := func(v ssa.Value) map[string]bool {
		out := map[string]bool{}
		for x := range core.BackwardSlice(v, core.SliceOpts{Stores: true, ThroughCall: func(*ssa.Call) bool { return true }}) {
			switch y := x.(type) {
			case *ssa.FieldAddr:
				if o, f := core.FieldOf(y); o != nil && o.Obj().Pkg() != nil && o.Obj().Pkg().Path() == pkgProj {
					out[o.Obj().Name()+"."+f] = true
				}
			case *ssa.Field:
				if o, f := core.FieldOf(y); o != nil && o.Obj().Pkg() != nil && o.Obj().Pkg().Path() == pkgProj {
					out[o.Obj().Name()+"."+f] = true
				}
			}
		}
		return out
	}
	written := map[string]string{} // Struct.Field -> key it is written under
	var sections []string
	for _, e := range emits {
		sections = append(sections, reSectionAll(e.format)...)
		// map each %v to the key that precedes it
		verbs := strings.Count(e.format, "%v")
		keys := make([]string, verbs)
		idx := 0
		rest := e.format
		for idx < verbs {
			pos := strings.Index(rest, "%v")
			pre := rest[:pos+2]
			if m := reKeyVerb.FindAllStringSubmatch(pre, -1); len(m) > 0 && strings.HasSuffix(pre, m[len(m)-1][0]) {
				keys[idx] = m[len(m)-1][1]
			}
			rest = rest[pos+2:]
			idx++
		}
		for i, a := range e.args {
			if i >= len(keys) || keys[i] == "" || a == nil {
				continue
			}
			for f := range fieldsOf(a) {
				// the map field Requirements is the container of requirement values, not a value itself
				if f == "Config.Requirements" {
					continue
				}
				written[f] = keys[i]
			}
		}
	}
	for _, f := range fields {
		name := f.Struct + "." + f.Field
		construct := "internal/project.WriteConfigFile#writes:" + name
		if f.Field == "Requirements" {
			ok := false
			for _, s := range sections {
				if s == f.Key {
					ok = true
				}
			}
			r.Check(ok, "R19.1", construct, p.Pos(w.Pos()), "written as table ["+f.Key+"]", "the table ["+f.Key+"] holding "+name+" is not written: requirements are lost on rewrite")
			continue
		}
		k, ok := written[name]
		switch {
		case !ok:
			r.Bad("R19.1", construct, p.Pos(w.Pos()), "%s (toml key %q) is never written: get/tidy rewrite dawn.toml without it", name, f.Key)
		case k != f.Key:
			r.Bad("R19.1", construct, p.Pos(w.Pos()), "%s is written under key %q but read from key %q: the value is lost on reload", name, k, f.Key)
		default:
			r.OK("R19.1", construct, p.Pos(w.Pos()), "written under its tag key %q", f.Key)
		}
	}

	// ---- R19.5 loading is a function of the bytes: no package-level state
	if lb := need(p, r, "R19.5", "internal/project", "", "LoadConfigBytes"); lb != nil {
		var touched []string
		var at ssa.Instruction
		nF := 0
		for f := range staticClosure(p, lb) {
			if f.Pkg == nil || f.Pkg != lb.Pkg {
				continue
			}
			nF++
			core.Instrs(f, func(in ssa.Instruction) {
				for _, op := range in.Operands(nil) {
					if g, ok := (*op).(*ssa.Global); ok && g.Pkg == lb.Pkg {
						touched = append(touched, g.Name())
						if at == nil {
							at = in
						}
					}
				}
			})
		}
		sort.Strings(touched)
		if len(touched) > 0 {
			r.Bad("R19.5", "internal/project.LoadConfigBytes#package-state", p.InstrPos(at), "loading a configuration reads or writes package-level state (%s): the value returned for some bytes can then depend on earlier loads and on what callers did with earlier results (a cached *Config shares its requirement map and ignore list with every copy handed out), so write-then-load no longer yields what was written", strings.Join(touched, ", "))
		} else {
			r.OK("R19.5", "internal/project.LoadConfigBytes#package-state", p.Pos(lb.Pos()), "the loader (%d function(s) of the package) touches no package-level variable: the result is decoded afresh from the bytes", nF)
		}
	}

	// ---- R19.6 the loader returns what the file says: decoded fields are not rewritten (except the documented
	// cleaning of requirement paths)
	if lb := p.Func("internal/project", "", "LoadConfigBytes"); lb != nil {
		nSt := 0
		for f := range staticClosure(p, lb) {
			if f.Pkg == nil || f.Pkg != lb.Pkg {
				continue
			}
			core.Instrs(f, func(in ssa.Instruction) {
				st, ok := in.(*ssa.Store)
				if !ok {
					return
				}
				fa, ok := st.Addr.(*ssa.FieldAddr)
				if !ok {
					return
				}
				owner, field := core.FieldOf(fa)
				if owner == nil || owner.Obj().Pkg() == nil || owner.Obj().Pkg().Path() != pkgProj {
					return
				}
				switch owner.Obj().Name() {
				case "Config":
					nSt++
					r.Bad("R19.6", fmt.Sprintf("%s#rewrites-Config.%s", fname(f), field), p.InstrPos(st), "the loader assigns Config.%s after decoding: the loaded configuration is not the written one (e.g. a project version 'v1.2' or 'v1.2.3+build.5' comes back canonicalised), so get/tidy silently rewrite that line of dawn.toml", field)
				case "RequirementConfig":
					nSt++
					okPath := false
					if field == "Path" {
						if c, isCall := st.Val.(*ssa.Call); isCall && core.Callee(c) != nil && core.Callee(c).Name() == "CleanPath" {
							okPath = true
						}
					}
					// a copy of the same field of the decoded requirement (a composite literal rebuilding the element)
					switch v := st.Val.(type) {
					case *ssa.Field:
						if o2, f2 := core.FieldOf(v); o2 != nil && o2.Obj().Name() == "RequirementConfig" && f2 == field {
							okPath = true
						}
					case *ssa.UnOp:
						if fa2, isFA := v.X.(*ssa.FieldAddr); isFA && v.Op == token.MUL {
							if o2, f2 := core.FieldOf(fa2); o2 != nil && o2.Obj().Name() == "RequirementConfig" && f2 == field {
								okPath = true
							}
						}
					}
					r.Check(okPath, "R19.6", fmt.Sprintf("%s#rewrites-RequirementConfig.%s", fname(f), field), p.InstrPos(st), "only the requirement path is normalised (CleanPath)", "the loader rewrites RequirementConfig."+field+": the loaded requirement differs from the written one")
				}
			})
		}
		r.Analysed["loader_field_stores"] = nSt
		if nSt == 0 {
			r.OK("R19.6", "internal/project.LoadConfigBytes#decoded-fields-untouched", p.Pos(lb.Pos()), "no decoded field is assigned by the loader")
		}
	}

	// ---- R19.9 what get can write, the loader accepts
	checkListedVersionsLoadable(p, r, "R19.9")
	checkRewriteOnlyAfterSuccess(p, r, "R19.10")
	r.Floor("R19.11", importObligations(p, r, runC11, "C11", map[string]bool{"R11.2": true}, "R19.11"), 2, "obligations on the requirement names kept by get and tidy")

	// ---- R19.8 the writer starts from an empty file
	checkWriterTruncates(p, r, w, "R19.8")

	// ---- R19.7 a version suffix is dropped only for the listed major versions
	checkJoinPathVersion(p, r, "R19.7")

	// ---- R19.4 format strings are constants
	nFmt := 0
	var constFormat func(v ssa.Value, depth int) bool
	constFormat = func(v ssa.Value, depth int) bool {
		if _, ok := core.ConstString(v); ok {
			return true
		}
		prm, ok := v.(*ssa.Parameter)
		if !ok || depth > 3 {
			return false
		}
		// a forwarded format parameter: every caller must pass a constant (or forward one itself)
		fn := prm.Parent()
		idx := -1
		for i, q := range fn.Params {
			if q == prm {
				idx = i
			}
		}
		callers := 0
		okAll := true
		for _, g := range scope {
			for _, c := range core.Calls(g) {
				direct := core.Callee(c) == fn
				if !direct {
					// closure called through the local it is bound to
					if mc, isMC := c.Common().Value.(*ssa.MakeClosure); isMC && mc.Fn == ssa.Value(fn) {
						direct = true
					} else if ld, isLd := c.Common().Value.(*ssa.UnOp); isLd {
						if st := core.SingleStore(ld.X); st != nil {
							if mc, isMC := st.(*ssa.MakeClosure); isMC && mc.Fn == ssa.Value(fn) {
								direct = true
							}
						} else if fv, isFV := ld.X.(*ssa.FreeVar); isFV {
							if b := core.Binding(fv); b != nil {
								if st := core.SingleStore(b); st != nil {
									if mc, isMC := st.(*ssa.MakeClosure); isMC && mc.Fn == ssa.Value(fn) {
										direct = true
									}
								}
							}
						}
					}
				}
				if !direct || idx >= len(c.Common().Args) {
					continue
				}
				callers++
				if !constFormat(c.Common().Args[idx], depth+1) {
					okAll = false
				}
			}
		}
		return callers > 0 && okAll
	}
	for _, f := range scope {
		for _, c := range core.Calls(f) {
			cal := core.Callee(c)
			if cal == nil || cal.Pkg == nil || cal.Pkg.Pkg.Path() != "fmt" {
				continue
			}
			fi := -1
			switch cal.Name() {
			case "Fprintf":
				fi = 1
			case "Sprintf", "Printf", "Errorf":
				fi = 0
			}
			if fi < 0 || cal.Name() == "Errorf" {
				continue
			}
			nFmt++
			construct := fmt.Sprintf("%s#format-%d", fname(f), nFmt)
			r.Check(constFormat(c.Common().Args[fi], 0), "R19.4", construct, p.InstrPos(c.(ssa.Instruction)), "the format string is a constant (directly or through the forwarding closures' call sites)", "configuration data reaches fmt."+cal.Name()+" as the format string: a '%' in a requirement name, path or version is reinterpreted as a verb (my%20repo is written as my%!r(MISSING)epo), so the rewritten file loads as a different configuration")
		}
	}
	r.Floor("R19.4", nFmt, 1, "formatting calls of the configuration writer")

	// ---- R19.2
	mapRange := false
	for _, f := range scope { // the writer, its closures and its in-package helpers (printRequirements(out, reqs))
		core.Instrs(f, func(in ssa.Instruction) {
			if rg, ok := in.(*ssa.Range); ok {
				if _, isMap := rg.X.Type().Underlying().(*types.Map); isMap {
					mapRange = true
					r.Bad("R19.2", "internal/project.WriteConfigFile#map-range", p.InstrPos(rg), "requirements are written in Go-map iteration order: two writes of one configuration differ")
				}
			}
		})
	}
	sorted := false
	var customOrder []ssa.CallInstruction
	var scopeCalls []ssa.CallInstruction
	for _, f := range scope {
		scopeCalls = append(scopeCalls, core.Calls(f)...)
	}
	for _, c := range scopeCalls {
		if cal := core.Callee(c); cal != nil {
			k := core.CalleeKey(cal)
			switch {
			case k == "slices.Sorted" || k == "slices.Sort" || k == "sort.Strings":
				sorted = true // the natural order of strings: total on distinct names
			case strings.HasPrefix(k, "sort.") || strings.HasPrefix(k, "slices.Sort"):
				// an order of the writer's own: it fixes the output only if distinct names never compare equal
				if args := c.Common().Args; len(args) > 0 && comparatorIsNatural(args[len(args)-1]) {
					sorted = true
				} else {
					customOrder = append(customOrder, c)
				}
			}
		}
	}
	for _, c := range customOrder {
		if !sorted {
			r.Bad("R19.2", "internal/project.WriteConfigFile#sort-order-total", p.InstrPos(c.(ssa.Instruction)), "requirement names are ordered by a comparison that is not the plain comparison of the names themselves (case folding, a key function, ...): distinct names that compare equal keep the order Go's map iteration gave them, so two writes of one configuration differ")
		}
	}
	if !mapRange && (sorted || len(customOrder) == 0) {
		r.Check(sorted, "R19.2", "internal/project.WriteConfigFile#sorted-keys", p.Pos(w.Pos()), "requirement names are sorted before they are written", "requirement names are not sorted before they are written")
	}

	// ---- R19.3
	nVals := 0
	for _, e := range emits {
		verbs := strings.Count(e.format, "%v")
		for i, a := range e.args {
			if i >= verbs || a == nil {
				continue
			}
			fs := fieldsOf(a)
			if len(fs) == 0 {
				continue
			}
			nVals++
			var names []string
			for f := range fs {
				names = append(names, f)
			}
			sort.Strings(names)
			construct := fmt.Sprintf("internal/project.WriteConfigFile#encodes:%s", strings.Join(names, "+"))
			v := core.Unwrap(a)
			isEnc := func(x ssa.Value) bool {
				c, ok := x.(*ssa.Call)
				return ok && core.Callee(c) == enc
			}
			if isEnc(v) {
				r.OK("R19.3", construct, p.InstrPos(e.call.(ssa.Instruction)), "written through encodeValue")
				continue
			}
			// the requirement name: a phi of the raw name and encodeValue(name), selected by the quoting test
			if ph, ok := v.(*ssa.Phi); ok {
				okPhi := true
				rawGuarded := false
				efs := p.PhiEdgeFacts(ph)
				for j, edge := range ph.Edges {
					if isEnc(core.Unwrap(edge)) {
						continue
					}
					// every edge that is not the encoder's output must be the untouched name on the edge where the
					// quoting test is false
					guarded := false
					for f := range efs[j] {
						if !f.Val && quotingTest(f.Cond, plain) {
							guarded = true
						}
					}
					if _, isCall := core.Unwrap(edge).(*ssa.Call); isCall {
						guarded = false // produced by some other function than the TOML encoder
					}
					if guarded {
						rawGuarded = true
					} else {
						okPhi = false
					}
				}
				if okPhi && rawGuarded {
					r.OK("R19.3", construct, p.InstrPos(e.call.(ssa.Instruction)), "written bare only when the quoting test says it is plain, otherwise through encodeValue")
					// the quoting test must also cover the empty name
					coversEmpty := false
					for j, edge := range ph.Edges {
						if isEnc(core.Unwrap(edge)) {
							continue
						}
						for f := range efs[j] {
							if emptyTest(f.Cond, f.Val, core.Unwrap(edge)) {
								coversEmpty = true
							}
						}
					}
					r.Check(coversEmpty, "R19.3", construct+":non-empty-bare-key", p.InstrPos(e.call.(ssa.Instruction)), "a bare key is written only for a non-empty name", "an empty requirement name is written bare (` = {path = …}`), which is not valid TOML: a configuration that loads (key \"\") is rewritten into a file that does not load")
					continue
				}
			}
			// a key-encoding helper: every return is encodeValue(param), or the param itself where the quoting test is
			// false and the name is non-empty
			if hc, isCall := v.(*ssa.Call); isCall {
				if h := core.Callee(hc); h != nil && core.InModule(h) && h.Blocks != nil && len(h.Params) == 1 && len(hc.Call.Args) == 1 {
					hp := h.Params[0]
					okAll, bare, bareNonEmpty := true, false, true
					for _, hr := range core.ReturnsOf(h) {
						hv := core.RetVals(hr)
						if len(hv) != 1 {
							okAll = false
							continue
						}
						rv := core.Unwrap(hv[0])
						if c, ok := rv.(*ssa.Call); ok && core.Callee(c) == enc && core.Unwrap(c.Call.Args[0]) == ssa.Value(hp) {
							continue
						}
						if rv == ssa.Value(hp) {
							bare = true
							plainOnly, nonEmpty := false, false
							for f := range p.FactsAt(hr) {
								if !f.Val && quotingTest(f.Cond, plain) {
									plainOnly = true
								}
								if emptyTest(f.Cond, f.Val, hp) {
									nonEmpty = true
								}
							}
							if !plainOnly && allRunesPlain(p, h, hp, hr, plain) {
								plainOnly = true
							}
							// or a named predicate over the key (isBareKey(name)) that says yes only behind the
							// all-runes-plain loop, and only for a non-empty name
							if !plainOnly {
								for f := range p.FactsAt(hr) {
									gc, isCall := f.Cond.(*ssa.Call)
									if !isCall || !f.Val || len(gc.Call.Args) != 1 || core.Unwrap(gc.Call.Args[0]) != ssa.Value(hp) {
										continue
									}
									g := core.Callee(gc)
									if g == nil || !core.InModule(g) || g.Blocks == nil || len(g.Params) != 1 {
										continue
									}
									gp := g.Params[0]
									allYes, some, allNonEmpty := true, false, true
									for _, gr := range core.ReturnsOf(g) {
										gv := core.RetVals(gr)
										if len(gv) != 1 {
											allYes = false
											continue
										}
										if b, isConst := core.ConstBool(gv[0]); isConst && !b {
											continue
										}
										some = true
										if !allRunesPlain(p, g, gp, gr, plain) {
											allYes = false
										}
										ne := false
										for gf := range p.FactsAt(gr) {
											if emptyTest(gf.Cond, gf.Val, gp) {
												ne = true
											}
										}
										if !ne {
											allNonEmpty = false
										}
									}
									if allYes && some {
										plainOnly = true
										if allNonEmpty {
											nonEmpty = true
										}
									}
								}
							}
							if !plainOnly {
								okAll = false
							}
							if !nonEmpty {
								bareNonEmpty = false
							}
							continue
						}
						okAll = false
					}
					if okAll {
						r.OK("R19.3", construct, p.InstrPos(e.call.(ssa.Instruction)), "written through %s, which returns encodeValue(x) or, for plain names only, x itself", fname(h))
						if bare {
							r.Check(bareNonEmpty, "R19.3", construct+":non-empty-bare-key", p.InstrPos(e.call.(ssa.Instruction)), "a bare key is written only for a non-empty name", "an empty requirement name is written bare (` = {path = …}`), which is not valid TOML: a configuration that loads (key \"\") is rewritten into a file that does not load")
						}
						continue
					}
				}
			}
			r.Bad("R19.3", construct, p.InstrPos(e.call.(ssa.Instruction)), "a configuration value is formatted without going through the TOML encoder: quotes, backslashes or control characters in it corrupt the file")
		}
	}
	r.Floor("R19.3", nVals, 2, "configuration values written")
	// isPlainRune accepts only bare-key characters
	allowed := map[int64]bool{'A': true, 'Z': true, 'a': true, 'z': true, '0': true, '9': true, '_': true, '-': true}
	okPlain := true
	nCmp := 0
	core.Instrs(plain, func(in ssa.Instruction) {
		b, ok := in.(*ssa.BinOp)
		if !ok {
			return
		}
		switch b.Op {
		case token.EQL, token.GEQ, token.LEQ, token.LSS, token.GTR, token.NEQ:
		default:
			return
		}
		k, okc := core.ConstInt(b.Y)
		if !okc {
			return
		}
		nCmp++
		if !allowed[k] || b.Op == token.NEQ || b.Op == token.LSS || b.Op == token.GTR {
			okPlain = false
		}
		// pairing of range ends: >= with the lower end, <= with the upper end
		if (b.Op == token.GEQ && !(k == 'A' || k == 'a' || k == '0')) || (b.Op == token.LEQ && !(k == 'Z' || k == 'z' || k == '9')) || (b.Op == token.EQL && !(k == '_' || k == '-')) {
			okPlain = false
		}
	})
	r.Check(okPlain && nCmp == 8, "R19.3", "internal/project.isPlainRune#bare-key-alphabet", p.Pos(plain.Pos()), "accepts exactly A-Z a-z 0-9 _ - (TOML bare-key characters)", "isPlainRune accepts characters outside the TOML bare-key alphabet (or its ranges changed): names containing them are written unquoted and the file no longer parses or parses to a different key")
}

func reSectionAll(s string) []string {
	var out []string
	for _, m := range reSection.FindAllStringSubmatch(s, -1) {
		out = append(out, m[1])
	}
	return out
}

// quotingTest: cond is the result of strings.ContainsFunc(name, func(r) bool { return !isPlainRune(r) }) or a
// disjunction containing it.
func quotingTest(cond ssa.Value, plain *ssa.Function) bool {
	for v := range core.BackwardSlice(cond, core.SliceOpts{}) {
		c, ok := v.(*ssa.Call)
		if !ok || !core.IsCallTo(c, "strings", "ContainsFunc") {
			continue
		}
		if mc, ok := core.Unwrap(c.Call.Args[1]).(*ssa.MakeClosure); ok {
			if f, ok := mc.Fn.(*ssa.Function); ok && len(core.CallsTo(f, plain)) > 0 {
				return true
			}
		}
		if f, ok := c.Call.Args[1].(*ssa.Function); ok && len(core.CallsTo(f, plain)) > 0 {
			return true
		}
	}
	return false
}

// emptyTest: the fact establishes that `name` is non-empty: name != "" / len(name) != 0 / len(name) > 0 holds
// (possibly as one disjunct of the quoting test, which is false on the bare edge).
func emptyTest(cond ssa.Value, val bool, name ssa.Value) bool {
	isName := func(v ssa.Value) bool { return core.Unwrap(v) == name }
	for v := range core.BackwardSlice(cond, core.SliceOpts{}) {
		b, ok := v.(*ssa.BinOp)
		if !ok {
			continue
		}
		if s, ok := core.ConstString(b.Y); ok && s == "" && isName(b.X) && (b.Op == token.EQL || b.Op == token.NEQ) {
			return true
		}
		if c, ok := b.X.(*ssa.Call); ok {
			if bi, ok := c.Call.Value.(*ssa.Builtin); ok && bi.Name() == "len" && isName(c.Call.Args[0]) {
				if k, ok := core.ConstInt(b.Y); ok && k == 0 {
					return true
				}
			}
		}
	}
	return false
}

// allRunesPlain: the return ret of helper h is reached only after a `for _, r := range key` loop over the parameter has
// run to completion, and every iteration that continues has passed plain(r) == true (an iteration that fails the test
// leaves the loop another way).
func allRunesPlain(p *core.Prog, h *ssa.Function, key *ssa.Parameter, ret *ssa.Return, plain *ssa.Function) bool {
	ok := false
	core.Instrs(h, func(in ssa.Instruction) {
		nx, isNext := in.(*ssa.Next)
		if !isNext {
			return
		}
		rg, isRange := nx.Iter.(*ssa.Range)
		if !isRange || rg.X != ssa.Value(key) {
			return
		}
		hdr := nx.Block()
		var okV, runeV ssa.Value
		for _, ref := range *nx.Referrers() {
			if e, isE := ref.(*ssa.Extract); isE {
				switch e.Index {
				case 0:
					okV = e
				case 2:
					runeV = e
				}
			}
		}
		if okV == nil || runeV == nil {
			return
		}
		// the return is on the loop-finished edge
		done := p.FactsAt(ret).Find(func(c ssa.Value, v bool) bool { return c == okV && !v })
		if !done {
			return
		}
		// every back edge carries plain(r) == true
		all, any := true, false
		for _, q := range hdr.Preds {
			if !hdr.Dominates(q) {
				continue
			}
			any = true
			si := 0
			for k, sc := range q.Succs {
				if sc == hdr {
					si = k
				}
			}
			passed := p.EdgeFacts(q, si).Find(func(c ssa.Value, v bool) bool {
				call, isCall := c.(*ssa.Call)
				if !isCall || core.Callee(call) != plain || !v || len(call.Call.Args) != 1 {
					return false
				}
				return core.DependsOn(call.Call.Args[0], core.SliceOpts{}, func(x ssa.Value) bool { return x == runeV })
			})
			if !passed {
				all = false
			}
		}
		if any && all {
			ok = true
		}
	})
	return ok
}

// checkJoinPathVersion implements R19.7.
func checkJoinPathVersion(p *core.Prog, r *core.Result, rule string) {
	join := need(p, r, rule, "internal/project", "", "JoinPathVersion")
	if join == nil || len(join.Params) != 2 {
		return
	}
	pathP, majorP := ssa.Value(join.Params[0]), ssa.Value(join.Params[1])
	eqConst := func(fs core.FactSet) (string, bool) {
		found, which := false, ""
		fs.Find(func(c ssa.Value, v bool) bool {
			b, ok := c.(*ssa.BinOp)
			if !ok {
				return false
			}
			var other ssa.Value
			switch {
			case b.X == majorP:
				other = b.Y
			case b.Y == majorP:
				other = b.X
			default:
				return false
			}
			k, isConst := core.ConstString(other)
			if !isConst {
				return false
			}
			if b.Op == token.EQL && v || b.Op == token.NEQ && !v {
				found, which = true, k
				return true
			}
			return false
		})
		return which, found
	}
	nBare, nJoined := 0, 0
	for _, ret := range core.ReturnsOf(join) {
		vals := core.RetVals(ret)
		if len(vals) != 1 {
			continue
		}
		if vals[0] == pathP {
			nBare++
			construct := fmt.Sprintf("internal/project.JoinPathVersion#drops-suffix-%d", nBare)
			var consts []string
			ok := true
			// the test may be a named predicate (isImplicitMajor(major)): every way in which it says yes carries an
			// equality of its parameter with a constant
			viaHelper := false
			p.FactsAt(ret).Find(func(c ssa.Value, v bool) bool {
				hc, isCall := c.(*ssa.Call)
				if !isCall || !v || viaHelper {
					return false
				}
				h := core.Callee(hc)
				if h == nil || !core.InModule(h) || h.Blocks == nil {
					return false
				}
				cases, sub := p.CalleeCases(hc, true)
				if len(cases) == 0 {
					return false
				}
				var ks []string
				for _, fs := range cases {
					k, found := "", false
					fs.Find(func(cc ssa.Value, vv bool) bool {
						b, ok := cc.(*ssa.BinOp)
						if !ok {
							return false
						}
						var prm, other ssa.Value = b.X, b.Y
						if sub[prm] != majorP {
							prm, other = b.Y, b.X
						}
						if sub[prm] != majorP {
							return false
						}
						kk, isConst := core.ConstString(other)
						if isConst && (b.Op == token.EQL && vv || b.Op == token.NEQ && !vv) {
							k, found = kk, true
							return true
						}
						return false
					})
					if !found {
						return false
					}
					ks = append(ks, strconv.Quote(k))
				}
				viaHelper = true
				consts = append(consts, ks...)
				return true
			})
			if viaHelper {
				// decided through the predicate
			} else if k, found := eqConst(p.FactsAt(ret)); found {
				consts = append(consts, strconv.Quote(k))
			} else {
				// a || b || c: the block is entered from several tests; every entering edge carries an equality
				blk := ret.Block()
				if len(blk.Preds) == 0 {
					ok = false
				}
				for _, q := range blk.Preds {
					for si, sc := range q.Succs {
						if sc != blk {
							continue
						}
						if k, found := eqConst(p.EdgeFacts(q, si)); found {
							consts = append(consts, strconv.Quote(k))
						} else {
							ok = false
						}
					}
				}
			}
			sort.Strings(consts)
			r.Check(ok, rule, construct, p.InstrPos(ret), "the bare path is returned only where the major version equals one of "+strings.Join(consts, ", "), "the bare path can be returned on an edge where the major version was not tested equal to a constant: suffixes outside the intended list are dropped, so CleanPath is not the identity on clean paths (tools/gen@edge loads back as tools/gen) and the configuration does not round-trip")
			continue
		}
		nJoined++
		construct := fmt.Sprintf("internal/project.JoinPathVersion#keeps-suffix-%d", nJoined)
		okJoin := false
		switch x := vals[0].(type) {
		case *ssa.Call:
			// fmt.Sprintf("%v@%v", p, major)
			if core.IsCallTo(x, "fmt", "Sprintf") {
				if f, isConst := core.ConstString(x.Call.Args[0]); isConst && (f == "%v@%v" || f == "%s@%s") {
					ops := variadicOperands(x)
					okJoin = len(ops) == 2 && core.Unwrap(ops[0]) == pathP && core.Unwrap(ops[1]) == majorP
				}
			}
		case *ssa.BinOp:
			// p + "@" + major
			if x.Op == token.ADD && x.Y == majorP {
				if l, ok := x.X.(*ssa.BinOp); ok && l.Op == token.ADD && l.X == pathP {
					if sep, isConst := core.ConstString(l.Y); isConst && sep == "@" {
						okJoin = true
					}
				}
			}
		}
		r.Check(okJoin, rule, construct, p.InstrPos(ret), "the kept suffix is written as path@major", "a non-bare result of JoinPathVersion is not path, \"@\", major in that order: SplitPathVersion does not recover what was joined")
	}
	r.Floor(rule, nBare, 1, "bare-path returns of JoinPathVersion")
	r.Floor(rule, nJoined, 1, "suffix-keeping returns of JoinPathVersion")
}

// variadicOperands lists the values passed in the ...any tail of a call (the elements stored into the implicit array).
func variadicOperands(c *ssa.Call) []ssa.Value {
	if len(c.Call.Args) == 0 {
		return nil
	}
	sl, ok := c.Call.Args[len(c.Call.Args)-1].(*ssa.Slice)
	if !ok {
		return nil
	}
	arr, ok := sl.X.(*ssa.Alloc)
	if !ok {
		return nil
	}
	byIdx := map[int64]ssa.Value{}
	for _, ref := range *arr.Referrers() {
		ia, ok := ref.(*ssa.IndexAddr)
		if !ok {
			continue
		}
		k, ok := core.ConstInt(ia.Index)
		if !ok {
			continue
		}
		for _, ref2 := range *ia.Referrers() {
			if st, ok := ref2.(*ssa.Store); ok && st.Addr == ssa.Value(ia) {
				v := st.Val
				if mi, ok := v.(*ssa.MakeInterface); ok {
					v = mi.X
				}
				byIdx[k] = v
			}
		}
	}
	var out []ssa.Value
	for i := int64(0); i < int64(len(byIdx)); i++ {
		out = append(out, byIdx[i])
	}
	return out
}

// checkWriterTruncates implements R19.8.
func checkWriterTruncates(p *core.Prog, r *core.Result, w *ssa.Function, rule string) {
	n := 0
	for f := range staticClosure(p, w) {
		if f.Pkg != w.Pkg {
			continue
		}
		for _, c := range core.Calls(f) {
			cal := core.Callee(c)
			if cal == nil {
				continue
			}
			construct := fmt.Sprintf("%s#opens-destination-%d", fname(w), n+1)
			switch core.CalleeKey(cal) {
			case "os.Create", "os.WriteFile", "os.CreateTemp":
				n++
				r.OK(rule, construct, p.InstrPos(c.(ssa.Instruction)), "the destination is opened with %s: it starts empty", core.CalleeKey(cal))
			case "os.OpenFile":
				n++
				flags, ok := core.ConstInt(c.Common().Args[1])
				r.Check(ok && flags&int64(os.O_TRUNC) != 0 && flags&int64(os.O_APPEND) == 0, rule, construct, p.InstrPos(c.(ssa.Instruction)), "the destination is opened with O_TRUNC", "the destination is opened without O_TRUNC (or with O_APPEND): an existing, longer file keeps its old tail - after tidy has dropped requirements, the rewritten dawn.toml still lists them")
			}
		}
	}
	r.Floor(rule, n, 1, "calls that open the writer's destination")
}

// checkListedVersionsLoadable implements R19.9 (sibling agreement between the loader's version predicate and the lister's).
func checkListedVersionsLoadable(p *core.Prog, r *core.Result, rule string) {
	const pkgSemver = "golang.org/x/mod/semver"
	pkgVcs := core.ModulePath + "/internal/vcs"
	// the loader's predicate, read off LoadConfigBytes: which semver tests guard the "invalid version" error
	lb := need(p, r, rule, "internal/project", "", "LoadConfigBytes")
	if lb == nil {
		return
	}
	usesValid, usesCanonical := false, false
	for f := range staticClosure(p, lb) {
		if f.Pkg != lb.Pkg {
			continue
		}
		for _, c := range core.Calls(f) {
			if core.IsCallTo(c, pkgSemver, "IsValid") {
				usesValid = true
			}
			if core.IsCallTo(c, pkgSemver, "Canonical") {
				usesCanonical = true
			}
		}
	}
	r.Check(usesValid, rule, "internal/project.LoadConfigBytes#predicate", p.Pos(lb.Pos()), fmt.Sprintf("the loader tests requirement versions with semver.IsValid (canonical form also required: %v)", usesCanonical), "the loader no longer validates requirement versions with semver.IsValid: the predicate the lister must agree with is not recognised")
	n := 0
	for _, fn := range p.ModuleFuncs() {
		if fn.Pkg == nil || fn.Pkg.Pkg.Path() != pkgVcs {
			continue
		}
		k := 0
		core.Instrs(fn, func(in ssa.Instruction) {
			st, ok := in.(*ssa.Store)
			if !ok {
				return
			}
			inner, ok := st.Addr.(*ssa.FieldAddr)
			if !ok {
				return
			}
			outer, ok := inner.X.(*ssa.FieldAddr)
			if !ok || !core.IsField(outer, pkgVcs, "Version", "Version") {
				return
			}
			if _, f := core.FieldOf(inner); f != "Version" {
				return
			}
			n++
			k++
			v := st.Val
			valid, canonical := false, false
			for _, xf := range xfacts(p, st) {
				switch c := xf.Cond.(type) {
				case *ssa.Call:
					if core.IsCallTo(c, pkgSemver, "IsValid") && xf.Val && xf.Arg(c.Call.Args[0]) == v {
						valid = true
					}
				case *ssa.BinOp:
					if !(c.Op == token.EQL && xf.Val || c.Op == token.NEQ && !xf.Val) {
						continue
					}
					for _, pr := range [][2]ssa.Value{{c.X, c.Y}, {c.Y, c.X}} {
						cc, ok := pr[0].(*ssa.Call)
						if ok && core.IsCallTo(cc, pkgSemver, "Canonical") && xf.Arg(cc.Call.Args[0]) == v && xf.Arg(pr[1]) == v {
							canonical = true
						}
					}
				}
			}
			okAll := valid && (canonical || !usesCanonical)
			r.Check(okAll, rule, fmt.Sprintf("%s#listed-version-is-loadable-%d", fname(fn), k), p.InstrPos(st), "a tag is listed as a version only where it passed the loader's tests (valid, and canonical)", "a tag is listed as a version without having passed both of the loader's tests (semver.IsValid and semver.Canonical(v) == v): get can resolve to v1.3 or v1.4.0+build7, writes it to dawn.toml, and the file no longer loads")
		})
	}
	r.Floor(rule, n, 1, "versions listed from repository tags")
}

// comparatorIsNatural: the comparison function handed to a sort compares its operands themselves - every return is
// strings.Compare / cmp.Compare / cmp.Less of the two parameters, or a < b (a > b) of the parameters or of elements
// indexed by them - so that it is a total order on distinct strings.
func comparatorIsNatural(v ssa.Value) bool {
	v = core.Unwrap(v)
	var fn *ssa.Function
	switch x := v.(type) {
	case *ssa.Function:
		fn = x
	case *ssa.MakeClosure:
		fn, _ = x.Fn.(*ssa.Function)
	}
	if fn != nil {
		if k := core.CalleeKey(fn); k == "strings.Compare" || k == "cmp.Compare" {
			return true
		}
	}
	if fn == nil || fn.Blocks == nil {
		return false
	}
	plain := func(o ssa.Value) bool {
		o = core.Unwrap(o)
		if _, ok := o.(*ssa.Parameter); ok {
			return true
		}
		if ld, ok := o.(*ssa.UnOp); ok && ld.Op == token.MUL {
			if ia, ok := ld.X.(*ssa.IndexAddr); ok {
				_, isParam := core.Unwrap(ia.Index).(*ssa.Parameter)
				return isParam
			}
		}
		return false
	}
	n := 0
	for _, ret := range core.ReturnsOf(fn) {
		vals := core.RetVals(ret)
		if len(vals) != 1 {
			return false
		}
		n++
		switch x := core.Unwrap(vals[0]).(type) {
		case *ssa.Call:
			cal := core.Callee(x)
			if cal == nil {
				return false
			}
			k := core.CalleeKey(cal)
			if k != "strings.Compare" && k != "cmp.Compare" && k != "cmp.Less" {
				return false
			}
			if len(x.Call.Args) != 2 || !plain(x.Call.Args[0]) || !plain(x.Call.Args[1]) || x.Call.Args[0] == x.Call.Args[1] {
				return false
			}
		case *ssa.BinOp:
			if x.Op != token.LSS && x.Op != token.GTR || !plain(x.X) || !plain(x.Y) || x.X == x.Y {
				return false
			}
			if b, ok := x.X.Type().Underlying().(*types.Basic); !ok || b.Info()&types.IsString == 0 {
				return false
			}
		default:
			return false
		}
	}
	return n > 0
}

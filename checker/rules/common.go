// Package rules contains one rule set per property of /verif/properties.jsonl.
package rules

import (
	"fmt"
	"go/token"
	"go/types"
	"sort"
	"strings"

	"dawnverif/checker/core"

	"golang.org/x/tools/go/ssa"
)

// RuleSet is the entry point of one property.
type RuleSet struct {
	ID   string
	Full bool // needs whole-program SSA + call graph
	Run  func(p *core.Prog, r *core.Result)
}

var Registry = map[string]*RuleSet{}

func register(id string, full bool, run func(p *core.Prog, r *core.Result)) {
	Registry[id] = &RuleSet{ID: id, Full: full, Run: run}
}

const (
	pkgRoot   = core.ModulePath
	pkgRunner = core.ModulePath + "/runner"
	pkgPickle = core.ModulePath + "/pickle"
	pkgDiff   = core.ModulePath + "/diff"
	pkgUtil   = core.ModulePath + "/util"
	pkgLabel  = core.ModulePath + "/label"
	pkgMvs    = core.ModulePath + "/internal/mvs"
	pkgProj   = core.ModulePath + "/internal/project"
	pkgStar   = "go.starlark.net/starlark"
)

// need resolves an anchor function; records an undecided obligation when it is missing.
func need(p *core.Prog, r *core.Result, rule, rel, recv, name string) *ssa.Function {
	fn := p.Func(rel, recv, name)
	if fn == nil || fn.Blocks == nil {
		what := name
		if recv != "" {
			what = "(" + recv + ")." + name
		}
		r.Unk(rule, "anchor:"+rel+"."+what, "-", "anchor function %s.%s not found in the current tree", rel, what)
		return nil
	}
	return fn
}

func fname(fn *ssa.Function) string { return core.FuncName(fn) }

// ---------- condition-variable rules (RW.1 / RW.2), shared by C04 C05 C06 C09 ----------

// WaitSite describes one (*sync.Cond).Wait call.
type WaitSite struct {
	Fn        *ssa.Function
	Call      ssa.CallInstruction
	Base      string // path of the struct owning the cond
	CondField string // field name of the cond
	Owner     string // "pkg.Type" of the owning struct
	OwnerPkg  string
	OwnerType string
	Header    *ssa.BasicBlock  // loop test block
	Fields    []string         // fields of the owner read by the loop test
	KeepConst map[string]int64 // field -> constant K such that `field == K` keeps waiting
}

// findWaits enumerates the Wait calls of the module and checks RW.1 for each.
func findWaits(p *core.Prog, r *core.Result, rule string) []*WaitSite {
	var out []*WaitSite
	for _, fn := range p.ModuleFuncs() {
		for _, c := range core.Calls(fn) {
			if !core.IsMethod(c, "sync", "Cond", "Wait") {
				continue
			}
			mc, _ := core.AsMethodCall(c)
			ws := &WaitSite{Fn: fn, Call: c, KeepConst: map[string]int64{}}
			// receiver is a load of owner.condField
			recv := mc.Recv
			var fa *ssa.FieldAddr
			if u, ok := recv.(*ssa.UnOp); ok && u.Op == token.MUL {
				fa, _ = u.X.(*ssa.FieldAddr)
			}
			construct := fname(fn) + "#cond-wait"
			pos := p.InstrPos(c.(ssa.Instruction))
			if fa == nil {
				r.Unk(rule, construct, pos, "cannot resolve the condition variable of this Wait to a struct field")
				continue
			}
			owner, field := core.FieldOf(fa)
			if owner == nil {
				r.Unk(rule, construct, pos, "condition variable is not a field of a named struct")
				continue
			}
			ws.Base, ws.CondField = core.Path(fa.X), field
			ws.OwnerType = owner.Obj().Name()
			ws.OwnerPkg = owner.Obj().Pkg().Path()
			ws.Owner = ws.OwnerPkg + "." + ws.OwnerType
			in := c.(ssa.Instruction)
			wb := in.Block()
			// (a) Wait lies in a CFG cycle
			if !core.Reaches(wb, wb, false) {
				r.Bad(rule, construct, pos, "Wait is not inside a loop: a spurious or stale wake-up proceeds without re-testing the condition")
				out = append(out, ws)
				continue
			}
			// (b) find the loop test: an If block in the same cycle with an exit that cannot return to Wait
			var header *ssa.BasicBlock
			for _, b := range fn.Blocks {
				if len(b.Instrs) == 0 {
					continue
				}
				if _, ok := b.Instrs[len(b.Instrs)-1].(*ssa.If); !ok {
					continue
				}
				if !(core.Reaches(b, wb, true) && core.Reaches(wb, b, true)) {
					continue
				}
				exits := false
				for _, s := range b.Succs {
					if !core.Reaches(s, wb, true) {
						exits = true
					}
				}
				if exits {
					header = b
					break
				}
			}
			if header == nil {
				r.Bad(rule, construct, pos, "no loop test guards this Wait (the cycle has no exit test)")
				out = append(out, ws)
				continue
			}
			ws.Header = header
			iff := header.Instrs[len(header.Instrs)-1].(*ssa.If)
			// (c) every path from Wait to a return passes through the loop test
			escapes := false
			for _, ret := range core.ReturnsOf(fn) {
				if core.ReachesAvoiding(in, ret, func(x ssa.Instruction) bool { return x == ssa.Instruction(iff) }) {
					escapes = true
				}
			}
			if escapes {
				r.Bad(rule, construct, pos, "a path leads from Wait to a return without re-testing the loop condition")
				out = append(out, ws)
				continue
			}
			// (d) the test reads fields of the same struct instance as the cond
			// (the test may be a named predicate of the same object: for g.full() { g.c.Wait() } with
			// func (g *gate) full() bool { return g.capacity == 0 })
			condV, condBase := iff.Cond, ws.Base
			if hc, isCall := iff.Cond.(*ssa.Call); isCall {
				if h := core.Callee(hc); h != nil && core.InModule(h) && h.Blocks != nil && h.Signature.Recv() != nil && len(hc.Call.Args) == 1 && core.Path(hc.Call.Args[0]) == ws.Base {
					if rets := core.ReturnsOf(h); len(rets) == 1 {
						if vals := core.RetVals(rets[0]); len(vals) == 1 {
							condV, condBase = vals[0], core.Path(h.Params[0])
						}
					}
				}
			}
			sl := core.BackwardSlice(condV, core.SliceOpts{})
			fields := map[string]bool{}
			for v := range sl {
				if u, ok := v.(*ssa.UnOp); ok && u.Op == token.MUL {
					if f2, ok := u.X.(*ssa.FieldAddr); ok {
						o2, fld := core.FieldOf(f2)
						if o2 == owner && core.Path(f2.X) == condBase {
							fields[fld] = true
						}
					}
				}
			}
			for f := range fields {
				ws.Fields = append(ws.Fields, f)
			}
			sort.Strings(ws.Fields)
			if len(ws.Fields) == 0 {
				r.Bad(rule, construct, pos, "the loop test around Wait does not read any field of %s (the state the condition variable protects)", ws.OwnerType)
				out = append(out, ws)
				continue
			}
			// which successor keeps waiting?
			waitOnTrue := core.Reaches(header.Succs[0], wb, true)
			if b, ok := condV.(*ssa.BinOp); ok && (b.Op == token.EQL || b.Op == token.NEQ) {
				var fld string
				var k int64
				okc := false
				for _, pr := range [][2]ssa.Value{{b.X, b.Y}, {b.Y, b.X}} {
					if u, ok := pr[0].(*ssa.UnOp); ok && u.Op == token.MUL {
						if f2, ok := u.X.(*ssa.FieldAddr); ok {
							if c, ok := core.ConstInt(pr[1]); ok {
								_, fld = core.FieldOf(f2)
								k, okc = c, true
							}
						}
					}
				}
				if okc && ((b.Op == token.EQL) == waitOnTrue) {
					ws.KeepConst[fld] = k
				}
			}
			// (e) the mutex of the same struct is held at the Wait
			li := p.Locks(fn)
			held := false
			for _, k := range li.MayHold(in) {
				if strings.HasPrefix(k.Path, ws.Base+".") && li.MustHoldKey(in, k, core.ModeW) {
					held = true
				}
			}
			if !held {
				r.Bad(rule, construct, pos, "Wait is called without holding a mutex of the same %s instance", ws.OwnerType)
				out = append(out, ws)
				continue
			}
			r.OK(rule, construct, pos, "Wait on %s.%s is inside a loop whose test (block %d) re-reads %s.{%s} under the lock; every path from Wait to a return re-tests it",
				ws.OwnerType, ws.CondField, header.Index, ws.OwnerType, strings.Join(ws.Fields, ","))
			out = append(out, ws)
		}
	}
	return out
}

// checkWakes implements RW.2 for the wait sites of one owner type.
func checkWakes(p *core.Prog, r *core.Result, rule string, waits []*WaitSite, ownerPkg, ownerType string) int {
	n := 0
	for _, ws := range waits {
		if ws.OwnerPkg != ownerPkg || ws.OwnerType != ownerType || ws.Header == nil {
			continue
		}
		for _, field := range ws.Fields {
			for _, fn := range p.ModuleFuncs() {
				core.Instrs(fn, func(in ssa.Instruction) {
					st, ok := in.(*ssa.Store)
					if !ok {
						return
					}
					fa, ok := st.Addr.(*ssa.FieldAddr)
					if !ok || !core.IsField(fa, ownerPkg, ownerType, field) {
						return
					}
					n++
					construct := fmt.Sprintf("%s#store-%s.%s", fname(fn), ownerType, field)
					pos := p.InstrPos(st)
					base := core.Path(fa.X)
					if _, fresh := core.Unwrap(fa.X).(*ssa.Alloc); fresh {
						r.OK(rule, construct, pos, "store into a fresh %s (constructor): no waiter can exist yet", ownerType)
						return
					}
					if k, ok := ws.KeepConst[field]; ok {
						if c, okc := core.ConstInt(st.Val); okc && c == k {
							r.OK(rule, construct, pos, "stores the constant %d for which the wait condition stays true: no wake-up needed", k)
							return
						}
					}
					if fn == ws.Fn {
						r.OK(rule, construct, pos, "store by the waiter itself after its wait loop (consumes the condition; cannot enable another waiter)")
						return
					}
					condPath := base + "." + ws.CondField
					isWake := func(c ssa.CallInstruction) bool {
						if !(core.IsMethod(c, "sync", "Cond", "Signal") || core.IsMethod(c, "sync", "Cond", "Broadcast")) {
							return false
						}
						mc, _ := core.AsMethodCall(c)
						return core.Path(mc.Recv) == condPath
					}
					wakesIn := func(f *ssa.Function) bool {
						for _, c := range core.Calls(f) {
							if isWake(c) {
								return true
							}
						}
						return false
					}
					// deferred wake registered before the store (dominating) or on every path after it
					var wakeInstrs []ssa.Instruction
					deferredDominating := false
					for _, c := range core.Calls(fn) {
						_, isDefer := c.(*ssa.Defer)
						wake := isWake(c)
						if !wake {
							if cal := core.Callee(c); cal != nil && core.InModule(cal) && cal != fn && wakesIn(cal) {
								wake = true
							}
						}
						if !wake {
							continue
						}
						ci := c.(ssa.Instruction)
						if isDefer && core.Dominates(ci, st) {
							deferredDominating = true
						}
						wakeInstrs = append(wakeInstrs, ci)
					}
					if deferredDominating {
						r.OK(rule, construct, pos, "a deferred call registered before the store wakes %s on every exit", condPath)
						return
					}
					missing := false
					for _, ret := range core.ReturnsOf(fn) {
						if core.ReachesAvoiding(st, ret, func(x ssa.Instruction) bool {
							for _, w := range wakeInstrs {
								if w == x {
									return true
								}
							}
							return false
						}) {
							missing = true
						}
					}
					if missing || len(wakeInstrs) == 0 {
						// a setter helper (the store's struct is its parameter): every caller wakes the waiters on every
						// path from the call to its own returns
						if prm, isPrm := core.Unwrap(fa.X).(*ssa.Parameter); isPrm && len(p.FuncValueUses(fn)) == 0 {
							callers := p.StaticCallers(fn)
							allWake := len(callers) > 0
							for _, c := range callers {
								g := c.Parent()
								idx := paramIndex(fn, prm)
								if idx < 0 || idx >= len(c.Common().Args) {
									allWake = false
									continue
								}
								callerCond := core.Path(c.Common().Args[idx]) + "." + ws.CondField
								isCallerWake := func(x ssa.Instruction) bool {
									wc, ok := x.(ssa.CallInstruction)
									if !ok || !(core.IsMethod(wc, "sync", "Cond", "Signal") || core.IsMethod(wc, "sync", "Cond", "Broadcast")) {
										return false
									}
									mc, _ := core.AsMethodCall(wc)
									return core.Path(mc.Recv) == callerCond
								}
								for _, ret := range core.ReturnsOf(g) {
									if core.ReachesAvoiding(c.(ssa.Instruction), ret, isCallerWake) {
										allWake = false
									}
								}
							}
							if allWake {
								r.OK(rule, construct, pos, "a setter helper: each of its %d caller(s) signals the condition variable on every path after the call", len(callers))
								return
							}
						}
						r.Bad(rule, construct, pos, "store to %s.%s (read by the wait loop in %s) can reach a return without Signal/Broadcast on %s: a waiter may sleep forever", ownerType, field, fname(ws.Fn), condPath)
						return
					}
					r.OK(rule, construct, pos, "every path from the store to a return signals %s", condPath)
				})
			}
		}
	}
	return n
}

// lockBalanced checks that fn never returns with a lock it acquired still held (unless deferred).
func lockBalanced(p *core.Prog, r *core.Result, rule string, fn *ssa.Function) {
	li := p.Locks(fn)
	if len(li.Ops) == 0 {
		return
	}
	held := li.HeldAtReturn()
	if len(held) == 0 {
		r.OK(rule, fname(fn)+"#lock-balance", p.Pos(fn.Pos()), "every acquired mutex is released (directly or by defer) on all %d return(s)", len(core.ReturnsOf(fn)))
		return
	}
	for ret, ks := range held {
		var names []string
		for _, k := range ks {
			names = append(names, k.Path)
		}
		r.Bad(rule, fname(fn)+"#lock-balance", p.InstrPos(ret), "return reachable with %s still locked", strings.Join(names, ", "))
	}
}

// guarded runs a guarded-by specification and records one obligation per access.
func guarded(p *core.Prog, r *core.Result, rule string, spec core.GuardSpec) int {
	accs := p.CheckGuardedBy(spec)
	count := map[string]int{}
	for _, a := range accs {
		key := fmt.Sprintf("%s#%s.%s:%s", fname(a.Fn), spec.Type, spec.Field, a.What)
		count[key]++
		if count[key] > 1 {
			key = fmt.Sprintf("%s#%d", key, count[key])
		}
		if a.Guard {
			r.OK(rule, key, p.InstrPos(a.Instr), "%s of %s.%s: %s", a.What, spec.Type, spec.Field, a.Reason)
		} else {
			r.Bad(rule, key, p.InstrPos(a.Instr), "%s of %s.%s without its lock: %s", a.What, spec.Type, spec.Field, a.Reason)
		}
	}
	return len(accs)
}

// xfact is a must-fact at some point, possibly one that holds inside a boolean helper predicate whose result is
// known at that point; Arg maps the helper's values (parameters, spill cells of parameters) back to the caller's.
type xfact struct {
	Cond ssa.Value
	Val  bool
	Arg  func(ssa.Value) ssa.Value
}

// xfacts lists the facts before `at`, looking through in-module boolean helper predicates (two levels): a fact
// "helper(args) == v" is expanded into the facts that hold inside the helper when it returns v.
func xfacts(p *core.Prog, at ssa.Instruction) []xfact { return xfactsOf(p, p.FactsAt(at)) }

// xfactsOf expands an arbitrary fact set (e.g. the facts of a phi edge).
func xfactsOf(p *core.Prog, fs core.FactSet) []xfact {
	id := func(v ssa.Value) ssa.Value { return v }
	var out []xfact
	var expand func(cond ssa.Value, val bool, outer func(ssa.Value) ssa.Value, depth int)
	expand = func(cond ssa.Value, val bool, outer func(ssa.Value) ssa.Value, depth int) {
		out = append(out, xfact{cond, val, outer})
		call, ok := cond.(*ssa.Call)
		if !ok || depth >= 2 {
			return
		}
		cf, subst := p.CalleeFacts(call, val)
		if cf == nil {
			return
		}
		arg := func(v ssa.Value) ssa.Value {
			if a, ok := subst[v]; ok {
				return outer(a)
			}
			// the spill cell of a parameter stands for the parameter
			if al, ok := v.(*ssa.Alloc); ok {
				var prm ssa.Value
				n := 0
				for _, ref := range *al.Referrers() {
					if st, ok := ref.(*ssa.Store); ok && st.Addr == ssa.Value(al) {
						n++
						prm = st.Val
					}
				}
				if n == 1 {
					if a, ok := subst[prm]; ok {
						return outer(a)
					}
				}
			}
			return v
		}
		for g := range cf {
			expand(g.Cond, g.Val, arg, depth+1)
		}
	}
	for f := range fs {
		expand(f.Cond, f.Val, id, 0)
	}
	return out
}

// holdsX is holds() that also looks through in-module boolean helper predicates: a fact "helper(args) == v" is
// expanded into the facts that hold inside the helper when it returns v; `arg` maps the helper's parameters back to
// the caller's argument values (identity for other values).
func holdsX(p *core.Prog, at ssa.Instruction, val bool, pred func(c ssa.Value, arg func(ssa.Value) ssa.Value) bool) bool {
	for _, f := range xfacts(p, at) {
		if f.Val == val && pred(f.Cond, f.Arg) {
			return true
		}
	}
	return false
}

// errHelperFacts lists what is known at `at` because a validating helper of the module (a function whose only result is
// an error: checkPathMajor(p)) is known to have returned nil there: the facts at the helper's single nil return, with
// Arg mapping the helper's parameters back to the arguments of the call.
func errHelperFacts(p *core.Prog, at ssa.Instruction) []xfact {
	var out []xfact
	fs := p.FactsAt(at)
	for _, c := range core.Calls(at.Parent()) {
		call, ok := c.(*ssa.Call)
		if !ok {
			continue
		}
		h := core.Callee(call)
		if h == nil || !core.InModule(h) || h.Blocks == nil {
			continue
		}
		res := h.Signature.Results()
		if res.Len() != 1 || !types.Implements(res.At(0).Type(), errorIface()) {
			continue
		}
		if nn, known := fs.ErrNonNil(call); !known || nn {
			continue
		}
		var nilRets []*ssa.Return
		for _, ret := range core.ReturnsOf(h) {
			if vals := core.RetVals(ret); len(vals) == 1 && core.IsNilConst(vals[0]) {
				nilRets = append(nilRets, ret)
			}
		}
		if len(nilRets) != 1 {
			continue
		}
		args := call.Call.Args
		arg := func(v ssa.Value) ssa.Value {
			for i, prm := range h.Params {
				if i >= len(args) {
					break
				}
				if v == ssa.Value(prm) {
					return args[i]
				}
				if ld, isLd := v.(*ssa.UnOp); isLd && ld.Op == token.MUL {
					if sv := core.SingleStore(ld.X); sv == ssa.Value(prm) {
						return args[i]
					}
				}
			}
			return v
		}
		for f := range p.FactsAt(nilRets[0]) {
			out = append(out, xfact{Cond: f.Cond, Val: f.Val, Arg: arg})
		}
	}
	return out
}

package rules

import (
	"go/token"
	"go/types"

	"dawnverif/checker/core"

	"golang.org/x/tools/go/ssa"
)

func init() { register("C20", false, runC20) }

func runC20(p *core.Prog, r *core.Result) {
	r.Decided = []string{
		"R20.1 cache.entries is only accessed with cache.m held (read lock for lookups, write lock for updates)",
		"R20.2 the callable is invoked only after a miss of the same key looked up under the write lock, with the lock held continuously from that lookup through the call to the update",
		"R20.3 the map is updated only on the nil-error edge of the call, with the call's result under the same key",
		"R20.4 every successful return yields either the looked-up value (on its found edge) or the value just stored",
	}
	r.NotDecided = []string{"nothing structural; the behaviour then follows from sync.RWMutex semantics (trusted)"}
	once := need(p, r, "R20.0", "", "cache", "once")
	if once == nil {
		return
	}
	n := guarded(p, r, "R20.1", core.GuardSpec{Rel: "", Type: "cache", Field: "entries", Lock: "m"})
	r.Floor("R20.1", n, 2, "accesses to cache.entries")
	for _, fn := range p.ModuleFuncs() {
		if fn.Signature.Recv() != nil && recvNamed(fn) == "cache" {
			lockBalanced(p, r, "R20.1", fn)
		}
	}

	// identify key parameter (string) and callable parameter
	var keyP, fnP *ssa.Parameter
	for _, prm := range once.Params[1:] {
		if b, ok := prm.Type().Underlying().(*types.Basic); ok && b.Kind() == types.String {
			keyP = prm
		}
		if n, ok := prm.Type().(*types.Named); ok && n.Obj().Name() == "Callable" {
			fnP = prm
		}
	}
	if keyP == nil || fnP == nil {
		r.Unk("R20.2", "dawn.(*cache).once#params", p.Pos(once.Pos()), "cannot identify the key and callable parameters")
		return
	}
	class := core.ClassOf("", "cache", "m")
	callsOf := func(host *ssa.Function, fnP *ssa.Parameter) []*ssa.Call {
		var calls []*ssa.Call
		for _, c := range core.Calls(host) {
			if core.IsCallTo(c, pkgStar, "Call") {
				if cc, ok := c.(*ssa.Call); ok && core.Unwrap(cc.Call.Args[1]) == ssa.Value(fnP) {
					calls = append(calls, cc)
				}
			}
		}
		return calls
	}
	// the slow path (write lock, re-check, call, store) lives in once or in a helper that once hands the key and the
	// callable to
	host, onceKeyP := once, keyP
	var hostCall *ssa.Call
	calls := callsOf(once, fnP)
	if len(calls) == 0 {
		for _, c := range core.Calls(once) {
			hc, isCall := c.(*ssa.Call)
			h := core.Callee(c)
			if !isCall || h == nil || h.Pkg != once.Pkg || h.Blocks == nil {
				continue
			}
			var hk, hf *ssa.Parameter
			for i, a := range hc.Call.Args {
				if i >= len(h.Params) {
					break
				}
				if a == ssa.Value(keyP) {
					hk = h.Params[i]
				}
				if core.Unwrap(a) == ssa.Value(fnP) {
					hf = h.Params[i]
				}
			}
			if hk != nil && hf != nil && len(callsOf(h, hf)) > 0 {
				host, keyP, fnP, hostCall = h, hk, hf, hc
				calls = callsOf(h, hf)
				break
			}
		}
	}
	li := p.Locks(host)
	r.Floor("R20.2", len(calls), 1, "invocations of the callable in once")
	// lookups of entries[key] in once
	isEntriesLookup := func(v ssa.Value, key ssa.Value) *ssa.Lookup {
		lk, ok := v.(*ssa.Lookup)
		if !ok || !lk.CommaOk || lk.Index != key {
			return nil
		}
		if !core.LoadOfField(lk.X, pkgRoot, "cache", "entries") {
			return nil
		}
		return lk
	}
	var lookups []*ssa.Lookup
	core.Instrs(host, func(in ssa.Instruction) {
		if v, ok := in.(ssa.Value); ok {
			if lk := isEntriesLookup(v, keyP); lk != nil {
				lookups = append(lookups, lk)
			}
		}
	})
	okExtract := func(v ssa.Value, idx int) (ssa.Value, bool) {
		e, ok := v.(*ssa.Extract)
		if !ok || e.Index != idx {
			return nil, false
		}
		return e.Tuple, true
	}
	unlocks := func(a, b ssa.Instruction) bool {
		for _, op := range li.Ops {
			if op.Acquire || op.Defer || op.Key.Class != class {
				continue
			}
			u := op.Instr.(ssa.Instruction)
			if core.InstrReaches(a, u) && core.InstrReaches(u, b) {
				return true
			}
		}
		return false
	}
	var updates []*ssa.MapUpdate
	core.Instrs(host, func(in ssa.Instruction) {
		if mu, ok := in.(*ssa.MapUpdate); ok && core.LoadOfField(mu.Map, pkgRoot, "cache", "entries") {
			updates = append(updates, mu)
		}
	})
	for _, call := range calls {
		construct := "dawn.(*cache).once#call"
		pos := p.InstrPos(call)
		if !p.MustHoldClassX(call, class, core.ModeW) {
			r.Bad("R20.2", construct, pos, "the callable is invoked without the write lock: two callers can both run it for one key")
			continue
		}
		// a lookup under W lock, dominating, on its miss edge, with no unlock in between
		okRecheck := false
		for _, lk := range lookups {
			if !core.Dominates(lk, call) || !p.MustHoldClassX(lk, class, core.ModeW) {
				continue
			}
			miss := p.FactsAt(call).Find(func(cond ssa.Value, val bool) bool {
				t, ok := okExtract(cond, 1)
				return ok && t == ssa.Value(lk) && !val
			})
			if miss && !unlocks(lk, call) {
				okRecheck = true
			}
		}
		r.Check(okRecheck, "R20.2", construct, pos, "the call is on the miss edge of a lookup of the same key made under the write lock, with no unlock in between", "the callable is invoked without re-checking the key under the write lock (two callers that both missed on the fast path would both compute)")
		// update
		okUpd := false
		for _, mu := range updates {
			if mu.Key != ssa.Value(keyP) {
				continue
			}
			t, ok := okExtract(mu.Value, 0)
			if !ok || t != ssa.Value(call) {
				continue
			}
			var errV ssa.Value
			for _, ref := range *call.Referrers() {
				if e, ok := ref.(*ssa.Extract); ok && e.Index == 1 {
					errV = e
				}
			}
			if errV == nil {
				continue
			}
			nn, known := p.FactsAt(mu).ErrNonNil(errV)
			if known && !nn && !unlocks(call, mu) && p.MustHoldClassX(mu, class, core.ModeW) {
				okUpd = true
			}
		}
		r.Check(okUpd, "R20.3", "dawn.(*cache).once#store", pos, "entries[key] receives the call's value on the nil-error edge, under the same critical section", "the call's value is not stored under its key on the nil-error edge within the same critical section")
	}
	// every update is of this kind
	for _, mu := range updates {
		t, ok := okExtract(mu.Value, 0)
		_, isCall := t.(*ssa.Call)
		r.Check(ok && isCall && mu.Key == ssa.Value(keyP), "R20.3", "dawn.(*cache).once#update-source", p.InstrPos(mu), "the only map update stores a call result under the key parameter", "entries is updated with something other than the callable's result for the key")
	}
	for _, fn := range p.ModuleFuncs() {
		if fn == host {
			continue
		}
		core.Instrs(fn, func(in ssa.Instruction) {
			if mu, ok := in.(*ssa.MapUpdate); ok && core.LoadOfField(mu.Map, pkgRoot, "cache", "entries") {
				r.Bad("R20.3", fname(fn)+"#update-elsewhere", p.InstrPos(mu), "entries is updated outside the slow path of once: a value can be replaced after it was handed out")
			}
		})
	}
	// R20.3b no update reachable on the error edge: covered by the nil-edge fact above for all updates
	for _, mu := range updates {
		onNil := false
		for _, call := range calls {
			for _, ref := range *call.Referrers() {
				if e, ok := ref.(*ssa.Extract); ok && e.Index == 1 {
					if nn, known := p.FactsAt(mu).ErrNonNil(e); known && !nn {
						onNil = true
					}
				}
			}
		}
		r.Check(onNil, "R20.3", "dawn.(*cache).once#update-on-success-only", p.InstrPos(mu), "the update is unreachable when the callable failed", "the map can be updated although the callable failed: a failure is cached")
	}

	// R20.4 returns
	get := p.Func("", "cache", "get")
	getIsLookup := false
	if get != nil {
		getIsLookup = true
		var gk *ssa.Parameter
		if len(get.Params) == 2 {
			gk = get.Params[1]
		}
		for _, ret := range core.ReturnsOf(get) {
			vals := core.RetVals(ret)
			if len(vals) != 2 || gk == nil {
				getIsLookup = false
				continue
			}
			t0, ok0 := okExtract(vals[0], 0)
			t1, ok1 := okExtract(vals[1], 1)
			if !ok0 || !ok1 || t0 != t1 || isEntriesLookupOf(t0, gk) == nil {
				getIsLookup = false
			}
		}
	}
	nret := 0
	type retIn struct {
		ret *ssa.Return
		key *ssa.Parameter
	}
	var rets []retIn
	for _, ret := range core.ReturnsOf(once) {
		vals := core.RetVals(ret)
		// `return c.helper(...)`: the helper's returns stand for this one
		if len(vals) == 2 && hostCall != nil {
			t0, ok0 := okExtract(vals[0], 0)
			t1, ok1 := okExtract(vals[1], 1)
			if ok0 && ok1 && t0 == ssa.Value(hostCall) && t1 == ssa.Value(hostCall) {
				for _, hr := range core.ReturnsOf(host) {
					rets = append(rets, retIn{hr, keyP})
				}
				continue
			}
		}
		rets = append(rets, retIn{ret, onceKeyP})
	}
	for _, ri := range rets {
		ret, keyP := ri.ret, ri.key
		vals := core.RetVals(ret)
		if len(vals) != 2 || !core.IsNilConst(vals[1]) {
			continue // error return
		}
		nret++
		construct := "dawn.(*cache).once#success-return"
		why := "a successful return yields a value that is neither the looked-up entry nor the stored result"
		// goodUnder: value v is an acceptable result given the facts fs, at the program point `pt`
		var goodUnder func(v ssa.Value, fs core.FactSet, pt ssa.Instruction, depth int) bool
		goodUnder = func(v ssa.Value, fs core.FactSet, pt ssa.Instruction, depth int) bool {
			if ph, isPhi := v.(*ssa.Phi); isPhi && depth < 3 {
				efs := p.PhiEdgeFacts(ph)
				for i, e := range ph.Edges {
					pred := ph.Block().Preds[i]
					if !goodUnder(e, efs[i], pred.Instrs[len(pred.Instrs)-1], depth+1) {
						return false
					}
				}
				return len(ph.Edges) > 0
			}
			t, ok := okExtract(v, 0)
			if !ok {
				return false
			}
			found := func() bool {
				return fs.Find(func(c ssa.Value, val bool) bool { tt, ok := okExtract(c, 1); return ok && tt == t && val })
			}
			switch x := t.(type) {
			case *ssa.Lookup:
				return isEntriesLookup(x, keyP) != nil && found()
			case *ssa.Call:
				if get != nil && core.Callee(x) == get && getIsLookup && len(x.Call.Args) == 2 && x.Call.Args[1] == ssa.Value(keyP) {
					return found()
				}
				for _, call := range calls {
					if x == call {
						// must be the stored value: an update of this value precedes this point
						for _, mu := range updates {
							if mu.Value == v && (core.Dominates(mu, pt) || mu.Block() == pt.Block()) {
								return true
							}
						}
						why = "the computed value is returned without having been stored"
					}
				}
			}
			return false
		}
		good := goodUnder(vals[0], p.FactsAt(ret), ret, 0)
		r.Check(good, "R20.4", construct, p.InstrPos(ret), "returns the entry found (on its found edge) or the value just stored", why)
	}
	r.Floor("R20.4", nret, 1, "successful returns of once")
}

func isEntriesLookupOf(v ssa.Value, key ssa.Value) *ssa.Lookup {
	lk, ok := v.(*ssa.Lookup)
	if !ok || !lk.CommaOk || lk.Index != key || !core.LoadOfField(lk.X, pkgRoot, "cache", "entries") {
		return nil
	}
	return lk
}

func recvNamed(fn *ssa.Function) string {
	if fn == nil || fn.Signature.Recv() == nil {
		return ""
	}
	rt := fn.Signature.Recv().Type()
	if pt, ok := rt.(*types.Pointer); ok {
		rt = pt.Elem()
	}
	if n, ok := rt.(*types.Named); ok {
		return n.Obj().Name()
	}
	return ""
}

var _ = token.MUL

package rules

import (
	"fmt"
	"go/constant"
	"go/token"
	"go/types"
	"sort"
	"strconv"
	"strings"

	"dawnverif/checker/core"

	"golang.org/x/tools/go/ssa"
)

func init() { register("C08", true, runC08) }

type pickleCase struct {
	Type   types.Type
	Module string
	Name   string
	Arity  int
	Ret    *ssa.Return
	Elems  []ssa.Value // values stored in the argument tuple
	Open   []string    // environment-yielding calls on the subject feeding the tuple (Env, ModuleEnv, ...)
	// Points: for every function on the delegation chain from the registered pickler down to the function
	// that builds the tuple, the instruction (delegating call, or the final return) at which this case is produced.
	Points []ssa.Instruction
}

// tupleElems resolves a tuple literal `slice(new [n]Value)[:]` into its element values.
func tupleElems(v ssa.Value) ([]ssa.Value, bool) {
	sl, ok := v.(*ssa.Slice)
	if !ok {
		return nil, false
	}
	arr, ok := sl.X.(*ssa.Alloc)
	if !ok {
		return nil, false
	}
	at, ok := arr.Type().Underlying().(*types.Pointer).Elem().Underlying().(*types.Array)
	if !ok {
		return nil, false
	}
	elems := make([]ssa.Value, at.Len())
	for _, ref := range *arr.Referrers() {
		ia, ok := ref.(*ssa.IndexAddr)
		if !ok {
			continue
		}
		k, ok := core.ConstInt(ia.Index)
		if !ok || k >= at.Len() {
			continue
		}
		for _, r2 := range *ia.Referrers() {
			if st, ok := r2.(*ssa.Store); ok {
				elems[k] = st.Val
			}
		}
	}
	return elems, true
}

func extractPicklerCases(p *core.Prog, fn *ssa.Function) []pickleCase {
	return extractPicklerCasesVia(p, fn, nil, 0)
}

func extractPicklerCasesVia(p *core.Prog, fn *ssa.Function, via []ssa.Instruction, depth int) []pickleCase {
	var out []pickleCase
	for _, ret := range core.ReturnsOf(fn) {
		vals := core.RetVals(ret)
		if len(vals) != 4 {
			continue
		}
		// delegation: return g(x)
		if e, ok := vals[0].(*ssa.Extract); ok && depth < 3 {
			if call, ok := e.Tuple.(*ssa.Call); ok {
				if g := core.Callee(call); g != nil && core.InModule(g) && g.Signature.Results().Len() == 4 {
					out = append(out, extractPicklerCasesVia(p, g, append(append([]ssa.Instruction{}, via...), call), depth+1)...)
					continue
				}
			}
		}
		if !core.IsNilConst(vals[3]) {
			continue
		}
		pc := pickleCase{Ret: ret, Arity: -1, Points: append(append([]ssa.Instruction{}, via...), ret)}
		pc.Module, _ = core.ConstString(vals[0])
		pc.Name, _ = core.ConstString(vals[1])
		if elems, ok := tupleElems(vals[2]); ok {
			pc.Arity = len(elems)
			pc.Elems = elems
		}
		ts := assertedTypes(p, ret)
		if len(ts) > 0 {
			pc.Type = ts[len(ts)-1]
		}
		for _, e := range pc.Elems {
			if e == nil {
				continue
			}
			for v := range core.BackwardSlice(e, core.SliceOpts{}) {
				if c, ok := v.(*ssa.Call); ok {
					if cal := core.Callee(c); cal != nil && cal.Signature.Recv() != nil {
						switch cal.Name() {
						case "Env", "ModuleEnv", "Globals", "Code":
							pc.Open = append(pc.Open, cal.Name())
						}
					}
				}
			}
		}
		sort.Strings(pc.Open)
		out = append(out, pc)
	}
	return out
}

type unpickleCase struct {
	Name    string
	Arity   int // from the len(args) != N test; -1 when absent
	Entry   ssa.Instruction
	Indexes map[int64]bool // constant indexes of args read in the case
	Whole   bool           // the whole tuple is passed on or returned in the case
}

func extractUnpicklerCases(p *core.Prog, fn *ssa.Function) (cases map[string]*unpickleCase, modules []string) {
	cases = map[string]*unpickleCase{}
	if len(fn.Params) < 3 {
		return
	}
	modP, nameP, argsP := fn.Params[0], fn.Params[1], fn.Params[2]
	core.Instrs(fn, func(in ssa.Instruction) {
		b, ok := in.(*ssa.BinOp)
		if !ok {
			return
		}
		if b.X == ssa.Value(modP) && (b.Op == token.NEQ || b.Op == token.EQL) {
			if s, ok := core.ConstString(b.Y); ok {
				modules = append(modules, s)
			}
		}
		if b.X == ssa.Value(nameP) && b.Op == token.EQL {
			if s, ok := core.ConstString(b.Y); ok {
				cases[s] = &unpickleCase{Name: s, Arity: -1, Entry: in, Indexes: map[int64]bool{}}
			}
		}
	})
	// reach[s]: the blocks reachable from the entry when name == s (every test of name against a constant takes the edge
	// consistent with that); reach[""] stands for a name that is none of the cases. An instruction belongs to the cases
	// whose reach contains its block, unless a foreign name reaches it too (common code). A case list
	// (`case "A", "B":`) thereby belongs to both.
	reachFor := func(name string, foreign bool) map[*ssa.BasicBlock]bool {
		seen := map[*ssa.BasicBlock]bool{}
		if len(fn.Blocks) == 0 {
			return seen
		}
		work := []*ssa.BasicBlock{fn.Blocks[0]}
		for len(work) > 0 {
			blk := work[len(work)-1]
			work = work[:len(work)-1]
			if seen[blk] {
				continue
			}
			seen[blk] = true
			succs := blk.Succs
			if len(blk.Instrs) > 0 {
				if iff, ok := blk.Instrs[len(blk.Instrs)-1].(*ssa.If); ok {
					if bo, ok := iff.Cond.(*ssa.BinOp); ok && bo.X == ssa.Value(nameP) && (bo.Op == token.EQL || bo.Op == token.NEQ) {
						if t, ok := core.ConstString(bo.Y); ok {
							eq := !foreign && t == name
							if bo.Op == token.NEQ {
								eq = !eq
							}
							if eq {
								succs = blk.Succs[:1]
							} else {
								succs = blk.Succs[1:]
							}
						}
					}
				}
			}
			work = append(work, succs...)
		}
		return seen
	}
	foreignReach := reachFor("", true)
	reach := map[string]map[*ssa.BasicBlock]bool{}
	var caseNames []string
	for n := range cases {
		caseNames = append(caseNames, n)
		reach[n] = reachFor(n, false)
	}
	sort.Strings(caseNames)
	caseOf := func(at ssa.Instruction) []*unpickleCase {
		if at.Block() == nil || foreignReach[at.Block()] {
			return nil
		}
		var res []*unpickleCase
		for _, n := range caseNames {
			if reach[n][at.Block()] {
				res = append(res, cases[n])
			}
		}
		return res
	}
	core.Instrs(fn, func(in ssa.Instruction) {
		switch x := in.(type) {
		case *ssa.BinOp:
			if x.Op != token.NEQ && x.Op != token.EQL {
				return
			}
			c, ok := stripConv(x.X).(*ssa.Call)
			if !ok {
				return
			}
			if bi, ok := c.Call.Value.(*ssa.Builtin); !ok || bi.Name() != "len" || c.Call.Args[0] != ssa.Value(argsP) {
				return
			}
			if n, ok := core.ConstInt(x.Y); ok {
				for _, uc := range caseOf(in) {
					uc.Arity = int(n)
				}
			}
		case *ssa.IndexAddr:
			if x.X == ssa.Value(argsP) {
				if k, ok := core.ConstInt(x.Index); ok {
					for _, uc := range caseOf(in) {
						uc.Indexes[k] = true
					}
				}
			}
		case *ssa.Call:
			// the whole argument tuple is consumed: passed on (append(..., args...), a helper) in this case
			for ai, a := range x.Call.Args {
				if core.Unwrap(a) == ssa.Value(argsP) {
					if b, isB := x.Call.Value.(*ssa.Builtin); isB && (b.Name() == "len" || b.Name() == "cap") {
						continue
					}
					// a per-kind helper of the package that is handed the tuple (unpickleFunction(args)): its arity test
					// and its constant indexes are those of the case
					if h := core.Callee(x); h != nil && h.Blocks != nil && h.Pkg == fn.Pkg && ai < len(h.Params) {
						hp := h.Params[ai]
						found := false
						core.Instrs(h, func(hin ssa.Instruction) {
							switch y := hin.(type) {
							case *ssa.BinOp:
								if y.Op != token.NEQ && y.Op != token.EQL {
									return
								}
								c, ok := stripConv(y.X).(*ssa.Call)
								if !ok {
									return
								}
								if bi, ok := c.Call.Value.(*ssa.Builtin); !ok || bi.Name() != "len" || c.Call.Args[0] != ssa.Value(hp) {
									return
								}
								if n, ok := core.ConstInt(y.Y); ok {
									found = true
									for _, uc := range caseOf(in) {
										uc.Arity = int(n)
									}
								}
							case *ssa.IndexAddr:
								if y.X == ssa.Value(hp) {
									if k, ok := core.ConstInt(y.Index); ok {
										found = true
										for _, uc := range caseOf(in) {
											uc.Indexes[k] = true
										}
									}
								}
							}
						})
						if found {
							continue
						}
					}
					for _, uc := range caseOf(in) {
						uc.Whole = true
					}
				}
			}
		case *ssa.Return:
			for _, v := range x.Results {
				if core.Unwrap(v) == ssa.Value(argsP) {
					for _, uc := range caseOf(in) {
						uc.Whole = true
					}
				}
			}
		}
	})
	return
}

func runC08(p *core.Prog, r *core.Result) {
	r.Decided = []string{
		"R8.12 the fingerprints are compared in full: diffEnv reports 'unchanged' only on whole-value equality of the recorded and the current environment (shared with C01 R1.13)",
		"R8.13 values of different kinds stay different in the compared form: (a) no case of the host unpickler returns one of its arguments, or the argument tuple, as it is - a pickled target reference would then decode to the bare label string and compare equal to that string, a builtin to a (name, receiver) tuple; (b) the equality that decides 'unchanged' tells numbers of different kinds apart - starlark.Equal/EqualDepth does not (1 == 1.0), so an edit of 3 into 3.0 leaves the fingerprint equal",
		"R8.14 two different values a function references are never written as one: the encoder's memo tables are consulted and filled only under the value being encoded itself, an interface value that keeps the object alive (C07's R7.12), and the decoder drops no element whose insertion fails (C07's R7.16: a dict keyed by functions loses those entries, see the known finding) - a key derived from the value (the address of a tuple's first element, which a tuple shares with its prefix slices) makes `flags = base[:2]` a back-reference to `base`, so editing the slice bound leaves the fingerprint unchanged",
		"R8.15 every kind of predeclared value is fingerprinted in finite time: no Attr method of a module type answers with a newly allocated object of a type that has attributes itself (the encoder walks HasAttrs values attribute by attribute and stops only at objects it has met before, so attributes allocated on demand - a label's parent, whose parent is again new - never end and the process dies of stack exhaustion)",
		"R8.16 changing any code or value the function references changes the fingerprint - including what is bound below the target() call: the environment is not computed by code that runs while the module is executing (loadFunction, (*function).load, the builtins of build files), where ModuleEnv skips globals that are not assigned yet and a free variable assigned after the decorator is a nil cell (C02's R2.5, extended to the builtins)",
		"R8.17 a fingerprint of any size reads back: every multi-byte operand of the decoder is read completely or the read fails (C15's short-read obligation of R15.1: the reader uses io.ReadFull, or panics on a short count) - a buffered reader's Read returns what is left in its buffer, so an operand across a refill boundary is read short and large environments fail to fingerprint or to load back",
		"R8.1 host pickler and unpickler agree: every (module, name) the pickler produces has an unpickler case that checks exactly the arity of the tuple the pickler builds",
		"R8.2 for every in-module value type with attributes, the names it advertises (AttrNames) are names it answers (Attr): the encoder's has-attrs branch never encodes a nil",
		"R8.3 a pickler case whose arguments are an open environment (can contain the subject again, since recursion is enabled) needs an in-progress guard, because NEWOBJ results are memoized only after their arguments",
		"R8.4 no nondeterminism source (clock, pid, random, directory order, addresses, Go-map order into an ordered sink) is reachable from the fingerprint computation",
		"R8.11 a pickler case tells its subjects apart: the argument tuple of every case is computed from the value being pickled, unless the kind has a single value (a zero-size sentinel) - a constant encoding makes all values of a kind indistinguishable, so rebinding a global from one to another leaves the fingerprint unchanged",
		"R8.10 exhaustiveness over value kinds: every concrete type that implements starlark.Value - in the Starlark interpreter package and in this module - is matched by a case of the encoder (by type, or through Sequence / IterableMapping / Iterable / HasAttrs) or of the host pickler; a kind without an encoding makes every target that references such a value unbuildable ('cannot pickle value of type …')",
		"R8.9 whatever mutable state the pickler closure captures (the in-progress set behind the Recursion marker) is allocated by the call that creates the pickler: not a parameter fed from a pool or a package variable, so nothing one encoding did (least of all a failed one) can change what the next one emits",
		"R8.8 a host value type whose contents are written at run time (a map or slice field updated by its methods) does not implement the interfaces the encoder pickles by content (IterableMapping, Sequence), and no function reachable from the host pickler reads those contents: such values (caches) enter the fingerprint as constants, not as what happens to be stored in them in this process",
		"R8.7 the host pickler builds no (name, value) association lists of its own: only the lists returned by ModuleEnv/Env (one entry per binding, unique names) reach the unpickler's dictionary conversion, which collapses equal names",
		"R8.6 every argument the host pickler builds for a subject is computed from that subject alone (no captured or package-level state in its data flow): distinct closures never share an argument object that the unpickler then completes in place",
		"R8.5 nothing dropped: every component of a function's environment (Env, ModuleEnv, Bytecode, Code) flows into the pickled tuple and every tuple element is consumed by the unpickler",
	}
	r.NotDecided = []string{"termination on very deep or very large acyclic data", "that every change of referenced code or values changes the fingerprint (depends on the Starlark compiler's ModuleEnv)", "encodability of every predeclared value kind (dynamic types stored in builtin dictionaries are not enumerated)"}
	r.Trusted = append(r.Trusted, "VTA call graph (x/tools v0.29.0) for the determinism closure", "go.starlark.net fork: ModuleEnv/Env return what they document")

	picklers := funcsConvertedTo(p, pkgPickle, "PicklerFunc")
	unpicklers := funcsConvertedTo(p, pkgPickle, "UnpicklerFunc")
	r.Floor("R8.1", len(picklers), 1, "host picklers")
	r.Floor("R8.1", len(unpicklers), 1, "host unpicklers")
	if len(picklers) == 0 || len(unpicklers) == 0 {
		return
	}
	// ---- R8.1
	var allCases []pickleCase
	for _, pk := range picklers {
		cases := extractPicklerCases(p, pk)
		allCases = append(allCases, cases...)
		for _, pc := range cases {
			construct := fmt.Sprintf("%s#kind:%s", fname(pk), pc.Name)
			pos := p.InstrPos(pc.Ret)
			if pc.Module == "" || pc.Name == "" || pc.Arity < 0 {
				r.Unk("R8.1", construct, pos, "cannot extract constant module/name/arity of this pickler case")
				continue
			}
			found := false
			for _, up := range unpicklers {
				ucs, mods := extractUnpicklerCases(p, up)
				uc := ucs[pc.Name]
				if uc == nil {
					continue
				}
				found = true
				modOK := false
				for _, m := range mods {
					if m == pc.Module {
						modOK = true
					}
				}
				switch {
				case !modOK:
					r.Bad("R8.1", construct, pos, "pickled under module %q, which the unpickler %s does not accept: every fingerprint containing a %s fails to decode", pc.Module, fname(up), pc.Name)
				case uc.Arity != pc.Arity:
					r.Bad("R8.1", construct, pos, "the pickler builds %d argument(s) for %q but the unpickler %s checks for %d: every target function's fingerprint fails with an arity error", pc.Arity, pc.Name, fname(up), uc.Arity)
				default:
					r.OK("R8.1", construct, pos, "%s.%s/%d matches the unpickler's case and arity check", pc.Module, pc.Name, pc.Arity)
				}
				// R8.5 (consumer side): every element index is read
				for i := 0; i < pc.Arity; i++ {
					r.Check(uc.Indexes[int64(i)] || uc.Whole, "R8.5", fmt.Sprintf("%s#consumes:%s[%d]", fname(up), pc.Name, i), p.InstrPos(uc.Entry), fmt.Sprintf("argument %d of %s is read by the unpickler", i, pc.Name), fmt.Sprintf("argument %d of %s is never read by the unpickler: that part of the environment does not reach the compared value, so changes to it are invisible", i, pc.Name))
				}
			}
			if !found {
				r.Bad("R8.1", construct, pos, "no unpickler case for %q: fingerprints containing such a value cannot be decoded", pc.Name)
			}
		}
	}
	r.Floor("R8.1", len(allCases), 2, "pickler kinds")
	// R8.4 (flow part): no hash value, address or other per-process quantity flows into a pickled argument
	for _, pc := range allCases {
		for i, e := range pc.Elems {
			if e == nil {
				continue
			}
			var src string
			core.DependsOn(e, core.SliceOpts{Stores: true, ThroughCall: func(*ssa.Call) bool { return true }}, func(v ssa.Value) bool {
				c, ok := v.(*ssa.Call)
				if !ok {
					return false
				}
				name := ""
				if c.Call.IsInvoke() {
					name = c.Call.Method.Name()
				} else if cal := core.Callee(c); cal != nil {
					name = cal.Name()
					if why := core.IsNondet(cal); why != "" {
						src = core.CalleeKey(cal) + " (" + why + ")"
						return true
					}
				}
				if name == "Hash" {
					src = "a Hash() result (starlark string hashes of 12+ bytes use the Go runtime's per-process seeded hash)"
					return true
				}
				return false
			})
			construct := fmt.Sprintf("%s#arg-%s[%d]-process-independent", fname(pc.Ret.Parent()), pc.Name, i)
			if src != "" {
				r.Bad("R8.4", construct, p.InstrPos(pc.Ret), "argument %d of %s depends on %s: the fingerprint differs between processes, so after every restart the target looks changed", i, pc.Name, src)
			} else {
				r.OK("R8.4", construct, p.InstrPos(pc.Ret), "depends on no hash value, address or clock")
			}
		}
	}

	// ---- R8.6 the pickled form of a subject is a function of that subject alone
	checkPickledFromSubjectOnly(p, r, allCases, "R8.6")

	// ---- R8.8 values with run-time contents are not fingerprinted by content
	checkRuntimeStateNotPickledByContent(p, r, "R8.8")
	checkEnvVerdictWholeEquality(p, r, "R8.12")
	checkKindsDistinguishable(p, r, unpicklers, "R8.13")
	checkAttrsNotGenerative(p, r, "R8.15")
	r.Floor("R8.17", importMatching(p, r, runC15, "C15", "R15.1", "short-read", "R8.17"), 1, "obligations on complete reads of the decoder")
	checkEnvNotDuringLoad(p, r, "R8.16", "an edit to what is bound below the target() call leaves the fingerprint equal, and a free variable assigned after the decorator makes the fingerprint fail with a nil dereference")

	// ---- R8.14 two different values are never written as one (the memo obligations of C07)
	{
		sub := core.NewResult("C07")
		checkMemoIdentity(p, sub)
		checkInsertionErrors(p, sub, "R7.16")
		n := 0
		for _, o := range sub.Obls {
			if strings.HasPrefix(o.Construct, "rule#") {
				continue
			}
			n++
			switch o.Status {
			case core.Discharged:
				r.OK("R8.14", o.Construct, o.Pos, "%s", o.Detail)
			case core.Violated:
				r.Bad("R8.14", o.Construct, o.Pos, "%s", o.Detail)
			case core.Undecided:
				r.Unk("R8.14", o.Construct, o.Pos, "%s", o.Detail)
			}
		}
		r.Floor("R8.14", n, 3, "memo obligations of the encoder")
	}

	// ---- R8.9 the pickler's own state lives for one encoding
	checkPicklerStateFresh(p, r, picklers)

	// ---- R8.10 every kind of value has an encoding
	checkValueKindsEncodable(p, r, picklers)

	// ---- R8.11 a pickler case tells its subjects apart
	for _, pc := range allCases {
		if pc.Ret == nil || pc.Name == "" {
			continue
		}
		construct := fmt.Sprintf("%s#identifies:%s", fname(pc.Ret.Parent()), pc.Name)
		host := pc.Ret.Parent()
		var subject *ssa.Parameter
		for _, prm := range host.Params {
			if n, ok := prm.Type().(*types.Named); ok && n.Obj().Name() == "Value" {
				subject = prm
			}
		}
		dependsOnSubject := false
		for _, e := range pc.Elems {
			if e != nil && subject != nil && core.DependsOn(e, core.SliceOpts{Stores: true, ThroughCall: func(*ssa.Call) bool { return true }}, func(v ssa.Value) bool { return v == ssa.Value(subject) }) {
				dependsOnSubject = true
			}
		}
		if dependsOnSubject {
			r.OK("R8.11", construct, p.InstrPos(pc.Ret), "the arguments pickled for a %s are computed from the value", pc.Name)
			continue
		}
		// a constant encoding is right only for a kind with a single value: a zero-size type
		singleton := false
		if pc.Type != nil {
			if st, ok := pc.Type.Underlying().(*types.Struct); ok && st.NumFields() == 0 {
				singleton = true
			}
		} else {
			// the case is selected by x.Type() == "K" on this path: the types answering K must all be zero-size
			for _, f := range xfacts(p, pc.Ret) {
				bo, ok := f.Cond.(*ssa.BinOp)
				if !ok || !f.Val || bo.Op != token.EQL {
					continue
				}
				k, isConst := core.ConstString(bo.Y)
				c, isCall := bo.X.(*ssa.Call)
				if !isConst || !isCall || !c.Call.IsInvoke() || c.Call.Method.Name() != "Type" {
					continue
				}
				n, all := 0, true
				for _, ip := range p.SSA.AllPackages() {
					for _, m := range ip.Members {
						tn, ok := m.(*ssa.Type)
						if !ok {
							continue
						}
						mt := methodOf(p, tn.Type(), "Type")
						if mt == nil || mt.Blocks == nil {
							continue
						}
						rets := core.ReturnsOf(mt)
						if len(rets) != 1 || len(rets[0].Results) != 1 {
							continue
						}
						if s, ok := core.ConstString(rets[0].Results[0]); ok && s == k {
							n++
							if st, ok := tn.Type().Underlying().(*types.Struct); !ok || st.NumFields() != 0 {
								all = false
							}
						}
					}
				}
				if n > 0 && all {
					singleton = true
				}
			}
		}
		r.Check(singleton, "R8.11", construct, p.InstrPos(pc.Ret), "a constant encoding for a kind that has a single value", fmt.Sprintf("every %s is pickled as the same constant: nothing of the value (its name, what it is bound to) enters the fingerprint, so a target function that reaches one through a global or a default has the same fingerprint after that binding is changed to a different %s - the edit does not re-run the target", pc.Name, pc.Name))
	}

	// ---- R8.7 the pickler builds no association lists of its own
	nPk := 0
	seenPk := map[*ssa.Function]bool{}
	for _, pc := range allCases {
		f := pc.Ret.Parent()
		if seenPk[f] {
			continue
		}
		seenPk[f] = true
		nPk++
		bad := false
		core.Instrs(f, func(in ssa.Instruction) {
			sl, ok := in.(*ssa.Slice)
			if !ok || !core.Reaches(sl.Block(), sl.Block(), false) {
				return
			}
			elems, ok := tupleElems(sl)
			if !ok || len(elems) != 2 || elems[0] == nil {
				return
			}
			mi, ok := elems[0].(*ssa.MakeInterface)
			if !ok {
				return
			}
			if n, ok := mi.X.Type().(*types.Named); !ok || n.Obj().Name() != "String" || n.Obj().Pkg() == nil || n.Obj().Pkg().Path() != pkgStar {
				return
			}
			bad = true
			r.Bad("R8.7", fname(f)+"#builds-association-list", p.InstrPos(sl), "the pickler builds (name, value) pairs in a loop: the unpickler turns association lists into dictionaries, so entries with equal names collapse into one - unlike the lists returned by ModuleEnv/Env (one entry per binding), names chosen here (e.g. names of nested functions: every lambda is called \"lambda\") need not be unique, and an edit to all but the last of them no longer changes the fingerprint")
		})
		if !bad {
			r.OK("R8.7", fname(f)+"#builds-association-list", p.Pos(f.Pos()), "passes the accessors' lists on without keying them itself")
		}
	}
	r.Floor("R8.7", nPk, 1, "pickler functions")

	// ---- R8.5 producer side: results of environment accessors flow into the tuple
	producers := map[*ssa.Function]bool{}
	var producerList []*ssa.Function
	for _, pc := range allCases {
		if f := pc.Ret.Parent(); !producers[f] {
			producers[f] = true
			producerList = append(producerList, f)
		}
	}
	nCaptured := 0
	for _, pk := range producerList {
		for _, c := range core.Calls(pk) {
			call, ok := c.(*ssa.Call)
			if !ok {
				continue
			}
			cal := core.Callee(call)
			if cal == nil || cal.Signature.Recv() == nil || cal.Pkg == nil || cal.Pkg.Pkg.Path() != pkgStar {
				continue
			}
			switch cal.Name() {
			case "Env", "ModuleEnv", "Bytecode", "Code":
			default:
				continue
			}
			nres := cal.Signature.Results().Len()
			for i := 0; i < nres; i++ {
				var res ssa.Value = call
				if nres > 1 {
					res = nil
					for _, ref := range *call.Referrers() {
						if e, ok := ref.(*ssa.Extract); ok && e.Index == i {
							res = e
						}
					}
				}
				construct := fmt.Sprintf("%s#captures:%s.%s#%d", fname(pk), recvNamed(cal), cal.Name(), i)
				if res == nil {
					r.Bad("R8.5", construct, p.InstrPos(call), "result %d of %s is discarded: that component of the environment never enters the fingerprint", i, cal.Name())
					continue
				}
				reaches := false
				for _, pc := range allCases {
					for _, e := range pc.Elems {
						if e != nil && core.DependsOn(e, core.SliceOpts{}, func(v ssa.Value) bool { return v == res }) {
							reaches = true
						}
					}
				}
				nCaptured++
				r.Check(reaches, "R8.5", construct, p.InstrPos(call), "flows into the pickled argument tuple", fmt.Sprintf("result %d of %s does not reach the pickled tuple: changes to it are invisible to the up-to-date check", i, cal.Name()))
			}
		}
	}
	r.Floor("R8.5", nCaptured, 3, "environment accessor results captured by the pickler")
	// module tuple components: the unpickler must consume as many components as ModuleEnv builds
	checkModuleTuple(p, r, unpicklers)

	// ---- R8.2 AttrNames ⊆ Attr
	checkAttrAgreement(p, r)

	// ---- R8.3 cycle hazard
	checkPicklerCycleGuard(p, r, picklers, allCases)

	// ---- R8.4
	checkFingerprintDeterminism(p, r, "R8.4", false)
}

// checkModuleTuple: FunctionCode.ModuleEnv builds a k-tuple `module`; the unpickler must read module[0..k-1].
func checkModuleTuple(p *core.Prog, r *core.Result, unpicklers []*ssa.Function) {
	var me *ssa.Function
	if sp := p.SSAPkgs[pkgStar]; sp != nil {
		if t := sp.Type("FunctionCode"); t != nil {
			sel := p.SSA.MethodSets.MethodSet(types.NewPointer(t.Type())).Lookup(sp.Pkg, "ModuleEnv")
			if sel != nil {
				me = p.SSA.MethodValue(sel)
			}
		}
	}
	if me == nil || me.Blocks == nil {
		r.Unk("R8.5", "starlark.(*FunctionCode).ModuleEnv#body", "-", "ModuleEnv's body is not available (whole-program load required)")
		return
	}
	k := -1
	for _, ret := range core.ReturnsOf(me) {
		vals := core.RetVals(ret)
		if len(vals) == 2 {
			if elems, ok := tupleElems(vals[0]); ok {
				k = len(elems)
			}
		}
	}
	if k < 0 {
		// named results assigned earlier: look for the store to the `module` result cell
		core.Instrs(me, func(in ssa.Instruction) {
			if st, ok := in.(*ssa.Store); ok {
				if a, ok := st.Addr.(*ssa.Alloc); ok && a.Comment == "module" {
					if elems, ok := tupleElems(st.Val); ok {
						k = len(elems)
					}
				}
			}
			if sl, ok := in.(*ssa.Slice); ok && k < 0 {
				if elems, ok := tupleElems(sl); ok && len(elems) >= 3 {
					k = len(elems)
				}
			}
		})
	}
	if k < 0 {
		r.Unk("R8.5", "starlark.(*FunctionCode).ModuleEnv#module-arity", "-", "cannot determine the arity of ModuleEnv's module tuple")
		return
	}
	for _, up := range unpicklers {
		// the module tuple: a value type-asserted to starlark.Tuple from args[0] and indexed with constants
		idx := map[int64]bool{}
		isAsserted := func(v ssa.Value) bool {
			if ta, ok := core.Unwrap(v).(*ssa.TypeAssert); ok && !ta.CommaOk {
				return true
			}
			return isExtractOfAssert(v)
		}
		// the unpickler and the per-kind helpers of its package it hands its argument tuple to
		scan := []*ssa.Function{up}
		if len(up.Params) >= 3 {
			for _, c := range core.Calls(up) {
				h := core.Callee(c)
				if h == nil || h.Blocks == nil || h.Pkg != up.Pkg || h == up {
					continue
				}
				for _, a := range c.Common().Args {
					if core.Unwrap(a) == ssa.Value(up.Params[2]) {
						scan = append(scan, h)
					}
				}
			}
		}
		for _, scanFn := range scan {
			core.Instrs(scanFn, func(in ssa.Instruction) {
				switch x := in.(type) {
				case *ssa.IndexAddr:
					if _, isParam := x.X.(*ssa.Parameter); isParam {
						return
					}
					if kk, ok := core.ConstInt(x.Index); ok && isAsserted(x.X) {
						idx[kk] = true
					}
				case *ssa.Call:
					// the asserted tuple handed to a helper of the module: constant indexes on the corresponding parameter
					h := core.Callee(x)
					if h == nil || !core.InModule(h) || h.Blocks == nil {
						return
					}
					for ai, a := range x.Call.Args {
						if !isAsserted(a) || ai >= len(h.Params) {
							continue
						}
						prm := h.Params[ai]
						core.Instrs(h, func(hin ssa.Instruction) {
							if ia, ok := hin.(*ssa.IndexAddr); ok && ia.X == ssa.Value(prm) {
								if kk, ok := core.ConstInt(ia.Index); ok {
									idx[kk] = true
								}
							}
						})
					}
				}
			})
		}
		missing := []string{}
		for i := 0; i < k; i++ {
			if !idx[int64(i)] {
				missing = append(missing, fmt.Sprint(i))
			}
		}
		r.Check(len(missing) == 0, "R8.5", fname(up)+"#consumes:module[0.."+fmt.Sprint(k-1)+"]", p.Pos(up.Pos()), fmt.Sprintf("all %d components of ModuleEnv's module tuple are read", k), fmt.Sprintf("components %s of ModuleEnv's %d-tuple are never read by the unpickler: that part of the environment is invisible to the up-to-date check", strings.Join(missing, ","), k))
	}
}

func isExtractOfAssert(v ssa.Value) bool {
	e, ok := v.(*ssa.Extract)
	if !ok {
		return false
	}
	_, ok = e.Tuple.(*ssa.TypeAssert)
	return ok
}

// checkAttrAgreement: for in-module types with Attr/AttrNames, constant names listed ⊆ names answered.
func checkAttrAgreement(p *core.Prog, r *core.Result) {
	n := 0
	seen := map[string]bool{}
	for _, fn := range p.ModuleFuncs() {
		if fn.Name() != "AttrNames" || fn.Signature.Recv() == nil || fn.Signature.Params().Len() != 0 {
			continue
		}
		recv := recvNamed(fn)
		rel := strings.TrimPrefix(strings.TrimPrefix(fn.Pkg.Pkg.Path(), core.ModulePath), "/")
		attr := p.Func(rel, recv, "Attr")
		if attr == nil || attr.Blocks == nil || seen[fn.String()] {
			continue
		}
		seen[fn.String()] = true
		// names listed: all returns are constant string slice literals
		var names []string
		constant := true
		for _, ret := range core.ReturnsOf(fn) {
			vals := core.RetVals(ret)
			if len(vals) != 1 {
				constant = false
				continue
			}
			sl, ok := vals[0].(*ssa.Slice)
			if !ok {
				if !core.IsNilConst(vals[0]) {
					constant = false
				}
				continue
			}
			arr, ok := sl.X.(*ssa.Alloc)
			if !ok {
				constant = false
				continue
			}
			for _, ref := range *arr.Referrers() {
				if ia, ok := ref.(*ssa.IndexAddr); ok {
					for _, r2 := range *ia.Referrers() {
						if st, ok := r2.(*ssa.Store); ok {
							if s, ok := core.ConstString(st.Val); ok {
								names = append(names, s)
							} else {
								constant = false
							}
						}
					}
				}
			}
		}
		if !constant || len(names) == 0 {
			continue
		}
		// names answered: string constants compared with the name parameter in Attr (and in static callees receiving it)
		answered := map[string]bool{}
		dynamic := false
		var scan func(f *ssa.Function, prm *ssa.Parameter, depth int)
		scan = func(f *ssa.Function, prm *ssa.Parameter, depth int) {
			core.Instrs(f, func(in ssa.Instruction) {
				switch x := in.(type) {
				case *ssa.BinOp:
					if (x.Op == token.EQL || x.Op == token.NEQ) && (x.X == ssa.Value(prm) || x.Y == ssa.Value(prm)) {
						o := x.Y
						if o == ssa.Value(prm) {
							o = x.X
						}
						if s, ok := core.ConstString(o); ok {
							answered[s] = true
						}
					}
				case *ssa.Call:
					for i, a := range x.Call.Args {
						if a == ssa.Value(prm) {
							cal := core.Callee(x)
							if cal != nil && core.InModule(cal) && depth < 2 && i < len(cal.Params) {
								scan(cal, cal.Params[i], depth+1)
							} else {
								dynamic = true
							}
						}
					}
					if x.Call.IsInvoke() {
						for _, a := range x.Call.Args {
							if a == ssa.Value(prm) {
								dynamic = true
							}
						}
					}
				case *ssa.Lookup:
					if x.Index == ssa.Value(prm) {
						dynamic = true
					}
				}
			})
		}
		if len(attr.Params) >= 2 {
			scan(attr, attr.Params[1], 0)
		}
		if dynamic {
			continue // Attr resolves names dynamically (map / delegation): not a constant table
		}
		n++
		var missing []string
		for _, nm := range names {
			if !answered[nm] {
				missing = append(missing, nm)
			}
		}
		construct := fmt.Sprintf("%s#AttrNames-subset-of-Attr", fname(attr))
		if len(missing) == 0 {
			r.OK("R8.2", construct, p.Pos(fn.Pos()), "all %d advertised attribute names are answered by Attr", len(names))
			continue
		}
		sort.Strings(missing)
		if why, ok := attrFrozen[fname(attr)]; ok {
			r.Note("R8.2", construct, p.Pos(fn.Pos()), "advertised but unanswered attribute(s) %q — %s", missing, why)
			continue
		}
		r.Bad("R8.2", construct, p.Pos(fn.Pos()), "AttrNames advertises %q but Attr answers (nil, nil) for them: when such a value is referenced by a target function the encoder's has-attrs branch encodes a nil and the fingerprint fails", missing)
	}
	r.Floor("R8.2", n, 2, "in-module types with constant attribute tables")
}

// attrFrozen: mismatches confirmed by reading to be on types that cannot occur in a BUILD-file environment.
var attrFrozen = map[string]string{
	"(*dawn.Flag).Attr": "reported as information: *Flag values are only handed to the REPL (flags builtin), never to BUILD files, so they cannot be referenced by a target function",
}

// checkPicklerCycleGuard implements R8.3.
func checkPicklerCycleGuard(p *core.Prog, r *core.Result, picklers []*ssa.Function, cases []pickleCase) {
	encode := need(p, r, "R8.3", "pickle", "Encoder", "encode")
	memoize := need(p, r, "R8.3", "pickle", "Encoder", "memoize")
	if encode == nil || memoize == nil {
		return
	}
	// the encoder method that consults the host pickler (encodeComplex today; a helper after a refactoring)
	var ec *ssa.Function
	for _, fn := range p.ModuleFuncs() {
		if fn.Pkg == nil || fn.Pkg.Pkg.Path() != pkgPickle || fn.Signature.Recv() == nil || recvNamed(fn) != "Encoder" {
			continue
		}
		for _, c := range core.Calls(fn) {
			if c.Common().IsInvoke() && c.Common().Method.Name() == "Pickle" {
				ec = fn
			}
		}
	}
	if ec == nil || len(ec.Params) < 2 {
		r.Unk("R8.3", "pickle.(*Encoder)#pickler-branch", "-", "no Encoder method invokes Pickler.Pickle")
		return
	}
	// recursion enabled?
	recursion := false
	for _, fn := range p.ModuleFuncs() {
		core.Instrs(fn, func(in ssa.Instruction) {
			if st, ok := in.(*ssa.Store); ok {
				if g, ok := st.Addr.(*ssa.Global); ok && g.Name() == "AllowRecursion" {
					if b, ok := core.ConstBool(st.Val); ok && b {
						recursion = true
					}
				}
			}
		})
	}
	// encoder side: in the pickler branch, is the subject memoized (or marked in progress) before its args are encoded?
	encoderGuard := false
	var argEncode ssa.Instruction
	for _, c := range core.CallsTo(ec, encode) {
		in := c.(ssa.Instruction)
		if len(assertedTypes(p, in)) == 0 && inPicklerBranch(p, in) {
			argEncode = in
			for _, m := range core.CallsTo(ec, memoize) {
				if mc, ok := m.(*ssa.Call); ok && core.Dominates(mc, in) {
					encoderGuard = true
				}
			}
			// any map update keyed by the subject before encoding the args counts as an in-progress mark
			core.Instrs(ec, func(x ssa.Instruction) {
				if mu, ok := x.(*ssa.MapUpdate); ok && core.Dominates(mu, in) && mu.Key == ssa.Value(ec.Params[1]) {
					encoderGuard = true
				}
			})
		}
	}
	if argEncode == nil {
		r.Unk("R8.3", "pickle.(*Encoder).encodeComplex#pickler-branch", p.Pos(ec.Pos()), "host-pickler branch not recognised")
		return
	}
	n := 0
	for _, pc := range cases {
		if len(pc.Open) == 0 {
			continue
		}
		// FunctionCode values are rebuilt fresh by ModuleEnv on every call (a finite tree); only pointer-stable
		// subjects can be reached again: *starlark.Function (stable pointer stored in globals/defaults/freevars)
		stable := pc.Type != nil && strings.HasSuffix(pc.Type.String(), "starlark.Function")
		if !stable {
			continue
		}
		n++
		pk := pc.Ret.Parent()
		construct := fmt.Sprintf("pickle.(*Encoder).encodeComplex#pickler-branch x %s[%s]", fname(pk), shortType(pc.Type))
		_ = pk
		// pickler-side guard: somewhere on the delegation chain, the case is produced on the miss edge of a
		// lookup keyed by the subject, after that key has been recorded
		picklerGuard := false
		for _, pt := range pc.Points {
			f := pt.Parent()
			if len(f.Params) == 0 {
				continue
			}
			subject := f.Params[len(f.Params)-1]
			if f.Signature.Recv() == nil {
				subject = f.Params[0]
			}
			fromSubject := func(v ssa.Value) bool {
				return core.DependsOn(v, core.SliceOpts{}, func(x ssa.Value) bool { return x == ssa.Value(subject) })
			}
			core.Instrs(f, func(in ssa.Instruction) {
				mu, ok := in.(*ssa.MapUpdate)
				if !ok || !fromSubject(mu.Key) {
					return
				}
				// the mark is recorded on the miss edge of a lookup of the same subject ...
				miss := p.FactsAt(mu).Find(func(c ssa.Value, val bool) bool {
					if val {
						return false
					}
					if lk, ok := c.(*ssa.Lookup); ok {
						return fromSubject(lk.Index)
					}
					if e, ok := c.(*ssa.Extract); ok && e.Index == 1 {
						if lk, ok := e.Tuple.(*ssa.Lookup); ok {
							return fromSubject(lk.Index)
						}
					}
					return false
				})
				if !miss {
					return
				}
				// ... and every path on which the subject has the case's type passes the mark before the case is produced
				covered := core.Dominates(mu, pt)
				if !covered {
					for _, b := range f.Blocks {
						iff, ok := b.Instrs[len(b.Instrs)-1].(*ssa.If)
						if !ok {
							continue
						}
						e, ok := iff.Cond.(*ssa.Extract)
						if !ok || e.Index != 1 {
							continue
						}
						ta, ok := e.Tuple.(*ssa.TypeAssert)
						if !ok || pc.Type == nil || !types.Identical(ta.AssertedType, pc.Type) || !fromSubject(ta.X) {
							continue
						}
						if b.Succs[0].Dominates(mu.Block()) && !core.BlockReachesAvoiding(b.Succs[0], pt, func(x ssa.Instruction) bool { return x == ssa.Instruction(mu) }) {
							covered = true
						}
					}
				}
				if covered {
					picklerGuard = true
				}
			})
		}
		switch {
		case encoderGuard:
			r.OK("R8.3", construct, p.InstrPos(argEncode), "the encoder marks the subject before encoding its arguments")
		case picklerGuard:
			r.OK("R8.3", construct, p.InstrPos(pc.Ret), "the pickler detects re-entry on the same subject and cuts the cycle")
		case !recursion:
			r.OK("R8.3", construct, p.InstrPos(pc.Ret), "recursion is not enabled for build files: a function cannot reference itself")
		default:
			r.Bad("R8.3", construct, p.InstrPos(argEncode), "the arguments of %s (%s: an open environment) are encoded before the subject is memoized and nothing marks it in progress; recursion is enabled, so a (mutually) recursive target function reaches itself again and the encoder recurses until the stack overflows", pc.Name, strings.Join(pc.Open, "+"))
		}
	}
	r.Floor("R8.3", n, 1, "pickler cases with open, pointer-stable subjects")
}

var _ = constant.Int

// methodOf returns the SSA function of the exported method `name` of t, or nil when t has none.
func methodOf(p *core.Prog, t types.Type, name string) *ssa.Function {
	sel := p.SSA.MethodSets.MethodSet(t).Lookup(nil, name)
	if sel == nil {
		return nil
	}
	return p.SSA.MethodValue(sel)
}

// checkValueKindsEncodable implements R8.10.
func checkValueKindsEncodable(p *core.Prog, r *core.Result, picklers []*ssa.Function) {
	encode := p.Func("pickle", "Encoder", "encode")
	if encode == nil {
		r.Unk("R8.10", "anchor:pickle.(*Encoder).encode", "-", "not found")
		return
	}
	// the types some case asserts: the encoder's own functions and the host picklers with the helpers they call
	var asserted []types.Type
	typeNames := map[string]bool{}
	seenFn := map[*ssa.Function]bool{}
	var scan func(f *ssa.Function, depth int)
	scan = func(f *ssa.Function, depth int) {
		if f == nil || seenFn[f] || f.Blocks == nil || depth > 3 {
			return
		}
		seenFn[f] = true
		core.Instrs(f, func(in ssa.Instruction) {
			if ta, ok := in.(*ssa.TypeAssert); ok {
				asserted = append(asserted, ta.AssertedType)
			}
			// a kind recognised by its type name: x.Type() == "K"
			if bo, ok := in.(*ssa.BinOp); ok && bo.Op == token.EQL {
				for _, pr := range [][2]ssa.Value{{bo.X, bo.Y}, {bo.Y, bo.X}} {
					if c, ok := pr[0].(*ssa.Call); ok && c.Call.IsInvoke() && c.Call.Method.Name() == "Type" {
						if k, ok := core.ConstString(pr[1]); ok {
							typeNames[k] = true
						}
					}
				}
			}
			if c, ok := in.(ssa.CallInstruction); ok {
				if h := core.Callee(c); h != nil && h.Pkg == f.Pkg {
					scan(h, depth+1)
				}
			}
		})
		for _, a := range f.AnonFuncs {
			scan(a, depth)
		}
	}
	scan(encode, 0)
	for _, pk := range picklers {
		scan(pk, 0)
	}
	// the Value interface
	var valueIface *types.Interface
	var starPkg *types.Package
	for _, ip := range p.SSA.AllPackages() {
		if ip.Pkg.Path() == pkgStar {
			starPkg = ip.Pkg
			if tn, ok := ip.Pkg.Scope().Lookup("Value").(*types.TypeName); ok {
				valueIface, _ = tn.Type().Underlying().(*types.Interface)
			}
		}
	}
	if valueIface == nil {
		r.Unk("R8.10", "anchor:starlark.Value", "-", "interface not found")
		return
	}
	covered := func(t types.Type) string {
		for _, a := range asserted {
			if types.Identical(a, t) {
				return "a case for " + shortType(a)
			}
			if it, ok := a.Underlying().(*types.Interface); ok && !it.Empty() && types.Implements(t, it) {
				// the Value interface itself is not a case
				if types.Identical(a.Underlying(), valueIface) {
					continue
				}
				return "the case for " + shortType(a)
			}
		}
		// by type name: the Type method of t returns a constant that some case compares with
		if m := methodOf(p, t, "Type"); m != nil && m.Blocks != nil {
			rets := core.ReturnsOf(m)
			if len(rets) == 1 && len(rets[0].Results) == 1 {
				if k, ok := core.ConstString(rets[0].Results[0]); ok && typeNames[k] {
					return "the case for values whose Type() is " + strconv.Quote(k)
				}
			}
		}
		return ""
	}
	// frozen exemptions: kinds that cannot be the value of a binding, a default, a free variable or a constant
	exempt := map[string]string{
		"*" + pkgStar + ".cell":        "a closure cell: Function.Env hands out its content, never the cell",
		"*" + pkgStar + ".mark":        "not a starlark type",
		pkgPickle + ".markT":           "the decoder's stack mark: never handed to the encoder",
		"*" + pkgRoot + ".sourceFile":  "handed to Starlark only by the REPL's get_target/sources builtins (REPLEnv), never by a builtin of the module environment: no target function can reference one",
		"*" + pkgRoot + ".indexTarget": "exists only in projects loaded from the index, where no module code runs; handed to Starlark only by the REPL's builtins",
		"*" + pkgPickle + ".global":    "the decoder's intermediate for STACK_GLOBAL: never handed to the encoder",
	}
	var pkgs []*types.Package
	if starPkg != nil {
		pkgs = append(pkgs, starPkg)
	}
	for _, mp := range p.Pkgs {
		pkgs = append(pkgs, mp.Types)
	}
	n := 0
	for _, tp := range pkgs {
		names := tp.Scope().Names()
		for _, name := range names {
			tn, ok := tp.Scope().Lookup(name).(*types.TypeName)
			if !ok || tn.IsAlias() {
				continue
			}
			named, ok := tn.Type().(*types.Named)
			if !ok || named.TypeParams().Len() > 0 {
				continue
			}
			if _, isIface := named.Underlying().(*types.Interface); isIface {
				continue
			}
			for _, t := range []types.Type{named, types.NewPointer(named)} {
				if !types.Implements(t, valueIface) {
					continue
				}
				// a value type that implements Value is also implemented by its pointer: count the value form only
				if _, isPtr := t.(*types.Pointer); isPtr && types.Implements(named, valueIface) {
					continue
				}
				n++
				key := t.String()
				construct := "pickle#kind:" + shortType(t)
				if how := covered(t); how != "" {
					r.OK("R8.10", construct, p.Pos(tn.Pos()), "encodable through %s", how)
				} else if why, ok := exempt[key]; ok {
					r.OK("R8.10", construct, p.Pos(tn.Pos()), "exempt: %s", why)
				} else {
					r.Bad("R8.10", construct, p.Pos(tn.Pos()), "values of type %s implement starlark.Value but no case of the encoder or of the host pickler accepts them: a target function that references such a value (as a global, a default or a captured variable) cannot be fingerprinted - every build of it fails with 'cannot pickle value of type %s'", shortType(t), shortType(t))
				}
			}
		}
	}
	r.Floor("R8.10", n, 12, "concrete types implementing starlark.Value")
}

// checkPicklerStateFresh implements R8.9.
func checkPicklerStateFresh(p *core.Prog, r *core.Result, picklers []*ssa.Function) {
	n := 0
	var fresh func(v ssa.Value, depth int) (bool, string)
	fresh = func(v ssa.Value, depth int) (bool, string) {
		switch x := core.Unwrap(v).(type) {
		case *ssa.MakeMap, *ssa.MakeSlice, *ssa.MakeChan, *ssa.Const:
			return true, ""
		case *ssa.Alloc:
			// a cell: everything stored into it must be fresh (or a closure: the pickler's own self-reference)
			for _, f := range core.WithAnons(core.Outer(x.Parent())) {
				bad := ""
				core.Instrs(f, func(in ssa.Instruction) {
					st, ok := in.(*ssa.Store)
					if !ok || st.Addr != ssa.Value(x) {
						return
					}
					if _, isClosure := core.Unwrap(st.Val).(*ssa.MakeClosure); isClosure {
						return
					}
					if ok, why := fresh(st.Val, depth); !ok {
						bad = why
					}
				})
				if bad != "" {
					return false, bad
				}
			}
			return true, ""
		case *ssa.MakeClosure, *ssa.Function:
			return true, ""
		case *ssa.Parameter:
			// a parameter of the constructor: every caller must pass something fresh
			if depth >= 2 {
				return false, "a parameter of " + fname(x.Parent())
			}
			idx := paramIndex(x.Parent(), x)
			callers := p.StaticCallers(x.Parent())
			if len(callers) == 0 || len(p.FuncValueUses(x.Parent())) > 0 {
				return false, "a parameter of " + fname(x.Parent()) + " whose callers cannot be enumerated"
			}
			for _, c := range callers {
				if idx >= len(c.Common().Args) {
					return false, "a parameter of " + fname(x.Parent())
				}
				if ok, why := fresh(c.Common().Args[idx], depth+1); !ok {
					return false, "the parameter " + x.Name() + " of " + fname(x.Parent()) + ", which " + fname(c.Parent()) + " fills with " + why
				}
			}
			return true, ""
		case *ssa.UnOp:
			if x.Op == token.MUL {
				if g, ok := x.X.(*ssa.Global); ok {
					return false, "the package variable " + g.Name()
				}
				if a, ok := x.X.(*ssa.Alloc); ok {
					return fresh(a, depth)
				}
				return false, "a value loaded from " + core.Path(x.X)
			}
		case *ssa.TypeAssert:
			return fresh(x.X, depth)
		case *ssa.Call:
			if cal := core.Callee(x); cal != nil {
				return false, "the result of " + core.CalleeKey(cal)
			}
			return false, "the result of a dynamic call"
		case *ssa.Global:
			return false, "the package variable " + x.Name()
		}
		return false, "a value the rule cannot classify (" + v.String() + ")"
	}
	for _, pk := range picklers {
		for _, fv := range pk.FreeVars {
			// only mutable containers matter: maps, slices, pointers (cells are pointers to the captured variable)
			t := fv.Type()
			if pt, ok := t.(*types.Pointer); ok {
				t = pt.Elem()
			}
			switch t.Underlying().(type) {
			case *types.Map, *types.Slice, *types.Pointer, *types.Chan:
			default:
				continue
			}
			n++
			b := core.Binding(fv)
			construct := fmt.Sprintf("%s#captured:%s", fname(pk), fv.Name())
			if b == nil {
				r.Unk("R8.9", construct, p.Pos(pk.Pos()), "cannot find what the pickler closure binds %s to", fv.Name())
				continue
			}
			ok, why := fresh(b, 0)
			r.Check(ok, "R8.9", construct, p.Pos(pk.Pos()), "the pickler's captured "+fv.Name()+" is allocated by the call that creates the pickler: it lives for one encoding", "the pickler's captured "+fv.Name()+" is "+why+": it outlives one encoding, so what an earlier encoding left in it (functions marked in progress by an encoding that failed half-way) decides what a later one emits - the same project text fingerprints differently from one process or order of targets to the next, and an edit to a function emitted as a Recursion marker goes unnoticed")
		}
	}
	if n == 0 {
		r.OK("R8.9", "dawn#pickler-captures-nothing-mutable", "-", "the %d pickler function(s) capture no map, slice, pointer or channel", len(picklers))
	}
}

// checkPickledFromSubjectOnly implements R8.6 (shared with C01 as R1.15).
func checkPickledFromSubjectOnly(p *core.Prog, r *core.Result, allCases []pickleCase, rule string) {
	nElems := 0
	for _, pc := range allCases {
		for i, e := range pc.Elems {
			if e == nil {
				continue
			}
			nElems++
			shared := ""
			for v := range core.BackwardSlice(e, core.SliceOpts{Stores: true, ThroughCall: func(c *ssa.Call) bool { return true }}) {
				switch x := v.(type) {
				case *ssa.FreeVar:
					shared = "the captured variable " + x.Name()
				case *ssa.Global:
					shared = "the package variable " + x.Name()
				}
			}
			construct := fmt.Sprintf("%s#arg-%s[%d]-of-subject-only", fname(pc.Ret.Parent()), pc.Name, i)
			if shared == "" {
				r.OK(rule, construct, p.InstrPos(pc.Ret), "computed from the pickled subject alone")
			} else {
				r.Bad(rule, construct, p.InstrPos(pc.Ret), "argument %d of %s is computed from %s, state shared between different subjects of one encoding: two closures can then be given one argument object, which the encoder writes once and the unpickler - which completes a function's environment by filling the dictionary decoded from its code argument in place - merges, so a change to a value captured by one of them no longer changes the fingerprint", i, pc.Name, shared)
			}
		}
	}
	r.Floor(rule, nElems, 3, "elements of pickled argument tuples")

}

// checkKindsDistinguishable implements R8.13.
func checkKindsDistinguishable(p *core.Prog, r *core.Result, unpicklers []*ssa.Function, rule string) {
	n := 0
	for _, up := range unpicklers {
		if len(up.Params) < 3 {
			continue
		}
		nameP, argsP := up.Params[1], up.Params[2]
		k := 0
		for _, ret := range core.ReturnsOf(up) {
			vals := core.RetVals(ret)
			if len(vals) != 2 || !core.IsNilConst(vals[1]) {
				continue
			}
			n++
			k++
			v := vals[0]
			if mi, ok := v.(*ssa.MakeInterface); ok {
				v = mi.X
			}
			bare := ""
			switch x := v.(type) {
			case *ssa.Parameter:
				if x == argsP {
					bare = "the argument tuple as it is"
				}
			case *ssa.UnOp:
				if ia, ok := x.X.(*ssa.IndexAddr); ok && x.Op == token.MUL && ia.X == ssa.Value(argsP) {
					bare = "one of its arguments as it is"
				}
			}
			// which kind: the name the return is reached under
			kind := ""
			p.FactsAt(ret).Find(func(cv ssa.Value, val bool) bool {
				if b, ok := cv.(*ssa.BinOp); ok && val && b.Op == token.EQL && b.X == ssa.Value(nameP) {
					if sname, ok := core.ConstString(b.Y); ok {
						kind = sname
					}
				}
				return false
			})
			construct := fmt.Sprintf("%s#decoded-form-carries-its-kind:%s", fname(up), kind)
			if kind == "" {
				construct = fmt.Sprintf("%s#decoded-form-carries-its-kind-%d", fname(up), k)
			}
			if bare != "" {
				r.Bad(rule, construct, p.InstrPos(ret), "the unpickler returns %s for this kind: the decoded form of a host value is then an ordinary value (a string, a tuple) and compares equal to that ordinary value - rebinding a global from a target object to the string that spells its label leaves the fingerprint unchanged", bare)
			} else {
				r.OK(rule, construct, p.InstrPos(ret), "the decoded form is built by the unpickler (tagged), not a bare argument")
			}
		}
	}
	r.Floor(rule, n, 3, "successful returns of the host unpickler")
	// (b) the deciding equality and numeric kinds
	if diffEnv := p.Func("", "function", "diffEnv"); diffEnv != nil {
		var at *ssa.Call
		for f := range staticClosure(p, diffEnv) {
			if f.Pkg != diffEnv.Pkg {
				continue
			}
			for _, c := range core.Calls(f) {
				if call, ok := c.(*ssa.Call); ok && (core.IsCallTo(c, pkgStar, "EqualDepth") || core.IsCallTo(c, pkgStar, "Equal")) {
					if at == nil || p.InstrPos(call) < p.InstrPos(at) {
						at = call
					}
				}
			}
		}
		if at != nil {
			r.Bad(rule, "dawn.(*function).diffEnv#numeric-kinds", p.InstrPos(at), "the recorded and the current environment are compared with Starlark's ==, which identifies an int with the float of the same value (1 == 1.0) although the codec keeps them apart: editing SCALE = 3 into SCALE = 3.0 changes what the function computes but not its fingerprint, and the target is not re-executed")
		} else {
			r.OK(rule, "dawn.(*function).diffEnv#numeric-kinds", p.Pos(diffEnv.Pos()), "the environments are not compared with Starlark's == (a type-exact comparison is in place)")
		}
	}
}

// picklerReach: the module functions reachable from the host pickler functions through static calls (bounded depth),
// including their function literals.
func picklerReach(p *core.Prog) []*ssa.Function {
	seen := map[*ssa.Function]bool{}
	var out []*ssa.Function
	var visit func(fn *ssa.Function, depth int)
	visit = func(fn *ssa.Function, depth int) {
		if fn == nil || seen[fn] || fn.Blocks == nil || !core.InModule(fn) || depth > 5 {
			return
		}
		seen[fn] = true
		out = append(out, fn)
		for _, f := range core.WithAnons(fn) {
			if f != fn {
				visit(f, depth)
			}
			for _, c := range core.Calls(f) {
				visit(core.Callee(c), depth+1)
			}
		}
	}
	for _, f := range funcsConvertedTo(p, pkgPickle, "PicklerFunc") {
		visit(f, 0)
	}
	sort.Slice(out, func(i, j int) bool { return out[i].String() < out[j].String() })
	return out
}

// checkRuntimeStateNotPickledByContent implements R8.8. The encoder pickles any starlark.IterableMapping or
// starlark.Sequence by its elements (before it looks at attributes). A module-level object whose elements are
// produced while targets run (Cache) would make the fingerprint of every function that references it depend on the
// state of the process: different before and after a run, and not total (cached values need not be picklable).
func checkRuntimeStateNotPickledByContent(p *core.Prog, r *core.Result, rule string) {
	sp := p.TPkgPath(pkgStar)
	if sp == nil {
		r.Unk(rule, "anchor:starlark", "-", "starlark package types not available")
		return
	}
	var ifaces []*types.Interface
	var inames []string
	for _, n := range []string{"IterableMapping", "Sequence"} {
		if obj := sp.Scope().Lookup(n); obj != nil {
			if it, ok := obj.Type().Underlying().(*types.Interface); ok {
				ifaces = append(ifaces, it)
				inames = append(inames, n)
			}
		}
	}
	if len(ifaces) == 0 {
		r.Unk(rule, "anchor:starlark.IterableMapping", "-", "interfaces not found")
		return
	}
	valueIface, _ := sp.Scope().Lookup("Value").Type().Underlying().(*types.Interface)
	n := 0
	for _, pkg := range p.Pkgs {
		scope := pkg.Types.Scope()
		names := scope.Names()
		sort.Strings(names)
		for _, name := range names {
			tn, ok := scope.Lookup(name).(*types.TypeName)
			if !ok {
				continue
			}
			named, ok := tn.Type().(*types.Named)
			if !ok {
				continue
			}
			st, ok := named.Underlying().(*types.Struct)
			if !ok {
				continue
			}
			ptr := types.NewPointer(named)
			if valueIface != nil && !types.Implements(named, valueIface) && !types.Implements(ptr, valueIface) {
				continue
			}
			// fields written by methods at run time
			var dyn []string
			for i := 0; i < st.NumFields(); i++ {
				f := st.Field(i)
				switch f.Type().Underlying().(type) {
				case *types.Map, *types.Slice:
				default:
					continue
				}
				written := false
				for _, fn := range p.ModuleFuncs() {
					if fn.Signature.Recv() == nil || fn.Pkg == nil || fn.Pkg.Pkg != pkg.Types {
						continue
					}
					rt := fn.Signature.Recv().Type()
					if pt, isPtr := rt.(*types.Pointer); isPtr {
						rt = pt.Elem()
					}
					if !types.Identical(rt, named) {
						continue
					}
					core.Instrs(fn, func(in ssa.Instruction) {
						switch x := in.(type) {
						case *ssa.MapUpdate:
							if core.LoadOfField(x.Map, pkg.Types.Path(), name, f.Name()) {
								written = true
							}
						case *ssa.Store:
							if core.IsField(x.Addr, pkg.Types.Path(), name, f.Name()) {
								written = true
							}
						}
					})
				}
				if written {
					dyn = append(dyn, f.Name())
				}
			}
			if len(dyn) == 0 {
				continue
			}
			n++
			construct := pkg.Types.Name() + "." + name + "#pickled-by-content"
			var impl []string
			for i, it := range ifaces {
				if types.Implements(named, it) || types.Implements(ptr, it) {
					impl = append(impl, inames[i])
				}
			}
			pos := p.Pos(tn.Pos())
			// ... nor does the host pickler read those contents itself (directly or through a helper such as a snapshot method)
			var readAt ssa.Instruction
			var readIn *ssa.Function
			for _, fn := range picklerReach(p) {
				core.Instrs(fn, func(in ssa.Instruction) {
					if readAt != nil {
						return
					}
					for _, d := range dyn {
						switch x := in.(type) {
						case *ssa.FieldAddr:
							if core.IsField(x, pkg.Types.Path(), name, d) {
								readAt, readIn = in, fn
							}
						case *ssa.Field:
							if core.IsField(x, pkg.Types.Path(), name, d) {
								readAt, readIn = in, fn
							}
						}
					}
				})
			}
			if readAt != nil {
				r.Bad(rule, pkg.Types.Name()+"."+name+"#pickler-reads-contents", p.InstrPos(readAt), "the host pickler reaches %s, which reads the run-time contents of %s (%s): the fingerprint of every function that references such a value depends on what this process has stored in it so far - it differs before and after a run (an unchanged project rebuilds) and between load orders", fname(readIn), name, strings.Join(dyn, ", "))
			} else {
				r.OK(rule, pkg.Types.Name()+"."+name+"#pickler-reads-contents", pos, "no function reachable from the host pickler reads the run-time contents of %s (%s)", name, strings.Join(dyn, ", "))
			}
			if len(impl) > 0 {
				r.Bad(rule, construct, pos, "%s holds contents written at run time (%s) and implements starlark.%s, which the encoder pickles element by element: the fingerprint of every function that references such a value depends on what this process has stored in it so far (it differs before and after a run, so unchanged projects rebuild, and a stored value that cannot be pickled makes a successful target fail)", name, strings.Join(dyn, ", "), strings.Join(impl, "/"))
			} else {
				r.OK(rule, construct, pos, "%s (run-time contents: %s) is not pickled by content", name, strings.Join(dyn, ", "))
			}
		}
	}
	r.Floor(rule, n, 1, "host value types with run-time contents")
}

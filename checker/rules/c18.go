package rules

import (
	"fmt"
	"go/token"
	"sort"
	"strings"

	"dawnverif/checker/core"

	"golang.org/x/tools/go/ssa"
)

func init() { register("C18", false, runC18) }

// typestate of one target evaluation
const (
	tsStart = 1 << iota
	tsUpToDate
	tsEvaluating
	tsEvalSucceeded
	tsEvalFailed
	tsLoneFailed
	tsBroken
)

func tsName(s int) string {
	var out []string
	for bit, n := range map[int]string{tsStart: "no event", tsUpToDate: "up-to-date", tsEvaluating: "evaluating", tsEvalSucceeded: "evaluating·succeeded", tsEvalFailed: "evaluating·failed", tsLoneFailed: "failed", tsBroken: "protocol error"} {
		if s&bit != 0 {
			out = append(out, n)
		}
	}
	sort.Strings(out)
	return strings.Join(out, " or ")
}

func tsStep(state int, event string) int {
	next := 0
	for _, s := range []int{tsStart, tsUpToDate, tsEvaluating, tsEvalSucceeded, tsEvalFailed, tsLoneFailed, tsBroken} {
		if state&s == 0 {
			continue
		}
		switch {
		case s == tsStart && event == "TargetUpToDate":
			next |= tsUpToDate
		case s == tsStart && event == "TargetEvaluating":
			next |= tsEvaluating
		case s == tsStart && event == "TargetFailed":
			next |= tsLoneFailed
		case s == tsEvaluating && event == "TargetSucceeded":
			next |= tsEvalSucceeded
		case s == tsEvaluating && event == "TargetFailed":
			next |= tsEvalFailed
		default:
			next |= tsBroken
		}
	}
	return next
}

func runC18(p *core.Prog, r *core.Result) {
	r.Decided = []string{
		"R18.1 typestate of one evaluation on every path: up-to-date | evaluating·succeeded | evaluating·failed | failed | (no event only on the return taken because a dependency failed); the body runs only between evaluating and the terminal event; succeeded never on an error edge",
		"R18.2 target events are emitted only by (*runTarget).Evaluate; run-done exactly once, after the runner returned, with the error that Run returns",
		"R18.4 whenever a lineWriter method hands its buffered partial line to Events.Print it resets the buffer before returning (no byte is delivered twice)",
		"R18.3 the target's line writer is flushed by a defer registered first thing in (*function).evaluate; Flush and newThread have no other callers",
	}
	r.NotDecided = []string{"line reassembly for all chunkings (lineWriter.Write is a small behavioural function)", "interleaving of events of different targets", "exactly-once delivery as observed by a renderer"}
	m := buildEvalModel(p, r, "R18.0")
	if m == nil {
		return
	}
	fn := m.Fn
	targetEvents := map[string]bool{"TargetUpToDate": true, "TargetEvaluating": true, "TargetSucceeded": true, "TargetFailed": true}

	// ---- R18.1 dataflow (helpers called from Evaluate are summarised: start state -> set of end states)
	isTargetEvent := func(ins ssa.Instruction) (string, bool) {
		c, ok := ins.(*ssa.Call)
		if !ok || !c.Call.IsInvoke() || !targetEvents[c.Call.Method.Name()] || !isInvoke(c, "Events", c.Call.Method.Name()) {
			return "", false
		}
		return c.Call.Method.Name(), true
	}
	emits := map[*ssa.Function]bool{}
	for _, h := range m.Helpers {
		core.Instrs(h, func(ins ssa.Instruction) {
			if _, ok := isTargetEvent(ins); ok {
				emits[h] = true
			}
		})
	}
	// flow returns the states at returns, split by whether the function's error result (if any) is nil or not:
	// [0] = returns with a nil (or no) error, [1] = returns with a non-nil (or unknown) error.
	errIndex := func(f *ssa.Function) int {
		res := f.Signature.Results()
		for i := res.Len() - 1; i >= 0; i-- {
			if implementsError(res.At(i).Type()) {
				return i
			}
		}
		return -1
	}
	var flow func(f *ssa.Function, start int, record map[ssa.Instruction]int, depth int) [2]int
	summaries := map[*ssa.Function]map[int][2]int{}
	flow = func(f *ssa.Function, start int, record map[ssa.Instruction]int, depth int) [2]int {
		in := map[*ssa.BasicBlock]int{f.Blocks[0]: start}
		work := []*ssa.BasicBlock{f.Blocks[0]}
		var end [2]int
		ei := errIndex(f)
		for len(work) > 0 {
			b := work[0]
			work = work[1:]
			st := in[b]
			// a helper call whose outcome split is still intact at the end of this block
			var splitErr ssa.Value
			var split [2]int
			for _, ins := range b.Instrs {
				if record != nil {
					record[ins] |= st
				}
				if name, ok := isTargetEvent(ins); ok {
					st = tsStep(st, name)
					splitErr = nil
					continue
				}
				if c, ok := ins.(*ssa.Call); ok && depth < 2 {
					if h := core.Callee(c); h != nil && emits[h] {
						var next [2]int
						for _, s0 := range []int{tsStart, tsUpToDate, tsEvaluating, tsEvalSucceeded, tsEvalFailed, tsLoneFailed, tsBroken} {
							if st&s0 == 0 {
								continue
							}
							if summaries[h] == nil {
								summaries[h] = map[int][2]int{}
							}
							if _, done := summaries[h][s0]; !done {
								summaries[h][s0] = flow(h, s0, nil, depth+1)
							}
							next[0] |= summaries[h][s0][0]
							next[1] |= summaries[h][s0][1]
						}
						st = next[0] | next[1]
						if hi := errIndex(h); hi >= 0 {
							split = next
							splitErr = extractOf(c, hi)
							if h.Signature.Results().Len() == 1 {
								splitErr = c
							}
						}
					}
				}
				if ret, ok := ins.(*ssa.Return); ok {
					vals := core.RetVals(ret)
					switch {
					case ei < 0 || ei >= len(vals):
						end[0] |= st
					case core.IsNilConst(vals[ei]):
						end[0] |= st
					default:
						// a variable error may be nil or not unless the facts say so
						if nn, known := p.FactsAt(ret).ErrNonNil(vals[ei]); known && !nn {
							end[0] |= st
						} else if known && nn {
							end[1] |= st
						} else if _, isCall := vals[ei].(*ssa.Call); isCall {
							end[1] |= st // freshly constructed error
						} else {
							end[0] |= st
							end[1] |= st
						}
					}
				}
			}
			for si, s := range b.Succs {
				out := st
				if splitErr != nil {
					if iff, ok := b.Instrs[len(b.Instrs)-1].(*ssa.If); ok {
						if bo, ok := iff.Cond.(*ssa.BinOp); ok && (bo.Op == token.NEQ || bo.Op == token.EQL) {
							isErr := (bo.X == splitErr && core.IsNilConst(bo.Y)) || (bo.Y == splitErr && core.IsNilConst(bo.X))
							if isErr {
								nonNilEdge := (bo.Op == token.NEQ) == (si == 0)
								if nonNilEdge {
									out = split[1]
								} else {
									out = split[0]
								}
							}
						}
					}
				}
				if in[s]|out != in[s] {
					in[s] |= out
					work = append(work, s)
				}
			}
		}
		return end
	}
	stateAt := map[ssa.Instruction]int{}
	flow(fn, tsStart, stateAt, 0)
	// states inside emitting helpers, in the context(s) in which Evaluate calls them
	for _, h := range m.Helpers {
		if !emits[h] {
			continue
		}
		ctx := 0
		for _, c := range core.CallsTo(fn, h) {
			ctx |= stateAt[c.(ssa.Instruction)]
		}
		if ctx != 0 {
			flow(h, ctx, stateAt, 1)
		}
	}
	// collect emission sites of Evaluate and its helpers
	for _, h := range m.Helpers {
		for _, c := range core.Calls(h) {
			if call, ok := c.(*ssa.Call); ok {
				if name, ok := isTargetEvent(call); ok {
					m.Events[name] = append(m.Events[name], call)
				}
			}
		}
	}
	nEv := 0
	for name := range targetEvents {
		for i, c := range m.Events[name] {
			nEv++
			before := stateAt[c]
			after := tsStep(before, name)
			construct := fmt.Sprintf("dawn.(*runTarget).Evaluate#emit-%s-%d", name, i+1)
			if after&tsBroken != 0 {
				r.Bad("R18.1", construct, p.InstrPos(c), "%s can be emitted when the target's event history is already \"%s\": a renderer sees a duplicated or out-of-order event", name, tsName(before))
			} else {
				r.OK("R18.1", construct, p.InstrPos(c), "emitted with history \"%s\"", tsName(before))
			}
		}
	}
	r.Floor("R18.1", nEv, 3, "target event emission sites")
	depErr := func(v ssa.Value) bool {
		// dep.Error: a load of field Error of a runner.Result
		return core.LoadOfField(v, pkgRunner, "Result", "Error")
	}
	for i, ret := range core.ReturnsOf(fn) {
		st := stateAt[ret]
		construct := fmt.Sprintf("dawn.(*runTarget).Evaluate#return-%d", i+1)
		allowed := tsUpToDate | tsEvalSucceeded | tsEvalFailed | tsLoneFailed
		// the silent return is allowed only on the dependency-failed edge
		onDepFailure := false
		for f := range p.FactsAt(ret) {
			if b, ok := f.Cond.(*ssa.BinOp); ok && (depErr(b.X) || depErr(b.Y)) {
				nn, known := p.FactsAt(ret).ErrNonNil(b.X)
				if !known {
					nn, known = p.FactsAt(ret).ErrNonNil(b.Y)
				}
				if known && nn {
					onDepFailure = true
				}
			}
		}
		if !onDepFailure && m.DepsSite != nil {
			// the dependency loop lives in a helper: its error result is non-nil only when a dependency failed
			sigRes := m.DepsFn.Signature.Results()
			for i := 0; i < sigRes.Len(); i++ {
				if !implementsError(sigRes.At(i).Type()) {
					continue
				}
				errV := extractOf(m.DepsSite, i)
				if sigRes.Len() == 1 {
					errV = m.DepsSite
				}
				nn, known := p.FactsAt(ret).ErrNonNil(errV)
				if !(known && nn) {
					continue
				}
				// every non-nil-error return of the helper is on a dependency-failed edge
				all := true
				for _, hr := range core.ReturnsOf(m.DepsFn) {
					hv := core.RetVals(hr)
					if i >= len(hv) || core.IsNilConst(hv[i]) {
						continue
					}
					depFailed := false
					for f := range p.FactsAt(hr) {
						if b, ok := f.Cond.(*ssa.BinOp); ok && (depErr(b.X) || depErr(b.Y)) {
							n1, k1 := p.FactsAt(hr).ErrNonNil(b.X)
							if !k1 {
								n1, k1 = p.FactsAt(hr).ErrNonNil(b.Y)
							}
							if k1 && n1 {
								depFailed = true
							}
						}
					}
					if !depFailed {
						all = false
					}
				}
				if all {
					onDepFailure = true
				}
			}
		}
		if onDepFailure {
			allowed |= tsStart
		}
		if st&^allowed != 0 {
			r.Bad("R18.1", construct, p.InstrPos(ret), "a return is reachable with event history \"%s\" (allowed here: %s)", tsName(st&^allowed), tsName(allowed))
			continue
		}
		// error/nil agreement: nil return needs up-to-date or succeeded; error return needs failed or the silent dependency case
		vals := core.RetVals(ret)
		if len(vals) == 1 {
			if core.IsNilConst(vals[0]) {
				r.Check(st&^(tsUpToDate|tsEvalSucceeded) == 0, "R18.1", construct, p.InstrPos(ret), "returns nil after \""+tsName(st)+"\"", "returns nil (success) although the last event may be \""+tsName(st&^(tsUpToDate|tsEvalSucceeded))+"\"")
			} else {
				r.Check(st&(tsUpToDate|tsEvalSucceeded) == 0, "R18.1", construct, p.InstrPos(ret), "returns an error after \""+tsName(st)+"\"", "returns an error although the target reported \""+tsName(st&(tsUpToDate|tsEvalSucceeded))+"\"")
			}
		}
	}
	// body only in state evaluating
	r.Check(stateAt[m.Evaluate] == tsEvaluating, "R18.1", "dawn.(*runTarget).Evaluate#body-between-events", p.InstrPos(m.Evaluate), "the body runs exactly when 'evaluating' has been reported and no terminal event yet", "the target body can run with event history \""+tsName(stateAt[m.Evaluate])+"\": 'evaluating' is not reported exactly when the body runs")
	// succeeded never on an error edge
	evalErr := extractOf(m.Evaluate, 2)
	for i, c := range m.Events["TargetSucceeded"] {
		construct := fmt.Sprintf("dawn.(*runTarget).Evaluate#succeeded-on-success-%d", i+1)
		if core.Dominates(m.Evaluate, c) {
			nn, known := p.FactsAt(c).ErrNonNil(evalErr)
			okSave := false
			for _, s := range m.Saves {
				if core.Dominates(s, c) {
					if n2, k2 := p.FactsAt(c).ErrNonNil(s); k2 && !n2 {
						okSave = true
					}
				}
			}
			r.Check(known && !nn && okSave, "R18.1", construct, p.InstrPos(c), "reported only on the nil-error edges of the body and of the record write", "success is reported although the body or the record write may have failed")
		} else {
			dry := holds(p, c, true, func(v ssa.Value) bool { return projField(v, "dryrun") })
			r.Check(dry, "R18.1", construct, p.InstrPos(c), "reported without running the body only in a dry run", "success is reported without the body having run, outside a dry run")
		}
	}
	// failed after the body only on its error edge (or the record write's)
	for i, c := range m.Events["TargetFailed"] {
		if !core.Dominates(m.Evaluate, c) {
			continue
		}
		nn, known := p.FactsAt(c).ErrNonNil(evalErr)
		okSaveErr := false
		for _, s := range m.Saves {
			if n2, k2 := p.FactsAt(c).ErrNonNil(s); k2 && n2 {
				okSaveErr = true
			}
		}
		r.Check(known && nn || okSaveErr, "R18.1", fmt.Sprintf("dawn.(*runTarget).Evaluate#failed-on-error-%d", i+1), p.InstrPos(c), "reported on an error edge", "failure is reported although nothing failed")
	}

	// ---- R18.2 who may emit
	nOther := 0
	var runDone []*ssa.Call
	for _, f := range p.ModuleFuncs() {
		for _, c := range core.Calls(f) {
			call, ok := c.(*ssa.Call)
			if !ok || !c.Common().IsInvoke() {
				continue
			}
			name := c.Common().Method.Name()
			if !isInvoke(c, "Events", name) {
				continue
			}
			if targetEvents[name] && f != fn {
				// forwarding wrappers (an Events implementation delegating to another Events) are not emitters
				if f.Signature.Recv() != nil && f.Name() == name {
					continue
				}
				// helpers that are only ever called from Evaluate (or from such helpers) are part of Evaluate
				isHelper := false
				for _, h := range m.Helpers {
					if h == f {
						isHelper = true
						for _, cs := range p.StaticCallers(h) {
							okCaller := cs.Parent() == fn
							for _, h2 := range m.Helpers {
								if cs.Parent() == h2 {
									okCaller = true
								}
							}
							if !okCaller {
								isHelper = false
							}
						}
						if len(p.FuncValueUses(h)) > 0 {
							isHelper = false
						}
					}
				}
				if isHelper {
					continue
				}
				nOther++
				r.Bad("R18.2", fname(f)+"#emits-"+name, p.InstrPos(call), "%s is emitted outside (*runTarget).Evaluate: the per-target protocol can be broken from there", name)
			}
			if name == "RunDone" {
				if f.Signature.Recv() != nil && f.Name() == name {
					continue
				}
				runDone = append(runDone, call)
			}
		}
	}
	if nOther == 0 {
		r.OK("R18.2", "dawn#target-events-owner", "-", "target events are emitted only by (*runTarget).Evaluate")
	}
	Run := need(p, r, "R18.2", "", "Project", "Run")
	if Run != nil {
		okRD := len(runDone) == 1 && runDone[0].Parent() == Run
		var rr *ssa.Call
		for _, c := range core.Calls(Run) {
			if cc, ok := c.(*ssa.Call); ok && core.IsCallTo(cc, pkgRunner, "Run") {
				rr = cc
			}
		}
		if okRD && rr != nil {
			rd := runDone[0]
			sameErr := rd.Call.Args[0] == ssa.Value(rr)
			after := core.Dominates(rr, rd)
			inLoop := core.Reaches(rd.Block(), rd.Block(), false)
			retSame := true
			for _, ret := range core.ReturnsOf(Run) {
				vals := core.RetVals(ret)
				if len(vals) != 1 || vals[0] != ssa.Value(rr) || !core.Dominates(rd, ret) {
					retSame = false
				}
			}
			r.Check(sameErr && after && !inLoop && retSame, "R18.2", "dawn.(*Project).Run#run-done", p.InstrPos(rd), "RunDone is emitted once, after runner.Run returned, with the error that Run then returns on every path", "RunDone is not emitted exactly once after the runner returned with the build's error (wrong order, wrong error, or an exit that skips it)")
		} else {
			r.Bad("R18.2", "dawn.(*Project).Run#run-done", p.Pos(Run.Pos()), "expected exactly one RunDone emission, in (*Project).Run after runner.Run; found %d", len(runDone))
		}
	}

	// ---- R18.3 flush
	eval := need(p, r, "R18.3", "", "function", "evaluate")
	flush := need(p, r, "R18.3", "", "lineWriter", "Flush")
	newThread := need(p, r, "R18.3", "", "function", "newThread")
	if eval != nil && flush != nil && newThread != nil {
		// the writers the body's thread writes to: the lineWriter fields handed to SetStdio in newThread
		writers := map[string]bool{}
		for _, c := range core.Calls(newThread) {
			cal := core.Callee(c)
			if cal == nil || cal.Name() != "SetStdio" {
				continue
			}
			for _, a := range c.Common().Args[1:] {
				for {
					if mi, ok := a.(*ssa.MakeInterface); ok {
						a = mi.X
						continue
					}
					if ci, ok := a.(*ssa.ChangeInterface); ok {
						a = ci.X
						continue
					}
					break
				}
				if ld, ok := a.(*ssa.UnOp); ok && ld.Op == token.MUL {
					if fa, ok := ld.X.(*ssa.FieldAddr); ok {
						if owner, name := core.FieldOf(fa); owner != nil && owner.Obj().Name() == "function" {
							writers[name] = true
							continue
						}
					}
				}
				r.Unk("R18.3", "dawn.(*function).newThread#stdio-writer", p.InstrPos(c.(ssa.Instruction)), "a stream of the body's thread is not a field of the target: cannot tell whether it is flushed")
			}
		}
		r.Floor("R18.3", len(writers), 1, "writers handed to the body's thread")
		flushed := map[string]bool{}
		for _, c := range core.CallsTo(eval, flush) {
			d, isDefer := c.(*ssa.Defer)
			if !isDefer || d.Block() != eval.Blocks[0] {
				continue
			}
			first := true
			for _, o := range core.Calls(eval) {
				if o == ssa.CallInstruction(d) {
					break
				}
				if _, isCall := o.(*ssa.Call); isCall {
					first = false
				}
			}
			if !first {
				continue
			}
			if ld, ok := d.Call.Args[0].(*ssa.UnOp); ok && ld.Op == token.MUL {
				if fa, ok := ld.X.(*ssa.FieldAddr); ok {
					if owner, name := core.FieldOf(fa); owner != nil && owner.Obj().Name() == "function" {
						flushed[name] = true
					}
				}
			}
		}
		wnames := make([]string, 0, len(writers))
		for w := range writers {
			wnames = append(wnames, w)
		}
		sort.Strings(wnames)
		for _, w := range wnames {
			r.Check(flushed[w], "R18.3", "dawn.(*function).evaluate#flush-deferred:"+w, p.Pos(eval.Pos()), "Flush of the writer function."+w+" (a stream of the body's thread) is deferred before anything else runs: a trailing partial line is delivered on every exit, including panics", "the writer function."+w+" receives output of the body's thread but is not flushed by a defer registered at the start of evaluate: output after the last newline is lost")
		}
		for _, c := range p.StaticCallers(flush) {
			if c.Parent() != eval {
				r.Bad("R18.3", "dawn.(*lineWriter).Flush#caller:"+fname(c.Parent()), p.InstrPos(c.(ssa.Instruction)), "Flush is called outside (*function).evaluate")
			}
		}
		for _, c := range p.StaticCallers(newThread) {
			r.Check(c.Parent() == eval, "R18.3", "dawn.(*function).newThread#caller:"+fname(c.Parent()), p.InstrPos(c.(ssa.Instruction)), "the thread that writes to the target's writer is created only by evaluate", "a thread writing to the target's writer is created outside evaluate (its output would not be flushed)")
		}
		// the body (starlark.Call) runs after the defer
		for _, c := range core.Calls(eval) {
			if core.IsCallTo(c, pkgStar, "Call") {
				okAfter := false
				for _, d := range core.CallsTo(eval, flush) {
					if core.Dominates(d.(ssa.Instruction), c.(ssa.Instruction)) {
						okAfter = true
					}
				}
				r.Check(okAfter, "R18.3", "dawn.(*function).evaluate#body-after-defer", p.InstrPos(c.(ssa.Instruction)), "the body runs after the flush has been deferred", "the body runs before the flush is deferred")
			}
		}
	}

	// ---- R18.4 a delivered line leaves the buffer
	checkLineBufferReset(p, r)
}

// checkLineBufferReset implements R18.4: in the methods of lineWriter, whenever the buffered partial line is
// handed to Events.Print, the buffer is reset before the method returns. Otherwise the same bytes are delivered
// again, glued in front of the next write (the writer outlives one evaluation: a Project can run a target again).
func checkLineBufferReset(p *core.Prog, r *core.Result) {
	isLineOp := func(in ssa.Instruction, name string) bool {
		c, ok := in.(ssa.CallInstruction)
		if !ok || !core.IsMethod(c, "strings", "Builder", name) || len(c.Common().Args) == 0 {
			return false
		}
		return core.IsField(c.Common().Args[0], pkgRoot, "lineWriter", "line")
	}
	n := 0
	for _, fn := range p.ModuleFuncs() {
		if fn.Pkg == nil || fn.Pkg.Pkg.Path() != pkgRoot || fn.Signature.Recv() == nil || !strings.Contains(fn.Signature.Recv().Type().String(), "lineWriter") {
			continue
		}
		k := 0
		for _, c := range core.Calls(fn) {
			if !isInvoke(c, "Events", "Print") {
				continue
			}
			line := c.Common().Args[len(c.Common().Args)-1]
			buffered := core.DependsOn(line, core.SliceOpts{}, func(v ssa.Value) bool {
				in, ok := v.(ssa.Instruction)
				return ok && isLineOp(in, "String")
			})
			if !buffered {
				continue
			}
			n++
			k++
			construct := fmt.Sprintf("%s#delivers-buffer-%d", fname(fn), k)
			leak := false
			for _, ret := range core.ReturnsOf(fn) {
				if core.ReachesAvoiding(c.(ssa.Instruction), ret, func(in ssa.Instruction) bool { return isLineOp(in, "Reset") }) {
					leak = true
				}
			}
			r.Check(!leak, "R18.4", construct, p.InstrPos(c.(ssa.Instruction)), "the buffered line is reset after it has been delivered, on every path to the return", "the buffered line is delivered but can stay in the buffer when the method returns: the next write to this writer (the same target evaluated again on the loaded project) delivers these bytes a second time, glued in front of its first line")
		}
	}
	r.Floor("R18.4", n, 1, "deliveries of the buffered line")
}

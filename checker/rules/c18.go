package rules

import (
	"fmt"
	"go/token"
	"go/types"
	"sort"
	"strings"

	"dawnverif/checker/core"

	"golang.org/x/tools/go/ssa"
)

func init() { register("C18", false, runC18) }

// typestate of one target evaluation
const (
	tsStart = 1 << iota
	tsUpToDate
	tsEvaluating
	tsEvalSucceeded
	tsEvalFailed
	tsLoneFailed
	tsBroken
)

func tsName(s int) string {
	var out []string
	for bit, n := range map[int]string{tsStart: "no event", tsUpToDate: "up-to-date", tsEvaluating: "evaluating", tsEvalSucceeded: "evaluating·succeeded", tsEvalFailed: "evaluating·failed", tsLoneFailed: "failed", tsBroken: "protocol error"} {
		if s&bit != 0 {
			out = append(out, n)
		}
	}
	sort.Strings(out)
	return strings.Join(out, " or ")
}

func tsStep(state int, event string) int {
	next := 0
	for _, s := range []int{tsStart, tsUpToDate, tsEvaluating, tsEvalSucceeded, tsEvalFailed, tsLoneFailed, tsBroken} {
		if state&s == 0 {
			continue
		}
		switch {
		case s == tsStart && event == "TargetUpToDate":
			next |= tsUpToDate
		case s == tsStart && event == "TargetEvaluating":
			next |= tsEvaluating
		case s == tsStart && event == "TargetFailed":
			next |= tsLoneFailed
		case s == tsEvaluating && event == "TargetSucceeded":
			next |= tsEvalSucceeded
		case s == tsEvaluating && event == "TargetFailed":
			next |= tsEvalFailed
		default:
			next |= tsBroken
		}
	}
	return next
}

func runC18(p *core.Prog, r *core.Result) {
	r.Decided = []string{
		"R18.1 typestate of one evaluation on every path: up-to-date | evaluating·succeeded | evaluating·failed | failed | (no event only on the return taken because a dependency failed); the body runs only between evaluating and the terminal event; succeeded never on an error edge",
		"R18.2 target events are emitted only by (*runTarget).Evaluate; run-done exactly once, after the runner returned, with the error that Run returns",
		"R18.7 sibling agreement of the Events implementations: a method that encodes the event kind as a string uses its own name, never the name of another event",
		"R18.10 the sink behind run(callback=...) delivers every event it was sent: its delivery loop ends only when the event channel has been closed and drained, and Close closes that channel",
		"R18.9 an Events implementation that wraps another one (dot and JSON renderers) forwards each event exactly once, on every path, to the same-named method of the wrapped one with its own arguments",
		"R18.8 target output goes to the observer of the run: if Project.events can be replaced after load (run(callback=...)), every line writer is bound to the project and reads the current Events at delivery time instead of the one captured at load",
		"R18.11 an Events implementation that buffers a target's lines per label (to show them with a failure) starts every visit with an empty buffer: the record its TargetEvaluating handler sets up is newly allocated, or its line buffer is reset there - otherwise a target visited twice by one renderer (watch mode, the REPL) is shown with the output of its earlier visits again",
		"R18.12 an Events implementation does not die on a well-formed event: in the Events methods of the module (and the same-package functions they call) no value obtained from a fallible call whose error result is discarded is then used in an unchecked type assertion - the JSON renderer encodes the environment diff with json.encode, which fails for ordinary values (a dict with integer keys, a non-finite float), and a Go panic on a runner goroutine ends the stream without 'evaluating', terminal events or run-done",
		"R18.13 the lone failed event for a missing dependency: Evaluate recognises a missing dependency by the dynamic type of the error it is handed (a type switch, not errors.As), so every function on LoadTarget's path that produces an error of such a type returns it as it is on every path - a wrapper around it (fmt.Errorf with %w, to add a suggestion) is no longer recognised and the dependent emits no event at all",
		"R18.14 one evaluating/terminal pair per target and run: the runner creates one target object per label - runner.targetMap is touched only through LoadOrStore and newTarget only feeds it (C04's R4.3); a Load followed by a Store lets two requesters of a not-yet-seen dependency each start their own object for it, and the dependency is evaluated and reported twice",
		"R18.15 output in order: what a target's own print() writes goes through the target's line buffer, like the output of the processes it runs - the Print callback of a target's thread writes to a *lineWriter and never invokes Events.Print itself (a line the buffer still holds back would otherwise be overtaken)",
		"R18.16 output exactly once also when a target's commands write concurrently: stdout and stderr of a target are one lineWriter and the commands of a shell pipeline write to it at the same time, so its line buffer (lineWriter.line) is only touched with lineWriter.m held, and Write and Flush release the lock on every exit",
		"R18.6 the partial-line buffer never retains (a slice of) the caller's chunk: it only grows by copying appends",
		"R18.5 lineWriter.Write conserves bytes: the unconsumed chunk is cut only at its first newline (c[:nl], c[nl+1:]); the rest becomes the next cursor; per newline exactly one line is delivered - c[:nl] alone only where the buffer is known empty, otherwise the buffer after c[:nl] was appended; without a newline the whole rest is buffered",
		"R18.4 whenever a lineWriter method hands its buffered partial line to Events.Print it resets the buffer before returning (no byte is delivered twice)",
		"R18.3 the target's line writer is flushed by a defer registered first thing in (*function).evaluate; Flush and newThread have no other callers",
	}
	r.NotDecided = []string{"the byte count returned by lineWriter.Write (io.Writer contract) and the behaviour of strings.Builder / bytes.IndexByte (trusted)", "interleaving of events of different targets", "exactly-once delivery as observed by a renderer"}
	m := buildEvalModel(p, r, "R18.0")
	if m == nil {
		return
	}
	fn := m.Fn
	targetEvents := map[string]bool{"TargetUpToDate": true, "TargetEvaluating": true, "TargetSucceeded": true, "TargetFailed": true}

	// ---- R18.1 dataflow (helpers called from Evaluate are summarised: start state -> set of end states)
	isTargetEvent := func(ins ssa.Instruction) (string, bool) {
		c, ok := ins.(*ssa.Call)
		if !ok || !c.Call.IsInvoke() || !targetEvents[c.Call.Method.Name()] || !isInvoke(c, "Events", c.Call.Method.Name()) {
			return "", false
		}
		return c.Call.Method.Name(), true
	}
	emits := map[*ssa.Function]bool{}
	for _, h := range m.Helpers {
		core.Instrs(h, func(ins ssa.Instruction) {
			if _, ok := isTargetEvent(ins); ok {
				emits[h] = true
			}
		})
	}
	// flow returns the states at returns, split by whether the function's error result (if any) is nil or not:
	// [0] = returns with a nil (or no) error, [1] = returns with a non-nil (or unknown) error.
	errIndex := func(f *ssa.Function) int {
		res := f.Signature.Results()
		for i := res.Len() - 1; i >= 0; i-- {
			if implementsError(res.At(i).Type()) {
				return i
			}
		}
		return -1
	}
	var flow func(f *ssa.Function, start int, record map[ssa.Instruction]int, depth int) [2]int
	summaries := map[*ssa.Function]map[int][2]int{}
	retSplit := map[*ssa.Return][2]int{} // returns that hand on a helper's error: states by outcome
	flow = func(f *ssa.Function, start int, record map[ssa.Instruction]int, depth int) [2]int {
		in := map[*ssa.BasicBlock]int{f.Blocks[0]: start}
		work := []*ssa.BasicBlock{f.Blocks[0]}
		var end [2]int
		ei := errIndex(f)
		for len(work) > 0 {
			b := work[0]
			work = work[1:]
			st := in[b]
			// a helper call whose outcome split is still intact at the end of this block
			var splitErr ssa.Value
			var split [2]int
			for _, ins := range b.Instrs {
				if record != nil {
					record[ins] |= st
				}
				if name, ok := isTargetEvent(ins); ok {
					st = tsStep(st, name)
					splitErr = nil
					continue
				}
				if c, ok := ins.(*ssa.Call); ok && depth < 2 {
					if h := core.Callee(c); h != nil && emits[h] {
						var next [2]int
						for _, s0 := range []int{tsStart, tsUpToDate, tsEvaluating, tsEvalSucceeded, tsEvalFailed, tsLoneFailed, tsBroken} {
							if st&s0 == 0 {
								continue
							}
							if summaries[h] == nil {
								summaries[h] = map[int][2]int{}
							}
							if _, done := summaries[h][s0]; !done {
								summaries[h][s0] = flow(h, s0, nil, depth+1)
							}
							next[0] |= summaries[h][s0][0]
							next[1] |= summaries[h][s0][1]
						}
						st = next[0] | next[1]
						if hi := errIndex(h); hi >= 0 {
							split = next
							splitErr = extractOf(c, hi)
							if h.Signature.Results().Len() == 1 {
								splitErr = c
							}
						}
					}
				}
				if ret, ok := ins.(*ssa.Return); ok {
					vals := core.RetVals(ret)
					switch {
					case ei >= 0 && ei < len(vals) && splitErr != nil && vals[ei] == splitErr:
						// `return helper(...)`: the helper's outcome split carries over
						end[0] |= split[0]
						end[1] |= split[1]
						if record != nil {
							retSplit[ret] = split
						}
					case ei < 0 || ei >= len(vals):
						end[0] |= st
					case core.IsNilConst(vals[ei]):
						end[0] |= st
					default:
						// a variable error may be nil or not unless the facts say so
						if nn, known := p.FactsAt(ret).ErrNonNil(vals[ei]); known && !nn {
							end[0] |= st
						} else if known && nn {
							end[1] |= st
						} else if _, isCall := vals[ei].(*ssa.Call); isCall {
							end[1] |= st // freshly constructed error
						} else {
							end[0] |= st
							end[1] |= st
						}
					}
				}
			}
			for si, s := range b.Succs {
				out := st
				if splitErr != nil {
					if iff, ok := b.Instrs[len(b.Instrs)-1].(*ssa.If); ok {
						if bo, ok := iff.Cond.(*ssa.BinOp); ok && (bo.Op == token.NEQ || bo.Op == token.EQL) {
							isErr := (bo.X == splitErr && core.IsNilConst(bo.Y)) || (bo.Y == splitErr && core.IsNilConst(bo.X))
							if isErr {
								nonNilEdge := (bo.Op == token.NEQ) == (si == 0)
								if nonNilEdge {
									out = split[1]
								} else {
									out = split[0]
								}
							}
						}
					}
				}
				if in[s]|out != in[s] {
					in[s] |= out
					work = append(work, s)
				}
			}
		}
		return end
	}
	stateAt := map[ssa.Instruction]int{}
	flow(fn, tsStart, stateAt, 0)
	// states inside emitting helpers, in the context(s) in which Evaluate calls them
	for _, h := range m.Helpers {
		if !emits[h] {
			continue
		}
		ctx := 0
		for _, c := range core.CallsTo(fn, h) {
			ctx |= stateAt[c.(ssa.Instruction)]
		}
		if ctx != 0 {
			flow(h, ctx, stateAt, 1)
		}
	}
	// collect emission sites of Evaluate and its helpers
	for _, h := range m.Helpers {
		for _, c := range core.Calls(h) {
			if call, ok := c.(*ssa.Call); ok {
				if name, ok := isTargetEvent(call); ok {
					dup := false
					for _, e := range m.Events[name] {
						if e == call {
							dup = true
						}
					}
					if !dup {
						m.Events[name] = append(m.Events[name], call)
					}
				}
			}
		}
	}
	nEv := 0
	for name := range targetEvents {
		for i, c := range m.Events[name] {
			nEv++
			before := stateAt[c]
			after := tsStep(before, name)
			construct := fmt.Sprintf("dawn.(*runTarget).Evaluate#emit-%s-%d", name, i+1)
			if after&tsBroken != 0 {
				r.Bad("R18.1", construct, p.InstrPos(c), "%s can be emitted when the target's event history is already \"%s\": a renderer sees a duplicated or out-of-order event", name, tsName(before))
			} else {
				r.OK("R18.1", construct, p.InstrPos(c), "emitted with history \"%s\"", tsName(before))
			}
		}
	}
	r.Floor("R18.1", nEv, 3, "target event emission sites")
	depErr := func(v ssa.Value) bool {
		// dep.Error: a load of field Error of a runner.Result
		return core.LoadOfField(v, pkgRunner, "Result", "Error")
	}
	for i, ret := range core.ReturnsOf(fn) {
		st := stateAt[ret]
		construct := fmt.Sprintf("dawn.(*runTarget).Evaluate#return-%d", i+1)
		allowed := tsUpToDate | tsEvalSucceeded | tsEvalFailed | tsLoneFailed
		// the silent return is allowed only on the dependency-failed edge
		onDepFailure := false
		for f := range p.FactsAt(ret) {
			if b, ok := f.Cond.(*ssa.BinOp); ok && (depErr(b.X) || depErr(b.Y)) {
				nn, known := p.FactsAt(ret).ErrNonNil(b.X)
				if !known {
					nn, known = p.FactsAt(ret).ErrNonNil(b.Y)
				}
				if known && nn {
					onDepFailure = true
				}
			}
		}
		if !onDepFailure && m.DepsSite != nil {
			// the dependency loop lives in a helper: its error result is non-nil only when a dependency failed
			sigRes := m.DepsFn.Signature.Results()
			for i := 0; i < sigRes.Len(); i++ {
				if !implementsError(sigRes.At(i).Type()) {
					continue
				}
				errV := extractOf(m.DepsSite, i)
				if sigRes.Len() == 1 {
					errV = m.DepsSite
				}
				nn, known := p.FactsAt(ret).ErrNonNil(errV)
				if !(known && nn) {
					continue
				}
				// every non-nil-error return of the helper is on a dependency-failed edge
				all := true
				for _, hr := range core.ReturnsOf(m.DepsFn) {
					hv := core.RetVals(hr)
					if i >= len(hv) || core.IsNilConst(hv[i]) {
						continue
					}
					depFailed := false
					for f := range p.FactsAt(hr) {
						if b, ok := f.Cond.(*ssa.BinOp); ok && (depErr(b.X) || depErr(b.Y)) {
							n1, k1 := p.FactsAt(hr).ErrNonNil(b.X)
							if !k1 {
								n1, k1 = p.FactsAt(hr).ErrNonNil(b.Y)
							}
							if k1 && n1 {
								depFailed = true
							}
						}
					}
					if !depFailed {
						all = false
					}
				}
				if all {
					onDepFailure = true
				}
			}
		}
		if onDepFailure {
			allowed |= tsStart
		}
		if st&^allowed != 0 {
			r.Bad("R18.1", construct, p.InstrPos(ret), "a return is reachable with event history \"%s\" (allowed here: %s)", tsName(st&^allowed), tsName(allowed))
			continue
		}
		// error/nil agreement: nil return needs up-to-date or succeeded; error return needs failed or the silent dependency case
		vals := core.RetVals(ret)
		if rs, ok := retSplit[ret]; ok && len(vals) == 1 {
			// a helper that hands back the error it was given: the caller's knowledge about that argument decides
			// which half of the split applies
			if hc, isCall := vals[0].(*ssa.Call); isCall {
				if h := core.Callee(hc); h != nil && h.Blocks != nil {
					passJ := -1
					for _, hr := range core.ReturnsOf(h) {
						hv := core.RetVals(hr)
						prm, isPrm := hv[len(hv)-1].(*ssa.Parameter)
						if !isPrm {
							passJ = -2
							break
						}
						j := paramIndex(h, prm)
						if passJ >= 0 && passJ != j {
							passJ = -2
							break
						}
						passJ = j
					}
					if passJ >= 0 && passJ < len(hc.Call.Args) {
						if nn, known := p.FactsAt(hc).ErrNonNil(hc.Call.Args[passJ]); known {
							if nn {
								rs[0] = 0
							} else {
								rs[1] = 0
							}
						}
					}
				}
			}
			r.Check(rs[0]&^(tsUpToDate|tsEvalSucceeded) == 0 && rs[1]&(tsUpToDate|tsEvalSucceeded) == 0, "R18.1", construct, p.InstrPos(ret), "hands on the helper's result: nil after \""+tsName(rs[0])+"\", an error after \""+tsName(rs[1])+"\"", "hands on a helper's result that can be nil after \""+tsName(rs[0]&^(tsUpToDate|tsEvalSucceeded))+"\" or an error after \""+tsName(rs[1]&(tsUpToDate|tsEvalSucceeded))+"\"")
			continue
		}
		if len(vals) == 1 {
			if core.IsNilConst(vals[0]) {
				r.Check(st&^(tsUpToDate|tsEvalSucceeded) == 0, "R18.1", construct, p.InstrPos(ret), "returns nil after \""+tsName(st)+"\"", "returns nil (success) although the last event may be \""+tsName(st&^(tsUpToDate|tsEvalSucceeded))+"\"")
			} else {
				r.Check(st&(tsUpToDate|tsEvalSucceeded) == 0, "R18.1", construct, p.InstrPos(ret), "returns an error after \""+tsName(st)+"\"", "returns an error although the target reported \""+tsName(st&(tsUpToDate|tsEvalSucceeded))+"\"")
			}
		}
	}
	// body only in state evaluating
	r.Check(stateAt[m.Evaluate] == tsEvaluating, "R18.1", "dawn.(*runTarget).Evaluate#body-between-events", p.InstrPos(m.Evaluate), "the body runs exactly when 'evaluating' has been reported and no terminal event yet", "the target body can run with event history \""+tsName(stateAt[m.Evaluate])+"\": 'evaluating' is not reported exactly when the body runs")
	// succeeded never on an error edge
	evalErr := extractOf(m.Evaluate, 2)
	for i, c := range m.Events["TargetSucceeded"] {
		construct := fmt.Sprintf("dawn.(*runTarget).Evaluate#succeeded-on-success-%d", i+1)
		if m.dom(m.Evaluate, c) {
			nn, known := p.FactsAt(c).ErrNonNil(evalErr)
			okSave := false
			for _, s := range m.saveErrSites() {
				if m.dom(s, c) {
					if n2, k2 := p.FactsAt(c).ErrNonNil(s); k2 && !n2 {
						okSave = true
					}
				}
			}
			r.Check(known && !nn && okSave, "R18.1", construct, p.InstrPos(c), "reported only on the nil-error edges of the body and of the record write", "success is reported although the body or the record write may have failed")
		} else {
			dry := holds(p, c, true, func(v ssa.Value) bool { return projField(v, "dryrun") })
			r.Check(dry, "R18.1", construct, p.InstrPos(c), "reported without running the body only in a dry run", "success is reported without the body having run, outside a dry run")
		}
	}
	// failed after the body only on its error edge (or the record write's)
	for i, c := range m.Events["TargetFailed"] {
		if !m.dom(m.Evaluate, c) {
			continue
		}
		nn, known := p.FactsAt(c).ErrNonNil(evalErr)
		okSaveErr := false
		for _, s := range m.saveErrSites() {
			if n2, k2 := p.FactsAt(c).ErrNonNil(s); k2 && n2 {
				okSaveErr = true
			}
		}
		r.Check(known && nn || okSaveErr, "R18.1", fmt.Sprintf("dawn.(*runTarget).Evaluate#failed-on-error-%d", i+1), p.InstrPos(c), "reported on an error edge", "failure is reported although nothing failed")
	}

	// ---- R18.2 who may emit
	nOther := 0
	var runDone []*ssa.Call
	for _, f := range p.ModuleFuncs() {
		for _, c := range core.Calls(f) {
			call, ok := c.(*ssa.Call)
			if !ok || !c.Common().IsInvoke() {
				continue
			}
			name := c.Common().Method.Name()
			if !isInvoke(c, "Events", name) {
				continue
			}
			if targetEvents[name] && f != fn {
				// forwarding wrappers (an Events implementation delegating to another Events) are not emitters
				if f.Signature.Recv() != nil && f.Name() == name {
					continue
				}
				// helpers that are only ever called from Evaluate (or from such helpers) are part of Evaluate
				isHelper := false
				for _, h := range m.Helpers {
					if h == f {
						isHelper = true
						for _, cs := range p.StaticCallers(h) {
							okCaller := cs.Parent() == fn
							for _, h2 := range m.Helpers {
								if cs.Parent() == h2 {
									okCaller = true
								}
							}
							if !okCaller {
								isHelper = false
							}
						}
						if len(p.FuncValueUses(h)) > 0 {
							isHelper = false
						}
					}
				}
				if isHelper {
					continue
				}
				nOther++
				r.Bad("R18.2", fname(f)+"#emits-"+name, p.InstrPos(call), "%s is emitted outside (*runTarget).Evaluate: the per-target protocol can be broken from there", name)
			}
			if name == "RunDone" {
				if f.Signature.Recv() != nil && f.Name() == name {
					continue
				}
				runDone = append(runDone, call)
			}
		}
	}
	if nOther == 0 {
		r.OK("R18.2", "dawn#target-events-owner", "-", "target events are emitted only by (*runTarget).Evaluate")
	}
	Run := need(p, r, "R18.2", "", "Project", "Run")
	if Run != nil {
		okRD := len(runDone) == 1 && runDone[0].Parent() == Run
		var rr *ssa.Call
		for _, c := range core.Calls(Run) {
			if cc, ok := c.(*ssa.Call); ok && core.IsCallTo(cc, pkgRunner, "Run") {
				rr = cc
			}
		}
		if okRD && rr != nil {
			rd := runDone[0]
			sameErr := rd.Call.Args[0] == ssa.Value(rr)
			after := core.Dominates(rr, rd)
			inLoop := core.Reaches(rd.Block(), rd.Block(), false)
			retSame := true
			for _, ret := range core.ReturnsOf(Run) {
				vals := core.RetVals(ret)
				if len(vals) != 1 || vals[0] != ssa.Value(rr) || !core.Dominates(rd, ret) {
					retSame = false
				}
			}
			r.Check(sameErr && after && !inLoop && retSame, "R18.2", "dawn.(*Project).Run#run-done", p.InstrPos(rd), "RunDone is emitted once, after runner.Run returned, with the error that Run then returns on every path", "RunDone is not emitted exactly once after the runner returned with the build's error (wrong order, wrong error, or an exit that skips it)")
		} else {
			r.Bad("R18.2", "dawn.(*Project).Run#run-done", p.Pos(Run.Pos()), "expected exactly one RunDone emission, in (*Project).Run after runner.Run; found %d", len(runDone))
		}
	}

	// ---- R18.3 flush
	eval := need(p, r, "R18.3", "", "function", "evaluate")
	flush := need(p, r, "R18.3", "", "lineWriter", "Flush")
	newThread := need(p, r, "R18.3", "", "function", "newThread")
	if eval != nil && flush != nil && newThread != nil {
		// the writers the body's thread writes to: the lineWriter fields handed to SetStdio in newThread
		writers := map[string]bool{}
		for _, c := range core.Calls(newThread) {
			cal := core.Callee(c)
			if cal == nil || cal.Name() != "SetStdio" {
				continue
			}
			for _, a := range c.Common().Args[1:] {
				for {
					if mi, ok := a.(*ssa.MakeInterface); ok {
						a = mi.X
						continue
					}
					if ci, ok := a.(*ssa.ChangeInterface); ok {
						a = ci.X
						continue
					}
					break
				}
				if ld, ok := a.(*ssa.UnOp); ok && ld.Op == token.MUL {
					if fa, ok := ld.X.(*ssa.FieldAddr); ok {
						if owner, name := core.FieldOf(fa); owner != nil && owner.Obj().Name() == "function" {
							writers[name] = true
							continue
						}
					}
				}
				r.Unk("R18.3", "dawn.(*function).newThread#stdio-writer", p.InstrPos(c.(ssa.Instruction)), "a stream of the body's thread is not a field of the target: cannot tell whether it is flushed")
			}
		}
		r.Floor("R18.3", len(writers), 1, "writers handed to the body's thread")
		flushed := map[string]bool{}
		for _, c := range core.CallsTo(eval, flush) {
			d, isDefer := c.(*ssa.Defer)
			if !isDefer || d.Block() != eval.Blocks[0] {
				continue
			}
			first := true
			for _, o := range core.Calls(eval) {
				if o == ssa.CallInstruction(d) {
					break
				}
				if _, isCall := o.(*ssa.Call); isCall {
					first = false
				}
			}
			if !first {
				continue
			}
			if ld, ok := d.Call.Args[0].(*ssa.UnOp); ok && ld.Op == token.MUL {
				if fa, ok := ld.X.(*ssa.FieldAddr); ok {
					if owner, name := core.FieldOf(fa); owner != nil && owner.Obj().Name() == "function" {
						flushed[name] = true
					}
				}
			}
		}
		wnames := make([]string, 0, len(writers))
		for w := range writers {
			wnames = append(wnames, w)
		}
		sort.Strings(wnames)
		for _, w := range wnames {
			r.Check(flushed[w], "R18.3", "dawn.(*function).evaluate#flush-deferred:"+w, p.Pos(eval.Pos()), "Flush of the writer function."+w+" (a stream of the body's thread) is deferred before anything else runs: a trailing partial line is delivered on every exit, including panics", "the writer function."+w+" receives output of the body's thread but is not flushed by a defer registered at the start of evaluate: output after the last newline is lost")
		}
		for _, c := range p.StaticCallers(flush) {
			if c.Parent() != eval {
				r.Bad("R18.3", "dawn.(*lineWriter).Flush#caller:"+fname(c.Parent()), p.InstrPos(c.(ssa.Instruction)), "Flush is called outside (*function).evaluate")
			}
		}
		for _, c := range p.StaticCallers(newThread) {
			r.Check(c.Parent() == eval, "R18.3", "dawn.(*function).newThread#caller:"+fname(c.Parent()), p.InstrPos(c.(ssa.Instruction)), "the thread that writes to the target's writer is created only by evaluate", "a thread writing to the target's writer is created outside evaluate (its output would not be flushed)")
		}
		// the body (starlark.Call) runs after the defer
		for _, c := range core.Calls(eval) {
			if core.IsCallTo(c, pkgStar, "Call") {
				okAfter := false
				for _, d := range core.CallsTo(eval, flush) {
					if core.Dominates(d.(ssa.Instruction), c.(ssa.Instruction)) {
						okAfter = true
					}
				}
				r.Check(okAfter, "R18.3", "dawn.(*function).evaluate#body-after-defer", p.InstrPos(c.(ssa.Instruction)), "the body runs after the flush has been deferred", "the body runs before the flush is deferred")
			}
		}
	}

	// ---- R18.4 a delivered line leaves the buffer
	checkLineBufferReset(p, r)

	// ---- R18.5 chunk conservation in lineWriter.Write
	checkLineReassembly(p, r)

	// ---- R18.7 every Events implementation that encodes the kind of an event names it after the method
	checkEventKinds(p, r)

	// ---- R18.10 the run(callback=...) sink delivers everything it was sent
	checkRunEventsDrain(p, r)

	// ---- R18.9 wrapping renderers forward every event, once, to the same event of the renderer they wrap
	checkRendererForwarding(p, r)

	// ---- R18.8 output is delivered to the observer of the run
	checkOutputSink(p, r)

	// ---- R18.13 the error of a missing dependency arrives in the form Evaluate tests for
	checkClassifiedErrorsUnwrapped(p, r, "R18.13")
	checkTargetPrintThroughLineBuffer(p, r, "R18.15")
	{
		n := guarded(p, r, "R18.16", core.GuardSpec{Rel: "", Type: "lineWriter", Field: "line", Lock: "m"})
		r.Floor("R18.16", n, 3, "accesses to lineWriter.line")
		for _, name := range []string{"Write", "Flush"} {
			if fn := p.Func("", "lineWriter", name); fn != nil {
				lockBalanced(p, r, "R18.16", fn)
			}
		}
	}
	// ---- R18.14 one runner target per label (the obligations of C04's R4.3)
	{
		sub := core.NewResult("C04")
		runC04(p, sub)
		n := 0
		for _, o := range sub.Obls {
			if o.Rule != "R4.3" || strings.HasPrefix(o.Construct, "rule#") || strings.HasPrefix(o.Construct, "floor:") {
				continue
			}
			n++
			switch o.Status {
			case core.Discharged:
				r.OK("R18.14", o.Construct, o.Pos, "%s", o.Detail)
			case core.Violated:
				r.Bad("R18.14", o.Construct, o.Pos, "%s", o.Detail)
			case core.Undecided:
				r.Unk("R18.14", o.Construct, o.Pos, "%s", o.Detail)
			}
		}
		r.Floor("R18.14", n, 2, "uses of runner.targetMap and newTarget")
	}

	// ---- R18.12 an observer does not die on a well-formed event
	checkObserversDoNotPanic(p, r, "R18.12")

	// ---- R18.11 a renderer's per-target output buffer starts empty at every visit
	checkRendererBufferPerVisit(p, r, "R18.11")

	// ---- R18.6 the buffer never retains the caller's slice
	nStore := 0
	for _, fn := range p.ModuleFuncs() {
		if fn.Pkg == nil || fn.Pkg.Pkg.Path() != pkgRoot {
			continue
		}
		core.Instrs(fn, func(in ssa.Instruction) {
			v, is := bufRetains(in)
			if !is {
				return
			}
			nStore++
			construct := fmt.Sprintf("%s#buffer-store-%d", fname(fn), nStore)
			// a freshly allocated copy is fine; anything derived from a parameter (the chunk being written) is not
			aliases := core.DependsOn(v, core.SliceOpts{}, func(x ssa.Value) bool {
				prm, ok := x.(*ssa.Parameter)
				if !ok {
					return false
				}
				_, isSlice := prm.Type().Underlying().(*types.Slice)
				return isSlice
			})
			r.Check(!aliases, "R18.6", construct, p.InstrPos(in), "the buffer is replaced by a value that does not alias a caller's slice", "the partial line is kept as a slice of the chunk handed to Write instead of a copy: writers such as io.Copy reuse their buffer, so the retained bytes are overwritten before the line is completed and corrupted lines are delivered")
		})
	}
	r.Analysed["line_buffer_replacing_stores"] = nStore
	// the rule expects no such store on today's tree: say what was looked at, and fail if the buffer is not recognised
	nApp := 0
	for _, fn := range p.ModuleFuncs() {
		if fn.Pkg != nil && fn.Pkg.Pkg.Path() == pkgRoot {
			core.Instrs(fn, func(in ssa.Instruction) {
				if _, ok := bufAppend(in); ok {
					nApp++
				}
			})
		}
	}
	r.Floor("R18.6", nApp, 1, "appends to the line buffer (the buffer is recognised)")
	if nStore == 0 && nApp > 0 {
		r.OK("R18.6", "dawn.lineWriter#no-replacing-store", "-", "the line buffer is only ever appended to (%d sites, copying) or reset: no store replaces it by a value that could alias the caller's chunk", nApp)
	}
}

// checkLineReassembly implements R18.5: the structure that makes lineWriter.Write deliver every byte exactly once,
// in order, whatever the chunking. With c the not yet consumed part of the chunk and nl the position of its first
// newline: (a) c is only ever cut at nl - c[:nl] is the end of the current line, c[nl+1:] the rest; (b) the rest
// becomes the next c; (c) when there is a newline exactly one line is delivered per iteration: c[:nl] itself when the
// buffer is known to be empty, otherwise the buffer after c[:nl] has been appended to it; (d) when there is no
// newline all of c is appended to the buffer.
// printLike: the call delivers a line to Events.Print - directly, or through a lineWriter helper that hands one of
// its parameters to Print on every path (func (l *lineWriter) emit(line string)). Returns the delivered value.
func printLike(c ssa.CallInstruction) (ssa.Value, bool) {
	if isInvoke(c, "Events", "Print") {
		return c.Common().Args[len(c.Common().Args)-1], true
	}
	h := core.Callee(c)
	if h == nil || h.Blocks == nil || h.Signature.Recv() == nil || !strings.Contains(h.Signature.Recv().Type().String(), "lineWriter") {
		return nil, false
	}
	for i, prm := range h.Params {
		if i == 0 || i >= len(c.Common().Args) {
			continue
		}
		isPrintOfParam := func(in ssa.Instruction) bool {
			pc, ok := in.(*ssa.Call)
			if !ok || !isInvoke(pc, "Events", "Print") {
				return false
			}
			return core.DependsOn(pc.Call.Args[len(pc.Call.Args)-1], core.SliceOpts{}, func(v ssa.Value) bool { return v == ssa.Value(prm) })
		}
		any, all := false, true
		core.Instrs(h, func(in ssa.Instruction) {
			if isPrintOfParam(in) {
				any = true
			}
		})
		for _, ret := range core.ReturnsOf(h) {
			if core.BlockReachesAvoiding(h.Blocks[0], ret, isPrintOfParam) {
				all = false
			}
		}
		if any && all {
			return c.Common().Args[i], true
		}
	}
	return nil, false
}

func checkLineReassembly(p *core.Prog, r *core.Result) {
	w := need(p, r, "R18.5", "", "lineWriter", "Write")
	if w == nil || len(w.Params) < 2 {
		return
	}
	chunk := w.Params[1]
	var cur *ssa.Phi
	core.Instrs(w, func(in ssa.Instruction) {
		if ph, ok := in.(*ssa.Phi); ok && types.Identical(ph.Type(), chunk.Type()) {
			for _, e := range ph.Edges {
				if e == ssa.Value(chunk) {
					cur = ph
				}
			}
		}
	})
	if cur == nil {
		r.Unk("R18.5", "dawn.(*lineWriter).Write#cursor", p.Pos(w.Pos()), "the loop over the unconsumed part of the chunk is not recognised")
		return
	}
	var nl, cut *ssa.Call
	for _, c := range core.Calls(w) {
		if call, ok := c.(*ssa.Call); ok && (core.IsCallTo(c, "bytes", "IndexByte") || core.IsCallTo(c, "bytes", "IndexRune")) && call.Call.Args[0] == ssa.Value(cur) {
			if k, ok := core.ConstInt(call.Call.Args[1]); ok && k == 10 {
				nl = call
			}
		}
		// head, rest, found := bytes.Cut(c, []byte{'\n'})
		if call, ok := c.(*ssa.Call); ok && core.IsCallTo(c, "bytes", "Cut") && call.Call.Args[0] == ssa.Value(cur) {
			if isNewlineSep(call.Call.Args[1]) {
				cut = call
			}
		}
	}
	if nl == nil && cut == nil {
		r.Unk("R18.5", "dawn.(*lineWriter).Write#newline", p.Pos(w.Pos()), "the search for the first newline of the unconsumed part is not recognised")
		return
	}
	isNlPlus := func(v ssa.Value, k int64) bool {
		for nl != nil {
			if v == ssa.Value(nl) {
				return k == 0
			}
			b, ok := v.(*ssa.BinOp)
			if !ok || b.Op != token.ADD {
				return false
			}
			if c, ok := core.ConstInt(b.Y); ok {
				v, k = b.X, k-c
				continue
			}
			if c, ok := core.ConstInt(b.X); ok {
				v, k = b.Y, k-c
				continue
			}
			return false
		}
		return false
	}
	isHead := func(v ssa.Value) bool {
		if e, ok := v.(*ssa.Extract); ok && cut != nil && e.Tuple == ssa.Value(cut) {
			return e.Index == 0
		}
		sl, ok := v.(*ssa.Slice)
		return ok && sl.X == ssa.Value(cur) && sl.Low == nil && sl.High != nil && isNlPlus(sl.High, 0)
	}
	isTail := func(v ssa.Value) bool {
		if e, ok := v.(*ssa.Extract); ok && cut != nil && e.Tuple == ssa.Value(cut) {
			return e.Index == 1
		}
		sl, ok := v.(*ssa.Slice)
		return ok && sl.X == ssa.Value(cur) && sl.High == nil && sl.Low != nil && isNlPlus(sl.Low, 1)
	}
	// (a) cuts
	nCuts := 0
	core.Instrs(w, func(in ssa.Instruction) {
		sl, ok := in.(*ssa.Slice)
		if !ok || sl.X != ssa.Value(cur) {
			return
		}
		nCuts++
		r.Check(isHead(sl) || isTail(sl), "R18.5", fmt.Sprintf("dawn.(*lineWriter).Write#cut-%d", nCuts), p.InstrPos(sl), "the chunk is cut at its first newline (c[:nl] / c[nl+1:])", "the unconsumed part of a chunk is cut somewhere other than at its first newline: bytes are lost, duplicated or the newline is delivered as part of a line")
	})
	if cut != nil {
		for _, ref := range *cut.Referrers() {
			if e, ok := ref.(*ssa.Extract); ok && e.Index < 2 {
				nCuts++
				r.OK("R18.5", fmt.Sprintf("dawn.(*lineWriter).Write#cut-%d", nCuts), p.InstrPos(cut), "the chunk is cut at its first newline by bytes.Cut (before / after)")
			}
		}
	}
	r.Floor("R18.5", nCuts, 2, "cuts of the chunk")
	// (b) the rest becomes the next cursor (or nil: nothing left)
	for i, e := range cur.Edges {
		if e == ssa.Value(chunk) || core.IsNilConst(e) {
			continue
		}
		r.Check(isTail(e), "R18.5", fmt.Sprintf("dawn.(*lineWriter).Write#advance-%d", i), p.InstrPos(cur), "the next iteration continues with c[nl+1:]", "the loop does not continue with exactly the bytes after the newline")
	}
	// (c) deliveries. A delivery of the line end h (= c[:nl]) in function f is one of
	//   direct   - Print(string(h)) where the buffer is known to be empty,
	//   buffered - Print(buffer) (itself, or through a helper that always prints the buffer) after h was appended,
	//   complete - a call of a lineWriter helper with h as argument that itself delivers its parameter exactly once
	//              on every path (checked recursively).
	isLW := func(f *ssa.Function) bool {
		return f != nil && f.Blocks != nil && f.Signature.Recv() != nil && strings.Contains(f.Signature.Recv().Type().String(), "lineWriter") && f.Pkg == w.Pkg
	}
	printsBuffer := func(in ssa.Instruction) bool {
		c, ok := in.(*ssa.Call)
		if !ok {
			return false
		}
		line, ok := printLike(c)
		return ok && core.DependsOn(line, core.SliceOpts{}, bufContent)
	}
	// emitsBuffer: helper that prints the buffer on every path
	emitsBuffer := func(f *ssa.Function) bool {
		if !isLW(f) {
			return false
		}
		any := false
		core.Instrs(f, func(in ssa.Instruction) {
			if printsBuffer(in) {
				any = true
			}
		})
		if !any {
			return false
		}
		for _, ret := range core.ReturnsOf(f) {
			if core.BlockReachesAvoiding(f.Blocks[0], ret, printsBuffer) {
				return false
			}
		}
		return true
	}
	bufferEmptyAt := func(at ssa.Instruction) bool {
		return p.FactsAt(at).Find(func(c ssa.Value, v bool) bool {
			b, ok := c.(*ssa.BinOp)
			if !ok {
				return false
			}
			lenCall := bufLen
			zero := func(x ssa.Value) bool { k, ok := core.ConstInt(x); return ok && k == 0 }
			if !(lenCall(b.X) && zero(b.Y) || lenCall(b.Y) && zero(b.X)) {
				return false
			}
			return b.Op == token.EQL && v || b.Op == token.NEQ && !v || b.Op == token.GTR && !v && lenCall(b.X) || b.Op == token.LEQ && v && lenCall(b.X)
		})
	}
	type delivery struct {
		at   ssa.Instruction
		kind string
	}
	var deliveriesIn func(f *ssa.Function, head func(ssa.Value) bool, depth int) ([]delivery, []string)
	deliveriesIn = func(f *ssa.Function, head func(ssa.Value) bool, depth int) ([]delivery, []string) {
		var ds []delivery
		var problems []string
		appended := func(before ssa.Instruction) bool {
			ok := false
			core.Instrs(f, func(in ssa.Instruction) {
				if a, is := bufAppend(in); is && (head(a) || core.DependsOn(a, core.SliceOpts{}, head)) && core.Dominates(in, before) {
					ok = true
				}
			})
			return ok
		}
		for _, c := range core.Calls(f) {
			call, ok := c.(*ssa.Call)
			if !ok {
				continue
			}
			pos := p.InstrPos(call)
			pline, isPrintLike := printLike(c)
			switch {
			case isPrintLike:
				line := pline
				switch {
				case printsBuffer(call):
					ds = append(ds, delivery{call, "buffered"})
					if !appended(call) {
						problems = append(problems, pos+": the buffer is delivered without the end of the line (c[:nl]) having been appended first")
					}
				case core.DependsOn(line, core.SliceOpts{}, head):
					ds = append(ds, delivery{call, "direct"})
					if !bufferEmptyAt(call) {
						problems = append(problems, pos+": c[:nl] is delivered without the buffered beginning of the line (the buffer is not known to be empty here): the start of a line written in an earlier chunk is lost or delivered late")
					}
				default:
					ds = append(ds, delivery{call, "other"})
					problems = append(problems, pos+": a line is delivered that is neither c[:nl] nor the buffer")
				}
			case emitsBuffer(core.Callee(c)):
				ds = append(ds, delivery{call, "buffered"})
				if !appended(call) {
					problems = append(problems, pos+": the buffer is delivered without the end of the line (c[:nl]) having been appended first")
				}
			case isLW(core.Callee(c)) && depth < 2:
				h := core.Callee(c)
				for ai, a := range call.Call.Args {
					if ai == 0 || !head(a) || ai >= len(h.Params) {
						continue
					}
					prm := h.Params[ai]
					sub, prob := deliveriesIn(h, func(v ssa.Value) bool { return v == ssa.Value(prm) }, depth+1)
					problems = append(problems, prob...)
					isSub := func(in ssa.Instruction) bool {
						for _, d := range sub {
							if d.at == in {
								return true
							}
						}
						return false
					}
					for _, ret := range core.ReturnsOf(h) {
						if core.BlockReachesAvoiding(h.Blocks[0], ret, isSub) {
							problems = append(problems, p.InstrPos(ret)+": "+fname(h)+" can return without having delivered the line")
						}
					}
					for x, da := range sub {
						for y, db := range sub {
							if x != y && core.InstrReaches(da.at, db.at) {
								problems = append(problems, p.InstrPos(db.at)+": "+fname(h)+" can deliver twice")
							}
						}
					}
					ds = append(ds, delivery{call, "complete"})
				}
			}
		}
		return ds, problems
	}
	dels, problems := deliveriesIn(w, isHead, 0)
	r.Floor("R18.5", len(dels), 1, "line deliveries in Write")
	sort.Strings(problems)
	for i, d := range dels {
		r.OK("R18.5", fmt.Sprintf("dawn.(*lineWriter).Write#delivery-%d:%s", i+1, d.kind), p.InstrPos(d.at), "a delivery of the line that ends at the newline")
	}
	for i, pr := range problems {
		r.Bad("R18.5", fmt.Sprintf("dawn.(*lineWriter).Write#delivery-problem-%d", i+1), strings.SplitN(pr, ": ", 2)[0], "%s", strings.SplitN(pr, ": ", 2)[1])
	}
	var prints []ssa.Instruction
	for _, d := range dels {
		prints = append(prints, d.at)
	}
	// exactly one delivery per newline: from the found edge every path to the next iteration passes a delivery, and no delivery reaches another one without going round the loop
	isPrint := func(in ssa.Instruction) bool {
		for _, pr := range prints {
			if in == pr {
				return true
			}
		}
		return false
	}
	// the tests of "a newline was found": comparisons of the index with -1 / 0, or the found result of bytes.Cut
	type foundTest struct {
		iff   *ssa.If
		found int // successor index taken when a newline was found
	}
	var tests []foundTest
	if nl != nil {
		for _, ref := range *nl.Referrers() {
			cmp, ok := ref.(*ssa.BinOp)
			if !ok {
				continue
			}
			for _, r2 := range *cmp.Referrers() {
				iff, ok := r2.(*ssa.If)
				if !ok {
					continue
				}
				k, isConst := core.ConstInt(cmp.Y)
				if !isConst {
					continue
				}
				switch {
				case cmp.Op == token.EQL && k == -1, cmp.Op == token.LSS && k == 0:
					tests = append(tests, foundTest{iff, 1})
				case cmp.Op == token.NEQ && k == -1, cmp.Op == token.GEQ && k == 0, cmp.Op == token.GTR && k == -1:
					tests = append(tests, foundTest{iff, 0})
				}
			}
		}
	}
	if cut != nil {
		for _, ref := range *cut.Referrers() {
			e, ok := ref.(*ssa.Extract)
			if !ok || e.Index != 2 {
				continue
			}
			for _, r2 := range *e.Referrers() {
				switch x := r2.(type) {
				case *ssa.If:
					tests = append(tests, foundTest{x, 0})
				case *ssa.UnOp:
					if x.Op == token.NOT {
						for _, r3 := range *x.Referrers() {
							if iff, ok := r3.(*ssa.If); ok {
								tests = append(tests, foundTest{iff, 1})
							}
						}
					}
				}
			}
		}
	}
	if len(tests) == 0 {
		r.Unk("R18.5", "dawn.(*lineWriter).Write#found-test", p.Pos(w.Pos()), "the branch on whether a newline was found is not recognised")
	}
	for _, ft := range tests {
		{
			iff, found := ft.iff, ft.found
			hdr := cur.Block()
			skipped := false
			for _, q := range hdr.Preds {
				if !hdr.Dominates(q) {
					continue // loop entry
				}
				term := q.Instrs[len(q.Instrs)-1]
				if core.BlockReachesAvoiding(iff.Block().Succs[found], term, isPrint) {
					skipped = true
				}
			}
			r.Check(!skipped, "R18.5", "dawn.(*lineWriter).Write#one-line-per-newline", p.InstrPos(iff), "when a newline is found every path to the next iteration delivers a line", "a newline can be consumed without a line being delivered")
			// (d) no newline: everything is buffered
			nf := iff.Block().Succs[1-found]
			isWriteAll := func(in ssa.Instruction) bool {
				a, is := bufAppend(in)
				if is && a == ssa.Value(cur) {
					return true
				}
				// bytes.Cut returns the whole chunk as its first result when the separator is not found
				if e, isE := a.(*ssa.Extract); is && isE && cut != nil && e.Tuple == ssa.Value(cut) && e.Index == 0 {
					return true
				}
				return false
			}
			buffersAll := true
			reached := false
			var exits []ssa.Instruction
			for _, ret := range core.ReturnsOf(w) {
				exits = append(exits, ret)
			}
			for _, q := range hdr.Preds {
				if hdr.Dominates(q) {
					exits = append(exits, q.Instrs[len(q.Instrs)-1])
				}
			}
			for _, ex := range exits {
				if core.BlockReachesAvoiding(nf, ex, func(ssa.Instruction) bool { return false }) {
					reached = true
					if core.BlockReachesAvoiding(nf, ex, isWriteAll) {
						buffersAll = false
					}
				}
			}
			buffersAll = buffersAll && reached
			r.Check(buffersAll, "R18.5", "dawn.(*lineWriter).Write#buffers-remainder", p.InstrPos(iff), "without a newline the whole unconsumed part is appended to the buffer", "without a newline the unconsumed part of the chunk is not (entirely) appended to the buffer: the beginning of a line split across writes is lost")
		}
	}
	for i, a := range prints {
		for j, b := range prints {
			if i != j && core.ReachesAvoiding(a, b, func(in ssa.Instruction) bool { return in.Block() == cur.Block() }) {
				r.Bad("R18.5", fmt.Sprintf("dawn.(*lineWriter).Write#double-delivery-%d-%d", i+1, j+1), p.InstrPos(b), "two deliveries in one iteration: a line is delivered twice")
			}
		}
	}
}

// checkLineBufferReset implements R18.4: in the methods of lineWriter, whenever the buffered partial line is
// handed to Events.Print, the buffer is reset before the method returns. Otherwise the same bytes are delivered
// again, glued in front of the next write (the writer outlives one evaluation: a Project can run a target again).
func checkLineBufferReset(p *core.Prog, r *core.Result) {
	n := 0
	for _, fn := range p.ModuleFuncs() {
		if fn.Pkg == nil || fn.Pkg.Pkg.Path() != pkgRoot || fn.Signature.Recv() == nil || !strings.Contains(fn.Signature.Recv().Type().String(), "lineWriter") {
			continue
		}
		k := 0
		for _, c := range core.Calls(fn) {
			line, isPrint := printLike(c)
			if !isPrint {
				continue
			}
			buffered := core.DependsOn(line, core.SliceOpts{}, bufContent)
			if !buffered {
				continue
			}
			n++
			k++
			construct := fmt.Sprintf("%s#delivers-buffer-%d", fname(fn), k)
			leak := false
			for _, ret := range core.ReturnsOf(fn) {
				if core.ReachesAvoiding(c.(ssa.Instruction), ret, bufReset) {
					leak = true
				}
			}
			r.Check(!leak, "R18.4", construct, p.InstrPos(c.(ssa.Instruction)), "the buffered line is reset after it has been delivered, on every path to the return", "the buffered line is delivered but can stay in the buffer when the method returns: the next write to this writer (the same target evaluated again on the loaded project) delivers these bytes a second time, glued in front of its first line")
		}
	}
	r.Floor("R18.4", n, 1, "deliveries of the buffered line")
}

// ---- the line buffer of lineWriter, whatever its representation (strings.Builder / bytes.Buffer methods, or a
// []byte / string field grown by append or +)

func isLineField(addr ssa.Value) bool { return core.IsField(addr, pkgRoot, "lineWriter", "line") }

func loadsLineField(v ssa.Value) bool { return core.LoadOfField(v, pkgRoot, "lineWriter", "line") }

func lineMethod(in ssa.Instruction, names ...string) (*ssa.Call, bool) {
	c, ok := in.(*ssa.Call)
	if !ok || c.Call.IsInvoke() || len(c.Call.Args) == 0 || !isLineField(c.Call.Args[0]) {
		return nil, false
	}
	cal := core.Callee(c)
	if cal == nil {
		return nil, false
	}
	for _, n := range names {
		if cal.Name() == n {
			return c, true
		}
	}
	return nil, false
}

// bufAppend: the instruction appends `arg` to the buffer.
func bufAppend(in ssa.Instruction) (arg ssa.Value, ok bool) {
	if c, is := lineMethod(in, "Write", "WriteString"); is && len(c.Call.Args) > 1 {
		return c.Call.Args[1], true
	}
	if st, is := in.(*ssa.Store); is && isLineField(st.Addr) {
		if c, isCall := st.Val.(*ssa.Call); isCall {
			if b, isB := c.Call.Value.(*ssa.Builtin); isB && b.Name() == "append" && len(c.Call.Args) == 2 && loadsLineField(c.Call.Args[0]) {
				return c.Call.Args[1], true
			}
		}
		if bo, isBO := st.Val.(*ssa.BinOp); isBO && bo.Op == token.ADD && loadsLineField(bo.X) {
			return bo.Y, true
		}
	}
	return nil, false
}

// bufContent: v is the current contents of the buffer (as a string).
func bufContent(v ssa.Value) bool {
	if in, ok := v.(ssa.Instruction); ok {
		if _, is := lineMethod(in, "String"); is {
			return true
		}
	}
	if cv, ok := v.(*ssa.Convert); ok && loadsLineField(cv.X) {
		return true
	}
	if b, ok := v.Type().Underlying().(*types.Basic); ok && b.Info()&types.IsString != 0 && loadsLineField(v) {
		return true
	}
	return false
}

// bufReset: the instruction empties the buffer.
func bufReset(in ssa.Instruction) bool {
	if _, is := lineMethod(in, "Reset"); is {
		return true
	}
	if st, is := in.(*ssa.Store); is && isLineField(st.Addr) {
		if core.IsNilConst(st.Val) {
			return true
		}
		if s, ok := core.ConstString(st.Val); ok && s == "" {
			return true
		}
		if sl, ok := st.Val.(*ssa.Slice); ok && loadsLineField(sl.X) && sl.Low == nil && sl.High != nil {
			if k, ok := core.ConstInt(sl.High); ok && k == 0 {
				return true
			}
		}
	}
	return false
}

// bufLen: v is the length of the buffer.
func bufLen(v ssa.Value) bool {
	if in, ok := v.(ssa.Instruction); ok {
		if _, is := lineMethod(in, "Len"); is {
			return true
		}
	}
	if c, ok := v.(*ssa.Call); ok {
		if b, isB := c.Call.Value.(*ssa.Builtin); isB && b.Name() == "len" && len(c.Call.Args) == 1 && loadsLineField(c.Call.Args[0]) {
			return true
		}
	}
	return false
}

// bufRetains: the instruction stores into the buffer something that is not a copy (an append to the buffer, a
// conversion, a constant): returns the stored value.
func bufRetains(in ssa.Instruction) (ssa.Value, bool) {
	st, is := in.(*ssa.Store)
	if !is || !isLineField(st.Addr) || bufReset(in) {
		return nil, false
	}
	if _, ok := bufAppend(in); ok {
		return nil, false
	}
	if _, isConv := st.Val.(*ssa.Convert); isConv {
		return nil, false
	}
	return st.Val, true
}

// eventsMethods lists the method names of the dawn.Events interface.
func eventsMethods(p *core.Prog) map[string]bool {
	out := map[string]bool{}
	tp := p.TPkg("")
	if tp == nil {
		return out
	}
	if obj := tp.Types.Scope().Lookup("Events"); obj != nil {
		if it, ok := obj.Type().Underlying().(*types.Interface); ok {
			for i := 0; i < it.NumMethods(); i++ {
				out[it.Method(i).Name()] = true
			}
		}
	}
	return out
}

// checkClassifiedErrorsUnwrapped implements R18.13.
func checkClassifiedErrorsUnwrapped(p *core.Prog, r *core.Result, rule string) {
	ev := need(p, r, rule, "", "runTarget", "Evaluate")
	lt := need(p, r, rule, "", "Project", "LoadTarget")
	if ev == nil || lt == nil {
		return
	}
	// the error types Evaluate (and the same-package helpers it calls) tells apart by type
	tested := map[string]types.Type{}
	for f := range staticClosure(p, ev) {
		if f.Pkg != ev.Pkg {
			continue
		}
		core.Instrs(f, func(in ssa.Instruction) {
			ta, ok := in.(*ssa.TypeAssert)
			if !ok {
				return
			}
			n, ok := ta.AssertedType.(*types.Named)
			if !ok || n.Obj().Pkg() == nil || n.Obj().Pkg().Path() != pkgRoot || !types.Implements(n, errorIface()) {
				return
			}
			if !types.Identical(ta.X.Type(), types.Universe.Lookup("error").Type()) {
				return
			}
			tested[n.Obj().Name()] = n
		})
	}
	var names []string
	for n := range tested {
		names = append(names, n)
	}
	sort.Strings(names)
	r.Floor(rule, len(names), 1, "error types of package dawn that Evaluate tells apart by dynamic type")
	nProd := 0
	for _, name := range names {
		T := tested[name]
		var fns []*ssa.Function
		for f := range staticClosure(p, lt) {
			if f.Pkg == lt.Pkg {
				fns = append(fns, f)
			}
		}
		sort.Slice(fns, func(i, j int) bool { return fns[i].String() < fns[j].String() })
		for _, f := range fns {
			produces := false
			core.Instrs(f, func(in ssa.Instruction) {
				if mi, ok := in.(*ssa.MakeInterface); ok && types.Identical(mi.X.Type(), T) {
					produces = true
				}
			})
			if !produces {
				continue
			}
			k := 0
			for _, ret := range core.ReturnsOf(f) {
				vals := core.RetVals(ret)
				if len(vals) == 0 {
					continue
				}
				ev := vals[len(vals)-1]
				if core.IsNilConst(ev) || !types.Identical(ev.Type(), types.Universe.Lookup("error").Type()) {
					continue
				}
				nProd++
				k++
				mi, direct := ev.(*ssa.MakeInterface)
				okDirect := direct && types.Identical(mi.X.Type(), T)
				r.Check(okDirect, rule, fmt.Sprintf("%s#returns-%s-%d", fname(f), name, k), p.InstrPos(ret), "the error is returned as a "+name+" value", "on this path the function that produces "+name+" errors returns something else (a wrapper, e.g. fmt.Errorf with %w): Evaluate's type switch on the dependency's error no longer recognises a missing dependency, so its dependent emits no event at all and only run-done reports the failure")
			}
		}
	}
	r.Floor(rule, nProd, 1, "error returns of the producers of those types on LoadTarget's path")
}

// checkObserversDoNotPanic implements R18.12 (a contradiction rule: the error is believed impossible and discarded, then the
// value is used as if the call had succeeded).
func checkObserversDoNotPanic(p *core.Prog, r *core.Result, rule string) {
	names := eventsMethods(p)
	seen := map[*ssa.Function]bool{}
	var fns []*ssa.Function
	var visit func(f *ssa.Function, depth int)
	visit = func(f *ssa.Function, depth int) {
		if f == nil || seen[f] || f.Blocks == nil || !core.InModule(f) || depth > 3 {
			return
		}
		seen[f] = true
		fns = append(fns, f)
		for _, g := range core.WithAnons(f) {
			if g != f {
				visit(g, depth)
			}
			for _, c := range core.Calls(g) {
				if cal := core.Callee(c); cal != nil && cal.Pkg == f.Pkg {
					visit(cal, depth+1)
				}
			}
		}
	}
	for _, fn := range p.ModuleFuncs() {
		if fn.Signature.Recv() != nil && names[fn.Name()] && fn.Parent() == nil {
			// an implementation of the interface: its receiver type has all Events methods
			ms := p.SSA.MethodSets.MethodSet(fn.Signature.Recv().Type())
			all := true
			for n := range names {
				if ms.Lookup(fn.Pkg.Pkg, n) == nil && ms.Lookup(nil, n) == nil {
					all = false
				}
			}
			if all {
				visit(fn, 0)
			}
		}
	}
	sort.Slice(fns, func(i, j int) bool { return fns[i].String() < fns[j].String() })
	// the value comes from a fallible call whose error nobody looks at
	var discarded func(v ssa.Value, seenV map[ssa.Value]bool) *ssa.Call
	discarded = func(v ssa.Value, seenV map[ssa.Value]bool) *ssa.Call {
		if seenV[v] {
			return nil
		}
		seenV[v] = true
		switch x := v.(type) {
		case *ssa.Phi:
			for _, e := range x.Edges {
				if c := discarded(e, seenV); c != nil {
					return c
				}
			}
		case *ssa.MakeInterface:
			return discarded(x.X, seenV)
		case *ssa.ChangeInterface:
			return discarded(x.X, seenV)
		case *ssa.UnOp:
			if x.Op == token.MUL {
				if al, ok := x.X.(*ssa.Alloc); ok {
					for _, ref := range *al.Referrers() {
						if st, ok := ref.(*ssa.Store); ok && st.Addr == ssa.Value(al) {
							if c := discarded(st.Val, seenV); c != nil {
								return c
							}
						}
					}
				}
			}
		case *ssa.Extract:
			c, ok := x.Tuple.(*ssa.Call)
			if !ok {
				return nil
			}
			res := c.Call.Signature().Results()
			if res.Len() < 2 || !types.Implements(res.At(res.Len()-1).Type(), errorIface()) || x.Index == res.Len()-1 {
				return nil
			}
			errUsed := false
			for _, ref := range *c.Referrers() {
				if e, ok := ref.(*ssa.Extract); ok && e.Index == res.Len()-1 {
					for _, r2 := range *e.Referrers() {
						if _, dbg := r2.(*ssa.DebugRef); !dbg {
							errUsed = true
						}
					}
				}
			}
			if !errUsed {
				return c
			}
		}
		return nil
	}
	nAssert := 0
	for _, f := range fns {
		k := 0
		core.Instrs(f, func(in ssa.Instruction) {
			ta, ok := in.(*ssa.TypeAssert)
			if !ok || ta.CommaOk {
				return
			}
			nAssert++
			if c := discarded(ta.X, map[ssa.Value]bool{}); c != nil {
				k++
				what := c.Call.Value.Name()
				if cal := core.Callee(c); cal != nil {
					what = core.CalleeKey(cal)
				}
				r.Bad(rule, fmt.Sprintf("%s#asserts-result-of-unchecked-call-%d", fname(f), k), p.InstrPos(ta), "the result of %s (called at %s, error discarded) is asserted to %s without a check: when the call fails the value is nil and the observer panics on a runner goroutine - the event stream ends without this event, the terminal events and run-done", what, p.InstrPos(c), shortType(ta.AssertedType))
			}
		})
	}
	r.Analysed["observer_functions"] = len(fns)
	r.OK(rule, "module#observers-checked", "-", "%d unchecked type assertion(s) in %d function(s) of Events implementations examined; none takes the result of a fallible call whose error is discarded (violations are listed separately)", nAssert, len(fns))
	r.Floor(rule, len(fns), 10, "functions of Events implementations")
}

// checkRendererBufferPerVisit implements R18.11.
func checkRendererBufferPerVisit(p *core.Prog, r *core.Result, rule string) {
	names := eventsMethods(p)
	if !names["Print"] || !names["TargetEvaluating"] {
		r.Unk(rule, "anchor:dawn.Events", "-", "Print/TargetEvaluating not found in the Events interface")
		return
	}
	sorted := func(m map[*ssa.Function]bool) []*ssa.Function {
		var out []*ssa.Function
		for f := range m {
			out = append(out, f)
		}
		sort.Slice(out, func(i, j int) bool { return out[i].String() < out[j].String() })
		return out
	}
	recordType := func(v ssa.Value) *types.Named {
		pt, ok := v.Type().Underlying().(*types.Pointer)
		if !ok {
			return nil
		}
		n, ok := pt.Elem().(*types.Named)
		if !ok || n.Obj().Pkg() == nil || !strings.HasPrefix(n.Obj().Pkg().Path(), core.ModulePath) {
			return nil
		}
		if _, isStruct := n.Underlying().(*types.Struct); !isStruct {
			return nil
		}
		return n
	}
	n := 0
	for _, print := range p.ModuleFuncs() {
		if print.Name() != "Print" || print.Signature.Recv() == nil || print.Blocks == nil || len(print.Params) < 3 {
			continue
		}
		recvT := print.Signature.Recv().Type()
		recv := print.Params[0]
		// the per-label buffer: a slice field of a record (not of the renderer itself) that Print appends to
		var rec *types.Named
		field := ""
		for _, f := range sorted(family(p, print)) {
			core.Instrs(f, func(in ssa.Instruction) {
				st, ok := in.(*ssa.Store)
				if !ok {
					return
				}
				fa, ok := st.Addr.(*ssa.FieldAddr)
				if !ok || fa.X == ssa.Value(recv) {
					return
				}
				c, ok := st.Val.(*ssa.Call)
				if !ok {
					return
				}
				if b, isB := c.Call.Value.(*ssa.Builtin); !isB || b.Name() != "append" {
					return
				}
				if rt := recordType(fa.X); rt != nil && !types.Identical(types.NewPointer(rt), recvT) {
					_, fld := core.FieldOf(fa)
					rec, field = rt, fld
				}
			})
		}
		if rec == nil {
			continue
		}
		var start *ssa.Function
		for _, g := range p.ModuleFuncs() {
			if g.Name() == "TargetEvaluating" && g.Signature.Recv() != nil && types.Identical(g.Signature.Recv().Type(), recvT) && g.Blocks != nil {
				start = g
			}
		}
		if start == nil {
			continue
		}
		n++
		construct := fmt.Sprintf("%s#%s.%s-empty-at-start", shortType(recvT), rec.Obj().Name(), field)
		// the records the start handler touches
		bases := map[ssa.Value]ssa.Instruction{}
		samePkg := map[*ssa.Function]bool{}
		for f := range staticClosure(p, start) {
			if f.Pkg == start.Pkg || f.Parent() != nil && f.Parent().Pkg == start.Pkg {
				samePkg[f] = true
			}
		}
		fam := sorted(samePkg)
		for _, f := range fam {
			// the renderer's own methods: the record they register or write to (not records reached through other records,
			// such as the neighbours in a display list)
			if f.Signature.Recv() == nil || !types.Identical(f.Signature.Recv().Type(), recvT) {
				continue
			}
			core.Instrs(f, func(in ssa.Instruction) {
				switch x := in.(type) {
				case *ssa.Store:
					fa, ok := x.Addr.(*ssa.FieldAddr)
					if !ok {
						return
					}
					if rt := recordType(fa.X); rt != nil && types.Identical(rt, rec) {
						if _, seen := bases[fa.X]; !seen {
							bases[fa.X] = in
						}
					}
				case *ssa.MapUpdate:
					if rt := recordType(x.Value); rt != nil && types.Identical(rt, rec) {
						if _, seen := bases[x.Value]; !seen {
							bases[x.Value] = in
						}
					}
				}
			})
		}
		var fresh func(v ssa.Value, depth int, seen map[ssa.Value]bool) bool
		fresh = func(v ssa.Value, depth int, seen map[ssa.Value]bool) bool {
			if seen[v] {
				return true
			}
			seen[v] = true
			switch x := v.(type) {
			case *ssa.Alloc:
				return true
			case *ssa.Phi:
				for _, e := range x.Edges {
					if !fresh(e, depth, seen) {
						return false
					}
				}
				return len(x.Edges) > 0
			case *ssa.Call:
				h := core.Callee(x)
				if h == nil || !core.InModule(h) || h.Blocks == nil || depth >= 2 {
					return false
				}
				rets := core.ReturnsOf(h)
				for _, ret := range rets {
					vals := core.RetVals(ret)
					if len(vals) == 0 || !fresh(vals[0], depth+1, map[ssa.Value]bool{}) {
						return false
					}
				}
				return len(rets) > 0
			case *ssa.Parameter:
				// the record a helper of the handler is handed
				fn := x.Parent()
				i := paramIndex(fn, x)
				callers := p.StaticCallers(fn)
				if i < 0 || depth >= 2 || len(callers) == 0 {
					return false
				}
				for _, c := range callers {
					if i >= len(c.Common().Args) || !fresh(c.Common().Args[i], depth+1, map[ssa.Value]bool{}) {
						return false
					}
				}
				return true
			}
			return false
		}
		reset := func(base ssa.Value) bool {
			found := false
			for _, f := range fam {
				core.Instrs(f, func(in ssa.Instruction) {
					st, ok := in.(*ssa.Store)
					if !ok {
						return
					}
					fa, ok := st.Addr.(*ssa.FieldAddr)
					if !ok || fa.X != base {
						return
					}
					if _, fld := core.FieldOf(fa); fld != field {
						return
					}
					switch v := st.Val.(type) {
					case *ssa.Const:
						if v.IsNil() {
							found = true
						}
					case *ssa.Slice:
						if v.High != nil {
							if k, ok := core.ConstInt(v.High); ok && k == 0 {
								found = true
							}
						}
					}
				})
			}
			return found
		}
		var bad []string
		var badAt ssa.Instruction
		var keys []ssa.Value
		for b := range bases {
			keys = append(keys, b)
		}
		sort.Slice(keys, func(i, j int) bool { return p.InstrPos(bases[keys[i]]) < p.InstrPos(bases[keys[j]]) })
		for _, b := range keys {
			if fresh(b, 0, map[ssa.Value]bool{}) || reset(b) {
				continue
			}
			bad = append(bad, b.Name())
			if badAt == nil {
				badAt = bases[b]
			}
		}
		if len(bases) == 0 {
			r.Bad(rule, construct, p.Pos(start.Pos()), "the TargetEvaluating handler sets up no %s record although Print appends to %s.%s", rec.Obj().Name(), rec.Obj().Name(), field)
		} else if len(bad) > 0 {
			r.Bad(rule, construct, p.InstrPos(badAt), "the TargetEvaluating handler continues with a %s record that may be left over from an earlier visit of the same label, without emptying %s: a target that one renderer sees twice (watch mode, run() in the REPL) is shown with the lines of its earlier visits again when it fails", rec.Obj().Name(), field)
		} else {
			r.OK(rule, construct, p.Pos(start.Pos()), "every %s record the TargetEvaluating handler sets up is newly allocated (or has %s emptied): %d record value(s) checked", rec.Obj().Name(), field, len(bases))
		}
	}
	r.Floor(rule, n, 1, "Events implementations that buffer lines per label")
}

// checkEventKinds implements R18.7.
func checkEventKinds(p *core.Prog, r *core.Result) {
	names := eventsMethods(p)
	if len(names) == 0 {
		r.Unk("R18.7", "anchor:dawn.Events", "-", "interface not found")
		return
	}
	n := 0
	for _, fn := range p.ModuleFuncs() {
		if fn.Signature.Recv() == nil || !names[fn.Name()] || fn.Blocks == nil {
			continue
		}
		var own, other []string
		var at ssa.Instruction
		core.Instrs(fn, func(in ssa.Instruction) {
			for _, op := range in.Operands(nil) {
				c, ok := (*op).(*ssa.Const)
				if !ok {
					continue
				}
				sv, ok := core.ConstString(c)
				if !ok || !names[sv] {
					continue
				}
				if sv == fn.Name() {
					own = append(own, sv)
				} else {
					other = append(other, sv)
					at = in
				}
			}
		})
		if len(own) == 0 && len(other) == 0 {
			continue
		}
		n++
		construct := fname(fn) + "#kind"
		if len(other) > 0 {
			r.Bad("R18.7", construct, p.InstrPos(at), "%s reports its event under the kind %q: an observer of this stream sees a failed target as another event (e.g. evaluating followed by up-to-date, and never a failure)", fn.Name(), other[0])
		} else {
			r.OK("R18.7", construct, p.Pos(fn.Pos()), "reports kind %q", own[0])
		}
	}
	r.Floor("R18.7", n, 3, "Events methods that encode their kind as a string")
}

// checkOutputSink implements R18.8.
func checkOutputSink(p *core.Prog, r *core.Result) {
	// late replacements of Project.events
	var late []ssa.Instruction
	for _, fn := range p.ModuleFuncs() {
		if fn.Pkg == nil || fn.Pkg.Pkg.Path() != pkgRoot {
			continue
		}
		if fn.Name() == "apply" && fn.Signature.Recv() != nil && strings.Contains(fn.Signature.Recv().Type().String(), "LoadOptions") {
			continue
		}
		core.Instrs(fn, func(in ssa.Instruction) {
			if st, ok := in.(*ssa.Store); ok && core.IsField(st.Addr, pkgRoot, "Project", "events") {
				late = append(late, in)
			}
		})
	}
	r.Analysed["late_stores_to_Project_events"] = len(late)
	if len(late) == 0 {
		r.OK("R18.8", "dawn.Project.events#fixed-after-load", "-", "Project.events is assigned only while the load options are applied: writers may capture it")
		return
	}
	where := p.InstrPos(late[0])
	// (1) constructors of lineWriter called from the module bind the writer to the project
	nCtor := 0
	for _, fn := range p.ModuleFuncs() {
		if fn.Pkg == nil || fn.Pkg.Pkg.Path() != pkgRoot || fn.Blocks == nil {
			continue
		}
		// a constructor: returns *lineWriter
		if fn.Signature.Results().Len() != 1 || !strings.HasSuffix(fn.Signature.Results().At(0).Type().String(), "dawn.lineWriter") {
			continue
		}
		callers := p.StaticCallers(fn)
		if len(callers) == 0 {
			continue
		}
		nCtor++
		binds := false
		core.Instrs(fn, func(in ssa.Instruction) {
			if st, ok := in.(*ssa.Store); ok {
				if fa, ok := st.Addr.(*ssa.FieldAddr); ok {
					if owner, _ := core.FieldOf(fa); owner != nil && owner.Obj().Name() == "lineWriter" && strings.HasSuffix(st.Val.Type().String(), "dawn.Project") {
						if _, isPrm := st.Val.(*ssa.Parameter); isPrm {
							binds = true
						}
					}
				}
			}
		})
		if !binds {
			// a plain constructor is fine where its caller binds the fresh writer to the project right away
			allBound := true
			for _, c := range callers {
				call, isCall := c.(*ssa.Call)
				bound := false
				if isCall {
					core.Instrs(c.Parent(), func(in ssa.Instruction) {
						if st, ok := in.(*ssa.Store); ok {
							if fa, ok := st.Addr.(*ssa.FieldAddr); ok && fa.X == ssa.Value(call) && strings.HasSuffix(st.Val.Type().String(), "dawn.Project") {
								bound = true
							}
						}
					})
				}
				if !bound {
					allBound = false
				}
			}
			binds = allBound
		}
		r.Check(binds, "R18.8", fname(fn)+"#binds-project", p.InstrPos(callers[0].(ssa.Instruction)), "the writer is bound to the project (its sink is looked up at delivery time)", fmt.Sprintf("this constructor captures an Events value when the target is loaded, but Project.events is replaced later (%s): during run(callback=...) the target's evaluating/completion events go to the callback while its output lines go to the load-time observer, outside any evaluating..completion window there (the terminal renderer dereferences the missing per-target state and crashes)", where))
	}
	r.Floor("R18.8", nCtor, 1, "lineWriter constructors in use")
	// (2) the sink is read from the project when a line is delivered
	nSink := 0
	for _, fn := range p.ModuleFuncs() {
		if fn.Pkg == nil || fn.Pkg.Pkg.Path() != pkgRoot || fn.Signature.Recv() == nil || !strings.Contains(fn.Signature.Recv().Type().String(), "lineWriter") {
			continue
		}
		for _, c := range core.Calls(fn) {
			if !isInvoke(c, "Events", "Print") {
				continue
			}
			nSink++
			fresh := core.DependsOn(c.Common().Value, core.SliceOpts{ThroughCall: func(cc *ssa.Call) bool { return core.Callee(cc) != nil && core.InModule(core.Callee(cc)) }}, func(v ssa.Value) bool {
				return core.LoadOfField(v, pkgRoot, "Project", "events")
			})
			if !fresh {
				// through a sink helper: does the helper read Project.events?
				if call, ok := c.Common().Value.(*ssa.Call); ok && core.Callee(call) != nil && core.Callee(call).Blocks != nil {
					core.Instrs(core.Callee(call), func(in ssa.Instruction) {
						if v, ok := in.(ssa.Value); ok && core.LoadOfField(v, pkgRoot, "Project", "events") {
							fresh = true
						}
					})
				}
			}
			r.Check(fresh, "R18.8", fmt.Sprintf("%s#sink-%d", fname(fn), nSink), p.InstrPos(c.(ssa.Instruction)), "the line is delivered to the project's current Events", "the line is delivered to the Events captured at load although Project.events can be replaced afterwards ("+where+")")
		}
	}
	r.Floor("R18.8", nSink, 1, "deliveries of lineWriter")
}

// checkRendererForwarding implements R18.9.
func checkRendererForwarding(p *core.Prog, r *core.Result) {
	names := eventsMethods(p)
	n := 0
	for _, fn := range p.ModuleFuncs() {
		if fn.Signature.Recv() == nil || !names[fn.Name()] || fn.Blocks == nil || len(fn.Params) == 0 {
			continue
		}
		// the wrapped renderer: a field of the receiver whose type has all Events methods, invoked in this method
		recv := fn.Params[0]
		var fwd []*ssa.Call
		for _, c := range core.Calls(fn) {
			call, ok := c.(*ssa.Call)
			if !ok || !call.Call.IsInvoke() || !names[call.Call.Method.Name()] {
				continue
			}
			ld, ok := call.Call.Value.(*ssa.UnOp)
			if !ok {
				continue
			}
			fa, ok := ld.X.(*ssa.FieldAddr)
			if !ok || fa.X != ssa.Value(recv) {
				continue
			}
			fwd = append(fwd, call)
		}
		// is this a wrapper type at all? (some method of the type forwards)
		if len(fwd) == 0 {
			wraps := false
			rt := fn.Signature.Recv().Type()
			for _, g := range p.ModuleFuncs() {
				if g.Signature.Recv() == nil || !types.Identical(g.Signature.Recv().Type(), rt) || !names[g.Name()] || g.Blocks == nil || len(g.Params) == 0 {
					continue
				}
				for _, c := range core.Calls(g) {
					if call, ok := c.(*ssa.Call); ok && call.Call.IsInvoke() && names[call.Call.Method.Name()] {
						if ld, ok := call.Call.Value.(*ssa.UnOp); ok {
							if fa, ok := ld.X.(*ssa.FieldAddr); ok && fa.X == ssa.Value(g.Params[0]) {
								wraps = true
							}
						}
					}
				}
			}
			if !wraps {
				continue
			}
		}
		n++
		construct := fname(fn) + "#forwards"
		pos := p.Pos(fn.Pos())
		switch {
		case len(fwd) == 0:
			r.Bad("R18.9", construct, pos, "%s is not forwarded to the wrapped renderer: the terminal output loses this event (e.g. a target stays 'running' for ever)", fn.Name())
		case len(fwd) > 1:
			r.Bad("R18.9", construct, p.InstrPos(fwd[1]), "%s is forwarded %d times", fn.Name(), len(fwd))
		case fwd[0].Call.Method.Name() != fn.Name():
			r.Bad("R18.9", construct, p.InstrPos(fwd[0]), "%s is forwarded as %s", fn.Name(), fwd[0].Call.Method.Name())
		default:
			okArgs := len(fwd[0].Call.Args) == len(fn.Params)-1
			for i, a := range fwd[0].Call.Args {
				if i+1 < len(fn.Params) && a != ssa.Value(fn.Params[i+1]) && !isLoadOfParamSpill(a, fn.Params[i+1]) {
					okArgs = false
				}
			}
			skipped := false
			for _, ret := range core.ReturnsOf(fn) {
				if core.BlockReachesAvoiding(fn.Blocks[0], ret, func(in ssa.Instruction) bool { return in == ssa.Instruction(fwd[0]) }) {
					skipped = true
				}
			}
			r.Check(okArgs && !skipped, "R18.9", construct, p.InstrPos(fwd[0]), "forwarded once, on every path, with its own arguments", "the event is forwarded with different arguments or not on every path")
		}
	}
	r.Floor("R18.9", n, 10, "events of wrapping renderers")
}

// checkRunEventsDrain implements R18.10: events are handed to the callback by a goroutine that receives from a
// channel. Whatever the buffering, nothing sent before Close may be dropped: the loop may only end on "channel closed
// and empty" (the comma-ok receive reported false / a range loop finished), and Close must close that channel.
func checkRunEventsDrain(p *core.Prog, r *core.Result) {
	proc := p.Func("", "runEvents", "process")
	cls := p.Func("", "runEvents", "Close")
	if proc == nil || cls == nil {
		r.Unk("R18.10", "anchor:dawn.runEvents.process/Close", "-", "not found")
		return
	}
	isEventChan := func(v ssa.Value) bool { return core.LoadOfField(v, pkgRoot, "runEvents", "c") }
	// receives on the event channel in process
	var recvOK []ssa.Value
	nRecv := 0
	core.Instrs(proc, func(in ssa.Instruction) {
		u, ok := in.(*ssa.UnOp)
		if !ok || u.Op != token.ARROW || !isEventChan(u.X) {
			return
		}
		nRecv++
		if u.CommaOk {
			for _, ref := range *u.Referrers() {
				if e, ok := ref.(*ssa.Extract); ok && e.Index == 1 {
					recvOK = append(recvOK, e)
				}
			}
		}
	})
	// selects: a select that can take another channel gives another way out
	core.Instrs(proc, func(in ssa.Instruction) {
		if sel, ok := in.(*ssa.Select); ok {
			for _, st := range sel.States {
				if st.Dir == types.RecvOnly && isEventChan(st.Chan) {
					nRecv++
				}
			}
		}
	})
	r.Floor("R18.10", nRecv, 1, "receives from the event channel in process")
	n := 0
	for _, ret := range core.ReturnsOf(proc) {
		n++
		drained := p.FactsAt(ret).Find(func(c ssa.Value, v bool) bool {
			if v {
				return false
			}
			for _, okv := range recvOK {
				if c == okv {
					return true
				}
			}
			return false
		})
		r.Check(drained, "R18.10", fmt.Sprintf("dawn.(*runEvents).process#ends-when-drained-%d", n), p.InstrPos(ret), "the delivery loop ends only after a receive reported the event channel closed and empty", "the delivery loop can end while events are still queued in the channel (another way out than 'closed and drained'): events sent just before Close - RunDone, the completion of the last targets - are never handed to the callback")
	}
	closes := false
	core.Instrs(cls, func(in ssa.Instruction) {
		if c, ok := in.(*ssa.Call); ok {
			if b, isB := c.Call.Value.(*ssa.Builtin); isB && b.Name() == "close" && len(c.Call.Args) == 1 && isEventChan(c.Call.Args[0]) {
				closes = true
			}
		}
	})
	r.Check(closes, "R18.10", "dawn.(*runEvents).Close#closes-event-channel", p.Pos(cls.Pos()), "Close closes the event channel, which lets the delivery loop drain it and stop", "Close does not close the event channel: the delivery loop cannot know when everything has been delivered")
}

// isNewlineSep: v is the one-byte separator "\n" as a []byte: []byte{'\n'}, []byte("\n") or a slice of such an array.
func isNewlineSep(v ssa.Value) bool {
	v = core.Unwrap(v)
	// a package-level separator (var lineSeparator = []byte{'\n'}): every store to it, anywhere in its package, stores a
	// newline separator
	if ld, ok := v.(*ssa.UnOp); ok && ld.Op == token.MUL {
		if g, isGlobal := ld.X.(*ssa.Global); isGlobal && g.Pkg != nil {
			n, all := 0, true
			for _, m := range g.Pkg.Members {
				fn, isFn := m.(*ssa.Function)
				if !isFn {
					continue
				}
				for _, f := range core.WithAnons(fn) {
					core.Instrs(f, func(in ssa.Instruction) {
						if st, isSt := in.(*ssa.Store); isSt && st.Addr == ssa.Value(g) {
							n++
							if !isNewlineSep(st.Val) {
								all = false
							}
						}
					})
				}
			}
			return n > 0 && all
		}
	}
	if cv, ok := v.(*ssa.Convert); ok {
		s, ok := core.ConstString(cv.X)
		return ok && s == "\n"
	}
	sl, ok := v.(*ssa.Slice)
	if !ok {
		return false
	}
	elems, ok := tupleElemsAny(sl)
	if !ok || len(elems) != 1 {
		return false
	}
	k, ok := core.ConstInt(elems[0])
	return ok && k == 10
}

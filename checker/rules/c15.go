package rules

import (
	"fmt"
	"go/token"
	"go/types"
	"math"
	"sort"
	"strings"

	"dawnverif/checker/core"

	"golang.org/x/tools/go/ssa"
)

func init() { register("C15", true, runC15) }

// staticClosure returns the in-module functions reachable from roots through static calls
// (including closures, deferred and go calls).
func staticClosure(p *core.Prog, roots ...*ssa.Function) map[*ssa.Function]bool {
	seen := map[*ssa.Function]bool{}
	var visit func(fn *ssa.Function)
	visit = func(fn *ssa.Function) {
		if fn == nil || seen[fn] || fn.Blocks == nil || !core.InModule(fn) {
			return
		}
		seen[fn] = true
		for _, c := range core.Calls(fn) {
			visit(core.Callee(c))
		}
		for _, a := range fn.AnonFuncs {
			visit(a)
		}
	}
	for _, r := range roots {
		visit(r)
	}
	return seen
}

// funcsConvertedTo lists module functions that are converted to the named func type pkg.name anywhere
// in the module (e.g. pickle.UnpicklerFunc(envUnpickler)).
func funcsConvertedTo(p *core.Prog, pkg, name string) []*ssa.Function {
	set := map[*ssa.Function]bool{}
	for _, fn := range p.ModuleFuncs() {
		core.Instrs(fn, func(in ssa.Instruction) {
			var x ssa.Value
			var t types.Type
			switch c := in.(type) {
			case *ssa.ChangeType:
				x, t = c.X, c.Type()
			case *ssa.MakeInterface:
				x, t = c.X, c.X.Type()
				if ct, ok := c.X.(*ssa.ChangeType); ok {
					x = ct.X
				}
			default:
				return
			}
			n, ok := t.(*types.Named)
			if !ok || n.Obj().Name() != name || n.Obj().Pkg() == nil || n.Obj().Pkg().Path() != pkg {
				return
			}
			if f, ok := x.(*ssa.Function); ok {
				set[f] = true
			}
			if mc, ok := x.(*ssa.MakeClosure); ok {
				if f, ok := mc.Fn.(*ssa.Function); ok {
					set[f] = true
				}
			}
		})
	}
	var out []*ssa.Function
	for f := range set {
		out = append(out, f)
	}
	sort.Slice(out, func(i, j int) bool { return out[i].String() < out[j].String() })
	return out
}

func errorIface() *types.Interface {
	return types.Universe.Lookup("error").Type().Underlying().(*types.Interface)
}

// panicArgType returns the static type of the value passed to panic, looking through conversions to interface{}.
func panicArgType(pn *ssa.Panic) types.Type {
	v := pn.X
	for {
		switch x := v.(type) {
		case *ssa.MakeInterface:
			return x.X.Type()
		case *ssa.ChangeInterface:
			if _, isEmpty := x.X.Type().Underlying().(*types.Interface); isEmpty && x.X.Type().Underlying().(*types.Interface).NumMethods() == 0 {
				v = x.X
				continue
			}
			return x.X.Type()
		}
		return v.Type()
	}
}

func implementsError(t types.Type) bool {
	if t == nil {
		return false
	}
	if it, ok := t.Underlying().(*types.Interface); ok {
		// an interface type guarantees error iff its method set includes Error() string
		return types.Implements(t, errorIface()) || types.AssignableTo(t, types.Universe.Lookup("error").Type()) || it.NumMethods() > 0 && types.Implements(t, errorIface())
	}
	// the dynamic value is exactly of type t: pointer-receiver methods do not count for a non-pointer t
	return types.Implements(t, errorIface())
}

// recoverHandler analyses `defer func() { if f, ok := recover().(T); ok { err = error(f) } }()`.
type recoverHandler struct {
	Defer    *ssa.Defer
	Closure  *ssa.Function
	Asserted types.Type
	Assigns  bool // stores into a named result of the parent
}

func findRecoverHandler(fn *ssa.Function) *recoverHandler {
	for _, c := range core.Calls(fn) {
		d, ok := c.(*ssa.Defer)
		if !ok {
			continue
		}
		cl := core.Callee(d)
		if cl == nil || cl.Blocks == nil || !core.InModule(cl) {
			continue
		}
		h := &recoverHandler{Defer: d, Closure: cl}
		hasRecover := false
		// is `cell` a named error result of fn?
		namedResult := func(cell ssa.Value) bool {
			a, ok := cell.(*ssa.Alloc)
			if !ok || a.Parent() != fn {
				return false
			}
			res := fn.Signature.Results()
			for i := 0; i < res.Len(); i++ {
				if res.At(i).Name() != "" && res.At(i).Name() == a.Comment && implementsError(res.At(i).Type()) {
					return true
				}
			}
			return false
		}
		core.Instrs(cl, func(in ssa.Instruction) {
			if call, ok := in.(*ssa.Call); ok {
				if b, ok := call.Call.Value.(*ssa.Builtin); ok && b.Name() == "recover" {
					hasRecover = true
					for _, ref := range *call.Referrers() {
						if ta, ok := ref.(*ssa.TypeAssert); ok {
							h.Asserted = ta.AssertedType
						}
					}
				}
			}
			if st, ok := in.(*ssa.Store); ok {
				switch a := st.Addr.(type) {
				case *ssa.FreeVar:
					// closure over the named result
					if cl.Parent() == fn {
						if b := core.Binding(a); b != nil && namedResult(b) {
							h.Assigns = true
						}
					}
				case *ssa.Parameter:
					// shared handler taking the address of the named result: defer recoverFailure(&err)
					if j := paramIndex(cl, a); j >= 0 && j < len(d.Call.Args) && namedResult(d.Call.Args[j]) {
						h.Assigns = true
					}
				}
			}
		})
		if hasRecover {
			return h
		}
	}
	return nil
}

func runC15(p *core.Prog, r *core.Result) {
	r.Decided = []string{
		"R15.1 every explicit panic reachable from Decode inside the module (decoder, host unpickler, helpers) carries a value that implements error",
		"R15.2 Decode (and Encode) register, before doing any work, a deferred handler that recovers, accepts every error-valued panic including runtime errors, and assigns the named error result",
		"R15.4 progress: every loop of the decoder either consumes input (and a short read panics) or is driven by a bounded induction variable; decode is not recursive",
		"R15.5 every value the decoder can push or return is non-nil (constructors, conversions, previously pushed values, or the unpickler's result, whose in-module implementations never return nil without an error)",
		"R15.9 a record whose stamp decodes to a well-formed but smaller or different value is not silently up to date: diffEnv reports 'unchanged' only on whole-value equality of the recorded and the current environment (shared with C01 R1.13)",
		"R15.10 decoded values are only handed to traversals that are depth-bounded or cycle-safe (EqualDepth, DiffDepth, String): no function of the module calls this Starlark fork's json.encode - which recurses without a depth limit or cycle detection - on a value that can hold decoded data; a byte string can make the decoder build a list that contains itself, and the recursion ends in the runtime's unrecoverable stack-overflow abort",
		"R15.11 a record that does not decode fails the load, every time: the persisted stamp (targetInfo.Data) is decoded only in code that runs while the project loads (function.load), never lazily from the up-to-date check or the evaluation - there the first failure would be reported once and later checks of the same target on the same Project would go on with the nil value the failed decode left behind (a nil dereference on a runner goroutine)",
		"R15.12 a damaged record of a failed target is never an up-to-date one: the record written when the body fails is built from scratch (not from the loaded record) and sets nothing besides the documentation, the dependencies' stamps and the re-run flag, so a record whose flag is lost (the decoder ignores unknown member names: one damaged byte in \"rerun\" decodes without error) reads as never run",
		"R15.13 a damaged record never crashes a build: a string read from a record (targetInfo.Data / Stamp, the sums kept in sourceFile.oldSum and runTarget.data, and the parameters they are handed to) is not sliced or indexed unless its length was looked at first - a stamp cut short still decodes as JSON, and an out-of-range slice on a runner goroutine kills the process",
		"R15.14 a damaged record that still decodes never crashes the comparison: package diff, which is handed the decoded record and runs on a runner goroutine outside the decoder's recover, contains no unchecked type assertion on a value that comes in from outside - a parameter or one of the sequences the differ holds (every such assertion is comma-ok or guarded by one) - a record that decodes to a string where the current environment has a tuple otherwise panics the process",
		"R15.7 record consumers outside the recover scope (load/upToDate/diffEnv of functions and sources) contain no unguarded len(x)-k / constant index on decoded data, no unchecked type assertion, and no reachable explicit panic other than the frozen internal-invariant one",
	}
	r.NotDecided = []string{"memory exhaustion from declared lengths (excluded by the property)", "stack depth of starlark Hash/Equal on deeply nested decoded data", "panics inside go.starlark.net (trusted)", "32-bit platforms: int(uint32) lengths >= 2^31 (needs > 2 GiB of input; outside the property's bound)"}

	decode := need(p, r, "R15.0", "pickle", "Decoder", "decode")
	Decode := need(p, r, "R15.0", "pickle", "Decoder", "Decode")
	Encode := need(p, r, "R15.0", "pickle", "Encoder", "Encode")
	if decode == nil || Decode == nil || Encode == nil {
		return
	}
	unpicklers := funcsConvertedTo(p, pkgPickle, "UnpicklerFunc")
	r.Floor("R15.1", len(unpicklers), 1, "in-module host unpicklers (functions converted to pickle.UnpicklerFunc)")
	roots := append([]*ssa.Function{Decode}, unpicklers...)
	closure := staticClosure(p, roots...)
	r.Analysed["decode_closure_functions"] = len(closure)

	// ---- R15.1
	var fns []*ssa.Function
	for f := range closure {
		fns = append(fns, f)
	}
	sort.Slice(fns, func(i, j int) bool { return fns[i].String() < fns[j].String() })
	nPanics := 0
	perFn := map[string]int{}
	for _, fn := range fns {
		core.Instrs(fn, func(in ssa.Instruction) {
			pn, ok := in.(*ssa.Panic)
			if !ok {
				return
			}
			nPanics++
			perFn[fname(fn)]++
			t := panicArgType(pn)
			construct := fmt.Sprintf("%s#panic-%d", fname(fn), perFn[fname(fn)])
			recovers := false
			for _, c := range core.Calls(fn) {
				if b, ok := c.Common().Value.(*ssa.Builtin); ok && b.Name() == "recover" {
					recovers = true
				}
			}
			if recovers {
				// a panic raised by the recover handler itself is past the only recover scope: it always escapes
				r.Bad("R15.1", construct, p.InstrPos(pn), "the recover handler panics (again): whatever reaches this statement - e.g. the runtime errors that host unpicklers raise on wrongly shaped NEWOBJ arguments of a corrupted record - escapes Decode and crashes the build instead of becoming an error")
				return
			}
			r.Check(implementsError(t), "R15.1", construct, p.InstrPos(pn), "panics with a value of type "+shortType(t)+" (an error)", "panics with a value of type "+shortType(t)+" which is not an error: the recover handler's assertion fails, the panic is swallowed and Decode returns (nil, nil)")
		})
	}
	r.Floor("R15.1", nPanics, 10, "explicit panics reachable from Decode")
	// reader.Read must not return on a short read
	if rd := p.Func("pickle", "reader", "Read"); rd != nil {
		ok := true
		n := 0
		for _, c := range core.Calls(rd) {
			if core.IsCallTo(c, "io", "ReadFull") {
				n++
				call := c.(*ssa.Call)
				var errV ssa.Value
				for _, ref := range *call.Referrers() {
					if e, ok := ref.(*ssa.Extract); ok && e.Index == 1 {
						errV = e
					}
				}
				for _, ret := range core.ReturnsOf(rd) {
					nn, known := p.FactsAt(ret).ErrNonNil(errV)
					if errV != nil && known && !nn {
						continue
					}
					// or the error went through a helper that panics unless it is nil (check(err)) before the return
					viaCheck := false
					if errV != nil {
						for _, ref := range *errV.Referrers() {
							hc, isCall := ref.(*ssa.Call)
							if !isCall || !core.Dominates(hc, ret) || len(hc.Call.Args) != 1 {
								continue
							}
							h := core.Callee(hc)
							if h == nil || !core.InModule(h) || h.Blocks == nil || h.Signature.Results().Len() != 0 {
								continue
							}
							all := true
							for _, hr := range core.ReturnsOf(h) {
								if hnn, hknown := p.FactsAt(hr).ErrNonNil(h.Params[0]); !hknown || hnn {
									all = false
								}
							}
							if all {
								viaCheck = true
							}
						}
					}
					if !viaCheck {
						ok = false
					}
				}
			}
		}
		r.Check(ok && n == 1, "R15.1", "pickle.(reader).Read#short-read-panics", p.Pos(rd.Pos()), "Read returns only when io.ReadFull filled the buffer; otherwise it panics with the error", "Read can return after a short read: helpers then decode stale scratch bytes at end of input instead of failing")
	} else {
		r.Unk("R15.1", "anchor:pickle.reader.Read", "-", "not found")
	}

	// ---- R15.2
	rtErr := types.Type(nil)
	if rp := p.ByPath["runtime"]; rp != nil {
		if o := rp.Types.Scope().Lookup("Error"); o != nil {
			rtErr = o.Type()
		}
	}
	for _, api := range []*ssa.Function{Decode, Encode} {
		construct := fname(api) + "#recover-handler"
		h := findRecoverHandler(api)
		if h == nil {
			r.Bad("R15.2", construct, p.Pos(api.Pos()), "no deferred recover handler: a decoding failure (panic) escapes to the caller and crashes the build")
			continue
		}
		// registered before any other call
		first := true
		for _, c := range core.Calls(api) {
			if c == ssa.CallInstruction(h.Defer) {
				break
			}
			if _, isCall := c.(*ssa.Call); isCall {
				first = false
			}
		}
		inEntry := h.Defer.Block() == api.Blocks[0]
		okType := h.Asserted != nil && rtErr != nil && types.AssignableTo(rtErr, h.Asserted) && implementsError(h.Asserted)
		switch {
		case !inEntry || !first:
			r.Bad("R15.2", construct, p.InstrPos(h.Defer), "the recover handler is not registered unconditionally before the first call: panics raised earlier escape")
		case h.Asserted == nil:
			r.Bad("R15.2", construct, p.InstrPos(h.Defer), "recover()'s result is not type-asserted to an error type")
		case !okType:
			r.Bad("R15.2", construct, p.InstrPos(h.Defer), "the handler asserts recover() to %s, which runtime.Error values do not satisfy: index-out-of-range, nil-dereference and failed type assertions while decoding corrupt input are swallowed (Decode returns (nil, nil)) instead of becoming errors", shortType(h.Asserted))
		case !h.Assigns:
			r.Bad("R15.2", construct, p.InstrPos(h.Defer), "the handler does not assign the function's named error result")
		default:
			r.OK("R15.2", construct, p.InstrPos(h.Defer), "deferred in the entry block before any call; asserts recover() to %s (satisfied by every error incl. runtime.Error) and assigns the named result", shortType(h.Asserted))
		}
		// results must be named so that the handler's assignment is what is returned
		named := api.Signature.Results().Len() > 0 && api.Signature.Results().At(api.Signature.Results().Len()-1).Name() != ""
		r.Check(named, "R15.2", fname(api)+"#named-error-result", p.Pos(api.Pos()), "the error result is named (the handler's assignment is returned)", "the error result is not named: the handler cannot deliver the converted error")
	}

	// ---- R15.4 progress
	checkDecoderProgress(p, r, decode, closure)

	// ---- R15.5 non-nil values
	checkPushesNonNil(p, r, decode, unpicklers)

	// ---- R15.7 record consumers
	checkRecordConsumers(p, r)

	// ---- R15.11 persisted stamps are decoded at load time only
	checkPersistedDecodedAtLoad(p, r, "R15.11")
	checkFailureRecordCarriesNoStamp(p, r, "R15.12")
	checkPersistedStringsNotSliced(p, r, "R15.13")
	checkDiffAssertsChecked(p, r, "R15.14")

	// ---- R15.10 no unbounded traversal of decoded values
	checkUnboundedTraversals(p, r, "R15.10")

	// ---- R15.9 a smaller or different decoded stamp is never "unchanged"
	checkEnvVerdictWholeEquality(p, r, "R15.9")
}

func isReadCall(c ssa.CallInstruction) bool {
	f := core.Callee(c)
	if f == nil {
		return false
	}
	if f.Signature.Recv() == nil || recvNamed(f) != "Decoder" {
		return false
	}
	switch f.Name() {
	case "readByte", "readUint32", "readUint64":
		return true
	}
	return false
}

func checkDecoderProgress(p *core.Prog, r *core.Result, decode *ssa.Function, closure map[*ssa.Function]bool) {
	// not recursive
	rec := false
	for f := range closure {
		for _, c := range core.Calls(f) {
			if core.Callee(c) == decode && f != decode.Parent() {
				if f != p.Func("pickle", "Decoder", "Decode") {
					rec = true
				}
			}
		}
	}
	r.Check(!rec, "R15.4", "pickle.(*Decoder).decode#not-recursive", p.Pos(decode.Pos()), "decode is only entered from Decode (explicit value stack; nesting depth cannot exhaust the goroutine stack)", "decode is re-entered from inside the decoder: nesting depth of the input now consumes goroutine stack")
	nLoops := 0
	for f := range closure {
		if f.Pkg == nil || f.Pkg.Pkg.Path() != pkgPickle {
			continue
		}
		// natural loops: back edges t -> h with h dominating t
		for _, t := range f.Blocks {
			for _, h := range t.Succs {
				if !h.Dominates(t) {
					continue
				}
				nLoops++
				loop := map[*ssa.BasicBlock]bool{h: true}
				stack := []*ssa.BasicBlock{t}
				for len(stack) > 0 {
					b := stack[len(stack)-1]
					stack = stack[:len(stack)-1]
					if loop[b] {
						continue
					}
					loop[b] = true
					stack = append(stack, b.Preds...)
				}
				construct := fmt.Sprintf("%s#loop@block%d", fname(f), h.Index)
				pos := p.InstrPos(h.Instrs[len(h.Instrs)-1])
				reads := false
				// a read on EVERY iteration: some read call in a block that dominates the back-edge source
				for b := range loop {
					for _, in := range b.Instrs {
						if c, ok := in.(ssa.CallInstruction); ok && isReadCall(c) && b.Dominates(t) {
							reads = true
						}
					}
				}
				if reads {
					r.OK("R15.4", construct, pos, "every iteration consumes at least one input byte (a short read panics): bounded by the input length")
					continue
				}
				// range loops and induction-variable loops
				bounded := false
				why := ""
				for b := range loop {
					for _, in := range b.Instrs {
						switch x := in.(type) {
						case *ssa.Next:
							bounded, why = true, "range loop"
						case *ssa.Phi:
							if b != h {
								continue
							}
							for i, e := range x.Edges {
								if !loop[h.Preds[i]] {
									continue
								}
								if bo, ok := e.(*ssa.BinOp); ok && (bo.Op == token.ADD || bo.Op == token.SUB) && bo.X == ssa.Value(x) {
									if k, ok := core.ConstInt(bo.Y); ok && k != 0 {
										// phi controls an exit
										for lb := range loop {
											if iff, ok := lb.Instrs[len(lb.Instrs)-1].(*ssa.If); ok {
												exits := !loop[lb.Succs[0]] || !loop[lb.Succs[1]]
												if exits && core.DependsOn(iff.Cond, core.SliceOpts{}, func(v ssa.Value) bool { return v == ssa.Value(x) || v == ssa.Value(bo) }) {
													bounded, why = true, fmt.Sprintf("induction variable stepping by %+d tested by the loop exit", k)
												}
											}
										}
										// rotated rangeindex loops test phi+1
										if x.Comment == "rangeindex" {
											bounded, why = true, "range-over-slice index"
										}
									}
								}
							}
						}
					}
				}
				if !bounded {
					// a loop that consumes a slice: s = s[k:] with k >= 1 on the back edge and the exit tests len(s)
					for _, in := range h.Instrs {
						ph, ok := in.(*ssa.Phi)
						if !ok {
							continue
						}
						if _, isSlice := ph.Type().Underlying().(*types.Slice); !isSlice {
							continue
						}
						for i, e := range ph.Edges {
							if !loop[h.Preds[i]] {
								continue
							}
							if sl, ok := e.(*ssa.Slice); ok && sl.X == ssa.Value(ph) && sl.Low != nil {
								if k, ok := core.ConstInt(sl.Low); ok && k >= 1 {
									for lb := range loop {
										if iff, ok := lb.Instrs[len(lb.Instrs)-1].(*ssa.If); ok {
											exits := !loop[lb.Succs[0]] || !loop[lb.Succs[1]]
											if exits && core.DependsOn(iff.Cond, core.SliceOpts{}, func(v ssa.Value) bool { return v == ssa.Value(ph) }) {
												bounded, why = true, fmt.Sprintf("consumes %d element(s) of a slice per iteration, exit tests its length", k)
											}
										}
									}
								}
							}
						}
					}
				}
				if bounded {
					r.OK("R15.4", construct, pos, "bounded loop (%s)", why)
				} else {
					r.Bad("R15.4", construct, pos, "loop neither consumes input on every iteration nor is driven by an induction variable: crafted input can make the decoder spin")
				}
			}
		}
	}
	r.Floor("R15.4", nLoops, 3, "loops in the decoder")
}

func checkPushesNonNil(p *core.Prog, r *core.Result, decode *ssa.Function, unpicklers []*ssa.Function) {
	push := p.Func("pickle", "Decoder", "push")
	if push == nil {
		return
	}
	n := 0
	for _, c := range decoderPushSites(p, decode, push) {
		n++
		arg := c.Common().Args[1]
		construct := fmt.Sprintf("pickle.(*Decoder).decode#push-%d", n)
		ok, why := nonNilSource(p, arg, c.(ssa.Instruction), 0)
		if ok {
			r.OK("R15.5", construct, p.InstrPos(c.(ssa.Instruction)), "pushes %s", why)
		} else {
			r.Bad("R15.5", construct, p.InstrPos(c.(ssa.Instruction)), "pushes a value that may be nil: Decode can return (nil, nil) or later opcodes dereference nil")
		}
	}
	r.Floor("R15.5", n, 10, "push sites in decode")
	// the memo only ever holds non-nil values too (get() hands its entries out as "previously pushed values")
	nMemo := 0
	var okMemoVal func(v ssa.Value, at ssa.Instruction, depth int) bool
	okMemoVal = func(v ssa.Value, at ssa.Instruction, depth int) bool {
		if ok, _ := nonNilSource(p, v, at, 0); ok {
			return true
		}
		prm, isPrm := v.(*ssa.Parameter)
		if !isPrm || depth > 2 {
			return false
		}
		fn := prm.Parent()
		idx := paramIndex(fn, prm)
		callers := p.StaticCallers(fn)
		if len(callers) == 0 || idx < 0 {
			return false
		}
		for _, c := range callers {
			if idx >= len(c.Common().Args) || !okMemoVal(c.Common().Args[idx], c.(ssa.Instruction), depth+1) {
				return false
			}
		}
		return true
	}
	for _, fn := range p.ModuleFuncs() {
		if fn.Pkg == nil || fn.Pkg.Pkg.Path() != pkgPickle {
			continue
		}
		k := 0
		core.Instrs(fn, func(in ssa.Instruction) {
			st, ok := in.(*ssa.Store)
			if !ok {
				return
			}
			var vals []ssa.Value
			switch {
			case core.IsField(st.Addr, pkgPickle, "Decoder", "memo"):
				// d.memo = append(d.memo, xs...) / a truncation
				if c, isCall := st.Val.(*ssa.Call); isCall {
					if b, isB := c.Call.Value.(*ssa.Builtin); isB && b.Name() == "append" && len(c.Call.Args) == 2 {
						if sl, isSl := c.Call.Args[1].(*ssa.Slice); isSl {
							if elems, ok := tupleElems(sl); ok {
								vals = elems
							} else {
								vals = []ssa.Value{nil}
							}
						}
					}
				}
			default:
				ia, isIA := st.Addr.(*ssa.IndexAddr)
				if !isIA || !core.LoadOfField(ia.X, pkgPickle, "Decoder", "memo") {
					return
				}
				vals = []ssa.Value{st.Val}
			}
			for _, v := range vals {
				nMemo++
				k++
				construct := fmt.Sprintf("%s#memo-entry-%d", fname(fn), k)
				r.Check(v != nil && okMemoVal(v, st, 0), "R15.5", construct, p.InstrPos(st), "the memo receives a previously pushed (non-nil) value", "a memo entry can be nil (e.g. a gap filled below an explicit id): a later BINGET pushes nil without any panic, Decode returns a value containing nil (or (nil, nil)) and the nil is dereferenced later, outside every recover scope")
			}
		})
	}
	r.Floor("R15.5", nMemo, 1, "writes of memo entries")
	for _, u := range unpicklers {
		i := 0
		for _, ret := range core.ReturnsOf(u) {
			vals := core.RetVals(ret)
			if len(vals) != 2 || !core.IsNilConst(vals[1]) {
				continue
			}
			i++
			nonNil := !core.IsNilConst(vals[0])
			if mi, ok := vals[0].(*ssa.MakeInterface); ok && core.IsNilConst(mi.X) {
				nonNil = false
			}
			r.Check(nonNil, "R15.5", fmt.Sprintf("%s#success-return-%d", fname(u), i), p.InstrPos(ret), "returns a non-nil value with a nil error", "returns (nil, nil): a nil value enters the decoded structure and is dereferenced later (Hash/Equal/Freeze) outside any recover scope")
		}
		r.Floor("R15.5", i, 1, "success returns of "+fname(u))
	}
}

// sameInt: a and b denote the same integer: identical values or len() of the same slice value.
func sameInt(a, b ssa.Value) bool {
	a, b = stripConv(a), stripConv(b)
	if a == b {
		return true
	}
	ca, ok1 := a.(*ssa.Call)
	cb, ok2 := b.(*ssa.Call)
	if ok1 && ok2 {
		ba, ok3 := ca.Call.Value.(*ssa.Builtin)
		bb, ok4 := cb.Call.Value.(*ssa.Builtin)
		if ok3 && ok4 && ba.Name() == "len" && bb.Name() == "len" && ca.Call.Args[0] == cb.Call.Args[0] {
			return true
		}
	}
	return false
}

// lenInterval: interval of len(x) implied by facts at `at` (len >= 0 structurally).
func lenInterval(p *core.Prog, lenV ssa.Value, at ssa.Instruction) interval {
	iv := interval{0, math.Inf(1)}
	var neq []float64
	for f := range p.FactsAt(at) {
		b, ok := f.Cond.(*ssa.BinOp)
		if !ok {
			continue
		}
		var k int64
		op := b.Op
		if sameInt(b.X, lenV) {
			c, ok := core.ConstInt(b.Y)
			if !ok {
				continue
			}
			k = c
		} else if sameInt(b.Y, lenV) {
			c, ok := core.ConstInt(b.X)
			if !ok {
				continue
			}
			k = c
			switch op {
			case token.LSS:
				op = token.GTR
			case token.LEQ:
				op = token.GEQ
			case token.GTR:
				op = token.LSS
			case token.GEQ:
				op = token.LEQ
			}
		} else {
			continue
		}
		if !f.Val {
			switch op {
			case token.LSS:
				op = token.GEQ
			case token.LEQ:
				op = token.GTR
			case token.GTR:
				op = token.LEQ
			case token.GEQ:
				op = token.LSS
			case token.EQL:
				op = token.NEQ
			case token.NEQ:
				op = token.EQL
			}
		}
		kf := float64(k)
		switch op {
		case token.LSS:
			iv.hi = math.Min(iv.hi, kf-1)
		case token.LEQ:
			iv.hi = math.Min(iv.hi, kf)
		case token.GTR:
			iv.lo = math.Max(iv.lo, kf+1)
		case token.GEQ:
			iv.lo = math.Max(iv.lo, kf)
		case token.EQL:
			iv.lo, iv.hi = math.Max(iv.lo, kf), math.Min(iv.hi, kf)
		case token.NEQ:
			neq = append(neq, kf)
		}
	}
	for i := 0; i < len(neq)+1; i++ {
		for _, k := range neq {
			if iv.lo == k {
				iv.lo++
			}
			if iv.hi == k {
				iv.hi--
			}
		}
	}
	return iv
}

// checkRecordConsumers implements R15.7.
func checkRecordConsumers(p *core.Prog, r *core.Result) {
	var roots []*ssa.Function
	for _, a := range [][2]string{{"function", "load"}, {"function", "upToDate"}, {"function", "diffEnv"}, {"sourceFile", "load"}, {"sourceFile", "upToDate"}, {"Project", "loadTargetInfo"}} {
		if f := need(p, r, "R15.7", "", a[0], a[1]); f != nil {
			roots = append(roots, f)
		}
	}
	closure := staticClosure(p, roots...)
	frozen := map[string]string{
		"(*dawn.function).diffEnv": "internal invariant: both operands were just type-asserted to *starlark.Dict and found unequal, so DiffDepth returns a *MappingDiff",
	}
	// the frozen exception rests on a belief about diff.DiffDepth - verify it: whenever both operands are
	// IterableMappings (two dicts), every successful non-nil return of DiffDepth is the result of diffMapping
	if dd, dm := p.Func("diff", "", "DiffDepth"), p.Func("diff", "", "diffMapping"); dd != nil && dm != nil {
		var oks []ssa.Value
		core.Instrs(dd, func(in ssa.Instruction) {
			ta, ok := in.(*ssa.TypeAssert)
			if !ok || !ta.CommaOk || !strings.HasSuffix(ta.AssertedType.String(), "starlark.IterableMapping") {
				return
			}
			if _, isPrm := ta.X.(*ssa.Parameter); !isPrm {
				return
			}
			for _, ref := range *ta.Referrers() {
				if e, ok := ref.(*ssa.Extract); ok && e.Index == 1 {
					oks = append(oks, e)
				}
			}
		})
		need2 := 2
		if len(oks) < 2 {
			// the two assertions may live in a helper that reports their conjunction:
			// oldM, newM, ok := bothMappings(old, new)
			for _, c := range core.Calls(dd) {
				call, isCall := c.(*ssa.Call)
				h := core.Callee(c)
				if !isCall || h == nil || h.Pkg != dd.Pkg || h.Blocks == nil {
					continue
				}
				var hoks []ssa.Value
				core.Instrs(h, func(in ssa.Instruction) {
					ta, ok := in.(*ssa.TypeAssert)
					if !ok || !ta.CommaOk || !strings.HasSuffix(ta.AssertedType.String(), "starlark.IterableMapping") {
						return
					}
					if _, isPrm := ta.X.(*ssa.Parameter); !isPrm {
						return
					}
					for _, ref := range *ta.Referrers() {
						if e, ok := ref.(*ssa.Extract); ok && e.Index == 1 {
							hoks = append(hoks, e)
						}
					}
				})
				if len(hoks) < 2 {
					continue
				}
				// the boolean result: true only where both assertions succeeded
				res := h.Signature.Results()
				for bi := 0; bi < res.Len(); bi++ {
					if b, ok := res.At(bi).Type().Underlying().(*types.Basic); !ok || b.Kind() != types.Bool {
						continue
					}
					conj := true
					for _, ret := range core.ReturnsOf(h) {
						if tv, isConst := core.ConstBool(ret.Results[bi]); isConst && !tv {
							continue
						}
						for _, ho := range hoks {
							if !p.FactsAt(ret).Find(func(cv ssa.Value, v bool) bool { return cv == ho && v }) {
								conj = false
							}
						}
					}
					if conj {
						if e := extractOf(call, bi); e != nil {
							oks, need2 = []ssa.Value{e}, 1
						}
					}
				}
			}
		}
		bothTrue := func(fs core.FactSet) bool {
			n := 0
			for _, okv := range oks {
				if fs.Find(func(c ssa.Value, v bool) bool { return c == okv && v }) {
					n++
				}
			}
			return len(oks) >= need2 && n == len(oks)
		}
		holdsBelief := len(oks) >= need2
		var at ssa.Instruction
		for _, ret := range core.ReturnsOf(dd) {
			vals := core.RetVals(ret)
			if len(vals) != 2 || !core.IsNilConst(vals[1]) && func() bool { _, isE := vals[1].(*ssa.Extract); return !isE }() {
				continue
			}
			if core.IsNilConst(vals[0]) {
				continue
			}
			fromMapping := core.DependsOn(vals[0], core.SliceOpts{}, func(v ssa.Value) bool {
				c, ok := v.(*ssa.Call)
				return ok && core.Callee(c) == dm
			})
			if fromMapping {
				continue
			}
			// can this return be reached with both operands being mappings? look at every edge into its block
			// (walking up single-predecessor chains)
			b := ret.Block()
			for len(b.Preds) == 1 && !bothTrue(p.FactsAt(b.Instrs[0])) {
				q := b.Preds[0]
				si := 0
				for k, sc := range q.Succs {
					if sc == b {
						si = k
					}
				}
				if bothTrue(p.EdgeFacts(q, si)) {
					holdsBelief, at = false, ret
				}
				b = q
			}
			if bothTrue(p.FactsAt(ret)) {
				holdsBelief, at = false, ret
			}
			for _, q := range b.Preds {
				for k, sc := range q.Succs {
					if sc == b && bothTrue(p.EdgeFacts(q, k)) {
						holdsBelief, at = false, ret
					}
				}
			}
		}
		pos := p.Pos(dd.Pos())
		if at != nil {
			pos = p.InstrPos(at)
		}
		r.Check(holdsBelief, "R15.7", "diff.DiffDepth#mapping-operands-give-MappingDiff", pos, "for two mapping operands every non-nil result of DiffDepth is diffMapping's: the invariant that (*function).diffEnv panics on cannot be violated by a decoded record", "DiffDepth can return something other than diffMapping's result although both operands are mappings: (*function).diffEnv asserts *MappingDiff and panics otherwise - a corrupted record whose stamp decodes to a dict without any environment key then crashes the build on a runner goroutine instead of being reported")
	}
	var fns []*ssa.Function
	for f := range closure {
		if f.Pkg != nil && f.Pkg.Pkg.Path() == pkgRoot || f.Parent() != nil && f.Parent().Pkg != nil && f.Parent().Pkg.Pkg.Path() == pkgRoot {
			fns = append(fns, f)
		}
	}
	sort.Slice(fns, func(i, j int) bool { return fns[i].String() < fns[j].String() })
	r.Analysed["record_consumer_functions"] = len(fns)
	nSites := 0
	for _, fn := range fns {
		cnt := 0
		core.Instrs(fn, func(in ssa.Instruction) {
			switch x := in.(type) {
			case *ssa.Panic:
				nSites++
				if why, ok := frozen[fname(fn)]; ok {
					r.OK("R15.7", fname(fn)+"#explicit-panic", p.InstrPos(x), "frozen exception: %s", why)
				} else {
					r.Bad("R15.7", fname(fn)+"#explicit-panic", p.InstrPos(x), "explicit panic on the record-loading path outside any recover scope: a corrupted record crashes the build")
				}
			case *ssa.TypeAssert:
				if !x.CommaOk {
					nSites++
					cnt++
					r.Bad("R15.7", fmt.Sprintf("%s#unchecked-assert-%d", fname(fn), cnt), p.InstrPos(x), "unchecked type assertion to %s on the record-loading path outside any recover scope", shortType(x.AssertedType))
				}
			case *ssa.Slice:
				// x[:len(x)-k] / x[len(x)-k:]
				if _, isSlice := x.X.Type().Underlying().(*types.Slice); !isSlice {
					return
				}
				for _, bound := range []ssa.Value{x.Low, x.High} {
					if bound == nil {
						continue
					}
					checkLenMinusK(p, r, fn, x, x.X, bound, &nSites)
				}
			case *ssa.IndexAddr:
				if _, isSlice := x.X.Type().Underlying().(*types.Slice); !isSlice {
					return
				}
				if k, ok := core.ConstInt(x.Index); ok {
					// constant index into a slice: needs len > k
					lenV := findLenOf(fn, x.X)
					iv := interval{0, math.Inf(1)}
					if lenV != nil {
						iv = lenInterval(p, lenV, x)
					}
					// an item of (*starlark.Dict).Items(): a (key, value) pair - verified against the library's source
					if k < 2 && isDictItem(x.X) {
						nSites++
						r.Check(dictItemsArePairs(p), "R15.7", fmt.Sprintf("%s#const-index[%d]", fname(fn), k), p.InstrPos(x), "index into an item of (*starlark.Dict).Items(), which builds every item as a two-element tuple", "index into an item of (*starlark.Dict).Items(), but the library's items() could not be confirmed to build two-element tuples only")
						return
					}
					// slices freshly made with a constant length in this function are fine
					if mk, ok := x.X.(*ssa.Slice); ok {
						if a, ok := mk.X.(*ssa.Alloc); ok {
							if at, ok := a.Type().Underlying().(*types.Pointer).Elem().Underlying().(*types.Array); ok && at.Len() > k {
								return
							}
						}
					}
					nSites++
					r.Check(iv.lo > float64(k), "R15.7", fmt.Sprintf("%s#const-index[%d]", fname(fn), k), p.InstrPos(x), fmt.Sprintf("index %d is reached only when the length is in %v", k, iv), fmt.Sprintf("index %d is reachable with a length in %v: index out of range on a crafted record, outside any recover scope", k, iv))
				} else {
					checkLenMinusK(p, r, fn, x, x.X, x.Index, &nSites)
				}
			}
		})
	}
	r.Floor("R15.7", nSites, 2, "crash-source sites on the record-loading path")
}

// checkPersistedDecodedAtLoad implements R15.11.
func checkPersistedDecodedAtLoad(p *core.Prog, r *core.Result, rule string) {
	// what runs when targets are checked and evaluated
	var roots []*ssa.Function
	for _, meth := range []string{"upToDate", "evaluate", "info", "dependencies"} {
		roots = append(roots, targetImpls(p, meth)...)
	}
	if ev := p.Func("", "runTarget", "Evaluate"); ev != nil {
		roots = append(roots, ev)
	}
	runtimeFns := staticClosure(p, roots...)
	n := 0
	for _, fn := range p.ModuleFuncs() {
		top := fn
		for top.Parent() != nil {
			top = top.Parent()
		}
		if top.Pkg == nil || top.Pkg.Pkg.Path() != pkgRoot {
			continue
		}
		k := 0
		for _, c := range core.Calls(fn) {
			if !core.IsMethod(c, pkgPickle, "Decoder", "Decode") {
				continue
			}
			var isPersisted func(v ssa.Value, depth int) bool
			isPersisted = func(v ssa.Value, depth int) bool {
				return core.DependsOn(v, core.SliceOpts{Stores: true, ThroughCall: func(*ssa.Call) bool { return true }}, func(x ssa.Value) bool {
					if core.LoadOfField(x, pkgRoot, "targetInfo", "Data") || core.LoadOfField(x, pkgRoot, "targetInfo", "Stamp") {
						return true
					}
					// a decoding helper that is handed the stamp (decodeEnvData(info.Data))
					if prm, ok := x.(*ssa.Parameter); ok && depth < 2 {
						i := paramIndex(prm.Parent(), prm)
						for _, site := range p.StaticCallers(prm.Parent()) {
							if i >= 0 && i < len(site.Common().Args) && isPersisted(site.Common().Args[i], depth+1) {
								return true
							}
						}
					}
					return false
				})
			}
			persisted := isPersisted(c.Common().Args[0], 0)
			if !persisted {
				continue
			}
			n++
			k++
			lazy := runtimeFns[fn] || runtimeFns[top]
			r.Check(!lazy, rule, fmt.Sprintf("%s#decodes-persisted-stamp-%d", fname(fn), k), p.InstrPos(c.(ssa.Instruction)), "the persisted stamp is decoded while the project loads: a failure fails the load", "the persisted stamp is decoded from the up-to-date check / evaluation of a target: a record that does not decode is reported by the first check only, and what the failed decode left behind is used by the next one")
		}
	}
	r.Floor(rule, n, 1, "decodes of a persisted stamp")
}

// checkUnboundedTraversals implements R15.10.
func checkUnboundedTraversals(p *core.Prog, r *core.Result, rule string) {
	const pkgJSON = "go.starlark.net/lib/json"
	fromJSONModule := func(v ssa.Value) bool {
		return core.DependsOn(v, core.SliceOpts{Stores: true, ThroughCall: func(*ssa.Call) bool { return true }}, func(x ssa.Value) bool {
			g, ok := x.(*ssa.Global)
			return ok && g.Pkg != nil && g.Pkg.Pkg.Path() == pkgJSON
		})
	}
	// module globals initialised from lib/json.Module (var encode = json.Module.Members["encode"])
	jsonGlobals := map[*ssa.Global]bool{}
	for _, fn := range p.ModuleFuncs() {
		if fn.Name() != "init" && !strings.HasPrefix(fn.Name(), "init#") {
			continue
		}
		core.Instrs(fn, func(in ssa.Instruction) {
			st, ok := in.(*ssa.Store)
			if !ok {
				return
			}
			if g, ok := st.Addr.(*ssa.Global); ok && fromJSONModule(st.Val) {
				jsonGlobals[g] = true
			}
		})
	}
	isJSONFn := func(v ssa.Value) bool {
		if ld, ok := v.(*ssa.UnOp); ok && ld.Op == token.MUL {
			if g, ok := ld.X.(*ssa.Global); ok && jsonGlobals[g] {
				return true
			}
		}
		return fromJSONModule(v)
	}
	n := 0
	evNames := eventsMethods(p)
	perOwner := map[*ssa.Function]int{}
	for _, fn := range p.ModuleFuncs() {
		for _, c := range core.Calls(fn) {
			if !core.IsCallTo(c, pkgStar, "Call") || len(c.Common().Args) < 3 || !isJSONFn(c.Common().Args[1]) {
				continue
			}
			n++
			// what is encoded: the elements of the argument tuple
			holdsValues := false
			core.DependsOn(c.Common().Args[2], core.SliceOpts{Stores: true}, func(x ssa.Value) bool {
				if _, isIface := x.Type().Underlying().(*types.Interface); isIface {
					if _, isConst := x.(*ssa.Const); !isConst {
						holdsValues = true
					}
				}
				return false
			})
			// name the site after the observer method it serves (stable when the call moves into a helper)
			owner := fn
			if !(fn.Signature.Recv() != nil && evNames[fn.Name()]) {
				var cands []*ssa.Function
				for _, m := range p.ModuleFuncs() {
					if m.Pkg == fn.Pkg && m.Signature.Recv() != nil && evNames[m.Name()] && m.Parent() == nil && staticClosure(p, m)[fn] {
						cands = append(cands, m)
					}
				}
				sort.Slice(cands, func(i, j int) bool { return cands[i].String() < cands[j].String() })
				if len(cands) > 0 {
					owner = cands[0]
				}
			}
			perOwner[owner]++
			construct := fmt.Sprintf("%s#json-encode-of-decoded-value-%d", fname(owner), perOwner[owner])
			if holdsValues {
				r.Bad(rule, construct, p.InstrPos(c.(ssa.Instruction)), "a value that can hold decoded data (the environment diff, whose old side is the decoded record) is handed to json.encode, which recurses without a depth limit or cycle detection: a record whose stamp decodes to a list that contains itself (] MEMOIZE BINGET 0 APPEND) makes the process die with the runtime's 'fatal error: stack overflow' instead of reporting an error")
			} else {
				r.OK(rule, construct, p.InstrPos(c.(ssa.Instruction)), "json.encode is applied to constants only")
			}
		}
	}
	r.Analysed["json_encode_sites"] = n
	r.OK(rule, "module#json-encode-sites", "-", "%d call site(s) of json.encode in the module examined (%d module variable(s) hold the json module's functions)", n, len(jsonGlobals))
}

// isDictItem: v is an element of the slice returned by (*starlark.Dict).Items().
func isDictItem(v ssa.Value) bool {
	ld, ok := v.(*ssa.UnOp)
	if !ok || ld.Op != token.MUL {
		return false
	}
	ia, ok := ld.X.(*ssa.IndexAddr)
	if !ok {
		return false
	}
	c, ok := ia.X.(*ssa.Call)
	return ok && core.IsMethod(c, pkgStar, "Dict", "Items")
}

// dictItemsArePairs confirms on the library source what isDictItem relies on: (*Dict).Items returns what the hash
// table's items() builds, and every tuple built there is backed by a [2]Value array.
func dictItemsArePairs(p *core.Prog) bool {
	sp := p.TPkgPath(pkgStar)
	if sp == nil || sp.Scope().Lookup("Dict") == nil {
		return false
	}
	items := methodOf(p, types.NewPointer(sp.Scope().Lookup("Dict").Type()), "Items")
	if items == nil || items.Blocks == nil {
		return false
	}
	var inner *ssa.Function
	for _, ret := range core.ReturnsOf(items) {
		c, ok := ret.Results[0].(*ssa.Call)
		if !ok || core.Callee(c) == nil {
			return false
		}
		inner = core.Callee(c)
	}
	if inner == nil || inner.Blocks == nil {
		return false
	}
	// every tuple appended to the result has length exactly two: a [2]Value array, or x[:2] / x[0:2]
	pairs, other := 0, 0
	isPair := func(v ssa.Value) bool {
		for {
			switch x := v.(type) {
			case *ssa.ChangeType:
				v = x.X
				continue
			case *ssa.Slice:
				lo := int64(0)
				if x.Low != nil {
					k, ok := core.ConstInt(x.Low)
					if !ok {
						return false
					}
					lo = k
				}
				if x.High == nil {
					if a, ok := x.X.(*ssa.Alloc); ok {
						if at, ok := a.Type().Underlying().(*types.Pointer).Elem().Underlying().(*types.Array); ok {
							return at.Len()-lo == 2
						}
					}
					return false
				}
				hi, ok := core.ConstInt(x.High)
				return ok && hi-lo == 2
			}
			return false
		}
	}
	core.Instrs(inner, func(in ssa.Instruction) {
		c, ok := in.(*ssa.Call)
		if !ok {
			return
		}
		if b, isB := c.Call.Value.(*ssa.Builtin); !isB || b.Name() != "append" || len(c.Call.Args) != 2 {
			return
		}
		sl, ok := c.Call.Args[1].(*ssa.Slice)
		if !ok {
			other++
			return
		}
		arr, ok := sl.X.(*ssa.Alloc)
		if !ok {
			other++
			return
		}
		for _, ref := range *arr.Referrers() {
			ia, ok := ref.(*ssa.IndexAddr)
			if !ok {
				continue
			}
			for _, ref2 := range *ia.Referrers() {
				if st, ok := ref2.(*ssa.Store); ok && st.Addr == ssa.Value(ia) {
					if isPair(st.Val) {
						pairs++
					} else {
						other++
					}
				}
			}
		}
	})
	return pairs >= 1 && other == 0
}

func findLenOf(fn *ssa.Function, slice ssa.Value) ssa.Value {
	var out ssa.Value
	core.Instrs(fn, func(in ssa.Instruction) {
		if c, ok := in.(*ssa.Call); ok {
			if b, ok := c.Call.Value.(*ssa.Builtin); ok && b.Name() == "len" && c.Call.Args[0] == slice {
				out = c
			}
		}
	})
	return out
}

func checkLenMinusK(p *core.Prog, r *core.Result, fn *ssa.Function, at ssa.Instruction, slice, bound ssa.Value, nSites *int) {
	bo, ok := stripConv(bound).(*ssa.BinOp)
	if !ok || bo.Op != token.SUB {
		return
	}
	k, ok := core.ConstInt(bo.Y)
	if !ok || k <= 0 {
		return
	}
	lc, ok := stripConv(bo.X).(*ssa.Call)
	if !ok {
		return
	}
	if b, ok := lc.Call.Value.(*ssa.Builtin); !ok || b.Name() != "len" || lc.Call.Args[0] != slice {
		return
	}
	*nSites++
	iv := lenInterval(p, lc, at)
	r.Check(iv.lo >= float64(k), "R15.7", fmt.Sprintf("%s#len-minus-%d", fname(fn), k), p.InstrPos(at), fmt.Sprintf("len(x)-%d is used only when len(x) is in %v", k, iv), fmt.Sprintf("len(x)-%d is used as a bound although len(x) may be in %v: a record whose environment differs only in keys unknown to the reason table crashes the build (slice bounds out of range) outside any recover scope", k, iv))
}

// nonNilSource: v is a value the decoder may push: a concrete non-nil value, a previously pushed value, the
// unpickler's value on its nil-error edge, or the result of an in-package helper all of whose returns are such values.
func nonNilSource(p *core.Prog, v ssa.Value, at ssa.Instruction, depth int) (bool, string) {
	switch x := v.(type) {
	case *ssa.MakeInterface:
		if !core.IsNilConst(x.X) {
			return true, "a concrete " + shortType(x.X.Type())
		}
	case *ssa.Call:
		f := core.Callee(x)
		if f != nil && (f.Name() == "get" || f.Name() == "pop" || f.Name() == "peek") {
			return true, "a previously pushed value (" + f.Name() + ")"
		}
		if f != nil && core.InModule(f) && f.Blocks != nil && depth < 2 && f.Signature.Results().Len() == 1 {
			all := true
			n := 0
			for _, ret := range core.ReturnsOf(f) {
				n++
				if ok, _ := nonNilSource(p, core.RetVals(ret)[0], ret, depth+1); !ok {
					all = false
				}
			}
			if all && n > 0 {
				return true, "the result of " + fname(f) + ", which returns only non-nil values"
			}
		}
	case *ssa.Extract:
		if call, isCall := x.Tuple.(*ssa.Call); isCall && call.Call.IsInvoke() && call.Call.Method.Name() == "Unpickle" && x.Index == 0 {
			var errV ssa.Value
			for _, ref := range *call.Referrers() {
				if e, ok := ref.(*ssa.Extract); ok && e.Index == 1 {
					errV = e
				}
			}
			if nn, known := p.FactsAt(at).ErrNonNil(errV); errV != nil && known && !nn {
				return true, "the unpickler's value on its nil-error edge"
			}
		}
	}
	return false, ""
}

package rules

import (
	"fmt"
	"go/token"
	"go/types"
	"math"
	"sort"
	"strings"

	"dawnverif/checker/core"

	"golang.org/x/tools/go/ssa"
)

func init() { register("C07", false, runC07) }

// assertedTypes returns the types T for which `x.(T)` is known to have succeeded at instruction at.
func assertedTypes(p *core.Prog, at ssa.Instruction) []types.Type {
	var out []types.Type
	for f := range p.FactsAt(at) {
		if !f.Val {
			continue
		}
		if e, ok := f.Cond.(*ssa.Extract); ok && e.Index == 1 {
			if ta, ok := e.Tuple.(*ssa.TypeAssert); ok && ta.CommaOk {
				out = append(out, ta.AssertedType)
			}
		}
	}
	sort.Slice(out, func(i, j int) bool { return out[i].String() < out[j].String() })
	return out
}

func typesKey(ts []types.Type) string {
	var s []string
	for _, t := range ts {
		s = append(s, t.String())
	}
	return strings.Join(s, "&")
}

func shortType(t types.Type) string {
	s := t.String()
	s = strings.ReplaceAll(s, "go.starlark.net/starlark.", "starlark.")
	s = strings.ReplaceAll(s, core.ModulePath+"/", "")
	return s
}

func runC07(p *core.Prog, r *core.Result) {
	r.Decided = []string{
		"R7.1 every opcode the encoder can emit has a decoder case (and opcode constants in use are distinct)",
		"R7.2 fixed-width payloads: encoder byte k carries value>>8k and the decoder places the k-th byte read at bit 8k, same width on both sides",
		"R7.3 the range of values under which an opcode is emitted fits the width and signedness the decoder reconstructs",
		"R7.4 memo ids: MEMOIZE is emitted exactly when an id is assigned (= memo size before insertion); the decoder appends exactly one entry per MEMOIZE and ids are consumed only by BINGET/LONG_BINGET",
		"R7.5 mutable containers are memoized before their contents are encoded (self-reference terminates; batched re-push is a memo hit)",
		"R7.6 TUPLE2/TUPLE3 restore operand order; TUPLEn is emitted after exactly n elements",
		"R7.7 every MARK is closed by exactly one collector on every path; the collector's decoder case expects the container type that the paired EMPTY_* case pushes",
		"R7.8 scalar opcodes decode to the same Starlark type that selected them in the encoder",
		"R7.9 operand-stack discipline (bytecode-verifier style): with the stack effects read off the decoder's cases, every encoder path leaves exactly one value per encoded value and stack heights agree at every join",
		"R7.10 no slice of the decoder's operand stack or memo escapes into a decoded value",
		"R7.14 integers are rebuilt from their payload without value-changing conversions: no sign change at equal width and no narrowing on the way into starlark.MakeInt*/MakeUint* other than the two's-complement reinterpretation of a fixed-width payload just read; values outside the fixed widths go through math/big",
		"R7.13 every value the decoder pushes is built from the current opcode's payload, the operand stack, the memo or the host unpickler - no other decoder-wide state (interning tables, caches) can supply it",
		"R7.15 values handled by a host pickler: the encoder asks the pickler about every value that reaches the non-builtin branch - the call of Pickler.Pickle is conditional on nothing but the pickler being present, in particular on no state of the encoder (a cache of refusals by Go type makes whether a value round-trips depend on what was encoded before it)",
		"R7.16 contents: every element the decoder adds to a dict or a set arrives or the decode fails - the error results of (*starlark.Dict).SetKey and (*starlark.Set).Insert on decoded keys are not dropped. A key that was hashable when it was encoded need not be once decoded: a host unpickler may rebuild it as an unhashable value (dawn's turns a function into a dict), and the entry then vanishes without an error, so two containers that differ only under such keys decode to equal values",
		"R7.17 sharing is what the value has, not what its pickler adds: every argument a host pickler (a function converted to pickle.PicklerFunc) builds for a subject is computed from that subject alone - an argument object taken from state shared between subjects (a per-encoding table of first-seen code objects) is memoized once and back-referenced by every later subject, and the unpickler that completes its arguments in place then gives all of them the contents of the last one (C08's R8.6, C01's R1.15)",
		"R7.18 every size class, at every nesting position: no method of the Decoder fails because its stack or memo has reached a fixed size (valid encodings keep arbitrarily many values on the stack: tuples are not batched, and every container still being filled keeps its partial batch below the nested one); the only length tests that fail are underflow tests",
		"R7.12 the encoder's memo is consulted and filled only under the value being encoded itself (never under a key constructed from its contents), so values of different types never share a memo entry",
		"R7.11 decoder cases that fill a container in place (push nothing) only shorten the operand stack: no stack slot is overwritten, so the object stays the one its memo entry refers to (sharing and self-reference survive)",
	}
	r.NotDecided = []string{"sharing of tuples reached twice (encoder memoizes tuples after their contents; source says TODO)", "float/NaN bit patterns and big-integer text round trip (delegated to math and math/big)", "Starlark container semantics (hashing, ordering of dict/set elements)", "lengths and memo ids >= 2^32 (assumed impossible)"}
	r.Assumptions = append(r.Assumptions, "string/bytes lengths and memo sizes are < 2^32 (4-byte payloads have no upper guard in the encoder)")

	ops := loadOpTable(p)
	if len(ops.byVal) == 0 {
		r.Unk("R7.1", "anchor:pickle.op*", "-", "no opcode constants found")
		return
	}
	ems := extractEmissions(p, r, ops, "R7.1")
	dt := extractDecoder(p, r, "R7.1")
	if dt == nil {
		return
	}
	sizes := p.TPkg("pickle").TypesSizes
	encode := need(p, r, "R7.5", "pickle", "Encoder", "encode")
	memoizeE := need(p, r, "R7.4", "pickle", "Encoder", "memoize")
	if encode == nil || memoizeE == nil {
		return
	}

	// ---- R7.1
	emitted := map[int64][]emission{}
	for _, e := range ems {
		if !e.Raw {
			emitted[e.Op] = append(emitted[e.Op], e)
		}
	}
	var opsSorted []int64
	for k := range emitted {
		opsSorted = append(opsSorted, k)
	}
	sort.Slice(opsSorted, func(i, j int) bool { return opsSorted[i] < opsSorted[j] })
	for _, k := range opsSorted {
		e := emitted[k][0]
		_, has := dt.Cases[k]
		r.Check(has, "R7.1", "pickle#opcode:"+ops.name(k), p.InstrPos(e.Site), fmt.Sprintf("emitted by %s, decoded by a case of (*Decoder).decode", fname(e.Fn)), fmt.Sprintf("%s is emitted by %s but (*Decoder).decode has no case for it: such values cannot be read back", ops.name(k), fname(e.Fn)))
	}
	r.Floor("R7.1", len(emitted), 12, "distinct opcodes emitted by the encoder")
	r.Floor("R7.1", len(dt.Cases), 12, "decoder cases")
	for _, d := range ops.dups {
		// duplicate values among op constants are only harmful if one of them is in use
		r.Note("R7.1", "pickle#duplicate-opcode-value:"+d, "-", "two opcode constants share a value")
	}
	for k := range emitted {
		n := 0
		for name, v := range ops.byName {
			if v == k {
				_ = name
				n++
			}
		}
	}

	// ---- R7.2 / R7.3
	checkReadHelper(p, r, "R7.2", dt.readU32, 4)
	checkReadHelper(p, r, "R7.2", dt.readU64, 8)
	nPayload := 0
	for _, k := range opsSorted {
		for i, e := range emitted[k] {
			if len(e.Payload) == 0 {
				continue
			}
			nPayload++
			construct := fmt.Sprintf("pickle#layout:%s", ops.name(k))
			if i > 0 {
				construct += fmt.Sprintf("#%d", i+1)
			}
			pos := p.InstrPos(e.Instr)
			// encoder side
			okEnc := true
			var val ssa.Value
			var shifts []string
			for j, pb := range e.Payload {
				if j == 0 {
					val = pb.Val
				}
				if pb.Val != val || pb.Shift != int64(8*j) {
					okEnc = false
				}
				shifts = append(shifts, fmt.Sprint(pb.Shift))
			}
			if !okEnc {
				r.Bad("R7.2", construct+":enc", pos, "encoder payload bytes are not value>>0, value>>8, ... of one value (shifts %s)", strings.Join(shifts, ","))
				continue
			}
			dc := dt.Cases[k]
			if dc == nil {
				continue // reported by R7.1
			}
			width := 0
			for _, rd := range dc.Reads {
				width += rd.Width
			}
			if width != len(e.Payload) {
				r.Bad("R7.2", construct+":width", pos, "encoder writes a %d-byte payload, the decoder case reads %d byte(s)", len(e.Payload), width)
				continue
			}
			// decoder layout for multi-read cases
			okDec := true
			detail := ""
			if len(dc.Reads) > 1 {
				var root *ssa.BinOp
				for _, b := range dc.Region {
					for _, in := range b.Instrs {
						if bo, ok := in.(*ssa.BinOp); ok && (bo.Op == token.OR || bo.Op == token.ADD) {
							srcs := map[ssa.Value]int64{}
							orTree(bo, 0, srcs)
							all := true
							for _, rd := range dc.Reads {
								if _, ok := srcs[rd.Call]; !ok {
									all = false
								}
							}
							if all {
								root = bo
							}
						}
					}
				}
				if root == nil {
					r.Unk("R7.2", construct+":dec", p.InstrPos(dc.Reads[0].Call), "cannot find the expression combining the %d reads of this case", len(dc.Reads))
					continue
				}
				srcs := map[ssa.Value]int64{}
				orTree(root, 0, srcs)
				off := int64(0)
				var got []string
				for _, rd := range dc.Reads { // Reads are in execution order within the (single-block) case
					if srcs[rd.Call] != off {
						okDec = false
					}
					got = append(got, fmt.Sprint(srcs[rd.Call]))
					off += int64(8 * rd.Width)
				}
				for i := 1; i < len(dc.Reads); i++ {
					if dc.Reads[i].Call.Block() != dc.Reads[0].Call.Block() {
						okDec = false
					}
				}
				detail = "decoder shifts " + strings.Join(got, ",")
			}
			if !okDec {
				r.Bad("R7.2", construct+":dec", p.InstrPos(dc.Reads[0].Call), "the decoder does not place the k-th byte read at bit 8k (%s): values in the affected range decode to a different number", detail)
				continue
			}
			r.OK("R7.2", construct, pos, "%d-byte little-endian payload on both sides %s", width, detail)

			// R7.3 range
			rng, _, desc, ok := decodedRange(p, dc, sizes)
			if !ok {
				r.Unk("R7.3", construct+":range", pos, "cannot determine the decoder's reconstruction of this payload")
				continue
			}
			iv := guardInterval(p, val, e.Instr)
			if math.IsInf(iv.lo, -1) && nonNegative(p, val, 0) {
				iv.lo = 0
			}
			// float bit patterns: full 64-bit payload always fits
			if width == 8 && iv.lo == math.Inf(-1) && iv.hi == math.Inf(1) {
				if bt, ok := val.Type().Underlying().(*types.Basic); ok && bt.Kind() == types.Uint64 {
					r.OK("R7.3", construct+":range", pos, "uint64 bit pattern in an 8-byte payload")
					continue
				}
			}
			if math.IsInf(iv.hi, 1) {
				if iv.lo >= rng.lo {
					r.Note("R7.3", construct+":range", pos, "emitted for values %v with no upper guard; decoder reconstructs %s: assumes sizes/ids < 2^%d", iv, desc, 8*width)
					r.OK("R7.3", construct+":range-lower", pos, "lower bound %v within %s (upper bound is an assumption)", iv, desc)
				} else {
					r.Bad("R7.3", construct+":range", pos, "emitted for values %v but the decoder reconstructs %s", iv, desc)
				}
				continue
			}
			r.Check(iv.lo >= rng.lo && iv.hi <= rng.hi, "R7.3", construct+":range", pos,
				fmt.Sprintf("emitted for %v, decoder reconstructs %s = %v", iv, desc, rng),
				fmt.Sprintf("emitted for values %v but the decoder reconstructs %s = %v: boundary values do not round-trip", iv, desc, rng))
		}
	}
	r.Floor("R7.2", nPayload, 5, "fixed-width payload emissions")

	// ---- R7.4 memo parity
	checkMemoParity(p, r, ops, dt, memoizeE)

	// ---- R7.5 memoize before contents
	checkMemoizeBeforeContents(p, r, encode, memoizeE)

	// ---- R7.6 operand order & arity
	checkTupleOrder(p, r, ops, dt, emitted)

	// ---- R7.7 mark pairing + container type agreement, R7.8 scalar type agreement
	checkMarksAndTypes(p, r, ops, dt, ems)

	// ---- R7.9 operand-stack discipline, R7.10 no aliasing of the operand stack
	incomplete := false
	for _, o := range r.Obls {
		if o.Rule == "R7.1" && o.Status == core.Undecided && !strings.HasPrefix(o.Construct, "floor:") {
			incomplete = true
		}
	}
	if incomplete {
		r.Unk("R7.9", "pickle#stack-discipline", "-", "not verified: some of the encoder's emissions could not be recovered (see R7.1), so the operand-stack effect of those paths is unknown")
	} else {
		checkStackDiscipline(p, r, ops, dt, ems)
	}
	checkNoStackAliasing(p, r)

	// ---- R7.11 in-place collectors keep the memoized object
	checkInPlaceIdentity(p, r, ops, dt)

	// ---- R7.12 memo keyed by identity
	checkMemoIdentity(p, r)

	// ---- R7.16 no insertion error is dropped
	checkInsertionErrors(p, r, "R7.16")
	checkDecoderStackUnbounded(p, r, "R7.18")
	{
		var cases []pickleCase
		for _, pk := range funcsConvertedTo(p, pkgPickle, "PicklerFunc") {
			cases = append(cases, extractPicklerCases(p, pk)...)
		}
		checkPickledFromSubjectOnly(p, r, cases, "R7.17")
	}

	// ---- R7.15 the host pickler is asked about every value
	checkPicklerAlwaysConsulted(p, r, "R7.15")

	// ---- R7.13 decoded values come from the payload, the stack or the memo
	checkDecodedFromPayload(p, r)

	// ---- R7.14 integers are rebuilt without value-changing conversions
	checkIntegerRebuild(p, r)
}

// checkIntegerRebuild implements R7.14: in package pickle, the argument of every starlark.MakeInt / MakeInt64 /
// MakeUint / MakeUint64 is computed without a value-changing integer conversion (a sign change at the same width, or
// a narrowing) - except the two's-complement reinterpretation of a fixed-width payload that was just read (BININT),
// whose range R7.2/R7.3 decide - and without negating a parsed magnitude. Big values go through math/big.
func checkIntegerRebuild(p *core.Prog, r *core.Result) {
	sp := p.Pkg("pickle")
	if sp == nil {
		return
	}
	n := 0
	for _, fn := range p.ModuleFuncs() {
		if fn.Pkg != sp && (fn.Parent() == nil || core.Outer(fn).Pkg != sp) {
			continue
		}
		k := 0
		for _, c := range core.Calls(fn) {
			cal := core.Callee(c)
			if cal == nil || cal.Pkg == nil || cal.Pkg.Pkg.Path() != pkgStar {
				continue
			}
			switch cal.Name() {
			case "MakeInt", "MakeInt64", "MakeUint", "MakeUint64":
			default:
				continue
			}
			n++
			k++
			construct := fmt.Sprintf("%s#%s-%d", fname(fn), cal.Name(), k)
			bad := ""
			fromFixedRead := func(v ssa.Value) bool {
				return core.DependsOn(v, core.SliceOpts{}, func(x ssa.Value) bool {
					cc, ok := x.(*ssa.Call)
					if !ok {
						return false
					}
					h := core.Callee(cc)
					return h != nil && h.Pkg == sp && strings.HasPrefix(h.Name(), "read")
				}) && !core.DependsOn(v, core.SliceOpts{}, func(x ssa.Value) bool {
					cc, ok := x.(*ssa.Call)
					if !ok {
						return false
					}
					h := core.Callee(cc)
					return h != nil && h.Pkg != nil && h.Pkg.Pkg.Path() == "strconv"
				})
			}
			for x := range core.BackwardSlice(c.Common().Args[0], core.SliceOpts{Stores: true, Helpers: true}) {
				switch y := x.(type) {
				case *ssa.Convert:
					st, okS := y.X.Type().Underlying().(*types.Basic)
					dt, okD := y.Type().Underlying().(*types.Basic)
					if !okS || !okD || st.Info()&types.IsInteger == 0 || dt.Info()&types.IsInteger == 0 {
						continue
					}
					ss, ds := p.SizeofType(y.X.Type()), p.SizeofType(y.Type())
					sU, dU := st.Info()&types.IsUnsigned != 0, dt.Info()&types.IsUnsigned != 0
					lossy := ds < ss || (ds == ss && sU != dU) || (!sU && dU)
					if lossy && !fromFixedRead(y.X) {
						bad = fmt.Sprintf("%s(%s) at %s", dt.Name(), st.Name(), p.InstrPos(y))
					}
				case *ssa.UnOp:
					if y.Op == token.SUB {
						if core.DependsOn(y.X, core.SliceOpts{}, func(z ssa.Value) bool {
							cc, ok := z.(*ssa.Call)
							if !ok {
								return false
							}
							h := core.Callee(cc)
							return h != nil && h.Pkg != nil && h.Pkg.Pkg.Path() == "strconv"
						}) {
							bad = "the negation of a parsed magnitude at " + p.InstrPos(y)
						}
					}
				}
			}
			r.Check(bad == "", "R7.14", construct, p.InstrPos(c.(ssa.Instruction)), "the integer is rebuilt from its payload without a value-changing conversion", "the decoded integer passes through "+bad+", which changes the value for part of its range (a magnitude above the signed maximum wraps around): such values decode to a different integer without an error, and two distinct values become equal")
		}
	}
	r.Floor("R7.14", n, 2, "starlark.MakeInt* calls in package pickle")
}

func checkMemoParity(p *core.Prog, r *core.Result, ops *opTable, dt *decoderTable, memoizeE *ssa.Function) {
	opMemo, ok := ops.byName["opMEMOIZE"]
	if !ok {
		r.Unk("R7.4", "anchor:opMEMOIZE", "-", "constant not found")
		return
	}
	var upd *ssa.MapUpdate
	var emit ssa.Instruction
	core.Instrs(memoizeE, func(in ssa.Instruction) {
		if mu, ok := in.(*ssa.MapUpdate); ok && core.LoadOfField(mu.Map, pkgPickle, "Encoder", "memo") {
			upd = mu
		}
		if c, ok := in.(ssa.CallInstruction); ok && isWriterCall(c, "WriteByte") {
			if k, ok := core.ConstInt(c.Common().Args[1]); ok && k == opMemo {
				emit = in
			}
		}
	})
	construct := "pickle.(*Encoder).memoize#id-and-opcode"
	if upd == nil || emit == nil {
		r.Bad("R7.4", construct, p.Pos(memoizeE.Pos()), "memoize does not both assign an id and emit MEMOIZE")
	} else {
		sameCond := upd.Block() == emit.Block()
		idIsLen, idIsCounter := false, false
		if c, ok := stripConv(upd.Value).(*ssa.Call); ok {
			if b, ok := c.Call.Value.(*ssa.Builtin); ok && b.Name() == "len" && core.LoadOfField(c.Call.Args[0], pkgPickle, "Encoder", "memo") && core.Dominates(c, upd) {
				idIsLen = true
			}
		}
		// a dedicated counter: id = e.F, and e.F is incremented by exactly one in the same block
		if ld, ok := stripConv(upd.Value).(*ssa.UnOp); ok && ld.Op == token.MUL {
			if fa, ok := ld.X.(*ssa.FieldAddr); ok {
				if owner, fld := core.FieldOf(fa); owner != nil && owner.Obj().Name() == "Encoder" {
					for _, in := range upd.Block().Instrs {
						st, ok := in.(*ssa.Store)
						if !ok || !core.IsField(st.Addr, pkgPickle, "Encoder", fld) {
							continue
						}
						if bo, ok := st.Val.(*ssa.BinOp); ok && bo.Op == token.ADD && core.LoadOfField(bo.X, pkgPickle, "Encoder", fld) {
							if k, ok := core.ConstInt(bo.Y); ok && k == 1 {
								idIsCounter = true
							}
						}
					}
					// and nothing else writes the counter
					for _, fn := range p.ModuleFuncs() {
						core.Instrs(fn, func(in ssa.Instruction) {
							if st, ok := in.(*ssa.Store); ok && core.IsField(st.Addr, pkgPickle, "Encoder", fld) && fn != memoizeE {
								if _, fresh := core.Unwrap(st.Addr.(*ssa.FieldAddr).X).(*ssa.Alloc); !fresh {
									idIsCounter = false
								}
							}
						})
					}
				}
			}
		}
		r.Check(sameCond && (idIsLen || idIsCounter), "R7.4", construct, p.InstrPos(upd), "the id is taken before insertion (memo size or a counter of MEMOIZE opcodes) and MEMOIZE is emitted in the same block", "id assignment and MEMOIZE emission can diverge (different conditions, or id is not the memo size / opcode count before insertion): encoder ids and decoder memo indices drift apart")
		// with size-based ids every key must be inserted at most once: a memoize that follows the encoding of the
		// value's contents can find the key already inserted by a nested encoding of the same value
		if idIsLen && !idIsCounter {
			sp := p.Pkg("pickle")
			enc := p.Func("pickle", "Encoder", "encode")
			encC := p.Func("pickle", "Encoder", "encodeComplex")
			for _, fn := range p.ModuleFuncs() {
				if fn.Pkg != sp || fn.Signature.Recv() == nil || recvNamed(fn) != "Encoder" {
					continue
				}
				for i, mcall := range core.CallsTo(fn, memoizeE) {
					mi, ok := mcall.(*ssa.Call)
					if !ok {
						continue
					}
					after := false
					for _, c := range core.Calls(fn) {
						cal := core.Callee(c)
						isContents := cal != nil && (cal == enc || cal == encC)
						if isContents && core.InstrReaches(c.(ssa.Instruction), mi) && !core.InstrReaches(mi, c.(ssa.Instruction)) {
							after = true
						}
					}
					if !after {
						continue
					}
					ts := assertedTypes(p, mi)
					nonComparable := false
					for _, t := range ts {
						if !types.Comparable(t) {
							nonComparable = true
						}
					}
					c2 := fmt.Sprintf("%s#rememoization-%d", fname(fn), i+1)
					if nonComparable {
						r.OK("R7.4", c2, p.InstrPos(mi), "memoized after its contents, but values of this type are never comparable, so they are never memoized")
					} else {
						r.Bad("R7.4", c2, p.InstrPos(mi), "the value is memoized after its contents were encoded and ids are taken from the memo's size: when a nested encoding has already memoized the same value (a recursive function cut by the host pickler), the second insertion does not grow the map but the decoder's memo does, and every later memo reference resolves to the wrong object")
					}
				}
			}
		}
	}
	// other writers of Encoder.memo
	for _, fn := range p.ModuleFuncs() {
		core.Instrs(fn, func(in ssa.Instruction) {
			if mu, ok := in.(*ssa.MapUpdate); ok && fn != memoizeE && core.LoadOfField(mu.Map, pkgPickle, "Encoder", "memo") {
				r.Bad("R7.4", fname(fn)+"#memo-update", p.InstrPos(mu), "Encoder.memo is updated outside memoize (no MEMOIZE opcode accompanies the id)")
			}
		})
	}
	// decoder side
	dmemo := p.Func("pickle", "Decoder", "memoize")
	dget := p.Func("pickle", "Decoder", "get")
	if dmemo == nil || dget == nil {
		r.Unk("R7.4", "anchor:pickle.Decoder.memoize/get", "-", "decoder memo helpers not found")
		return
	}
	// memoize appends exactly one element
	okAppend := false
	core.Instrs(dmemo, func(in ssa.Instruction) {
		c, ok := in.(*ssa.Call)
		if !ok {
			return
		}
		if b, ok := c.Call.Value.(*ssa.Builtin); ok && b.Name() == "append" && len(c.Call.Args) == 2 {
			if sl, ok := c.Call.Args[1].(*ssa.Slice); ok {
				if a, ok := sl.X.(*ssa.Alloc); ok {
					if at, ok := a.Type().Underlying().(*types.Pointer).Elem().Underlying().(*types.Array); ok && at.Len() == 1 {
						for _, ref := range *c.Referrers() {
							if st, ok := ref.(*ssa.Store); ok && core.IsField(st.Addr, pkgPickle, "Decoder", "memo") {
								okAppend = true
							}
						}
					}
				}
			}
		}
	})
	r.Check(okAppend, "R7.4", "pickle.(*Decoder).memoize#append-one", p.Pos(dmemo.Pos()), "appends exactly one entry to the memo", "does not append exactly one entry per MEMOIZE")
	if dc := dt.Cases[opMemo]; dc != nil {
		n := 0
		okArg := false
		for _, b := range dc.Region {
			for _, in := range b.Instrs {
				if c, ok := in.(*ssa.Call); ok && core.Callee(c) == dmemo {
					n++
					if a, ok := c.Call.Args[1].(*ssa.Call); ok && core.Callee(a) != nil && core.Callee(a).Name() == "peek" {
						okArg = true
					}
				}
			}
		}
		r.Check(n == 1 && okArg, "R7.4", "pickle.(*Decoder).decode#case-opMEMOIZE", p.InstrPos(dc.Entry.Instrs[0]), "memoizes the top of the stack once, without popping it", "the MEMOIZE case does not memoize the (un-popped) top of stack exactly once")
	}
	// memo consumers
	for _, fn := range p.ModuleFuncs() {
		core.Instrs(fn, func(in ssa.Instruction) {
			if fa, ok := in.(*ssa.FieldAddr); ok && core.IsField(fa, pkgPickle, "Decoder", "memo") {
				if fn != dmemo && fn != dget {
					r.Bad("R7.4", fname(fn)+"#memo-access", p.InstrPos(fa), "Decoder.memo is accessed outside memoize/get")
				}
			}
		})
	}
	for _, c := range p.StaticCallers(dget) {
		in := c.(ssa.Instruction)
		which := ""
		for k, dc := range dt.Cases {
			for _, b := range dc.Region {
				if b == in.Block() {
					which = ops.name(k)
				}
			}
		}
		r.Check(which == "opBINGET" || which == "opLONG_BINGET", "R7.4", "pickle.(*Decoder).get#caller:"+which, p.InstrPos(in), "memo ids are consumed by "+which, "memo ids are consumed outside the BINGET/LONG_BINGET cases")
	}
}

func checkMemoizeBeforeContents(p *core.Prog, r *core.Result, encode, memoizeE *ssa.Function) {
	sp := p.Pkg("pickle")
	n := 0
	for _, fn := range p.ModuleFuncs() {
		if fn.Pkg != sp {
			continue
		}
		if fn.Signature.Recv() == nil || recvNamed(fn) != "Encoder" {
			continue
		}
		if len(core.CallsTo(fn, encode)) == 0 {
			continue
		}
		memoCalls := core.CallsTo(fn, memoizeE)
		perRegion := map[string]int{}
		for _, c := range core.CallsTo(fn, encode) {
			in := c.(ssa.Instruction)
			ts := assertedTypes(p, in)
			if len(ts) == 0 {
				// entry points (Encode) and the host-pickler branch
				if inPicklerBranch(p, in) {
					r.Note("R7.5", fname(fn)+"#pickler-branch", p.InstrPos(in), "host-pickler arguments are encoded before the object is memoized (pickle NEWOBJ protocol); cycles through host-pickled values are the subject of C08 R8.3")
				}
				continue
			}
			key := typesKey(ts)
			perRegion[key]++
			if perRegion[key] > 1 {
				continue // one obligation per container kind
			}
			n++
			construct := fmt.Sprintf("%s#memoize-before-contents:%s", fname(fn), shortType(ts[len(ts)-1]))
			immutable := false
			for _, t := range ts {
				if nt, ok := t.(*types.Named); ok && nt.Obj().Name() == "Tuple" {
					immutable = true
				}
			}
			if immutable {
				r.OK("R7.5", construct, p.InstrPos(in), "tuple: immutable, cannot contain itself; memoized after its elements (sharing of a tuple reached through its own elements is impossible)")
				continue
			}
			// all recursive encodes in this region must be dominated by a memoize call in the same region
			okAll := true
			var bad ssa.Instruction
			for _, c2 := range core.CallsTo(fn, encode) {
				i2 := c2.(ssa.Instruction)
				if typesKey(assertedTypes(p, i2)) != key {
					continue
				}
				dom := false
				for _, m := range memoCalls {
					mi, isCall := m.(*ssa.Call) // a deferred memoize runs after the contents
					if !isCall {
						continue
					}
					if core.Dominates(mi, i2) && typesKey(assertedTypes(p, mi)) == key {
						dom = true
					}
				}
				if !dom {
					okAll = false
					bad = i2
				}
			}
			if okAll {
				r.OK("R7.5", construct, p.InstrPos(in), "memoize(x) dominates every recursive encode of the contents")
			} else {
				r.Bad("R7.5", construct, p.InstrPos(bad), "contents are encoded before the container is memoized: a self-referential %s recurses forever and a container shared by its own contents is duplicated", shortType(ts[len(ts)-1]))
			}
		}
	}
	r.Floor("R7.5", n, 2, "container kinds with recursive encoding")
}

// inPicklerBranch: the instruction is on the nil-error edge of a Pickler.Pickle invoke.
func inPicklerBranch(p *core.Prog, in ssa.Instruction) bool {
	found := false
	core.Instrs(in.Parent(), func(x ssa.Instruction) {
		c, ok := x.(*ssa.Call)
		if !ok || !c.Call.IsInvoke() || c.Call.Method.Name() != "Pickle" {
			return
		}
		if core.Dominates(c, in) {
			found = true
		}
	})
	return found
}

func checkTupleOrder(p *core.Prog, r *core.Result, ops *opTable, dt *decoderTable, emitted map[int64][]emission) {
	for n, name := range map[int]string{1: "opTUPLE1", 2: "opTUPLE2", 3: "opTUPLE3"} {
		k, ok := ops.byName[name]
		if !ok {
			continue
		}
		dc := dt.Cases[k]
		if dc == nil {
			continue
		}
		construct := "pickle.(*Decoder).decode#case-" + name
		pos := p.InstrPos(dc.Entry.Instrs[0])
		if len(dc.Pops) != n {
			inLoop := false
			for _, pc := range dc.Pops {
				if core.Reaches(pc.Block(), pc.Block(), false) && pc.Block() != dt.Fn.Blocks[1] {
					// a pop inside a loop of its own (not merely the decoder's main loop)
					for _, b := range dc.Region {
						if b == pc.Block() && core.Reaches(b, b, false) {
							for _, s := range b.Succs {
								if dc.Entry.Dominates(s) && core.Reaches(s, b, true) {
									inLoop = true
								}
							}
						}
					}
				}
			}
			if inLoop {
				r.Unk("R7.6", construct, pos, "%s pops its operands in a loop: operand order cannot be read off statically", name)
			} else {
				r.Bad("R7.6", construct, pos, "%s pops %d value(s), expected %d", name, len(dc.Pops), n)
			}
			continue
		}
		// k-th pop must land at index n-1-k of the tuple literal
		okOrder := true
		for i, pop := range dc.Pops {
			landed := int64(-1)
			if l, viaLoop := dc.PopLand[i]; viaLoop {
				// popped by a counted-loop helper whose result is what the case pushes
				pushed := false
				for _, ps := range dc.Pushes {
					if core.DependsOn(ps.Call.Args[1], core.SliceOpts{}, func(v ssa.Value) bool { return v == ssa.Value(pop) }) {
						pushed = true
					}
				}
				if pushed {
					landed = l
				}
				if landed != int64(n-1-i) {
					okOrder = false
				}
				continue
			}
			for _, ref := range *pop.Referrers() {
				if st, ok := ref.(*ssa.Store); ok {
					if ia, ok := st.Addr.(*ssa.IndexAddr); ok {
						if ix, ok := core.ConstInt(ia.Index); ok {
							landed = ix
						}
					}
				}
			}
			if landed != int64(n-1-i) {
				okOrder = false
			}
		}
		r.Check(okOrder, "R7.6", construct, pos, fmt.Sprintf("the k-th pop lands at index %d-k", n-1), "popped operands are stored in the wrong order: tuple elements come back permuted")
		// encoder: TUPLEn emitted after exactly n encodes in its block
		for _, e := range emitted[k] {
			cnt := 0
			for _, in := range e.Instr.Block().Instrs {
				if in == e.Instr {
					break
				}
				if c, ok := in.(*ssa.Call); ok && core.Callee(c) != nil && core.Callee(c).Name() == "encode" {
					cnt++
				}
			}
			r.Check(cnt == n, "R7.6", "pickle.(*Encoder).encode#emit-"+name, p.InstrPos(e.Instr), fmt.Sprintf("%s follows exactly %d element encodings", name, n), fmt.Sprintf("%s is emitted after %d element encodings", name, cnt))
		}
	}
}

func checkMarksAndTypes(p *core.Prog, r *core.Result, ops *opTable, dt *decoderTable, ems []emission) {
	opMark := ops.byName["opMARK"]
	collectors := map[int64]bool{}
	for _, n := range []string{"opTUPLE", "opAPPENDS", "opSETITEMS", "opADDITEMS"} {
		if v, ok := ops.byName[n]; ok {
			collectors[v] = true
		}
	}
	isCollector := func(in ssa.Instruction) bool {
		for _, e := range ems {
			if e.Instr == in && !e.Raw && collectors[e.Op] {
				return true
			}
		}
		return false
	}
	var marks []emission
	for _, e := range ems {
		if !e.Raw && e.Op == opMark {
			marks = append(marks, e)
		}
	}
	for i, m := range marks {
		construct := fmt.Sprintf("%s#mark-closed", fname(m.Fn))
		ts := assertedTypes(p, m.Instr)
		if len(ts) > 0 {
			construct += ":" + shortType(ts[len(ts)-1])
		} else {
			construct += fmt.Sprintf(":%d", i)
		}
		open := false
		for _, ret := range core.ReturnsOf(m.Fn) {
			if core.ReachesAvoiding(m.Instr, ret, isCollector) {
				open = true
			}
		}
		for _, m2 := range marks {
			if m2.Fn == m.Fn && core.ReachesAvoiding(m.Instr, m2.Instr, isCollector) {
				open = true
			}
		}
		r.Check(!open, "R7.7", construct, p.InstrPos(m.Instr), "every path from this MARK reaches a collector opcode before another MARK or the end of the function", "a path leaves this MARK open (no TUPLE/APPENDS/SETITEMS/ADDITEMS before the next MARK or return): the decoder's stack is corrupted")
	}
	r.Floor("R7.7", len(marks), 2, "MARK emissions")

	// group emissions by (function, asserted types)
	type group struct {
		key string
		ts  []types.Type
		ems []emission
	}
	groups := map[string]*group{}
	for _, e := range ems {
		if e.Raw {
			continue
		}
		ts := assertedTypes(p, e.Site)
		if len(ts) == 0 {
			continue
		}
		key := fname(e.Site.Parent()) + "|" + typesKey(ts)
		g := groups[key]
		if g == nil {
			g = &group{key: key, ts: ts}
			groups[key] = g
		}
		g.ems = append(g.ems, e)
	}
	var keys []string
	for k := range groups {
		keys = append(keys, k)
	}
	sort.Strings(keys)
	pushedType := func(k int64) types.Type {
		dc := dt.Cases[k]
		if dc == nil || len(dc.Pushes) != 1 {
			return nil
		}
		if mi, ok := dc.Pushes[0].Call.Args[1].(*ssa.MakeInterface); ok {
			return mi.X.Type()
		}
		return nil
	}
	assertedInCase := func(k int64) types.Type {
		dc := dt.Cases[k]
		if dc == nil {
			return nil
		}
		for _, b := range dc.Region {
			for _, in := range b.Instrs {
				if ta, ok := in.(*ssa.TypeAssert); ok && ta.CommaOk {
					return ta.AssertedType
				}
			}
		}
		return nil
	}
	nAgree := 0
	for _, key := range keys {
		g := groups[key]
		last := g.ts[len(g.ts)-1]
		// container pairing
		var empties, colls []int64
		for _, e := range g.ems {
			if n := ops.name(e.Op); strings.HasPrefix(n, "opEMPTY_") && n != "opEMPTY_TUPLE" {
				empties = append(empties, e.Op)
			}
			if collectors[e.Op] && ops.name(e.Op) != "opTUPLE" || ops.name(e.Op) == "opAPPEND" {
				colls = append(colls, e.Op)
			}
		}
		if len(empties) > 0 {
			for _, c := range colls {
				nAgree++
				pt, at := pushedType(empties[0]), assertedInCase(c)
				construct := fmt.Sprintf("pickle#container-agreement:%s:%s+%s", shortType(last), ops.name(empties[0]), ops.name(c))
				if pt == nil || at == nil {
					r.Unk("R7.7", construct, p.InstrPos(g.ems[0].Site), "cannot determine the container type pushed/expected by the decoder")
					continue
				}
				r.Check(types.Identical(pt, at), "R7.7", construct, p.InstrPos(g.ems[0].Site), fmt.Sprintf("decoder pushes %s for %s and %s expects %s", shortType(pt), ops.name(empties[0]), ops.name(c), shortType(at)), fmt.Sprintf("decoder pushes %s for %s but %s expects %s: every such container fails to decode", shortType(pt), ops.name(empties[0]), ops.name(c), shortType(at)))
			}
		}
		// scalar agreement: concrete asserted type, single-opcode values
		if _, isIface := last.Underlying().(*types.Interface); isIface {
			continue
		}
		for _, e := range g.ems {
			n := ops.name(e.Op)
			if n == "opMARK" || n == "opMEMOIZE" || collectors[e.Op] && n != "opTUPLE" || n == "opBINGET" || n == "opLONG_BINGET" {
				continue
			}
			pt := pushedType(e.Op)
			if pt == nil {
				continue
			}
			nAgree++
			construct := fmt.Sprintf("pickle#type-agreement:%s:%s", shortType(last), n)
			r.Check(types.Identical(pt, last), "R7.8", construct, p.InstrPos(e.Site), fmt.Sprintf("%s is emitted for %s and decodes to %s", n, shortType(last), shortType(pt)), fmt.Sprintf("%s is emitted for %s but decodes to %s: the value changes type in a round trip", n, shortType(last), shortType(pt)))
		}
	}
	r.Floor("R7.8", nAgree, 6, "encoder-kind / decoder-type agreements")
}

package rules

import (
	"fmt"
	"go/ast"
	"go/constant"
	"go/token"
	"go/types"
	"sort"
	"strings"

	"dawnverif/checker/core"

	"golang.org/x/tools/go/ssa"
)

func init() { register("C16", false, runC16) }

// valueParams returns the parameters of fn (excluding the receiver) whose type is an interface
// embedding starlark.Value (Value, Sliceable, IterableMapping ...), in order.
func valueParams(fn *ssa.Function) []*ssa.Parameter {
	var out []*ssa.Parameter
	ps := fn.Params
	if fn.Signature.Recv() != nil {
		ps = ps[1:]
	}
	for _, p := range ps {
		if it, ok := p.Type().Underlying().(*types.Interface); ok && it.NumMethods() > 0 {
			for i := 0; i < it.NumMethods(); i++ {
				if it.Method(i).Name() == "Freeze" {
					out = append(out, p)
					break
				}
			}
		}
	}
	return out
}

// derivesOnlyFrom: v is prm itself after stripping interface conversions / successful type assertions.
func derivesFromParam(v ssa.Value, prm *ssa.Parameter) bool {
	for i := 0; i < 10; i++ {
		v = core.Unwrap(v)
		switch x := v.(type) {
		case *ssa.Parameter:
			return x == prm
		case *ssa.Extract:
			if ta, ok := x.Tuple.(*ssa.TypeAssert); ok && x.Index == 0 {
				v = ta.X
				continue
			}
			// a result of a helper that hands back one of its arguments after asserting its type
			// (oldS, newS, ok := bothSliceable(old, new))
			if c, ok := x.Tuple.(*ssa.Call); ok {
				if h := core.Callee(c); h != nil && core.InModule(h) && h.Blocks != nil && i < 6 {
					src := -1
					for j, hp := range h.Params {
						all, n := true, 0
						for _, ret := range core.ReturnsOf(h) {
							if x.Index >= len(ret.Results) {
								all = false
								break
							}
							rv := ret.Results[x.Index]
							if core.IsNilConst(rv) {
								continue
							}
							n++
							if !derivesFromParam(rv, hp) {
								all = false
							}
						}
						if all && n > 0 {
							src = j
						}
					}
					if src >= 0 && src < len(c.Call.Args) {
						v = c.Call.Args[src]
						continue
					}
				}
			}
			return false
		case *ssa.TypeAssert:
			v = x.X
			continue
		default:
			return false
		}
	}
	return false
}

func runC16(p *core.Prog, r *core.Result) {
	r.Decided = []string{
		"R16.1 the old/new sides of every diff node are the first/second value argument of the function that builds it (never a swapped copy), and the diff functions pass their sides through in order",
		"R16.2 the length-normalising swap of the sequence differ is undone when edits are recorded: elements taken from the second operand are 'add' when not reversed and 'delete' when reversed (conversely for the first), each with the cursor of its own operand",
		"R16.6 when the recorded route is cut short and the search restarts, each operand is trimmed by its own consumption counter (the counter incremented exactly where elements of that operand are recorded)",
		"R16.3 mapping diffs: delete exactly on keys of old missing in new, replace exactly on a non-empty recursive diff of the two values under one key, add exactly on keys of new missing in old",
		"R16.4 the rebuild-reason table lists exactly the keys under which the unpickler stores environment parts",
		"R16.7 merging an adjacent delete/add pair into a replace: the two arguments of the element-wise diff are (part of) the deleted run and (part of) the added run in that order, and the surplus that is kept as an edit of its own carries the kind of the run it was cut from (left-over deleted elements stay a delete, left-over added elements stay an add)",
		"R16.8 elements are reported as kept (common) only where they are equal as values: in the diagonal walk of the edit-graph search every advance of the two cursors is on the edge where starlark.EqualDepth/Equal of a.Index(x) and b.Index(y) reported equality (no representation-level shortcut such as comparing the bytes of a string with the bytes of a bytes value)",
		"R16.9 the reason of one target is computed from that target's diff alone: nothing reachable from diffEnv writes into a package-level slice or map (an append to, a filter-in-place on, or an element store into the key table), so what one call reports cannot depend on the calls before it",
		"R16.10 the reason shown is the one that names the differing parts whenever the target itself is out of date: any other value that reaches the reason argument of TargetEvaluating (\"always\", the out-of-date dependencies, the failed last run) is selected only where upToDate() said true",
		"R16.11 the reason and the diff name what differs from the environment the target last ran in: every successful return of (*function).evaluate lies behind a store of the current environment (function.newEnv) into function.oldEnv - on a Project that is run again the target would otherwise keep being compared with the environment loaded from disk, and be shown with the reason and diff of a change that has already been built",
		"R16.5 the diff is nil exactly on the equal edge; every other successful return is a non-nil node",
	}
	r.NotDecided = []string{"that kept+deleted / kept+added elements reconstruct the two sequences (the O(NP) search and snake recording are behavioural)", "merging of delete+add into replace for all length combinations"}

	DiffDepth := need(p, r, "R16.0", "diff", "", "DiffDepth")
	diffSlice := need(p, r, "R16.0", "diff", "", "diffSlice")
	diffMapping := need(p, r, "R16.0", "diff", "", "diffMapping")
	recordSeq := need(p, r, "R16.0", "diff", "differ", "recordSeq")
	extend := need(p, r, "R16.0", "diff", "differ", "extend")
	if DiffDepth == nil || diffSlice == nil || diffMapping == nil || recordSeq == nil || extend == nil {
		return
	}

	// ---- R16.1
	n := 0
	sp := p.Pkg("diff")
	for _, fn := range p.ModuleFuncs() {
		if fn.Pkg != sp {
			continue
		}
		vps := valueParams(fn)
		core.Instrs(fn, func(in ssa.Instruction) {
			st, ok := in.(*ssa.Store)
			if !ok {
				return
			}
			side := -1
			if core.IsField(st.Addr, pkgDiff, "valueDiff", "old") {
				side = 0
			} else if core.IsField(st.Addr, pkgDiff, "valueDiff", "new") {
				side = 1
			} else {
				return
			}
			n++
			name := []string{"old", "new"}[side]
			construct := fmt.Sprintf("%s#valueDiff.%s", fname(fn), name)
			if len(vps) < 2 {
				r.Unk("R16.1", construct, p.InstrPos(st), "the constructing function does not take two value operands")
				return
			}
			v := core.Unwrap(st.Val)
			if derivesFromParam(st.Val, vps[side]) {
				r.OK("R16.1", construct, p.InstrPos(st), "the %s side is the function's %s value argument (%s)", name, []string{"first", "second"}[side], vps[side].Name())
				return
			}
			what := "a value that is not the function's own operand"
			if _, isPhi := v.(*ssa.Phi); isPhi {
				what = "a conditionally swapped copy of the operands"
			} else if derivesFromParam(st.Val, vps[1-side]) {
				what = "the other operand"
			}
			r.Bad("R16.1", construct, p.InstrPos(st), "the %s side of the diff is %s: Old()/New() report the operands swapped for some inputs", name, what)
		})
	}
	r.Floor("R16.1", n, 4, "stores into valueDiff.old/new")
	// pass-through at call sites from DiffDepth
	vps := valueParams(DiffDepth)
	for _, c := range core.Calls(DiffDepth) {
		cal := core.Callee(c)
		if cal != diffSlice && cal != diffMapping {
			continue
		}
		args := c.Common().Args
		ok := len(vps) >= 2 && derivesFromParam(args[0], vps[0]) && derivesFromParam(args[1], vps[1])
		r.Check(ok, "R16.1", "diff.DiffDepth#call-"+cal.Name(), p.InstrPos(c.(ssa.Instruction)), "old and new are passed through in order", "old/new are not passed through in order to "+cal.Name())
	}

	// ---- R16.2
	checkRecordSeq(p, r, recordSeq, extend)

	// ---- R16.3
	checkMappingDiff(p, r, diffMapping, DiffDepth)

	// ---- R16.4
	checkReasonTable(p, r)

	// ---- R16.9
	checkReasonsNotShared(p, r, "R16.9")
	checkReasonOfOwnVerdictShown(p, r, "R16.10")
	checkBaselineAdvancesWithRun(p, r, "R16.11")

	// ---- R16.7
	checkComposeMerge(p, r)

	// ---- R16.8
	checkSnakeEquality(p, r, "R16.8")

	// ---- R16.5
	nilOnEq := 0
	for _, ret := range core.ReturnsOf(DiffDepth) {
		vals := core.RetVals(ret)
		if len(vals) != 2 || !core.IsNilConst(vals[1]) {
			continue
		}
		if core.IsNilConst(vals[0]) {
			nilOnEq++
			ok := p.FactsAt(ret).Find(func(c ssa.Value, v bool) bool {
				e, isE := c.(*ssa.Extract)
				if !isE || e.Index != 0 || !v {
					return false
				}
				call, isC := e.Tuple.(*ssa.Call)
				return isC && core.IsCallTo(call, pkgStar, "EqualDepth")
			})
			r.Check(ok, "R16.5", "diff.DiffDepth#nil-iff-equal", p.InstrPos(ret), "the empty diff is returned only on the edge where EqualDepth reported equality", "an empty diff can be returned for unequal values")
		} else {
			mi, isMI := vals[0].(*ssa.MakeInterface)
			ok := isMI && freshNode(mi.X, 0)
			r.Check(ok, "R16.5", "diff.DiffDepth#non-nil-node", p.InstrPos(ret), "unequal values yield a freshly allocated diff node", "a successful return for unequal values may be nil")
		}
	}
	r.Floor("R16.5", nilOnEq, 1, "nil-diff returns of DiffDepth")
	// the equality test comes first: every other return is on the not-equal edge
	for _, c := range core.Calls(DiffDepth) {
		cal := core.Callee(c)
		if cal != diffSlice && cal != diffMapping {
			continue
		}
		ok := p.FactsAt(c.(ssa.Instruction)).Find(func(cv ssa.Value, v bool) bool {
			e, isE := cv.(*ssa.Extract)
			if !isE || e.Index != 0 || v {
				return false
			}
			call, isC := e.Tuple.(*ssa.Call)
			return isC && core.IsCallTo(call, pkgStar, "EqualDepth")
		})
		r.Check(ok, "R16.5", "diff.DiffDepth#structural-only-when-unequal:"+cal.Name(), p.InstrPos(c.(ssa.Instruction)), "structural diffing happens only on the not-equal edge", "structural diffing is attempted for equal values (non-empty diff of equal values)")
	}
	for _, fn := range []*ssa.Function{diffSlice, diffMapping} {
		for _, ret := range core.ReturnsOf(fn) {
			vals := core.RetVals(ret)
			if len(vals) == 2 && core.IsNilConst(vals[1]) {
				isAlloc := freshNode(vals[0], 0)
				r.Check(isAlloc, "R16.5", fname(fn)+"#non-nil-node", p.InstrPos(ret), "returns a freshly allocated node on success", "may return a nil node without an error")
			}
		}
	}
}

// freshNode: v is a freshly allocated (hence non-nil) pointer: an allocation, or the result of a constructor helper
// of the module every return of which is one.
func freshNode(v ssa.Value, depth int) bool {
	switch x := v.(type) {
	case *ssa.Alloc:
		return true
	case *ssa.Call:
		h := core.Callee(x)
		if h == nil || !core.InModule(h) || h.Blocks == nil || depth >= 2 || h.Signature.Results().Len() != 1 {
			return false
		}
		rets := core.ReturnsOf(h)
		for _, ret := range rets {
			if !freshNode(ret.Results[0], depth+1) {
				return false
			}
		}
		return len(rets) > 0
	}
	return false
}

func checkRecordSeq(p *core.Prog, r *core.Result, recordSeq, extend *ssa.Function) {
	// editKind constants
	kinds := map[string]int64{}
	sc := p.TPkg("diff").Types.Scope()
	for _, n := range []string{"editKindDelete", "editKindCommon", "editKindAdd"} {
		if c, ok := sc.Lookup(n).(*types.Const); ok {
			v, _ := constant.Int64Val(c.Val())
			kinds[n] = v
		}
	}
	if len(kinds) != 3 {
		r.Unk("R16.2", "anchor:diff.editKind*", "-", "edit kind constants not found")
		return
	}
	// cursors: px is compared with point.x, py with point.y
	cursor := map[ssa.Value]string{}
	core.Instrs(recordSeq, func(in ssa.Instruction) {
		b, ok := in.(*ssa.BinOp)
		if !ok || b.Op != token.LSS {
			return
		}
		if u, ok := b.Y.(*ssa.UnOp); ok && u.Op == token.MUL {
			if core.IsField(u.X, pkgDiff, "point", "x") {
				cursor[b.X] = "a"
			}
			if core.IsField(u.X, pkgDiff, "point", "y") {
				cursor[b.X] = "b"
			}
		}
	})
	isReverse := func(v ssa.Value) bool { return core.LoadOfField(v, pkgDiff, "differ", "reverse") }
	// underReverse evaluates v (a constant, or a phi selected by `if diff.reverse`) for reverse = want.
	var under func(v ssa.Value, want bool, facts core.FactSet) (ssa.Value, bool)
	under = func(v ssa.Value, want bool, facts core.FactSet) (ssa.Value, bool) {
		// a helper of the package applied to constants (func (d *differ) orient(k editKind) editKind): evaluate it -
		// the one return whose facts agree with reverse = want and with the constant arguments
		if hc, isCall := v.(*ssa.Call); isCall {
			h := core.Callee(hc)
			if h == nil || h.Pkg != recordSeq.Pkg || h.Blocks == nil || h.Signature.Results().Len() != 1 {
				return v, true
			}
			argOf := func(x ssa.Value) (ssa.Value, bool) {
				for i, prm := range h.Params {
					if prm == x && i < len(hc.Call.Args) {
						return hc.Call.Args[i], true
					}
				}
				return nil, false
			}
			var res ssa.Value
			n := 0
			for _, ret := range core.ReturnsOf(h) {
				consistent, decided := true, true
				for f := range p.FactsAt(ret) {
					if isReverse(f.Cond) {
						if f.Val != want {
							consistent = false
						}
						continue
					}
					b, isCmp := f.Cond.(*ssa.BinOp)
					if !isCmp || (b.Op != token.EQL && b.Op != token.NEQ) {
						decided = false
						continue
					}
					var av ssa.Value
					var cv ssa.Value
					if a, ok := argOf(b.X); ok {
						av, cv = a, b.Y
					} else if a, ok := argOf(b.Y); ok {
						av, cv = a, b.X
					}
					ka, ok1 := core.ConstInt(av)
					kc, ok2 := core.ConstInt(cv)
					if av == nil || !ok1 || !ok2 {
						decided = false
						continue
					}
					if ((ka == kc) == (b.Op == token.EQL)) != f.Val {
						consistent = false
					}
				}
				if !consistent {
					continue
				}
				if !decided {
					return nil, false
				}
				rv := core.RetVals(ret)[0]
				if a, ok := argOf(rv); ok {
					rv = a
				}
				res = rv
				n++
			}
			if n != 1 {
				return nil, false
			}
			return res, true
		}
		phi, ok := v.(*ssa.Phi)
		if !ok {
			return v, true
		}
		efs := p.PhiEdgeFacts(phi)
		var res ssa.Value
		n, nKnown := 0, 0
		for i, e := range phi.Edges {
			known, val := false, false
			for f := range efs[i] {
				if isReverse(f.Cond) {
					known, val = true, f.Val
				}
			}
			if known {
				nKnown++
			}
			if known && val == want {
				res = e
				n++
			}
		}
		if nKnown == 0 {
			return v, true // not selected by differ.reverse (e.g. a loop cursor)
		}
		if n != 1 {
			return nil, false
		}
		return res, true
	}
	calls := core.CallsTo(recordSeq, extend)
	r.Floor("R16.2", len(calls), 1, "extend calls in recordSeq")
	for i, c := range calls {
		args := c.Common().Args // recv, kind, from, loc
		construct := fmt.Sprintf("diff.(*differ).recordSeq#extend-%d", i+1)
		pos := p.InstrPos(c.(ssa.Instruction))
		okAll := true
		var detail []string
		for _, rev := range []bool{false, true} {
			kv, ok1 := under(args[1], rev, nil)
			fv, ok2 := under(args[2], rev, nil)
			lv, ok3 := under(args[3], rev, nil)
			if !ok1 || !ok2 || !ok3 {
				r.Unk("R16.2", construct, pos, "cannot evaluate kind/source/cursor of this edit as a function of differ.reverse")
				okAll = false
				break
			}
			k, okk := core.ConstInt(kv)
			src := ""
			if core.LoadOfField(fv, pkgDiff, "differ", "a") {
				src = "a"
			} else if core.LoadOfField(fv, pkgDiff, "differ", "b") {
				src = "b"
			}
			cur := cursor[lv]
			if !okk || src == "" || cur == "" {
				r.Unk("R16.2", construct, pos, "unrecognised kind, source or cursor (reverse=%v)", rev)
				okAll = false
				break
			}
			kindName := ""
			for n, v := range kinds {
				if v == k {
					kindName = n
				}
			}
			detail = append(detail, fmt.Sprintf("reverse=%v: %s from %s at cursor of %s", rev, kindName, src, cur))
			if cur != src {
				okAll = false
				r.Bad("R16.2", construct, pos, "elements are taken from operand %s at the cursor of operand %s (reverse=%v)", src, cur, rev)
				break
			}
			if kindName == "editKindCommon" {
				continue
			}
			// not reversed: a is old (delete), b is new (add); reversed: the converse
			want := map[string]string{"a": "editKindDelete", "b": "editKindAdd"}[src]
			if rev {
				want = map[string]string{"a": "editKindAdd", "b": "editKindDelete"}[src]
			}
			if kindName != want {
				okAll = false
				r.Bad("R16.2", construct, pos, "with reverse=%v an element of operand %s is recorded as %s, expected %s: the operand swap is not undone and additions/deletions are reported inverted", rev, src, kindName, want)
				break
			}
		}
		if okAll {
			r.OK("R16.2", construct, pos, "%s", strings.Join(detail, "; "))
		}
	}
	// reverse is set exactly when the operands were swapped: in diffSlice the store to differ.reverse is the swap flag

	// ---- R16.6 when the recorded route is cut short, each operand is trimmed by its own consumption counter
	// operand consumed in a block: the source of the extend call there (common edits consume both)
	consumes := map[string]map[*ssa.BasicBlock]bool{"a": {}, "b": {}}
	for _, c := range calls {
		args := c.Common().Args
		for _, rev := range []bool{false, true} {
			fv, ok := under(args[2], rev, nil)
			if !ok {
				continue
			}
			blk := c.(ssa.Instruction).Block()
			if core.LoadOfField(fv, pkgDiff, "differ", "a") {
				consumes["a"][blk] = true
			}
			if core.LoadOfField(fv, pkgDiff, "differ", "b") {
				consumes["b"][blk] = true
			}
		}
	}
	_ = consumes
	// counters: the phis of one source variable (go/ssa records the variable's name) and its "+1" increments
	webOf := func(v ssa.Value) string {
		for depth := 0; depth < 8; depth++ {
			switch x := v.(type) {
			case *ssa.Phi:
				if _, isInt := x.Type().Underlying().(*types.Basic); isInt && x.Comment != "" {
					return x.Comment
				}
				return ""
			case *ssa.BinOp:
				if k, ok := core.ConstInt(x.Y); ok && k == 1 && x.Op == token.ADD {
					v = x.X
					continue
				}
				return ""
			default:
				return ""
			}
		}
		return ""
	}
	incs := map[string][]*ssa.BinOp{}
	core.Instrs(recordSeq, func(in ssa.Instruction) {
		if x, ok := in.(*ssa.BinOp); ok && x.Op == token.ADD {
			if k, ok := core.ConstInt(x.Y); ok && k == 1 {
				if w := webOf(x); w != "" {
					incs[w] = append(incs[w], x)
				}
			}
		}
	})
	counterOf := func(v ssa.Value) string {
		// strip +/- constants
		for {
			b, ok := v.(*ssa.BinOp)
			if !ok || (b.Op != token.ADD && b.Op != token.SUB) {
				break
			}
			if _, isConst := core.ConstInt(b.Y); !isConst {
				break
			}
			if b.Op == token.ADD {
				if k, _ := core.ConstInt(b.Y); k == 1 {
					break // an increment belongs to the web itself
				}
			}
			v = b.X
		}
		web := webOf(v)
		if web == "" {
			return ""
		}
		incBlocks := func(w string) map[*ssa.BasicBlock]bool {
			m := map[*ssa.BasicBlock]bool{}
			for _, inc := range incs[w] {
				m[inc.Block()] = true
			}
			return m
		}
		blocks := incBlocks(web)
		if len(blocks) == 0 {
			return ""
		}
		// the cursors are known from the comparisons with the route points (px with point.x, py with point.y); a
		// counter belongs to the operand whose cursor is incremented in exactly the same places
		for cv, opnd := range cursor {
			cw := webOf(cv)
			if cw == "" {
				continue
			}
			if cw == web {
				return opnd
			}
			cb := incBlocks(cw)
			same := len(cb) == len(blocks)
			for b := range blocks {
				if !cb[b] {
					same = false
				}
			}
			if same {
				return opnd
			}
		}
		return "?"
	}
	nTrim := 0
	core.Instrs(recordSeq, func(in ssa.Instruction) {
		st, ok := in.(*ssa.Store)
		if !ok {
			return
		}
		opnd := ""
		if core.IsField(st.Addr, pkgDiff, "differ", "a") {
			opnd = "a"
		} else if core.IsField(st.Addr, pkgDiff, "differ", "b") {
			opnd = "b"
		}
		if opnd == "" {
			return
		}
		var lo ssa.Value
		switch v := st.Val.(type) {
		case *ssa.Call:
			// slice(x, lo, hi) helper
			if len(v.Call.Args) >= 3 && core.LoadOfField(v.Call.Args[0], pkgDiff, "differ", opnd) {
				lo = v.Call.Args[1]
			}
		case *ssa.Slice:
			lo = v.Low
		}
		if lo == nil {
			return
		}
		nTrim++
		construct := "diff.(*differ).recordSeq#restart-trims-" + opnd
		// the offset may be read back from the field it has just been stored into (diff.ox, diff.oy = x-1, y-1)
		if ld, ok := lo.(*ssa.UnOp); ok && ld.Op == token.MUL {
			if owner, fld := core.FieldOf(ld.X); owner != nil && owner.Obj().Name() == "differ" {
				var stored []ssa.Value
				core.Instrs(recordSeq, func(in2 ssa.Instruction) {
					if s2, ok := in2.(*ssa.Store); ok && core.IsField(s2.Addr, pkgDiff, "differ", fld) && core.Dominates(s2, ld) {
						stored = append(stored, s2.Val)
					}
				})
				if len(stored) == 1 {
					lo = stored[0]
				}
			}
		}
		got := counterOf(lo)
		switch got {
		case opnd:
			r.OK("R16.6", construct, p.InstrPos(st), "operand %s is trimmed by the number of its own elements already recorded", opnd)
		case "", "?":
			r.Unk("R16.6", construct, p.InstrPos(st), "the trimming offset of operand %s is not recognised as a consumption counter", opnd)
		default:
			r.Bad("R16.6", construct, p.InstrPos(st), "when the search restarts, operand %s is trimmed by the consumption counter of operand %s: for sequences of different length (the two counters differ by the length difference at a restart, which needs more than two million route points) elements of %s are recorded twice and the edits no longer reproduce that side", opnd, got, opnd)
		}
	})
	r.Analysed["recordSeq_restart_trims"] = nTrim
}

func checkMappingDiff(p *core.Prog, r *core.Result, diffMapping, DiffDepth *ssa.Function) {
	vps := valueParams(diffMapping)
	if len(vps) < 2 {
		r.Unk("R16.3", "diff.diffMapping#params", p.Pos(diffMapping.Pos()), "expected two mapping parameters")
		return
	}
	// hosts: diffMapping itself, and helpers of the package that it hands one or both operands to (the work on one
	// key may live in a function of its own); inside a helper a parameter stands for the operand it receives
	type hostT struct {
		fn   *ssa.Function
		side map[ssa.Value]int
		site *ssa.Call // the call in diffMapping (nil for diffMapping itself)
	}
	unwrapIface := func(v ssa.Value) ssa.Value {
		if ci, ok := v.(*ssa.ChangeInterface); ok {
			return ci.X
		}
		return v
	}
	hosts := []hostT{{diffMapping, map[ssa.Value]int{vps[0]: 0, vps[1]: 1}, nil}}
	hostOf := map[*ssa.Function]int{diffMapping: 0}
	core.Instrs(diffMapping, func(in ssa.Instruction) {
		c, ok := in.(*ssa.Call)
		if !ok || c.Call.IsInvoke() {
			return
		}
		h := core.Callee(c)
		if h == nil || h.Pkg != diffMapping.Pkg || h.Blocks == nil || h == DiffDepth || h == diffMapping {
			return
		}
		if _, dup := hostOf[h]; dup {
			return
		}
		sd := map[ssa.Value]int{}
		for i, a := range c.Call.Args {
			for sde := 0; sde < 2; sde++ {
				if unwrapIface(a) == ssa.Value(vps[sde]) && i < len(h.Params) {
					sd[h.Params[i]] = sde
				}
			}
		}
		if len(sd) > 0 {
			hostOf[h] = len(hosts)
			hosts = append(hosts, hostT{h, sd, c})
		}
	})
	// Get invokes: which operand, and their `found` results
	type getCall struct {
		call *ssa.Call
		side int
	}
	var gets []getCall
	// lookup-like helpers: h(m, key, ...) whose results 0 and 1 are the value and the found flag of m.Get(key)
	// on every return (or nil/false on a return that also reports an error)
	lookupLike := func(h *ssa.Function) (mapParam int, ok bool) {
		if h == nil || !core.InModule(h) || h.Blocks == nil || h.Signature.Results().Len() < 2 {
			return 0, false
		}
		var get *ssa.Call
		core.Instrs(h, func(in ssa.Instruction) {
			if c, isCall := in.(*ssa.Call); isCall && c.Call.IsInvoke() && c.Call.Method.Name() == "Get" {
				if prm, isPrm := c.Call.Value.(*ssa.Parameter); isPrm && len(c.Call.Args) == 1 {
					if _, keyPrm := c.Call.Args[0].(*ssa.Parameter); keyPrm {
						get = c
						mapParam = paramIndex(h, prm)
					}
				}
			}
		})
		if get == nil {
			return 0, false
		}
		n := 0
		for _, ret := range core.ReturnsOf(h) {
			rv := core.RetVals(ret)
			if len(rv) < 2 {
				return 0, false
			}
			e0, ok0 := rv[0].(*ssa.Extract)
			e1, ok1 := rv[1].(*ssa.Extract)
			if ok0 && ok1 && e0.Tuple == ssa.Value(get) && e0.Index == 0 && e1.Tuple == ssa.Value(get) && e1.Index == 1 {
				n++
				continue
			}
			// an error return: found=false together with a non-nil error as last result
			if b, isConst := core.ConstBool(rv[1]); isConst && !b {
				if nn, known := p.FactsAt(ret).ErrNonNil(rv[len(rv)-1]); known && nn {
					continue
				}
				if e, isE := rv[len(rv)-1].(*ssa.Extract); isE && e.Tuple == ssa.Value(get) {
					if nn, known := p.FactsAt(ret).ErrNonNil(e); known && nn {
						continue
					}
				}
			}
			return 0, false
		}
		return mapParam, n > 0
	}
	for _, h := range hosts {
		core.Instrs(h.fn, func(in ssa.Instruction) {
			c, ok := in.(*ssa.Call)
			if !ok {
				return
			}
			if c.Call.IsInvoke() {
				if c.Call.Method.Name() == "Get" {
					if sd, ok := h.side[c.Call.Value]; ok {
						gets = append(gets, getCall{c, sd})
					}
				}
				return
			}
			if mp, ok := lookupLike(core.Callee(c)); ok && mp < len(c.Call.Args) {
				if sd, ok := h.side[unwrapIface(c.Call.Args[mp])]; ok {
					gets = append(gets, getCall{c, sd})
				}
			}
		})
	}
	// siteOf: the point of diffMapping that stands for `at` (the call of the helper `at` lives in)
	siteOf := func(at ssa.Instruction) ssa.Instruction {
		if hi, ok := hostOf[at.Parent()]; ok && hosts[hi].site != nil {
			return hosts[hi].site
		}
		return at
	}
	foundFact := func(at ssa.Instruction, side int, want bool) bool {
		pred := func(cv ssa.Value, v bool) bool {
			e, ok := cv.(*ssa.Extract)
			if !ok || e.Index != 1 || v != want {
				return false
			}
			for _, g := range gets {
				if g.side == side && e.Tuple == ssa.Value(g.call) {
					return true
				}
			}
			return false
		}
		if p.FactsAt(at).Find(pred) {
			return true
		}
		if st := siteOf(at); st != at {
			return p.FactsAt(st).Find(pred)
		}
		return false
	}
	// iteration: which operand's iterator produced the key in scope: Iterate() invoke on vps[s]; Next() on it dominates
	iterSide := func(at ssa.Instruction) int {
		at = siteOf(at)
		side := -1
		core.Instrs(diffMapping, func(in ssa.Instruction) {
			c, ok := in.(*ssa.Call)
			if !ok || !c.Call.IsInvoke() || c.Call.Method.Name() != "Next" {
				return
			}
			it, ok := c.Call.Value.(*ssa.Call)
			if !ok || !it.Call.IsInvoke() || it.Call.Method.Name() != "Iterate" {
				return
			}
			// the Next whose true edge governs `at` most closely: the last dominating one
			if core.Dominates(c, at) && p.FactsAt(at).Find(func(cv ssa.Value, v bool) bool { return cv == ssa.Value(c) && v }) {
				for s := 0; s < 2; s++ {
					if it.Call.Value == ssa.Value(vps[s]) {
						side = s
					}
				}
			}
		})
		return side
	}
	// Edit literals: kind stores
	globalsKind := func(v ssa.Value) string {
		if u, ok := v.(*ssa.UnOp); ok && u.Op == token.MUL {
			if g, ok := u.X.(*ssa.Global); ok {
				return g.Name()
			}
		}
		return ""
	}
	seen := map[string]bool{}
	// edit constructions: Edit literals in a host, or calls to a constructor helper that stores its kind parameter
	type editSite struct {
		at   ssa.Instruction
		kind string
	}
	var sites []editSite
	for _, hst := range hosts {
		core.Instrs(hst.fn, func(in ssa.Instruction) {
			if st, ok := in.(*ssa.Store); ok && core.IsField(st.Addr, pkgDiff, "Edit", "kind") {
				sites = append(sites, editSite{st, globalsKind(st.Val)})
				return
			}
			call, ok := in.(*ssa.Call)
			if !ok {
				return
			}
			h := core.Callee(call)
			if h == nil || !core.InModule(h) || h.Blocks == nil || h == diffMapping {
				return
			}
			if _, isHost := hostOf[h]; isHost {
				return
			}
			core.Instrs(h, func(hin ssa.Instruction) {
				if st, ok := hin.(*ssa.Store); ok && core.IsField(st.Addr, pkgDiff, "Edit", "kind") {
					if prm, ok := st.Val.(*ssa.Parameter); ok {
						if j := paramIndex(h, prm); j >= 0 && j < len(call.Call.Args) {
							sites = append(sites, editSite{call, globalsKind(call.Call.Args[j])})
						}
					}
				}
			})
		})
	}
	for _, es := range sites {
		st := es.at
		kind := es.kind
		construct := "diff.diffMapping#edit:" + kind
		pos := p.InstrPos(st)
		seen[kind] = true
		side := iterSide(st)
		switch kind {
		case "EditKindDelete":
			r.Check(side == 0 && foundFact(st, 1, false), "R16.3", construct, pos, "recorded while iterating old, on the edge where new.Get(key) did not find the key", "a delete edit is not tied to 'key of old missing in new'")
		case "EditKindAdd":
			r.Check(side == 1 && foundFact(st, 0, false), "R16.3", construct, pos, "recorded while iterating new, on the edge where old.Get(key) did not find the key", "an add edit is not tied to 'key of new missing in old'")
		case "EditKindReplace":
			// on the non-nil edge of DiffDepth(oldV, newV) with oldV from old.Get and newV from new.Get
			ok := false
			for _, c := range core.CallsTo(st.Parent(), DiffDepth) {
				call := c.(*ssa.Call)
				var dv ssa.Value
				for _, ref := range *call.Referrers() {
					if e, ok := ref.(*ssa.Extract); ok && e.Index == 0 {
						dv = e
					}
				}
				nn, known := p.FactsAt(st).ErrNonNil(dv)
				fromGet := func(v ssa.Value, side int) bool {
					e, ok := v.(*ssa.Extract)
					if !ok || e.Index != 0 {
						return false
					}
					for _, g := range gets {
						if g.side == side && e.Tuple == ssa.Value(g.call) {
							return true
						}
					}
					return false
				}
				if dv != nil && known && nn && fromGet(call.Call.Args[0], 0) && fromGet(call.Call.Args[1], 1) && side == 0 && foundFact(st, 1, true) {
					ok = true
				}
			}
			r.Check(ok, "R16.3", construct, pos, "recorded on the non-empty edge of the recursive diff of old[key] and new[key], for keys present in both", "a replace edit is not tied to a non-empty diff of old[key] vs new[key]")
		default:
			r.Bad("R16.3", construct, pos, "unexpected edit kind %q in a mapping diff", kind)
		}
	}
	for _, k := range []string{"EditKindDelete", "EditKindAdd", "EditKindReplace"} {
		if !seen[k] {
			r.Bad("R16.3", "diff.diffMapping#edit:"+k, p.Pos(diffMapping.Pos()), "mapping diffs never record %s edits: that class of key change is silently dropped", k)
		}
	}
}

// checkReasonsNotShared implements R16.9.
func checkReasonsNotShared(p *core.Prog, r *core.Result, rule string) {
	diffEnv := need(p, r, rule, "", "function", "diffEnv")
	if diffEnv == nil {
		return
	}
	// the storage a slice/map value may share: followed through phis, re-slicing, append's first operand and local cells
	// only (not through the elements that are stored into it)
	var backing func(v ssa.Value, seen map[ssa.Value]bool, visit func(ssa.Value))
	backing = func(v ssa.Value, seen map[ssa.Value]bool, visit func(ssa.Value)) {
		if v == nil || seen[v] {
			return
		}
		seen[v] = true
		visit(v)
		switch x := v.(type) {
		case *ssa.Phi:
			for _, e := range x.Edges {
				backing(e, seen, visit)
			}
		case *ssa.Slice:
			backing(x.X, seen, visit)
		case *ssa.ChangeType:
			backing(x.X, seen, visit)
		case *ssa.Call:
			if b, ok := x.Call.Value.(*ssa.Builtin); ok && b.Name() == "append" {
				backing(x.Call.Args[0], seen, visit)
			}
		case *ssa.UnOp:
			if x.Op == token.MUL {
				if al, ok := x.X.(*ssa.Alloc); ok {
					for _, ref := range *al.Referrers() {
						if st, ok := ref.(*ssa.Store); ok && st.Addr == ssa.Value(al) {
							backing(st.Val, seen, visit)
						}
					}
				}
			}
		}
	}
	fromGlobal := func(v ssa.Value) *ssa.Global {
		var g *ssa.Global
		backing(v, map[ssa.Value]bool{}, func(x ssa.Value) {
			if ld, ok := x.(*ssa.UnOp); ok && ld.Op == token.MUL {
				if gg, ok := ld.X.(*ssa.Global); ok && gg.Pkg != nil && gg.Pkg.Pkg.Path() == pkgRoot {
					g = gg
				}
			}
		})
		return g
	}
	var fns []*ssa.Function
	for f := range staticClosure(p, diffEnv) {
		if f.Pkg == diffEnv.Pkg || f.Parent() != nil && f.Parent().Pkg == diffEnv.Pkg {
			fns = append(fns, core.WithAnons(f)...)
		}
	}
	sort.Slice(fns, func(i, j int) bool { return fns[i].String() < fns[j].String() })
	seen := map[*ssa.Function]bool{}
	n, k := 0, 0
	for _, f := range fns {
		if seen[f] {
			continue
		}
		seen[f] = true
		// what a parameter stands for at the call sites inside the closure (filterStrings(functionEnvKeys, …))
		argGlobal := func(v ssa.Value) *ssa.Global {
			if g := fromGlobal(v); g != nil {
				return g
			}
			var g *ssa.Global
			backing(v, map[ssa.Value]bool{}, func(x ssa.Value) {
				prm, ok := x.(*ssa.Parameter)
				if !ok {
					return
				}
				i := paramIndex(prm.Parent(), prm)
				for _, site := range p.StaticCallers(prm.Parent()) {
					if i >= 0 && i < len(site.Common().Args) {
						if gg := fromGlobal(site.Common().Args[i]); gg != nil {
							g = gg
						}
					}
				}
			})
			return g
		}
		core.Instrs(f, func(in ssa.Instruction) {
			var subject ssa.Value
			what := ""
			switch x := in.(type) {
			case *ssa.Call:
				if b, ok := x.Call.Value.(*ssa.Builtin); ok && b.Name() == "append" {
					subject, what = x.Call.Args[0], "append to"
				}
			case *ssa.Store:
				if ia, ok := x.Addr.(*ssa.IndexAddr); ok {
					if _, isSlice := ia.X.Type().Underlying().(*types.Slice); isSlice {
						subject, what = ia.X, "element store into"
					}
				}
			case *ssa.MapUpdate:
				subject, what = x.Map, "update of"
			}
			if subject == nil {
				return
			}
			n++
			if g := argGlobal(subject); g != nil {
				k++
				r.Bad(rule, fmt.Sprintf("%s#writes-package-table-%d", fname(f), k), p.InstrPos(in), "%s a slice that shares its storage with the package-level variable %s: the first call rearranges the table the later calls read, so the reason reported for a target depends on which targets were reported before it (parts that differ are left out, others are named twice)", what, g.Name())
			}
		})
	}
	r.OK(rule, "dawn.(*function).diffEnv#writes-examined", p.Pos(diffEnv.Pos()), "%d append/element-store/map-update site(s) reachable from diffEnv in package dawn examined: none writes into package-level storage (violations are listed separately)", n)
}

func checkReasonTable(p *core.Prog, r *core.Result) {
	tp := p.TPkg("")
	if tp == nil {
		return
	}
	// AST: var functionEnvKeys = []starlark.String{...}
	var table []string
	var tablePos token.Pos
	for _, f := range tp.Syntax {
		ast.Inspect(f, func(n ast.Node) bool {
			vs, ok := n.(*ast.ValueSpec)
			if !ok {
				return true
			}
			for i, name := range vs.Names {
				if i >= len(vs.Values) {
					continue
				}
				cl, ok := vs.Values[i].(*ast.CompositeLit)
				if !ok {
					continue
				}
				tv, ok := tp.TypesInfo.Types[cl]
				if !ok {
					continue
				}
				sl, ok := tv.Type.Underlying().(*types.Slice)
				if !ok {
					continue
				}
				// a table of starlark.String or of plain strings
				if nt, ok := sl.Elem().(*types.Named); ok {
					if nt.Obj().Name() != "String" || nt.Obj().Pkg() == nil || nt.Obj().Pkg().Path() != pkgStar {
						continue
					}
				} else if bt, ok := sl.Elem().(*types.Basic); !ok || bt.Kind() != types.String {
					continue
				}
				// is this table used by diffEnv? (role check below); collect constants
				var vals []string
				for _, e := range cl.Elts {
					if cv, ok := tp.TypesInfo.Types[e]; ok && cv.Value != nil && cv.Value.Kind() == constant.String {
						vals = append(vals, constant.StringVal(cv.Value))
					}
				}
				if len(vals) == len(cl.Elts) && len(vals) > 0 && table == nil {
					// role: the global must be ranged over in diffEnv
					if g, ok := p.Pkg("").Members[name.Name].(*ssa.Global); ok {
						diffEnv := p.Func("", "function", "diffEnv")
						used := false
						if diffEnv != nil {
							// diffEnv itself or a helper of its package it calls
							for f := range staticClosure(p, diffEnv) {
								if f.Pkg != diffEnv.Pkg {
									continue
								}
								core.Instrs(f, func(in ssa.Instruction) {
									var ops []*ssa.Value
									for _, op := range in.Operands(ops) {
										if *op == ssa.Value(g) {
											used = true
										}
									}
								})
							}
						}
						if used {
							table = vals
							tablePos = vs.Pos()
						}
					}
				}
			}
			return true
		})
	}
	if table == nil {
		r.Unk("R16.4", "dawn#reason-table", "-", "no []starlark.String table used by (*function).diffEnv found")
		return
	}
	// unpickler keys
	keys := map[string]bool{}
	for _, u := range funcsConvertedTo(p, pkgPickle, "UnpicklerFunc") {
		// the unpickler and the helpers of its package it calls (a case may be moved into a function of its own)
		for f := range staticClosure(p, u) {
			if f.Pkg != u.Pkg {
				continue
			}
			for _, c := range core.Calls(f) {
				if !core.IsMethod(c, pkgStar, "Dict", "SetKey") {
					continue
				}
				// every string constant the key can be: directly, or through a table of entries that is looped over
				for v := range core.BackwardSlice(c.Common().Args[1], core.SliceOpts{Stores: true}) {
					if cs, isConst := v.(*ssa.Const); isConst {
						if s, ok := core.ConstString(cs); ok {
							keys[s] = true
						}
					}
				}
			}
		}
	}
	tset := map[string]bool{}
	for _, t := range table {
		tset[t] = true
	}
	var missing, extra []string
	for k := range keys {
		if !tset[k] {
			missing = append(missing, k)
		}
	}
	for t := range tset {
		if !keys[t] {
			extra = append(extra, t)
		}
	}
	sort.Strings(missing)
	sort.Strings(extra)
	r.Check(len(missing) == 0, "R16.4", "dawn#reason-table-covers-env-keys", p.Pos(tablePos), fmt.Sprintf("all %d environment keys stored by the unpickler are in the reason table", len(keys)), fmt.Sprintf("environment keys %q are stored by the unpickler but absent from the reason table: a change confined to them is reported with an empty or wrong reason", missing))
	r.Check(len(extra) == 0, "R16.4", "dawn#reason-table-no-stale-keys", p.Pos(tablePos), "every reason names a key the unpickler stores", fmt.Sprintf("reason table entries %q name no environment key: those reasons can never be reported", extra))
	r.Floor("R16.4", len(keys), 4, "environment keys stored by the unpickler")
}

// checkSnakeEquality implements R16.8 on (*differ).snake.
func checkSnakeEquality(p *core.Prog, r *core.Result, rule string) {
	snake := need(p, r, rule, "diff", "differ", "snake")
	if snake == nil {
		return
	}
	// Index(i) on diff.a / diff.b
	indexOf := func(v ssa.Value) (field string, idx ssa.Value) {
		c, ok := v.(*ssa.Call)
		if !ok || !c.Call.IsInvoke() || c.Call.Method.Name() != "Index" || len(c.Call.Args) != 1 {
			return "", nil
		}
		for _, f := range []string{"a", "b"} {
			if core.LoadOfField(c.Call.Value, pkgDiff, "differ", f) {
				return f, c.Call.Args[0]
			}
		}
		return "", nil
	}
	n := 0
	var fam []*ssa.Function
	for fn := range family(p, snake) {
		fam = append(fam, fn)
	}
	sort.Slice(fam, func(i, j int) bool { return fam[i].String() < fam[j].String() })
	for _, fn := range fam {
		core.Instrs(fn, func(in ssa.Instruction) {
			inc, ok := in.(*ssa.BinOp)
			if !ok || inc.Op != token.ADD {
				return
			}
			if k, okk := core.ConstInt(inc.Y); !okk || k != 1 {
				return
			}
			phi, ok := inc.X.(*ssa.Phi)
			if !ok {
				return
			}
			// the incremented value flows back into the phi, directly or through the merge of an if/else
			loop := false
			seenPhi := map[*ssa.Phi]bool{}
			var back func(v ssa.Value)
			back = func(v ssa.Value) {
				refs := v.Referrers()
				if refs == nil {
					return
				}
				for _, ref := range *refs {
					ph, ok := ref.(*ssa.Phi)
					if !ok || seenPhi[ph] {
						continue
					}
					seenPhi[ph] = true
					if ph == phi {
						loop = true
						return
					}
					back(ph)
				}
			}
			back(inc)
			if !loop {
				return
			}
			n++
			okEq := p.FactsAt(inc).Find(func(cv ssa.Value, v bool) bool {
				e, isE := cv.(*ssa.Extract)
				if !isE || e.Index != 0 || !v {
					return false
				}
				c, isC := e.Tuple.(*ssa.Call)
				if !isC {
					return false
				}
				if core.IsCallTo(c, pkgStar, "EqualDepth") || core.IsCallTo(c, pkgStar, "Equal") {
					f1, i1 := indexOf(c.Call.Args[0])
					f2, i2 := indexOf(c.Call.Args[1])
					if f1 == "" || f2 == "" || f1 == f2 {
						return false
					}
					return i1 == ssa.Value(phi) || i2 == ssa.Value(phi)
				}
				// a helper that compares the elements under the cursors it is handed: every verdict it can return as true is the
				// verdict of starlark equality on a.Index(param) and b.Index(param), and the cursor is one of the arguments
				h := core.Callee(c)
				if h == nil || h.Pkg != fn.Pkg || h.Blocks == nil || c.Call.IsInvoke() {
					return false
				}
				isArg := false
				for _, a := range c.Call.Args {
					if a == ssa.Value(phi) {
						isArg = true
					}
				}
				nret := 0
				for _, ret := range core.ReturnsOf(h) {
					vals := core.RetVals(ret)
					if len(vals) == 0 {
						return false
					}
					if b, isConst := core.ConstBool(vals[0]); isConst && !b {
						continue
					}
					nret++
					he, ok := vals[0].(*ssa.Extract)
					if !ok || he.Index != 0 {
						return false
					}
					hc, ok := he.Tuple.(*ssa.Call)
					if !ok || !(core.IsCallTo(hc, pkgStar, "EqualDepth") || core.IsCallTo(hc, pkgStar, "Equal")) {
						return false
					}
					f1, i1 := indexOf(hc.Call.Args[0])
					f2, i2 := indexOf(hc.Call.Args[1])
					_, p1 := i1.(*ssa.Parameter)
					_, p2 := i2.(*ssa.Parameter)
					if f1 == "" || f2 == "" || f1 == f2 || !p1 || !p2 {
						return false
					}
				}
				return isArg && nret > 0
			})
			construct := fmt.Sprintf("%s#advance-%s", fname(fn), phi.Comment)
			r.Check(okEq, rule, construct, p.InstrPos(inc), "the cursor advances only where the elements under the two cursors compared equal as values", "a cursor of the diagonal walk advances on a path where starlark equality of a.Index(x) and b.Index(y) was not established: elements that merely look alike (the bytes of a string and of a bytes value) are reported as kept, so the edits no longer reproduce both values and unequal values can get a diff without a changing edit")
		})
	}
	r.Floor(rule, n, 2, "cursor advances in the diagonal walk")
}

// checkComposeMerge implements R16.7 on (*differ).compose.
func checkComposeMerge(p *core.Prog, r *core.Result) {
	compose := need(p, r, "R16.7", "diff", "differ", "compose")
	if compose == nil {
		return
	}
	// internal kind constants -> exported kind names
	internal := map[int64]string{}
	if tp := p.TPkg("diff"); tp != nil {
		for _, n := range []string{"Delete", "Common", "Add"} {
			if c, ok := tp.Types.Scope().Lookup("editKind" + n).(*types.Const); ok {
				v, _ := constant.Int64Val(c.Val())
				internal[v] = "EditKind" + n
			}
		}
	}
	globalName := func(v ssa.Value) string {
		if u, ok := v.(*ssa.UnOp); ok && u.Op == token.MUL {
			if g, ok := u.X.(*ssa.Global); ok {
				return g.Name()
			}
		}
		return ""
	}
	kindFieldOf := func(v ssa.Value) ssa.Value { // v = load of &E.kind -> E
		u, ok := v.(*ssa.UnOp)
		if !ok || u.Op != token.MUL {
			return nil
		}
		fa, ok := u.X.(*ssa.FieldAddr)
		if !ok {
			return nil
		}
		if _, f := core.FieldOf(fa); f != "kind" {
			return nil
		}
		return fa.X
	}
	// the internal edit a freshly built *Edit takes its kind from: kind: editKinds[int(e.kind)]
	internalSrc := func(E ssa.Value) ssa.Value {
		in, ok := E.(ssa.Instruction)
		if !ok {
			return nil
		}
		var src ssa.Value
		core.Instrs(in.Parent(), func(in ssa.Instruction) {
			st, ok := in.(*ssa.Store)
			if !ok {
				return
			}
			fa, ok := st.Addr.(*ssa.FieldAddr)
			if !ok || fa.X != E {
				return
			}
			if _, f := core.FieldOf(fa); f != "kind" {
				return
			}
			for x := range core.BackwardSlice(st.Val, core.SliceOpts{}) {
				if e := kindFieldOf(x); e != nil && e != E {
					src = e
				}
			}
		})
		return src
	}
	same := func(a, b ssa.Value) bool {
		if a == nil || b == nil {
			return false
		}
		if a == b {
			return true
		}
		// a value and the cell it was loaded from denote the same edit
		if u, ok := a.(*ssa.UnOp); ok && u.Op == token.MUL && u.X == b {
			return true
		}
		if u, ok := b.(*ssa.UnOp); ok && u.Op == token.MUL && u.X == a {
			return true
		}
		return false
	}
	// kindOf: the kind E is known to have at `at` (plus the facts of a phi edge). When E is a parameter of a merge
	// helper, the question is asked at the helper's only call site about the argument, looking through the
	// predicate helpers whose outcome is known there.
	var kindOf func(E ssa.Value, at ssa.Instruction, extra core.FactSet, depth int) string
	kindOf = func(E ssa.Value, at ssa.Instruction, extra core.FactSet, depth int) string {
		if prm, ok := E.(*ssa.Parameter); ok && depth < 2 {
			h := prm.Parent()
			callers := p.StaticCallers(h)
			if len(callers) != 1 || len(p.FuncValueUses(h)) > 0 {
				return ""
			}
			idx := paramIndex(h, prm)
			if idx < 0 || idx >= len(callers[0].Common().Args) {
				return ""
			}
			return kindOf(callers[0].Common().Args[idx], callers[0].(ssa.Instruction), nil, depth+1)
		}
		// a candidate selected on several paths (var tail *Edit; if … { tail = prior }): every non-nil alternative has the
		// same kind, judged with the facts of the edge that selects it; the nil alternative is excluded where E != nil is known
		if ph, ok := E.(*ssa.Phi); ok && depth < 3 {
			if k := func() string {
				efs := p.PhiEdgeFacts(ph)
				kind := ""
				for i, edge := range ph.Edges {
					if core.IsNilConst(edge) {
						nonNil := p.FactsAt(at).Find(func(cv ssa.Value, v bool) bool {
							b, ok := cv.(*ssa.BinOp)
							if !ok || !(b.X == ssa.Value(ph) && core.IsNilConst(b.Y) || b.Y == ssa.Value(ph) && core.IsNilConst(b.X)) {
								return false
							}
							return b.Op == token.NEQ && v || b.Op == token.EQL && !v
						})
						if !nonNil {
							return ""
						}
						continue
					}
					var ef core.FactSet
					if i < len(efs) {
						ef = efs[i]
					}
					k := kindOf(edge, at, ef, depth+1)
					if k == "" || kind != "" && k != kind {
						return ""
					}
					kind = k
				}
				return kind
			}(); k != "" {
				return k
			}
			// otherwise the kind may be known of the selection variable itself (tail.kind tested after the selection)
		}
		facts := xfacts(p, at)
		if extra != nil {
			facts = append(facts, xfactsOf(p, extra)...)
		}
		// where a selection variable is known to be non-nil and only one of its alternatives is non-nil, the facts of the edge
		// that selects that alternative hold as well (tail != nil ⇒ the path through `tail = prior` was taken)
		for fct := range p.FactsAt(at) {
			b, ok := fct.Cond.(*ssa.BinOp)
			if !ok || !(b.Op == token.NEQ && fct.Val || b.Op == token.EQL && !fct.Val) {
				continue
			}
			var ph *ssa.Phi
			if x, ok := b.X.(*ssa.Phi); ok && core.IsNilConst(b.Y) {
				ph = x
			} else if y, ok := b.Y.(*ssa.Phi); ok && core.IsNilConst(b.X) {
				ph = y
			}
			if ph == nil {
				continue
			}
			nonNil := -1
			for i, e := range ph.Edges {
				if !core.IsNilConst(e) {
					if nonNil >= 0 {
						nonNil = -2
						break
					}
					nonNil = i
				}
			}
			if efs := p.PhiEdgeFacts(ph); nonNil >= 0 && nonNil < len(efs) {
				facts = append(facts, xfactsOf(p, efs[nonNil])...)
			}
		}
		src := internalSrc(E)
		for _, f := range facts {
			bo, ok := f.Cond.(*ssa.BinOp)
			if !ok || !((bo.Op == token.EQL && f.Val) || (bo.Op == token.NEQ && !f.Val)) {
				continue
			}
			for _, pr := range [][2]ssa.Value{{bo.X, bo.Y}, {bo.Y, bo.X}} {
				base := kindFieldOf(pr[0])
				if base == nil {
					continue
				}
				e := f.Arg(base)
				if same(e, E) {
					if g := globalName(pr[1]); g != "" {
						return g
					}
				}
				if src != nil && same(e, src) {
					if k, ok := core.ConstInt(pr[1]); ok {
						return internal[k]
					}
				}
			}
		}
		return ""
	}
	// sourceEdit: v is (a phi edge of) the elements of an edit: load of &E.Sliceable
	sourceEdit := func(v ssa.Value) ssa.Value {
		u, ok := core.Unwrap(v).(*ssa.UnOp)
		if !ok || u.Op != token.MUL {
			return nil
		}
		fa, ok := u.X.(*ssa.FieldAddr)
		if !ok {
			return nil
		}
		if _, f := core.FieldOf(fa); f != "Sliceable" {
			return nil
		}
		return fa.X
	}
	// alternatives: the values v can be, each with the facts of the path that selects it
	type alt struct {
		v     ssa.Value
		facts core.FactSet
	}
	alts := func(v ssa.Value) []alt {
		if ph, ok := v.(*ssa.Phi); ok {
			efs := p.PhiEdgeFacts(ph)
			var out []alt
			for i, e := range ph.Edges {
				out = append(out, alt{e, efs[i]})
			}
			return out
		}
		return []alt{{v, nil}}
	}
	isSliceCall := func(v ssa.Value) (*ssa.Call, bool) {
		c, ok := v.(*ssa.Call)
		if !ok {
			return nil, false
		}
		if h := core.Callee(c); h != nil && h.Pkg == compose.Pkg && h.Name() == "slice" && len(c.Call.Args) == 3 && c.Parent().Name() != "diffReplacements" {
			return c, true
		}
		return nil, false
	}
	nSurplus, nRepl := 0, 0
	var hosts []*ssa.Function
	for f := range staticClosure(p, compose) {
		if f.Pkg == compose.Pkg && f.Name() != "diffReplacements" {
			hosts = append(hosts, f)
		}
	}
	sort.Slice(hosts, func(i, j int) bool { return hosts[i].Pos() < hosts[j].Pos() })
	visit := func(in ssa.Instruction) {
		switch x := in.(type) {
		case *ssa.Store:
			fa, ok := x.Addr.(*ssa.FieldAddr)
			if !ok {
				return
			}
			if _, f := core.FieldOf(fa); f != "Sliceable" {
				return
			}
			sc, ok := isSliceCall(x.Val)
			if !ok {
				return
			}
			nSurplus++
			construct := fmt.Sprintf("diff.(*differ).compose#surplus-%d", nSurplus)
			target := fa.X
			// an explicit kind given to the target in the same block
			explicit := ""
			for _, bi := range x.Block().Instrs {
				if st, ok := bi.(*ssa.Store); ok {
					if f2, ok := st.Addr.(*ssa.FieldAddr); ok && f2.X == target {
						if _, f := core.FieldOf(f2); f == "kind" {
							explicit = globalName(st.Val)
						}
					}
				}
			}
			okAll, detail := true, ""
			for _, a := range alts(sc.Call.Args[0]) {
				src := sourceEdit(a.v)
				if src == nil {
					okAll, detail = false, "the surplus is not cut from the elements of an edit"
					continue
				}
				from := kindOf(src, x, a.facts, 0)
				final := explicit
				if final == "" {
					final = kindOf(target, x, a.facts, 0)
				}
				if from == "" || final == "" {
					okAll, detail = false, "the kind of the run the surplus is cut from, or of the edit that keeps it, is not determined on this path"
					continue
				}
				if from != final {
					okAll, detail = false, fmt.Sprintf("elements cut from a run of kind %s are kept in an edit of kind %s", from, final)
				}
			}
			r.Check(okAll, "R16.7", construct, p.InstrPos(x), "the surplus of the longer run keeps the kind of the run it was cut from", "when a delete/add pair of different lengths is merged into a replace, "+detail+": the left-over elements are reported on the wrong side, so the old value rebuilt from the edits gains elements it never had and the new value loses them")
		case *ssa.Call:
			h := core.Callee(x)
			if h == nil || h.Pkg != compose.Pkg || h.Name() != "diffReplacements" || len(x.Call.Args) < 2 {
				return
			}
			nRepl++
			construct := fmt.Sprintf("diff.(*differ).compose#replace-%d", nRepl)
			sideOf := func(v ssa.Value) []string {
				if sc, ok := isSliceCall(v); ok {
					v = sc.Call.Args[0]
				}
				var out []string
				for _, a := range alts(v) {
					if src := sourceEdit(a.v); src != nil {
						out = append(out, kindOf(src, x, a.facts, 0))
					} else {
						out = append(out, "")
					}
				}
				return out
			}
			okOrder := true
			olds, news := sideOf(x.Call.Args[0]), sideOf(x.Call.Args[1])
			for _, k := range olds {
				if k != "EditKindDelete" {
					okOrder = false
				}
			}
			for _, k := range news {
				if k != "EditKindAdd" {
					okOrder = false
				}
			}
			r.Check(okOrder && len(olds) > 0 && len(news) > 0, "R16.7", construct, p.InstrPos(x), "the element-wise diff of a replace takes the deleted run as old and the added run as new", "the element-wise diff of a merged delete/add pair does not take the deleted run as its old side and the added run as its new side: the replace reports the two values swapped")
		}
	}
	for _, h := range hosts {
		core.Instrs(h, visit)
	}
	r.Floor("R16.7", nSurplus, 2, "surplus edits kept when merging a delete/add pair")
	r.Floor("R16.7", nRepl, 2, "element-wise diffs of merged pairs")
}

package rules

import (
	"fmt"
	"go/constant"
	"go/token"
	"go/types"
	"math"
	"sort"
	"strings"

	"dawnverif/checker/core"

	"golang.org/x/tools/go/ssa"
)

// ---------- opcode constants ----------

type opTable struct {
	byVal  map[int64]string
	byName map[string]int64
	dups   []string
}

func loadOpTable(p *core.Prog) *opTable {
	t := &opTable{byVal: map[int64]string{}, byName: map[string]int64{}}
	tp := p.TPkg("pickle")
	if tp == nil {
		return t
	}
	sc := tp.Types.Scope()
	names := sc.Names()
	sort.Strings(names)
	for _, n := range names {
		c, ok := sc.Lookup(n).(*types.Const)
		if !ok || !strings.HasPrefix(n, "op") || c.Val().Kind() != constant.Int {
			continue
		}
		v, _ := constant.Int64Val(c.Val())
		if other, dup := t.byVal[v]; dup {
			t.dups = append(t.dups, fmt.Sprintf("%s=%s=%d", other, n, v))
			continue
		}
		t.byVal[v] = n
		t.byName[n] = v
	}
	return t
}

func (t *opTable) name(v int64) string {
	if n, ok := t.byVal[v]; ok {
		return n
	}
	return fmt.Sprintf("0x%02x", v)
}

// ---------- encoder emissions ----------

type payloadByte struct {
	Val   ssa.Value // value after stripping integer conversions
	Shift int64
}

type emission struct {
	Op      int64
	Fn      *ssa.Function
	Instr   ssa.Instruction // the Write/WriteByte call
	Site    ssa.Instruction // where the opcode constant appears (== Instr, or the call site passing it as argument)
	Payload []payloadByte
	Raw     bool // raw data byte(s), not an opcode
}

func stripConv(v ssa.Value) ssa.Value {
	for {
		switch x := v.(type) {
		case *ssa.Convert:
			if isInteger(x.Type()) && isInteger(x.X.Type()) {
				v = x.X
				continue
			}
		case *ssa.ChangeType:
			v = x.X
			continue
		case *ssa.BinOp:
			// masking the low byte(s) before a narrowing conversion does not change the byte written
			if x.Op == token.AND {
				if k, ok := core.ConstInt(x.Y); ok && (k == 0xff || k == 0xffff || k == 0xffffffff) {
					v = x.X
					continue
				}
			}
		}
		return v
	}
}

func isInteger(t types.Type) bool {
	b, ok := t.Underlying().(*types.Basic)
	return ok && b.Info()&types.IsInteger != 0
}

// isWriterCall: c is a call of method `name` on pickle.writer.
func isWriterCall(c ssa.CallInstruction, name string) bool {
	return core.IsMethod(c, pkgPickle, "writer", name)
}

type emitTemplate struct {
	opParam int // index into fn.Params of the opcode byte, or -1
	em      emission
}

// extractEmissions returns the opcode emissions of the pickle encoder: direct ones and, for helper
// functions that take the opcode as a parameter (encodeString), one per constant call site.
func extractEmissions(p *core.Prog, r *core.Result, ops *opTable, rule string) []emission {
	sp := p.Pkg("pickle")
	var out []emission
	templates := map[*ssa.Function][]emitTemplate{}
	for _, fn := range p.ModuleFuncs() {
		if fn.Pkg != sp && (fn.Parent() == nil || fn.Parent().Pkg != sp) {
			continue
		}
		// methods of writer itself implement the sink; skip
		if fn.Signature.Recv() != nil && recvNamed(fn) == "writer" {
			continue
		}
		for _, c := range core.Calls(fn) {
			in := c.(ssa.Instruction)
			args := c.Common().Args
			switch {
			case isWriterCall(c, "WriteByte"):
				b := args[1]
				if k, ok := core.ConstInt(b); ok {
					if _, isOp := ops.byVal[k]; isOp {
						out = append(out, emission{Op: k, Fn: fn, Instr: in, Site: in})
					} else {
						out = append(out, emission{Op: k, Fn: fn, Instr: in, Site: in, Raw: true})
					}
				} else if prm, ok := b.(*ssa.Parameter); ok {
					templates[fn] = append(templates[fn], emitTemplate{opParam: paramIndex(fn, prm), em: emission{Fn: fn, Instr: in}})
				} else if ph, ok := b.(*ssa.Phi); ok && phiOfOpcodes(ph, ops) != nil {
					// the opcode was chosen into a variable: one emission per alternative
					for _, k := range phiOfOpcodes(ph, ops) {
						out = append(out, emission{Op: k, Fn: fn, Instr: in, Site: in})
					}
				} else {
					r.Unk(rule, fname(fn)+"#WriteByte-nonconst", p.InstrPos(in), "WriteByte of a non-constant byte: cannot tell which opcode is emitted")
				}
			case isWriterCall(c, "Write"):
				sl, ok := args[1].(*ssa.Slice)
				if !ok {
					continue // raw data (text, string bytes)
				}
				arr, ok := sl.X.(*ssa.Alloc)
				if !ok {
					continue
				}
				at, ok := arr.Type().Underlying().(*types.Pointer).Elem().Underlying().(*types.Array)
				if !ok {
					continue
				}
				n := at.Len()
				if sl.High != nil {
					if h, ok := core.ConstInt(sl.High); ok {
						n = h
					}
				}
				bytes := make([]ssa.Value, n)
				for _, bi := range in.Block().Instrs {
					if bi == in {
						break
					}
					st, ok := bi.(*ssa.Store)
					if !ok {
						continue
					}
					ia, ok := st.Addr.(*ssa.IndexAddr)
					if !ok || ia.X != ssa.Value(arr) {
						continue
					}
					if k, ok := core.ConstInt(ia.Index); ok && k < n {
						bytes[k] = st.Val
					}
				}
				// binary.LittleEndian.PutUintNN(scratch[lo:], v): NN/8 payload bytes of v, least significant first
				synth := map[int64]payloadByte{}
				for _, bi := range in.Block().Instrs {
					if bi == in {
						break
					}
					pc, ok := bi.(*ssa.Call)
					if !ok {
						continue
					}
					cal := core.Callee(pc)
					if cal == nil || cal.Pkg == nil || cal.Pkg.Pkg.Path() != "encoding/binary" || cal.Signature.Recv() == nil || !strings.HasPrefix(cal.Name(), "PutUint") {
						continue
					}
					if rn := recvNamed(cal); rn != "littleEndian" {
						continue
					}
					width := int64(0)
					switch cal.Name() {
					case "PutUint16":
						width = 2
					case "PutUint32":
						width = 4
					case "PutUint64":
						width = 8
					}
					pargs := pc.Call.Args
					if width == 0 || len(pargs) != 3 {
						continue
					}
					dst, ok := pargs[1].(*ssa.Slice)
					if !ok || dst.X != ssa.Value(arr) {
						continue
					}
					lo := int64(0)
					if dst.Low != nil {
						l, ok := core.ConstInt(dst.Low)
						if !ok {
							continue
						}
						lo = l
					}
					for i := int64(0); i < width && lo+i < n; i++ {
						synth[lo+i] = payloadByte{Val: stripConv(pargs[2]), Shift: 8 * i}
						bytes[lo+i] = pargs[2]
					}
				}
				complete := true
				for _, b := range bytes {
					if b == nil {
						complete = false
					}
				}
				if !complete || n == 0 {
					r.Unk(rule, fname(fn)+"#Write-scratch", p.InstrPos(in), "cannot recover all %d bytes written from the scratch array in the emitting block", n)
					continue
				}
				em := emission{Fn: fn, Instr: in, Site: in}
				for bi, b := range bytes[1:] {
					if sp, ok := synth[int64(bi)+1]; ok {
						em.Payload = append(em.Payload, sp)
						continue
					}
					v := stripConv(b)
					pb := payloadByte{Val: v}
					if bo, ok := v.(*ssa.BinOp); ok && bo.Op == token.SHR {
						if s, ok := core.ConstInt(bo.Y); ok {
							pb = payloadByte{Val: stripConv(bo.X), Shift: s}
						}
					}
					em.Payload = append(em.Payload, pb)
				}
				if k, ok := core.ConstInt(bytes[0]); ok {
					em.Op = k
					if _, isOp := ops.byVal[k]; !isOp {
						em.Raw = true
					}
					out = append(out, em)
				} else if prm, ok := bytes[0].(*ssa.Parameter); ok {
					templates[fn] = append(templates[fn], emitTemplate{opParam: paramIndex(fn, prm), em: em})
				} else {
					r.Unk(rule, fname(fn)+"#Write-op-nonconst", p.InstrPos(in), "first byte of a fixed-width emission is neither a constant nor a parameter")
				}
			}
		}
	}
	// instantiate templates at their call sites (an opcode parameter may be forwarded through one more helper)
	pending := map[*ssa.Function][]emitTemplate{}
	depthOf := map[*ssa.Function]int{}
	for round := 0; round < 3 && len(templates) > 0; round++ {
		for fn, ts := range templates {
			if u := p.FuncValueUses(fn); len(u) > 0 {
				r.Unk(rule, fname(fn)+"#template-escapes", p.InstrPos(u[0]), "opcode-parameterised emitter escapes as a value")
			}
			for _, c := range p.StaticCallers(fn) {
				for _, t := range ts {
					arg := c.Common().Args[t.opParam]
					k, ok := core.ConstInt(arg)
					if !ok {
						if prm, isParam := arg.(*ssa.Parameter); isParam && depthOf[fn] < 2 {
							// forwarded opcode parameter: the caller is a template too
							caller := c.Parent()
							nt := t
							nt.opParam = paramIndex(caller, prm)
							pending[caller] = append(pending[caller], nt)
							depthOf[caller] = depthOf[fn] + 1
							continue
						}
						r.Unk(rule, fname(fn)+"#template-arg", p.InstrPos(c.(ssa.Instruction)), "opcode argument is not a constant")
						continue
					}
					em := t.em
					em.Op = k
					em.Site = c.(ssa.Instruction)
					if _, isOp := ops.byVal[k]; !isOp {
						em.Raw = true
					}
					out = append(out, em)
				}
			}
		}
		templates = pending
		pending = map[*ssa.Function][]emitTemplate{}
	}
	sort.SliceStable(out, func(i, j int) bool { return out[i].Op < out[j].Op })
	return out
}

func paramIndex(fn *ssa.Function, prm *ssa.Parameter) int {
	for i, q := range fn.Params {
		if q == prm {
			return i
		}
	}
	return -1
}

// ---------- decoder cases ----------

type decRead struct {
	Kind  string // "byte", "u32", "u64"
	Call  *ssa.Call
	Width int
}

type decCase struct {
	Op     int64
	Entry  *ssa.BasicBlock
	Region []*ssa.BasicBlock
	Reads  []decRead
	Pushes []*ssa.Call
	Pops   []*ssa.Call
	// PopLand[i] (if present): the index of the tuple built by a counted-loop helper (popTuple(n)) at which the i-th
	// entry of Pops lands
	PopLand map[int]int64
}

type decoderTable struct {
	Fn       *ssa.Function
	OpValue  ssa.Value
	Cases    map[int64]*decCase
	Default  *ssa.BasicBlock
	readByte *ssa.Function
	readU32  *ssa.Function
	readU64  *ssa.Function
	push     *ssa.Function
	pop      *ssa.Function
}

func extractDecoder(p *core.Prog, r *core.Result, rule string) *decoderTable {
	dec := need(p, r, rule, "pickle", "Decoder", "decode")
	if dec == nil {
		return nil
	}
	dt := &decoderTable{Fn: dec, Cases: map[int64]*decCase{},
		readByte: p.Func("pickle", "Decoder", "readByte"), readU32: p.Func("pickle", "Decoder", "readUint32"),
		readU64: p.Func("pickle", "Decoder", "readUint64"), push: p.Func("pickle", "Decoder", "push"), pop: p.Func("pickle", "Decoder", "pop")}
	if dt.readByte == nil || dt.push == nil || dt.pop == nil {
		r.Unk(rule, "anchor:pickle.Decoder.readByte/push/pop", "-", "decoder helpers not found")
		return nil
	}
	// the dispatch value: result of a readByte call compared with constants in If chains
	counts := map[ssa.Value]int{}
	core.Instrs(dec, func(in ssa.Instruction) {
		if b, ok := in.(*ssa.BinOp); ok && b.Op == token.EQL {
			if _, ok := core.ConstInt(b.Y); ok {
				if c, ok := b.X.(*ssa.Call); ok && core.Callee(c) == dt.readByte {
					counts[b.X]++
				}
			}
		}
	})
	for v, n := range counts {
		if dt.OpValue == nil || n > counts[dt.OpValue] {
			dt.OpValue = v
		}
	}
	// the dispatch may be split over helpers that receive the opcode (decodeScalar(op) bool, ...): their parameter
	// stands for the opcode read in decode
	type dispatch struct {
		fn *ssa.Function
		op ssa.Value
	}
	var disp []dispatch
	if dt.OpValue != nil {
		disp = append(disp, dispatch{dec, dt.OpValue})
	}
	core.Instrs(dec, func(in ssa.Instruction) {
		c, ok := in.(*ssa.Call)
		if !ok {
			return
		}
		h := core.Callee(c)
		if h == nil || h.Blocks == nil || h.Pkg != dec.Pkg || h == dec {
			return
		}
		for ai, a := range c.Call.Args {
			rc, ok := a.(*ssa.Call)
			if !ok || core.Callee(rc) != dt.readByte || ai >= len(h.Params) {
				continue
			}
			if dt.OpValue != nil && a != dt.OpValue {
				continue
			}
			prm := h.Params[ai]
			n := 0
			core.Instrs(h, func(hin ssa.Instruction) {
				if b, ok := hin.(*ssa.BinOp); ok && b.Op == token.EQL && b.X == ssa.Value(prm) {
					if _, ok := core.ConstInt(b.Y); ok {
						n++
					}
				}
			})
			if n >= 2 && len(p.StaticCallers(h)) == 1 {
				disp = append(disp, dispatch{h, prm})
				if dt.OpValue == nil {
					dt.OpValue = a
				}
			}
		}
	})
	if dt.OpValue == nil {
		r.Unk(rule, "pickle.(*Decoder).decode#dispatch", p.Pos(dec.Pos()), "no opcode dispatch (readByte result compared with constants) recognised")
		return nil
	}
	caseFn := map[*decCase]*ssa.Function{}
	for _, dsp := range disp {
		for _, b := range dsp.fn.Blocks {
			iff, ok := b.Instrs[len(b.Instrs)-1].(*ssa.If)
			if !ok {
				continue
			}
			cmp, ok := iff.Cond.(*ssa.BinOp)
			if !ok || cmp.Op != token.EQL || cmp.X != dsp.op {
				continue
			}
			k, ok := core.ConstInt(cmp.Y)
			if !ok {
				continue
			}
			entry := b.Succs[0]
			dc := dt.Cases[k]
			if dc == nil {
				dc = &decCase{Op: k, Entry: entry}
				dt.Cases[k] = dc
				caseFn[dc] = dsp.fn
			}
			// default = false successor of the last comparison that is not itself a comparison block
			els := b.Succs[1]
			isCmp := false
			if len(els.Instrs) > 0 {
				if i2, ok := els.Instrs[len(els.Instrs)-1].(*ssa.If); ok {
					if c2, ok := i2.Cond.(*ssa.BinOp); ok && c2.X == dsp.op {
						isCmp = true
					}
				}
			}
			if !isCmp && dsp.fn == dec {
				dt.Default = els
			}
		}
	}
	for _, dc := range dt.Cases {
		for _, b := range caseFn[dc].Blocks {
			if dc.Entry.Dominates(b) {
				dc.Region = append(dc.Region, b)
			}
		}
		sort.Slice(dc.Region, func(i, j int) bool { return dc.Region[i].Index < dc.Region[j].Index })
		for _, b := range dc.Region {
			for _, in := range b.Instrs {
				c, ok := in.(*ssa.Call)
				if !ok {
					continue
				}
				switch core.Callee(c) {
				case dt.readByte:
					dc.Reads = append(dc.Reads, decRead{"byte", c, 1})
				case dt.readU32:
					if dt.readU32 != nil {
						dc.Reads = append(dc.Reads, decRead{"u32", c, 4})
					}
				case dt.readU64:
					if dt.readU64 != nil {
						dc.Reads = append(dc.Reads, decRead{"u64", c, 8})
					}
				case dt.push:
					dc.Pushes = append(dc.Pushes, c)
				case dt.pop:
					dc.Pops = append(dc.Pops, c)
				default:
					// a helper that pops one operand and hands it on (popGlobalPart() string) is a pop of the case
					if cnt, desc, ok := countedPopLoop(dt, c); ok {
						if dc.PopLand == nil {
							dc.PopLand = map[int]int64{}
						}
						for i := int64(0); i < cnt; i++ {
							if desc {
								dc.PopLand[len(dc.Pops)] = cnt - 1 - i
							} else {
								dc.PopLand[len(dc.Pops)] = i
							}
							dc.Pops = append(dc.Pops, c)
						}
						break
					}
					if k := popWrapperCount(dt, core.Callee(c)); k > 0 {
						for i := 0; i < k; i++ {
							dc.Pops = append(dc.Pops, c)
						}
						break
					}
					// a helper that reads k single bytes and combines them little-endian is a k-byte reader
					if w := byteReaderWidth(dt, core.Callee(c)); w > 0 {
						dc.Reads = append(dc.Reads, decRead{fmt.Sprintf("u%d", 8*w), c, w})
						break
					}
					// a helper of the decoder that reads the payload itself (e.g. decodeShort): its reads are the
					// reads of the case
					collectHelperReads(dt, dc, core.Callee(c), 0)
				}
			}
		}
	}
	return dt
}

// collectHelperReads adds the fixed-width reads performed (outside loops) by a Decoder helper called from a case.
func collectHelperReads(dt *decoderTable, dc *decCase, h *ssa.Function, depth int) {
	if h == nil || h.Blocks == nil || depth > 1 || h.Signature.Recv() == nil || recvNamed(h) != "Decoder" || h.Pkg == nil || h.Pkg.Pkg.Path() != pkgPickle {
		return
	}
	switch h {
	case dt.readByte, dt.readU32, dt.readU64, dt.push, dt.pop, dt.Fn:
		return
	}
	for _, b := range h.Blocks {
		if core.Reaches(b, b, false) {
			continue
		}
		for _, in := range b.Instrs {
			c, ok := in.(*ssa.Call)
			if !ok {
				continue
			}
			switch core.Callee(c) {
			case dt.readByte:
				dc.Reads = append(dc.Reads, decRead{"byte", c, 1})
			case dt.readU32:
				if dt.readU32 != nil {
					dc.Reads = append(dc.Reads, decRead{"u32", c, 4})
				}
			case dt.readU64:
				if dt.readU64 != nil {
					dc.Reads = append(dc.Reads, decRead{"u64", c, 8})
				}
			default:
				if w := byteReaderWidth(dt, core.Callee(c)); w > 0 {
					dc.Reads = append(dc.Reads, decRead{fmt.Sprintf("u%d", 8*w), c, w})
					break
				}
				collectHelperReads(dt, dc, core.Callee(c), depth+1)
			}
		}
	}
}

// orTree decomposes v into sources combined with | and << const; returns source -> shift.
func orTree(v ssa.Value, shift int64, out map[ssa.Value]int64) {
	v = stripConv(v)
	if b, ok := v.(*ssa.BinOp); ok {
		switch b.Op {
		case token.OR, token.ADD, token.XOR:
			orTree(b.X, shift, out)
			orTree(b.Y, shift, out)
			return
		case token.SHL:
			if s, ok := core.ConstInt(b.Y); ok {
				orTree(b.X, shift+s, out)
				return
			}
		}
	}
	out[v] = shift
}

// checkReadHelper verifies that a fixed-width read helper reads exactly n bytes and assembles them little-endian.
func checkReadHelper(p *core.Prog, r *core.Result, rule string, fn *ssa.Function, n int) {
	if fn == nil {
		return
	}
	construct := fname(fn) + "#little-endian"
	rets := core.ReturnsOf(fn)
	if len(rets) != 1 {
		r.Unk(rule, construct, p.Pos(fn.Pos()), "expected a single return")
		return
	}
	// library form: binary.LittleEndian.UintNN(b[:]) over the array filled by a full Read
	if lc, ok := stripConv(core.RetVals(rets[0])[0]).(*ssa.Call); ok {
		if cal := core.Callee(lc); cal != nil && core.CalleeKey(cal) == fmt.Sprintf("encoding/binary.(littleEndian).Uint%d", 8*n) {
			// the buffer may be filled and handed back by a helper of the decoder (d.fill(raw[:]) reads into its
			// argument with a full Read and returns it)
			if fc, isCall := lc.Call.Args[len(lc.Call.Args)-1].(*ssa.Call); isCall {
				if h := core.Callee(fc); h != nil && h.Blocks != nil && h.Pkg == fn.Pkg && len(fc.Call.Args) == 2 {
					hp := h.Params[1]
					returnsArg, reads := true, false
					for _, hr := range core.ReturnsOf(h) {
						if hv := core.RetVals(hr); len(hv) != 1 || hv[0] != ssa.Value(hp) {
							returnsArg = false
						}
					}
					for _, c := range core.Calls(h) {
						if core.IsMethod(c, pkgPickle, "reader", "Read") && c.Common().Args[1] == ssa.Value(hp) {
							for _, hr := range core.ReturnsOf(h) {
								if core.Dominates(c.(ssa.Instruction), hr) {
									reads = true
								}
							}
						}
					}
					if sl, isSlice := fc.Call.Args[1].(*ssa.Slice); isSlice && sl.Low == nil && sl.High == nil && returnsArg && reads {
						if at, ok := sl.X.Type().Underlying().(*types.Pointer).Elem().Underlying().(*types.Array); ok {
							r.Check(at.Len() == int64(n), rule, construct, p.Pos(fn.Pos()), fmt.Sprintf("reads %d bytes (through %s, which fills its argument with a full Read) and decodes them with binary.LittleEndian", n, fname(h)), "the little-endian decode is not applied to a fully read buffer of the right size")
							return
						}
					}
				}
			}
			if sl, ok := lc.Call.Args[len(lc.Call.Args)-1].(*ssa.Slice); ok && sl.Low == nil && sl.High == nil {
				filled := false
				for _, c := range core.Calls(fn) {
					if core.IsMethod(c, pkgPickle, "reader", "Read") {
						if s2, ok := c.Common().Args[1].(*ssa.Slice); ok && s2.X == sl.X && s2.Low == nil && s2.High == nil {
							if at, ok := sl.X.Type().Underlying().(*types.Pointer).Elem().Underlying().(*types.Array); ok && at.Len() == int64(n) {
								filled = true
							}
						}
					}
				}
				r.Check(filled, rule, construct, p.Pos(fn.Pos()), fmt.Sprintf("reads %d bytes and decodes them with binary.LittleEndian", n), "the little-endian decode is not applied to a fully read buffer of the right size")
				return
			}
		}
	}
	// loop form: for i := n-1; i >= 0; i-- { v = v<<8 | uintNN(b[i]) } - the byte with the lowest index ends up lowest
	if harr, ok := hornerLittleEndian(stripConv(core.RetVals(rets[0])[0]), n); ok {
		filled := false
		for _, c := range core.Calls(fn) {
			if core.IsMethod(c, pkgPickle, "reader", "Read") {
				if sl, ok := c.Common().Args[1].(*ssa.Slice); ok && sl.X == harr && sl.Low == nil && sl.High == nil {
					filled = true
				}
			}
		}
		r.Check(filled, rule, construct, p.Pos(fn.Pos()), fmt.Sprintf("reads %d bytes and accumulates them from the highest index down (v = v<<8 | b[i]): byte k at bit 8k", n), "the accumulation loop does not run over a fully read buffer")
		return
	}
	srcs := map[ssa.Value]int64{}
	orTree(core.RetVals(rets[0])[0], 0, srcs)
	seen := map[int64]int64{}
	var arr ssa.Value
	for s, sh := range srcs {
		ld, ok := s.(*ssa.UnOp)
		if !ok || ld.Op != token.MUL {
			r.Bad(rule, construct, p.Pos(fn.Pos()), "result is not assembled from the bytes read")
			return
		}
		ia, ok := ld.X.(*ssa.IndexAddr)
		if !ok {
			r.Bad(rule, construct, p.Pos(fn.Pos()), "result is not assembled from the bytes read")
			return
		}
		k, ok := core.ConstInt(ia.Index)
		if !ok {
			r.Unk(rule, construct, p.Pos(fn.Pos()), "non-constant byte index")
			return
		}
		arr = ia.X
		seen[k] = sh
	}
	ok := len(seen) == n
	for k := int64(0); k < int64(n); k++ {
		if sh, has := seen[k]; !has || sh != 8*k {
			ok = false
		}
	}
	// the array is filled by a full-slice Read
	filled := false
	for _, c := range core.Calls(fn) {
		if core.IsMethod(c, pkgPickle, "reader", "Read") {
			if sl, ok := c.Common().Args[1].(*ssa.Slice); ok && sl.X == arr && sl.Low == nil && sl.High == nil {
				filled = true
			}
		}
	}
	r.Check(ok && filled, rule, construct, p.Pos(fn.Pos()), fmt.Sprintf("reads %d bytes and places byte k at bit 8k", n), fmt.Sprintf("does not assemble %d bytes little-endian (byte k at bit 8k) from a full read", n))
}

// hornerLittleEndian recognises the accumulator of `for i := n-1; i >= 0; i-- { v = v<<8 | T(arr[i]) }` and returns
// the array that is read.
func hornerLittleEndian(v ssa.Value, n int) (ssa.Value, bool) {
	acc, ok := v.(*ssa.Phi)
	if !ok || len(acc.Edges) != 2 {
		return nil, false
	}
	var step *ssa.BinOp
	zero := false
	for _, e := range acc.Edges {
		if k, ok := core.ConstInt(e); ok && k == 0 {
			zero = true
		} else if bo, ok := e.(*ssa.BinOp); ok && (bo.Op == token.OR || bo.Op == token.ADD) {
			step = bo
		}
	}
	if !zero || step == nil {
		return nil, false
	}
	var shl *ssa.BinOp
	var byteV ssa.Value
	for _, pr := range [][2]ssa.Value{{step.X, step.Y}, {step.Y, step.X}} {
		if b, ok := pr[0].(*ssa.BinOp); ok && b.Op == token.SHL && b.X == ssa.Value(acc) {
			if k, ok := core.ConstInt(b.Y); ok && k == 8 {
				shl, byteV = b, stripConv(pr[1])
			}
		}
	}
	if shl == nil {
		return nil, false
	}
	ld, ok := byteV.(*ssa.UnOp)
	if !ok || ld.Op != token.MUL {
		return nil, false
	}
	ia, ok := ld.X.(*ssa.IndexAddr)
	if !ok {
		return nil, false
	}
	idx, ok := ia.Index.(*ssa.Phi)
	if !ok || len(idx.Edges) != 2 || idx.Block() != acc.Block() {
		return nil, false
	}
	startOK, decOK := false, false
	for _, e := range idx.Edges {
		if k, ok := core.ConstInt(e); ok && k == int64(n-1) {
			startOK = true
		}
		if bo, ok := e.(*ssa.BinOp); ok && bo.Op == token.SUB && bo.X == ssa.Value(idx) {
			if k, ok := core.ConstInt(bo.Y); ok && k == 1 {
				decOK = true
			}
		}
	}
	// the loop runs while i >= 0
	condOK := false
	if iff, ok := acc.Block().Instrs[len(acc.Block().Instrs)-1].(*ssa.If); ok {
		if c, ok := iff.Cond.(*ssa.BinOp); ok && c.X == ssa.Value(idx) {
			k, isConst := core.ConstInt(c.Y)
			condOK = isConst && (c.Op == token.GEQ && k == 0 || c.Op == token.GTR && k == -1)
		}
	}
	if at, ok := ia.X.Type().Underlying().(*types.Pointer); ok {
		if arr, ok := at.Elem().Underlying().(*types.Array); !ok || arr.Len() != int64(n) {
			return nil, false
		}
	}
	if startOK && decOK && condOK {
		return ia.X, true
	}
	return nil, false
}

// byteReaderWidth: h is a decoder helper that reads k single bytes in order and returns them combined little-endian
// (first byte lowest): a k-byte unsigned reader. 0 when h is not of that shape.
func byteReaderWidth(dt *decoderTable, h *ssa.Function) int {
	if h == nil || h.Blocks == nil || len(h.Blocks) != 1 || dt.readByte == nil {
		return 0
	}
	var reads []*ssa.Call
	for _, c := range core.Calls(h) {
		call, ok := c.(*ssa.Call)
		if !ok {
			return 0
		}
		switch core.Callee(c) {
		case dt.readByte:
			reads = append(reads, call)
		default:
			return 0
		}
	}
	rets := core.ReturnsOf(h)
	if len(reads) < 2 || len(rets) != 1 || len(rets[0].Results) != 1 {
		return 0
	}
	srcs := map[ssa.Value]int64{}
	orTree(rets[0].Results[0], 0, srcs)
	if len(srcs) != len(reads) {
		return 0
	}
	for i, rd := range reads {
		if sh, ok := srcs[ssa.Value(rd)]; !ok || sh != int64(8*i) {
			return 0
		}
	}
	return len(reads)
}

// ---------- intervals ----------

type interval struct {
	lo, hi float64 // inclusive; ±Inf when unbounded
}

func (iv interval) String() string {
	f := func(x float64) string {
		if math.IsInf(x, 0) {
			if x < 0 {
				return "-inf"
			}
			return "+inf"
		}
		return fmt.Sprintf("%.0f", x)
	}
	return "[" + f(iv.lo) + "," + f(iv.hi) + "]"
}

// guardInterval computes the interval of integer value v implied by the must-facts at instruction at.
func guardInterval(p *core.Prog, v ssa.Value, at ssa.Instruction) interval {
	iv := intervalUnder(p.FactsAt(at), v)
	// a value handed back by a helper together with a verdict - i64, small := smallInt(x) - is constrained by what holds
	// inside the helper on the paths where it returns that verdict
	if e, ok := stripConv(v).(*ssa.Extract); ok {
		if call, ok := e.Tuple.(*ssa.Call); ok {
			for f := range p.FactsAt(at) {
				e2, ok := f.Cond.(*ssa.Extract)
				if !ok || e2.Tuple != ssa.Value(call) || e2.Index == e.Index {
					continue
				}
				cases := p.CalleeTupleCases(call, e2.Index, f.Val)
				if len(cases) == 0 {
					continue
				}
				lo, hi := math.Inf(1), math.Inf(-1)
				for _, tc := range cases {
					if e.Index >= len(tc.Rets) {
						lo, hi = math.Inf(-1), math.Inf(1)
						break
					}
					ci := intervalUnder(tc.Facts, tc.Rets[e.Index])
					lo, hi = math.Min(lo, ci.lo), math.Max(hi, ci.hi)
				}
				iv.lo, iv.hi = math.Max(iv.lo, lo), math.Min(iv.hi, hi)
			}
		}
	}
	return iv
}

// intervalUnder computes the interval of integer value v implied by a fact set.
func intervalUnder(fs core.FactSet, v ssa.Value) interval {
	iv := interval{math.Inf(-1), math.Inf(1)}
	v = stripConv(v)
	for f := range fs {
		b, ok := f.Cond.(*ssa.BinOp)
		if !ok {
			continue
		}
		op := b.Op
		var k int64
		if stripConv(b.X) == v {
			c, ok := core.ConstInt(b.Y)
			if !ok {
				continue
			}
			k = c
		} else if stripConv(b.Y) == v {
			c, ok := core.ConstInt(b.X)
			if !ok {
				continue
			}
			k = c
			// mirror: k op v  ==  v op' k
			switch op {
			case token.LSS:
				op = token.GTR
			case token.LEQ:
				op = token.GEQ
			case token.GTR:
				op = token.LSS
			case token.GEQ:
				op = token.LEQ
			}
		} else {
			continue
		}
		if !f.Val { // negate
			switch op {
			case token.LSS:
				op = token.GEQ
			case token.LEQ:
				op = token.GTR
			case token.GTR:
				op = token.LEQ
			case token.GEQ:
				op = token.LSS
			case token.EQL:
				op = token.NEQ
			case token.NEQ:
				op = token.EQL
			}
		}
		kf := float64(k)
		switch op {
		case token.LSS:
			iv.hi = math.Min(iv.hi, kf-1)
		case token.LEQ:
			iv.hi = math.Min(iv.hi, kf)
		case token.GTR:
			iv.lo = math.Max(iv.lo, kf+1)
		case token.GEQ:
			iv.lo = math.Max(iv.lo, kf)
		case token.EQL:
			iv.lo, iv.hi = math.Max(iv.lo, kf), math.Min(iv.hi, kf)
		}
	}
	return iv
}

// nonNegative: v is structurally >= 0: a len() result, a non-negative constant, or the result of an
// in-package function all of whose returns are such values or lookups in a map that only ever
// receives such values.
func nonNegative(p *core.Prog, v ssa.Value, depth int) bool {
	v = stripConv(v)
	if depth > 4 {
		return false
	}
	switch x := v.(type) {
	case *ssa.Parameter:
		// every static caller passes a non-negative value
		fn := x.Parent()
		idx := paramIndex(fn, x)
		callers := p.StaticCallers(fn)
		if idx < 0 || len(callers) == 0 || len(p.FuncValueUses(fn)) > 0 {
			return false
		}
		for _, c := range callers {
			if idx >= len(c.Common().Args) || !nonNegative(p, c.Common().Args[idx], depth+1) {
				return false
			}
		}
		return true
	case *ssa.UnOp:
		// a counter field: only ever assigned non-negative constants or itself plus a non-negative constant
		if x.Op != token.MUL {
			return false
		}
		fa, ok := x.X.(*ssa.FieldAddr)
		if !ok {
			return false
		}
		owner, field := core.FieldOf(fa)
		if owner == nil {
			return false
		}
		okAll := true
		for _, fn := range p.ModuleFuncs() {
			core.Instrs(fn, func(in ssa.Instruction) {
				st, ok := in.(*ssa.Store)
				if !ok {
					return
				}
				f2, ok := st.Addr.(*ssa.FieldAddr)
				if !ok {
					return
				}
				if o2, fl2 := core.FieldOf(f2); o2 != owner || fl2 != field {
					return
				}
				val := stripConv(st.Val)
				if k, ok := core.ConstInt(val); ok && k >= 0 {
					return
				}
				if bo, ok := val.(*ssa.BinOp); ok && bo.Op == token.ADD {
					if l, ok := bo.X.(*ssa.UnOp); ok && l.Op == token.MUL {
						if f3, ok := l.X.(*ssa.FieldAddr); ok {
							if o3, fl3 := core.FieldOf(f3); o3 == owner && fl3 == field {
								if k, ok := core.ConstInt(bo.Y); ok && k >= 0 {
									return
								}
							}
						}
					}
				}
				okAll = false
			})
		}
		return okAll
	case *ssa.Const:
		k, ok := core.ConstInt(x)
		return ok && k >= 0
	case *ssa.Call:
		if b, ok := x.Call.Value.(*ssa.Builtin); ok && (b.Name() == "len" || b.Name() == "cap") {
			return true
		}
	case *ssa.Extract:
		switch t := x.Tuple.(type) {
		case *ssa.Call:
			callee := core.Callee(t)
			if callee == nil || !core.InModule(callee) {
				return false
			}
			for _, ret := range core.ReturnsOf(callee) {
				vals := core.RetVals(ret)
				if x.Index >= len(vals) || !nonNegative(p, vals[x.Index], depth+1) {
					return false
				}
			}
			return true
		case *ssa.Lookup:
			// map lookup: every update of that map field stores a non-negative value
			ld, ok := t.X.(*ssa.UnOp)
			if !ok {
				return false
			}
			fa, ok := ld.X.(*ssa.FieldAddr)
			if !ok {
				return false
			}
			owner, field := core.FieldOf(fa)
			if owner == nil {
				return false
			}
			okAll, n := true, 0
			for _, fn := range p.ModuleFuncs() {
				core.Instrs(fn, func(in ssa.Instruction) {
					mu, ok := in.(*ssa.MapUpdate)
					if !ok {
						return
					}
					l2, ok := mu.Map.(*ssa.UnOp)
					if !ok {
						return
					}
					f2, ok := l2.X.(*ssa.FieldAddr)
					if !ok {
						return
					}
					if o2, fl2 := core.FieldOf(f2); o2 == owner && fl2 == field {
						n++
						if !nonNegative(p, mu.Value, depth+1) {
							okAll = false
						}
					}
				})
			}
			return okAll && n > 0
		}
	}
	return false
}

// decodedRange computes the value range the decoder reconstructs for a case: width bytes, signed when
// the assembled value passes through a conversion to a signed integer type of exactly that width.
func decodedRange(p *core.Prog, dc *decCase, sizes types.Sizes) (interval, int, string, bool) {
	width := 0
	for _, rd := range dc.Reads {
		width += rd.Width
	}
	if width == 0 {
		return interval{}, 0, "", false
	}
	var root ssa.Value
	if len(dc.Reads) == 1 {
		root = dc.Reads[0].Call
	} else {
		// the OR-tree combining all reads
		for _, b := range dc.Region {
			for _, in := range b.Instrs {
				if bo, ok := in.(*ssa.BinOp); ok && (bo.Op == token.OR || bo.Op == token.ADD) {
					srcs := map[ssa.Value]int64{}
					orTree(bo, 0, srcs)
					all := true
					for _, rd := range dc.Reads {
						if _, ok := srcs[rd.Call]; !ok {
							all = false
						}
					}
					if all {
						root = bo
					}
				}
			}
		}
		if root == nil {
			return interval{}, width, "", false
		}
	}
	signed := false
	desc := fmt.Sprintf("%d unsigned byte(s)", width)
	// follow conversions forward
	seen := map[ssa.Value]bool{}
	var walk func(v ssa.Value)
	walk = func(v ssa.Value) {
		if seen[v] {
			return
		}
		seen[v] = true
		for _, ref := range *v.Referrers() {
			if cv, ok := ref.(*ssa.Convert); ok {
				if bt, ok := cv.Type().Underlying().(*types.Basic); ok && bt.Info()&types.IsInteger != 0 {
					if bt.Info()&types.IsUnsigned == 0 && int(sizes.Sizeof(cv.Type())) <= width {
						signed = true
						desc = fmt.Sprintf("%d byte(s) reinterpreted as %s", width, bt.Name())
					}
				}
				walk(cv)
			}
		}
	}
	walk(root)
	bits := float64(8 * width)
	if signed {
		return interval{-math.Pow(2, bits-1), math.Pow(2, bits-1) - 1}, width, desc, true
	}
	return interval{0, math.Pow(2, bits) - 1}, width, desc, true
}

// phiOfOpcodes: all incoming values of the phi are opcode constants.
func phiOfOpcodes(ph *ssa.Phi, ops *opTable) []int64 {
	var out []int64
	for _, e := range ph.Edges {
		k, ok := core.ConstInt(e)
		if !ok {
			return nil
		}
		if _, isOp := ops.byVal[k]; !isOp {
			return nil
		}
		out = append(out, k)
	}
	return out
}

// popWrapperCount: a method of the Decoder that calls pop k >= 1 times, each outside any loop and before every return,
// never pushes, and does not touch the stack otherwise (popGlobalPart() string; newObject() popping the arguments and
// the global); 0 if it is not of that shape.
func popWrapperCount(dt *decoderTable, h *ssa.Function) int {
	if h == nil || h.Blocks == nil || h.Signature.Recv() == nil || recvNamed(h) != "Decoder" || h.Pkg == nil || h.Pkg.Pkg.Path() != pkgPickle {
		return 0
	}
	var pops []ssa.CallInstruction
	other := false
	core.Instrs(h, func(in ssa.Instruction) {
		switch x := in.(type) {
		case ssa.CallInstruction:
			switch core.Callee(x) {
			case dt.pop:
				pops = append(pops, x)
			case dt.push:
				other = true
			}
		case *ssa.Store:
			if core.IsField(x.Addr, pkgPickle, "Decoder", "stack") {
				other = true
			}
		}
	})
	if other || len(pops) == 0 || len(core.ReturnsOf(h)) == 0 {
		return 0
	}
	for _, pc := range pops {
		pi := pc.(ssa.Instruction)
		if core.Reaches(pi.Block(), pi.Block(), false) {
			return 0
		}
		for _, ret := range core.ReturnsOf(h) {
			if !core.Dominates(pi, ret) {
				return 0
			}
		}
	}
	return len(pops)
}

// countedPopLoop recognises a call of a Decoder helper that pops one operand per iteration of a counted loop over its
// integer parameter n and stores it at the loop index of the slice it returns (popTuple(n): for k := n-1; k >= 0; k--
// { t[k] = d.pop() }, or ascending from 0 while k < n), called with a constant n. It returns n and the direction.
func countedPopLoop(dt *decoderTable, c *ssa.Call) (cnt int64, descending, ok bool) {
	h := core.Callee(c)
	if h == nil || h.Blocks == nil || h.Signature.Recv() == nil || recvNamed(h) != "Decoder" || h.Pkg == nil || h.Pkg.Pkg.Path() != pkgPickle {
		return 0, false, false
	}
	var pops []*ssa.Call
	other := false
	core.Instrs(h, func(in ssa.Instruction) {
		switch x := in.(type) {
		case *ssa.Call:
			switch core.Callee(x) {
			case dt.pop:
				pops = append(pops, x)
			case dt.push:
				other = true
			}
		case *ssa.Store:
			if core.IsField(x.Addr, pkgPickle, "Decoder", "stack") {
				other = true
			}
		}
	})
	if other || len(pops) != 1 {
		return 0, false, false
	}
	pop := pops[0]
	body := pop.Block()
	// the body block jumps straight back to a header that has exactly one other predecessor
	if len(body.Succs) != 1 || len(body.Preds) != 1 || body.Preds[0] != body.Succs[0] {
		return 0, false, false
	}
	head := body.Succs[0]
	iff, isIf := head.Instrs[len(head.Instrs)-1].(*ssa.If)
	if !isIf || len(head.Preds) != 2 || head.Succs[0] != body {
		return 0, false, false
	}
	cond, isBin := iff.Cond.(*ssa.BinOp)
	if !isBin {
		return 0, false, false
	}
	k, isPhi := cond.X.(*ssa.Phi)
	if !isPhi || k.Block() != head {
		return 0, false, false
	}
	var init, step ssa.Value
	for i, pred := range head.Preds {
		if pred == body {
			step = k.Edges[i]
		} else {
			init = k.Edges[i]
		}
	}
	sb, isStep := step.(*ssa.BinOp)
	if !isStep || sb.X != ssa.Value(k) {
		return 0, false, false
	}
	one, isOne := core.ConstInt(sb.Y)
	if !isOne || one != 1 {
		return 0, false, false
	}
	var n *ssa.Parameter
	switch {
	case sb.Op == token.SUB && cond.Op == token.GEQ:
		// for k := n-1; k >= 0; k--
		if z, isZ := core.ConstInt(cond.Y); !isZ || z != 0 {
			return 0, false, false
		}
		ib, isB := init.(*ssa.BinOp)
		if !isB || ib.Op != token.SUB {
			return 0, false, false
		}
		if o, isO := core.ConstInt(ib.Y); !isO || o != 1 {
			return 0, false, false
		}
		n, _ = ib.X.(*ssa.Parameter)
		descending = true
	case sb.Op == token.ADD && cond.Op == token.LSS:
		// for k := 0; k < n; k++
		if z, isZ := core.ConstInt(init); !isZ || z != 0 {
			return 0, false, false
		}
		n, _ = cond.Y.(*ssa.Parameter)
	}
	if n == nil {
		return 0, false, false
	}
	// the popped value is stored at index k of the slice that is returned
	var target ssa.Value
	for _, ref := range *pop.Referrers() {
		if st, isSt := ref.(*ssa.Store); isSt && st.Val == ssa.Value(pop) {
			if ia, isIA := st.Addr.(*ssa.IndexAddr); isIA && ia.Index == ssa.Value(k) {
				target = ia.X
			}
		}
	}
	if target == nil {
		return 0, false, false
	}
	for _, ret := range core.ReturnsOf(h) {
		vals := core.RetVals(ret)
		if len(vals) != 1 || vals[0] != target {
			return 0, false, false
		}
	}
	if ms, isMS := target.(*ssa.MakeSlice); !isMS || ms.Len != ssa.Value(n) {
		return 0, false, false
	}
	i := paramIndex(h, n)
	if i < 0 || i >= len(c.Call.Args) {
		return 0, false, false
	}
	v, isConst := core.ConstInt(c.Call.Args[i])
	if !isConst || v < 1 || v > 16 {
		return 0, false, false
	}
	return v, descending, true
}

package rules

import (
	"go/token"
	"go/types"
	"strings"

	"dawnverif/checker/core"

	"golang.org/x/tools/go/ssa"
)

// evalModel collects the role-identified values of (*runTarget).Evaluate that C01/C03/C13/C18 reason about.
type evalModel struct {
	Fn        *ssa.Function
	Save      *ssa.Function // (*Project).saveTargetInfo
	InfoCall  *ssa.Call     // invoke Target.info()
	InfoCell  ssa.Value     // local holding the info
	DepsCall  *ssa.Call     // invoke Engine.EvaluateTargets
	DepLabels *ssa.Call     // invoke Target.dependencies()
	UpToDate  *ssa.Call     // invoke Target.upToDate()
	Evaluate  *ssa.Call     // invoke Target.evaluate()
	Saves     []*ssa.Call
	Events    map[string][]*ssa.Call // Events method name -> invokes
	DepData   ssa.Value              // the map that receives the dependencies' stamps (as seen in DepsFn)
	DepsFn    *ssa.Function          // the function containing the dependency loop (Evaluate itself or a helper it calls)
	DepsSite  *ssa.Call              // in Evaluate: the call to the helper (nil when the loop is in Evaluate)
	DepDataEv ssa.Value              // the dependency-stamp map as seen in Evaluate (DepData, or a result of the helper call)
	Helpers   []*ssa.Function        // in-package functions statically called from Evaluate (depth <= 2), excluding saveTargetInfo
	ViaSaves  []viaSave              // record writes performed by a helper called from Evaluate
	BodyFn    *ssa.Function          // the function that invokes Target.evaluate(): Evaluate itself, or a helper only Evaluate calls
	BodySite  *ssa.Call              // in Evaluate: the call of BodyFn (nil when BodyFn is Evaluate)
	SaveFns   map[*ssa.Function]int  // saveTargetInfo and the wrappers that pass their record parameter on to it: function -> index of the record argument
	p         *core.Prog
}

// isSaveFn: f writes the record it is handed (saveTargetInfo itself or a wrapper around it).
func (m *evalModel) isSaveFn(f *ssa.Function) bool {
	_, ok := m.SaveFns[f]
	return ok && f != nil
}

// recArg is the record argument of a call to a save function.
func (m *evalModel) recArg(call *ssa.Call) ssa.Value {
	if i, ok := m.SaveFns[core.Callee(call)]; ok && i < len(call.Call.Args) {
		return call.Call.Args[i]
	}
	return call.Call.Args[len(call.Call.Args)-1]
}

// faithfulSave: the save function returns nil only where the underlying saveTargetInfo call returned nil.
func (m *evalModel) faithfulSave(f *ssa.Function, depth int) bool {
	if f == m.Save {
		return true
	}
	if depth > 3 || !m.isSaveFn(f) {
		return false
	}
	res := f.Signature.Results()
	if res.Len() != 1 || !types.Implements(res.At(0).Type(), errorIface()) {
		return false
	}
	var inner *ssa.Call
	for _, c := range core.Calls(f) {
		if call, ok := c.(*ssa.Call); ok && m.isSaveFn(core.Callee(c)) {
			inner = call
		}
	}
	if inner == nil || !m.faithfulSave(core.Callee(inner), depth+1) {
		return false
	}
	n := 0
	for _, ret := range core.ReturnsOf(f) {
		vals := core.RetVals(ret)
		if len(vals) != 1 {
			return false
		}
		if vals[0] == ssa.Value(inner) {
			n++ // hands on the error of the inner write as it is
			continue
		}
		if !core.IsNilConst(vals[0]) {
			// some other error value: fine if it is known to be non-nil here, i.e. this is a failure return
			if nn, known := m.p.FactsAt(ret).ErrNonNil(vals[0]); known && nn {
				continue
			}
			if _, isCall := vals[0].(*ssa.Call); isCall {
				continue // a freshly built error (fmt.Errorf, errors.New)
			}
			return false
		}
		n++
		if nn, known := m.p.FactsAt(ret).ErrNonNil(inner); !known || nn {
			return false
		}
	}
	return n > 0
}

// dom is dominance across Evaluate and its body helper.
func (m *evalModel) dom(a, b ssa.Instruction) bool { return m.p.DominatesX(a, b) }

// fns lists Evaluate and, if the body lives in a helper, that helper.
func (m *evalModel) fns() []*ssa.Function {
	if m.BodyFn != nil && m.BodyFn != m.Fn {
		return []*ssa.Function{m.Fn, m.BodyFn}
	}
	return []*ssa.Function{m.Fn}
}

// instrs visits the instructions of Evaluate and of its body helper.
func (m *evalModel) instrs(f func(ssa.Instruction)) {
	for _, fn := range m.fns() {
		core.Instrs(fn, f)
	}
}

// viaSave: Evaluate calls a helper (Site) that writes the record (Save, inside the helper).
type viaSave struct {
	Site *ssa.Call
	Save *ssa.Call
}

// recordWrites lists the record writes of Evaluate as (site in Evaluate, literal): direct saveTargetInfo calls and
// calls of helpers that perform the write.
func (m *evalModel) recordWrites() []struct {
	Site *ssa.Call
	Lit  savedLiteral
} {
	var out []struct {
		Site *ssa.Call
		Lit  savedLiteral
	}
	for _, s := range m.Saves {
		out = append(out, struct {
			Site *ssa.Call
			Lit  savedLiteral
		}{s, m.savedLiteral(s)})
	}
	for _, v := range m.ViaSaves {
		rec := m.recArg(v.Save)
		// a save helper that is handed the record: the record is what the call site in Evaluate builds
		if prm := paramBehind(rec); prm != nil && prm.Parent() == v.Save.Parent() {
			if i := paramIndex(prm.Parent(), prm); i >= 0 && i < len(v.Site.Call.Args) {
				out = append(out, struct {
					Site *ssa.Call
					Lit  savedLiteral
				}{v.Site, recordOf(v.Site, v.Site.Call.Args[i])})
				continue
			}
		}
		out = append(out, struct {
			Site *ssa.Call
			Lit  savedLiteral
		}{v.Site, recordOf(v.Save, rec)})
	}
	return out
}

// saveErrSites lists the calls in Evaluate whose error result is the error of a record write: the direct
// saveTargetInfo calls, and the calls of a save helper that returns nil only where its own saveTargetInfo call returned nil.
func (m *evalModel) saveErrSites() []*ssa.Call {
	var out []*ssa.Call
	for _, sv := range m.Saves {
		if m.faithfulSave(core.Callee(sv), 0) {
			out = append(out, sv)
		}
	}
	for _, v := range m.ViaSaves {
		h := v.Save.Parent()
		res := h.Signature.Results()
		if res.Len() != 1 || !types.Implements(res.At(0).Type(), errorIface()) || !m.faithfulSave(core.Callee(v.Save), 0) {
			continue
		}
		faithful, n := true, 0
		for _, ret := range core.ReturnsOf(h) {
			vals := core.RetVals(ret)
			if len(vals) != 1 {
				faithful = false
				continue
			}
			if vals[0] == ssa.Value(v.Save) {
				n++ // return t.saveInfo(record): the write's error as it is
				continue
			}
			if !core.IsNilConst(vals[0]) {
				continue
			}
			n++
			if nn, known := m.p.FactsAt(ret).ErrNonNil(v.Save); !known || nn {
				faithful = false
			}
		}
		if faithful && n > 0 {
			dup := false
			for _, o := range out {
				if o == v.Site {
					dup = true
				}
			}
			if !dup {
				out = append(out, v.Site)
			}
		}
	}
	return out
}

// paramBehind: v is a parameter, or the load of the local a (struct) parameter was spilled into.
func paramBehind(v ssa.Value) *ssa.Parameter {
	if prm, ok := v.(*ssa.Parameter); ok {
		return prm
	}
	if ld, ok := v.(*ssa.UnOp); ok && ld.Op == token.MUL {
		if sv := core.SingleStore(ld.X); sv != nil {
			if prm, ok := sv.(*ssa.Parameter); ok {
				return prm
			}
		}
	}
	return nil
}

func isInvoke(c ssa.CallInstruction, iface, method string) bool {
	cc := c.Common()
	if !cc.IsInvoke() || cc.Method.Name() != method {
		return false
	}
	if n, ok := cc.Value.Type().(*types.Named); ok {
		return n.Obj().Name() == iface
	}
	return false
}

func extractOf(call *ssa.Call, idx int) ssa.Value {
	if call == nil {
		return nil
	}
	for _, ref := range *call.Referrers() {
		if e, ok := ref.(*ssa.Extract); ok && e.Index == idx {
			return e
		}
	}
	return nil
}

func buildEvalModel(p *core.Prog, r *core.Result, rule string) *evalModel {
	fn := need(p, r, rule, "", "runTarget", "Evaluate")
	save := need(p, r, rule, "", "Project", "saveTargetInfo")
	if fn == nil || save == nil {
		return nil
	}
	m := &evalModel{Fn: fn, Save: save, Events: map[string][]*ssa.Call{}, p: p, BodyFn: fn, SaveFns: map[*ssa.Function]int{}}
	m.SaveFns[save] = len(save.Params) - 1
	for changed := true; changed; {
		changed = false
		for _, h := range p.ModuleFuncs() {
			if h.Pkg != fn.Pkg || h.Blocks == nil || m.isSaveFn(h) || h == fn {
				continue
			}
			for _, c := range core.Calls(h) {
				call, ok := c.(*ssa.Call)
				if !ok || !m.isSaveFn(core.Callee(c)) {
					continue
				}
				if prm := paramBehind(m.recArg(call)); prm != nil && prm.Parent() == h {
					if i := paramIndex(h, prm); i >= 0 {
						m.SaveFns[h] = i
						changed = true
					}
				}
			}
		}
	}
	for _, c := range core.Calls(fn) {
		call, ok := c.(*ssa.Call)
		if !ok {
			continue
		}
		switch {
		case isInvoke(c, "Target", "info"):
			m.InfoCall = call
		case isInvoke(c, "Engine", "EvaluateTargets"):
			m.DepsCall = call
		case isInvoke(c, "Target", "dependencies"):
			m.DepLabels = call
		case isInvoke(c, "Target", "upToDate"):
			m.UpToDate = call
		case isInvoke(c, "Target", "evaluate"):
			m.Evaluate = call
		case m.isSaveFn(core.Callee(c)):
			m.Saves = append(m.Saves, call)
		case c.Common().IsInvoke():
			if n, ok := c.Common().Value.Type().(*types.Named); ok && n.Obj().Name() == "Events" {
				m.Events[c.Common().Method.Name()] = append(m.Events[c.Common().Method.Name()], call)
			}
		}
	}
	// helpers: in-package static callees of Evaluate (depth <= 2)
	seenH := map[*ssa.Function]bool{fn: true, save: true}
	for sf := range m.SaveFns {
		seenH[sf] = true
	}
	var addHelpers func(f *ssa.Function, depth int)
	addHelpers = func(f *ssa.Function, depth int) {
		for _, c := range core.Calls(f) {
			cal := core.Callee(c)
			if cal == nil || seenH[cal] || cal.Blocks == nil || cal.Pkg == nil || cal.Pkg != fn.Pkg {
				continue
			}
			seenH[cal] = true
			m.Helpers = append(m.Helpers, cal)
			if depth < 2 {
				addHelpers(cal, depth+1)
			}
		}
	}
	addHelpers(fn, 1)
	m.DepsFn = fn
	if m.DepsCall == nil {
		for _, h := range m.Helpers {
			for _, c := range core.Calls(h) {
				if call, ok := c.(*ssa.Call); ok && isInvoke(c, "Engine", "EvaluateTargets") {
					m.DepsCall, m.DepsFn = call, h
				}
				if call, ok := c.(*ssa.Call); ok && isInvoke(c, "Target", "dependencies") && m.DepLabels == nil {
					m.DepLabels = call
				}
			}
		}
		if m.DepsFn != fn {
			for _, c := range core.CallsTo(fn, m.DepsFn) {
				m.DepsSite, _ = c.(*ssa.Call)
			}
		}
	}
	// the body (Target.evaluate, the record writes and the terminal events) may live in a helper that only Evaluate calls
	if m.Evaluate == nil {
		for _, c := range core.Calls(fn) {
			site, ok := c.(*ssa.Call)
			h := core.Callee(c)
			if !ok || h == nil || m.isSaveFn(h) || h.Blocks == nil || h.Pkg != fn.Pkg {
				continue
			}
			var ev *ssa.Call
			for _, hc := range core.Calls(h) {
				if call, ok := hc.(*ssa.Call); ok && isInvoke(hc, "Target", "evaluate") {
					ev = call
				}
			}
			if ev == nil || len(p.StaticCallers(h)) != 1 || len(p.FuncValueUses(h)) > 0 {
				continue
			}
			m.Evaluate, m.BodyFn, m.BodySite = ev, h, site
			p.SetContext(h, site)
			for _, hc := range core.Calls(h) {
				call, ok := hc.(*ssa.Call)
				if !ok {
					continue
				}
				if m.isSaveFn(core.Callee(hc)) {
					m.Saves = append(m.Saves, call)
				} else if hc.Common().IsInvoke() {
					if n, ok := hc.Common().Value.Type().(*types.Named); ok && n.Obj().Name() == "Events" {
						m.Events[hc.Common().Method.Name()] = append(m.Events[hc.Common().Method.Name()], call)
					}
				}
			}
		}
	}
	for _, c := range core.Calls(fn) {
		site, ok := c.(*ssa.Call)
		cal := core.Callee(c)
		if !ok || cal == nil || m.isSaveFn(cal) || cal.Blocks == nil || cal.Pkg != fn.Pkg || cal == m.BodyFn {
			continue
		}
		for _, c2 := range core.Calls(cal) {
			if sv, ok := c2.(*ssa.Call); ok && m.isSaveFn(core.Callee(c2)) {
				m.ViaSaves = append(m.ViaSaves, viaSave{Site: site, Save: sv})
			}
		}
	}
	missing := []string{}
	if m.InfoCall == nil {
		missing = append(missing, "Target.info()")
	}
	if m.DepsCall == nil || (m.DepsFn != fn && m.DepsSite == nil) {
		missing = append(missing, "Engine.EvaluateTargets()")
	}
	if m.UpToDate == nil {
		missing = append(missing, "Target.upToDate()")
	}
	if m.Evaluate == nil {
		missing = append(missing, "Target.evaluate()")
	}
	if len(m.Saves) == 0 && len(m.ViaSaves) == 0 {
		missing = append(missing, "saveTargetInfo()")
	}
	if len(missing) > 0 {
		r.Unk(rule, "dawn.(*runTarget).Evaluate#model", p.Pos(fn.Pos()), "Evaluate (and the helpers it calls) no longer contains %s: its skeleton is not recognised", strings.Join(missing, ", "))
		return nil
	}
	// info cell: the local that receives the info() result
	for _, ref := range *m.InfoCall.Referrers() {
		if st, ok := ref.(*ssa.Store); ok {
			m.InfoCell = st.Addr
		}
	}
	// depData: a map created in the dependency function that is updated with a value derived from a dependency's runTarget.data
	core.Instrs(m.DepsFn, func(in ssa.Instruction) {
		if mu, ok := in.(*ssa.MapUpdate); ok {
			if core.DependsOn(mu.Value, core.SliceOpts{}, func(v ssa.Value) bool { return core.IsField(v, pkgRoot, "runTarget", "data") }) {
				m.DepData = mu.Map
			}
		}
	})
	m.DepDataEv = m.DepData
	if m.DepsSite != nil && m.DepData != nil {
		// which result of the helper is the map?
		for _, ret := range core.ReturnsOf(m.DepsFn) {
			for i, v := range core.RetVals(ret) {
				if v == m.DepData {
					if e := extractOf(m.DepsSite, i); e != nil {
						m.DepDataEv = e
					}
				}
			}
		}
	}
	return m
}

// infoParamIn: when the dependency loop lives in a helper, the target info is passed to it as a parameter;
// returns the helper-side value (parameter or its spill cell) holding the info, or nil.
func (m *evalModel) infoInDepsFn() ssa.Value {
	if m.DepsSite == nil {
		return m.InfoCell
	}
	for i, a := range m.DepsSite.Call.Args {
		isInfo := false
		if ld, ok := a.(*ssa.UnOp); ok && ld.X == m.InfoCell {
			isInfo = true
		}
		if a == ssa.Value(m.InfoCall) {
			isInfo = true
		}
		if !isInfo || i >= len(m.DepsFn.Params) {
			continue
		}
		prm := m.DepsFn.Params[i]
		// the spill cell of the parameter, if any
		var cell ssa.Value
		core.Instrs(m.DepsFn, func(in ssa.Instruction) {
			if st, ok := in.(*ssa.Store); ok && st.Val == ssa.Value(prm) {
				cell = st.Addr
			}
		})
		if cell != nil {
			return cell
		}
		return prm
	}
	return nil
}

// recordedDeps: v is the Dependencies map of the target's info, in Evaluate or in the dependency helper.
func (m *evalModel) recordedDeps(v ssa.Value) bool {
	if m.infoField(v, "Dependencies") {
		return true
	}
	info := m.infoInDepsFn()
	if info == nil {
		return false
	}
	if u, ok := v.(*ssa.UnOp); ok && u.Op == token.MUL {
		if fa, ok := u.X.(*ssa.FieldAddr); ok && core.IsField(fa, pkgRoot, "targetInfo", "Dependencies") && fa.X == info {
			return true
		}
	}
	if f, ok := v.(*ssa.Field); ok && core.IsField(f, pkgRoot, "targetInfo", "Dependencies") && f.X == info {
		return true
	}
	return false
}

// recordedDepsX is recordedDeps for a value seen inside a helper predicate called from the dependency function.
func (m *evalModel) recordedDepsX(v ssa.Value, arg func(ssa.Value) ssa.Value) bool {
	if m.recordedDeps(v) {
		return true
	}
	info := m.infoInDepsFn()
	isInfo := func(x ssa.Value) bool {
		x = arg(x)
		if info != nil && x == info {
			return true
		}
		if ld, ok := x.(*ssa.UnOp); ok && ld.Op == token.MUL && (info != nil && ld.X == info || m.InfoCell != nil && ld.X == m.InfoCell) {
			return true
		}
		return x == ssa.Value(m.InfoCall)
	}
	if u, ok := v.(*ssa.UnOp); ok && u.Op == token.MUL {
		if fa, ok := u.X.(*ssa.FieldAddr); ok && core.IsField(fa, pkgRoot, "targetInfo", "Dependencies") && isInfo(fa.X) {
			return true
		}
	}
	if f, ok := v.(*ssa.Field); ok && core.IsField(f, pkgRoot, "targetInfo", "Dependencies") && isInfo(f.X) {
		return true
	}
	return false
}

// infoField: v is a load of field `name` of the target's info (from the info cell or directly from the call).
func (m *evalModel) infoField(v ssa.Value, name string) bool {
	u, ok := v.(*ssa.UnOp)
	if ok && u.Op == token.MUL {
		if fa, ok := u.X.(*ssa.FieldAddr); ok && core.IsField(fa, pkgRoot, "targetInfo", name) && (m.InfoCell == nil || fa.X == m.InfoCell) {
			return true
		}
	}
	if f, ok := v.(*ssa.Field); ok && core.IsField(f, pkgRoot, "targetInfo", name) && f.X == ssa.Value(m.InfoCall) {
		return true
	}
	return false
}

// infoFieldX is infoField for a value seen inside a helper predicate: arg maps the helper's values to Evaluate's.
func (m *evalModel) infoFieldX(v ssa.Value, name string, arg func(ssa.Value) ssa.Value) bool {
	if m.infoField(v, name) {
		return true
	}
	isInfo := func(x ssa.Value) bool {
		x = arg(x)
		if x == m.InfoCell || x == ssa.Value(m.InfoCall) {
			return m.InfoCell != nil || x == ssa.Value(m.InfoCall)
		}
		if ld, ok := x.(*ssa.UnOp); ok && ld.Op == token.MUL && m.InfoCell != nil && ld.X == m.InfoCell {
			return true
		}
		return false
	}
	if u, ok := v.(*ssa.UnOp); ok && u.Op == token.MUL {
		if fa, ok := u.X.(*ssa.FieldAddr); ok && core.IsField(fa, pkgRoot, "targetInfo", name) && isInfo(fa.X) {
			return true
		}
	}
	if f, ok := v.(*ssa.Field); ok && core.IsField(f, pkgRoot, "targetInfo", name) && isInfo(f.X) {
		return true
	}
	return false
}

// projField: v is a load of Project.<name>.
func projField(v ssa.Value, name string) bool {
	return core.LoadOfField(v, pkgRoot, "Project", name)
}

// holds: a fact with the given truth value whose condition satisfies pred holds before `at`.
func holds(p *core.Prog, at ssa.Instruction, val bool, pred func(ssa.Value) bool) bool {
	return p.FactsAt(at).Find(func(c ssa.Value, v bool) bool { return v == val && pred(c) })
}

// savedLiteral describes the targetInfo record passed to a saveTargetInfo call: a composite literal built in place,
// the result of an in-package constructor helper (followed through its returns, parameters replaced by the caller's
// arguments), or either of these with fields assigned afterwards.
type savedLiteral struct {
	Call   *ssa.Call
	Fields map[string]ssa.Value   // field name -> stored value (a caller-side value where the helper merely forwards a parameter)
	Via    map[string][]ssa.Value // field name -> caller arguments the helper-side value is computed from
	Whole  []ssa.Value            // whole-record sources that are not literals or constructors (e.g. a record read from disk)
	After  map[string]bool        // field name -> assigned on the local after (dominated by) every whole-record store to it
}

func (m *evalModel) savedLiteral(call *ssa.Call) savedLiteral {
	return recordOf(call, m.recArg(call))
}

// recordOf resolves the record value v (an argument of call).
func recordOf(call *ssa.Call, v ssa.Value) savedLiteral {
	sl := savedLiteral{Call: call, Fields: map[string]ssa.Value{}, Via: map[string][]ssa.Value{}, After: map[string]bool{}}
	var collect func(v ssa.Value, subst map[*ssa.Parameter]ssa.Value, depth int)
	set := func(name string, val ssa.Value, subst map[*ssa.Parameter]ssa.Value) {
		delete(sl.Via, name)
		if prm, ok := val.(*ssa.Parameter); ok && subst != nil {
			if a, ok := subst[prm]; ok {
				sl.Fields[name] = a
				return
			}
		}
		sl.Fields[name] = val
		if subst != nil {
			for x := range core.BackwardSlice(val, core.SliceOpts{Stores: true, ThroughCall: func(c *ssa.Call) bool { return true }}) {
				if prm, ok := x.(*ssa.Parameter); ok {
					if a, ok := subst[prm]; ok {
						sl.Via[name] = append(sl.Via[name], a)
					}
				}
			}
		}
	}
	seen := map[ssa.Value]bool{}
	collect = func(v ssa.Value, subst map[*ssa.Parameter]ssa.Value, depth int) {
		if seen[v] {
			return
		}
		seen[v] = true
		switch x := v.(type) {
		case *ssa.UnOp:
			if x.Op != token.MUL {
				sl.Whole = append(sl.Whole, v)
				return
			}
			cell, ok := x.X.(*ssa.Alloc)
			if !ok {
				sl.Whole = append(sl.Whole, v)
				return
			}
			// whole-value stores first, then the fields assigned on the local
			var wholeStores []*ssa.Store
			for _, ref := range *cell.Referrers() {
				if st, ok := ref.(*ssa.Store); ok && st.Addr == ssa.Value(cell) {
					wholeStores = append(wholeStores, st)
					collect(st.Val, subst, depth)
				}
			}
			for _, ref := range *cell.Referrers() {
				if fa, ok := ref.(*ssa.FieldAddr); ok {
					for _, r2 := range *fa.Referrers() {
						if st, ok := r2.(*ssa.Store); ok && st.Addr == ssa.Value(fa) {
							_, name := core.FieldOf(fa)
							set(name, st.Val, subst)
							after := true
							for _, ws := range wholeStores {
								if !core.Dominates(ws, st) {
									after = false
								}
							}
							sl.After[name] = after && depth == 0
						}
					}
				}
			}
		case *ssa.Call:
			cal := core.Callee(x)
			if cal == nil || cal.Blocks == nil || depth >= 2 || call == nil || cal.Pkg != call.Parent().Pkg {
				sl.Whole = append(sl.Whole, v)
				return
			}
			sub := map[*ssa.Parameter]ssa.Value{}
			for i, prm := range cal.Params {
				if i < len(x.Call.Args) {
					a := x.Call.Args[i]
					if ap, ok := a.(*ssa.Parameter); ok && subst != nil {
						if aa, ok := subst[ap]; ok {
							a = aa
						}
					}
					sub[prm] = a
				}
			}
			isCtor := false
			for _, ret := range core.ReturnsOf(cal) {
				rv := ret.Results
				if len(rv) == 1 {
					if ld, ok := rv[0].(*ssa.UnOp); ok && ld.Op == token.MUL {
						if _, ok := ld.X.(*ssa.Alloc); ok {
							isCtor = true
							collect(rv[0], sub, depth+1)
						}
					}
				}
			}
			if !isCtor {
				sl.Whole = append(sl.Whole, v)
			}
		default:
			sl.Whole = append(sl.Whole, v)
		}
	}
	collect(v, nil, 0)
	return sl
}

package rules

import (
	"go/token"
	"go/types"
	"strings"

	"dawnverif/checker/core"

	"golang.org/x/tools/go/ssa"
)

// evalModel collects the role-identified values of (*runTarget).Evaluate that C01/C03/C13/C18 reason about.
type evalModel struct {
	Fn        *ssa.Function
	Save      *ssa.Function // (*Project).saveTargetInfo
	InfoCall  *ssa.Call     // invoke Target.info()
	InfoCell  ssa.Value     // local holding the info
	DepsCall  *ssa.Call     // invoke Engine.EvaluateTargets
	DepLabels *ssa.Call     // invoke Target.dependencies()
	UpToDate  *ssa.Call     // invoke Target.upToDate()
	Evaluate  *ssa.Call     // invoke Target.evaluate()
	Saves     []*ssa.Call
	Events    map[string][]*ssa.Call // Events method name -> invokes
	DepData   ssa.Value              // the map that receives the dependencies' stamps
}

func isInvoke(c ssa.CallInstruction, iface, method string) bool {
	cc := c.Common()
	if !cc.IsInvoke() || cc.Method.Name() != method {
		return false
	}
	if n, ok := cc.Value.Type().(*types.Named); ok {
		return n.Obj().Name() == iface
	}
	return false
}

func extractOf(call *ssa.Call, idx int) ssa.Value {
	if call == nil {
		return nil
	}
	for _, ref := range *call.Referrers() {
		if e, ok := ref.(*ssa.Extract); ok && e.Index == idx {
			return e
		}
	}
	return nil
}

func buildEvalModel(p *core.Prog, r *core.Result, rule string) *evalModel {
	fn := need(p, r, rule, "", "runTarget", "Evaluate")
	save := need(p, r, rule, "", "Project", "saveTargetInfo")
	if fn == nil || save == nil {
		return nil
	}
	m := &evalModel{Fn: fn, Save: save, Events: map[string][]*ssa.Call{}}
	for _, c := range core.Calls(fn) {
		call, ok := c.(*ssa.Call)
		if !ok {
			continue
		}
		switch {
		case isInvoke(c, "Target", "info"):
			m.InfoCall = call
		case isInvoke(c, "Engine", "EvaluateTargets"):
			m.DepsCall = call
		case isInvoke(c, "Target", "dependencies"):
			m.DepLabels = call
		case isInvoke(c, "Target", "upToDate"):
			m.UpToDate = call
		case isInvoke(c, "Target", "evaluate"):
			m.Evaluate = call
		case core.Callee(c) == save:
			m.Saves = append(m.Saves, call)
		case c.Common().IsInvoke():
			if n, ok := c.Common().Value.Type().(*types.Named); ok && n.Obj().Name() == "Events" {
				m.Events[c.Common().Method.Name()] = append(m.Events[c.Common().Method.Name()], call)
			}
		}
	}
	missing := []string{}
	if m.InfoCall == nil {
		missing = append(missing, "Target.info()")
	}
	if m.DepsCall == nil {
		missing = append(missing, "Engine.EvaluateTargets()")
	}
	if m.UpToDate == nil {
		missing = append(missing, "Target.upToDate()")
	}
	if m.Evaluate == nil {
		missing = append(missing, "Target.evaluate()")
	}
	if len(m.Saves) == 0 {
		missing = append(missing, "saveTargetInfo()")
	}
	if len(missing) > 0 {
		r.Unk(rule, "dawn.(*runTarget).Evaluate#model", p.Pos(fn.Pos()), "Evaluate no longer contains %s: its skeleton is not recognised", strings.Join(missing, ", "))
		return nil
	}
	// info cell: the local that receives the info() result
	for _, ref := range *m.InfoCall.Referrers() {
		if st, ok := ref.(*ssa.Store); ok {
			m.InfoCell = st.Addr
		}
	}
	// depData: a map created in Evaluate that is updated with a value derived from a dependency's runTarget.data
	core.Instrs(fn, func(in ssa.Instruction) {
		if mu, ok := in.(*ssa.MapUpdate); ok {
			if core.DependsOn(mu.Value, core.SliceOpts{}, func(v ssa.Value) bool { return core.IsField(v, pkgRoot, "runTarget", "data") }) {
				m.DepData = mu.Map
			}
		}
	})
	return m
}

// infoField: v is a load of field `name` of the target's info (from the info cell or directly from the call).
func (m *evalModel) infoField(v ssa.Value, name string) bool {
	u, ok := v.(*ssa.UnOp)
	if ok && u.Op == token.MUL {
		if fa, ok := u.X.(*ssa.FieldAddr); ok && core.IsField(fa, pkgRoot, "targetInfo", name) && (m.InfoCell == nil || fa.X == m.InfoCell) {
			return true
		}
	}
	if f, ok := v.(*ssa.Field); ok && core.IsField(f, pkgRoot, "targetInfo", name) && f.X == ssa.Value(m.InfoCall) {
		return true
	}
	return false
}

// projField: v is a load of Project.<name>.
func projField(v ssa.Value, name string) bool {
	return core.LoadOfField(v, pkgRoot, "Project", name)
}

// holds: a fact with the given truth value whose condition satisfies pred holds before `at`.
func holds(p *core.Prog, at ssa.Instruction, val bool, pred func(ssa.Value) bool) bool {
	return p.FactsAt(at).Find(func(c ssa.Value, v bool) bool { return v == val && pred(c) })
}

// savedLiteral describes the targetInfo composite literal passed to a saveTargetInfo call.
type savedLiteral struct {
	Call   *ssa.Call
	Fields map[string]ssa.Value // field name -> stored value
}

func (m *evalModel) savedLiteral(call *ssa.Call) savedLiteral {
	sl := savedLiteral{Call: call, Fields: map[string]ssa.Value{}}
	arg := call.Call.Args[len(call.Call.Args)-1]
	ld, ok := arg.(*ssa.UnOp)
	if !ok {
		return sl
	}
	cell := ld.X
	core.Instrs(m.Fn, func(in ssa.Instruction) {
		st, ok := in.(*ssa.Store)
		if !ok {
			return
		}
		fa, ok := st.Addr.(*ssa.FieldAddr)
		if !ok || fa.X != cell {
			return
		}
		_, name := core.FieldOf(fa)
		sl.Fields[name] = st.Val
	})
	return sl
}

package rules

import (
	"fmt"
	"go/token"
	"go/types"
	"sort"
	"strings"

	"dawnverif/checker/core"

	"golang.org/x/tools/go/ssa"
)

func init() {
	register("C13", false, runC13)
	register("C03", false, runC03)
}

// mutatorSites lists the file-system mutator call sites in the static in-module closure of fn.
type mutSite struct {
	Fn     *ssa.Function
	Call   ssa.CallInstruction
	Callee string
}

func mutatorSites(p *core.Prog, roots ...*ssa.Function) []mutSite {
	var out []mutSite
	cl := staticClosure(p, roots...)
	var fns []*ssa.Function
	for f := range cl {
		fns = append(fns, f)
	}
	sort.Slice(fns, func(i, j int) bool { return fns[i].String() < fns[j].String() })
	for _, f := range fns {
		for _, c := range core.Calls(f) {
			cal := core.Callee(c)
			if cal == nil {
				continue
			}
			k := core.CalleeKey(cal)
			if core.FSMutators[k] {
				out = append(out, mutSite{f, c, k})
			}
		}
	}
	return out
}

// targetImpls returns the in-module methods named `method` of types implementing the Target interface.
func targetImpls(p *core.Prog, method string) []*ssa.Function {
	var out []*ssa.Function
	sp := p.Pkg("")
	tgt := sp.Type("Target")
	if tgt == nil {
		return nil
	}
	iface, _ := tgt.Type().Underlying().(*types.Interface)
	for _, mem := range sp.Members {
		t, ok := mem.(*ssa.Type)
		if !ok {
			continue
		}
		if _, isIface := t.Type().Underlying().(*types.Interface); isIface {
			continue
		}
		pt := types.NewPointer(t.Type())
		if iface == nil || !(types.Implements(pt, iface) || types.Implements(t.Type(), iface)) {
			continue
		}
		if f := p.Func("", t.Name(), method); f != nil && f.Blocks != nil {
			out = append(out, f)
		}
	}
	sort.Slice(out, func(i, j int) bool { return out[i].String() < out[j].String() })
	return out
}

// checkRecordNotWrittenThrough implements R13.6.
func checkRecordNotWrittenThrough(p *core.Prog, r *core.Result, m *evalModel, rule string) {
	fromInfo := func(v ssa.Value) bool {
		return core.DependsOn(v, core.SliceOpts{Stores: true}, func(x ssa.Value) bool {
			if x == ssa.Value(m.InfoCall) {
				return true
			}
			// the info handed to the dependency helper as a parameter
			if prm, ok := x.(*ssa.Parameter); ok && m.DepsSite != nil && prm.Parent() == m.DepsFn {
				if i := paramIndex(m.DepsFn, prm); i >= 0 && i < len(m.DepsSite.Call.Args) {
					return core.DependsOn(m.DepsSite.Call.Args[i], core.SliceOpts{Stores: true}, func(y ssa.Value) bool { return y == ssa.Value(m.InfoCall) })
				}
			}
			return false
		})
	}
	var fresh func(v ssa.Value, seen map[ssa.Value]bool) bool
	fresh = func(v ssa.Value, seen map[ssa.Value]bool) bool {
		if seen[v] {
			return true
		}
		seen[v] = true
		switch x := v.(type) {
		case *ssa.MakeMap:
			return true
		case *ssa.Phi:
			for _, e := range x.Edges {
				if !fresh(e, seen) {
					return false
				}
			}
			return len(x.Edges) > 0
		case *ssa.UnOp:
			if x.Op == token.MUL {
				if al, ok := x.X.(*ssa.Alloc); ok {
					n, all := 0, true
					for _, ref := range *al.Referrers() {
						if st, ok := ref.(*ssa.Store); ok && st.Addr == ssa.Value(al) {
							n++
							if !fresh(st.Val, seen) {
								all = false
							}
						}
					}
					return n > 0 && all
				}
			}
		}
		return false
	}
	if m.DepData == nil {
		r.Unk(rule, "dawn.(*runTarget).Evaluate#stamp-map", p.Pos(m.DepsFn.Pos()), "the map that collects the dependencies' stamps was not found")
		return
	}
	r.Check(fresh(m.DepData, map[ssa.Value]bool{}) && !fromInfo(m.DepData), rule, "dawn.(*runTarget).Evaluate#stamp-map-is-fresh", p.Pos(m.DepsFn.Pos()), "the dependencies' current stamps are collected in a map made by this evaluation", "the dependencies' current stamps are written into a map that is (on some path) the Dependencies map of the record the target was loaded with: every evaluation - a dry run included - overwrites the recorded stamps in memory, so a dry run that announces a target because a recorded stamp is stale erases that evidence, and the next run on the same Project skips the target")
	n := 0
	for _, f := range m.fns() {
		fns := []*ssa.Function{f}
		if f == m.Fn && m.DepsFn != nil && m.DepsFn != f {
			fns = append(fns, m.DepsFn)
		}
		for _, g := range fns {
			core.Instrs(g, func(in ssa.Instruction) {
				var subject ssa.Value
				what := ""
				switch x := in.(type) {
				case *ssa.MapUpdate:
					subject, what = x.Map, "a map update"
				case *ssa.Call:
					if b, ok := x.Call.Value.(*ssa.Builtin); ok && b.Name() == "delete" {
						subject, what = x.Call.Args[0], "a delete"
					}
				}
				if subject == nil {
					return
				}
				n++
				if fromInfo(subject) {
					r.Bad(rule, fmt.Sprintf("%s#writes-loaded-record-%d", fname(g), n), p.InstrPos(in), "%s in the evaluation has a map of the loaded record (Target.info()) as its subject: the in-memory record is changed by every evaluation, dry runs included", what)
				}
			})
		}
	}
	r.OK(rule, "dawn.(*runTarget).Evaluate#map-writes-examined", p.Pos(m.Fn.Pos()), "%d map update(s)/delete(s) in the evaluation examined: none has a map of the loaded record as its subject (violations are listed separately)", n)
}

// checkRecordRefreshed implements R3.9.
func checkRecordRefreshed(p *core.Prog, r *core.Result, m *evalModel, rule string) {
	// the field each implementation's info() returns
	type keeper struct {
		typ   string
		field string
	}
	var keepers []keeper
	for _, f := range targetImpls(p, "info") {
		for _, ret := range core.ReturnsOf(f) {
			vals := core.RetVals(ret)
			if len(vals) != 1 {
				continue
			}
			if ld, ok := vals[0].(*ssa.UnOp); ok && ld.Op == token.MUL {
				if owner, fld := core.FieldOf(ld.X); owner != nil {
					keepers = append(keepers, keeper{owner.Obj().Name(), fld})
				}
			}
		}
	}
	r.Floor(rule, len(keepers), 2, "Target implementations that keep their record in a field")
	// the refresh method: a Target method every keeper implements by storing its parameter into that field
	sp := p.Pkg("")
	var iface *types.Interface
	if tgt := sp.Type("Target"); tgt != nil {
		iface, _ = tgt.Type().Underlying().(*types.Interface)
	}
	if iface == nil {
		r.Unk(rule, "anchor:dawn.Target", "-", "interface not found")
		return
	}
	refresh := ""
	for i := 0; i < iface.NumMethods(); i++ {
		name := iface.Method(i).Name()
		if name == "info" {
			continue
		}
		all := len(keepers) > 0
		for _, k := range keepers {
			f := p.Func("", k.typ, name)
			stores := false
			if f != nil && f.Blocks != nil {
				core.Instrs(f, func(in ssa.Instruction) {
					st, ok := in.(*ssa.Store)
					if !ok || !core.IsField(st.Addr, pkgRoot, k.typ, k.field) {
						return
					}
					if prm := paramBehind(st.Val); prm != nil && prm.Parent() == f {
						stores = true
					}
				})
			}
			if !stores {
				all = false
			}
		}
		if all {
			refresh = name
		}
	}
	if refresh == "" {
		r.Bad(rule, "dawn.Target#record-refresh", p.Pos(m.Fn.Pos()), "no method of Target lets Evaluate replace the record a target keeps in memory: the records Evaluate writes only reach the disk, and a later run of the same Project (run() in the REPL) decides from the record read at load - after a forced run whose body failed, the target is reported up to date and the build succeeds")
		return
	}
	r.OK(rule, "dawn.Target#record-refresh", p.Pos(m.Fn.Pos()), "Target.%s replaces the kept record in every implementation that keeps one", refresh)
	// every saveTargetInfo call made on behalf of Evaluate is paired with a refresh carrying the same record
	sameRecord := func(a, b ssa.Value) bool {
		if a == b {
			return true
		}
		la, ok1 := a.(*ssa.UnOp)
		lb, ok2 := b.(*ssa.UnOp)
		return ok1 && ok2 && la.Op == token.MUL && lb.Op == token.MUL && la.X == lb.X
	}
	n := 0
	var fns []*ssa.Function
	for f := range staticClosure(p, m.Fn) {
		if f.Pkg == m.Fn.Pkg {
			fns = append(fns, f)
		}
	}
	sort.Slice(fns, func(i, j int) bool { return fns[i].String() < fns[j].String() })
	for _, f := range fns {
		for _, sc := range core.CallsTo(f, m.Save) {
			save, ok := sc.(*ssa.Call)
			if !ok {
				continue
			}
			n++
			rec := save.Call.Args[len(save.Call.Args)-1]
			paired := false
			for _, c := range core.Calls(f) {
				cc := c.Common()
				if !cc.IsInvoke() || cc.Method.Name() != refresh || len(cc.Args) != 1 {
					continue
				}
				if sameRecord(cc.Args[0], rec) && core.InstrReaches(save, c.(ssa.Instruction)) {
					paired = true
				}
			}
			r.Check(paired, rule, fmt.Sprintf("%s#write-%d-refreshes", fname(f), n), p.InstrPos(save), "the record written is handed to Target."+refresh, "this record write is not followed by Target."+refresh+" with the same record: the target keeps reporting the record it had before")
		}
	}
	r.Floor(rule, n, 1, "record writes of Evaluate")
}

// ---------------------------------------------------------------------------------------------
// C13

func runC13(p *core.Prog, r *core.Result) {
	r.Decided = []string{
		"R13.1 every call in (*runTarget).Evaluate from which a file-system or process effect is reachable (the body, the record writes) is on the not-dry-run edge; the up-to-date checks reach no such effect",
		"R13.2 a dry run reports what a real run reports: it marks the visited target as assumed to change in this run (unconditionally; the dependency loop reads the mark) and reports success with changed=true, and every Target.evaluate implementation reports changed=true on success",
		"R13.5 a dry run leaves nothing behind in memory that a later run reads: it does not write runTarget.changed (which real runs read and which is never reset), its own mark carries the number of the run, and that number advances before every run - so on a Project used for several runs (REPL, run() builtin, watch) a dry run does not change what the next real build does",
		"R13.6 evaluating a target does not write into the record it was loaded with: the map that collects the dependencies' current stamps is created by the evaluation (make / a literal on every path), and no map update or delete in Evaluate's dependency code has a map taken from Target.info() as its subject - the record's Dependencies map is shared with the target's in-memory record, so updating it in place makes a dry run erase the evidence (a stale recorded stamp) that the next run on the same Project needs to find the target out of date",
		"R13.7 the dry run and the real build decide on the same project: every command of cmd/dawn that goes on to Project.Run / Project.Watch loads the project with the index argument constantly false (never with the dry-run flag): targets loaded from the saved index know nothing of edited target bodies, always=True, generated sources or flag arguments, so a dry run decided on them does not predict the real build",
		"R13.8 the real build attempts what the dry run reports, apart from what is downstream of a failure: in package runner the invocation of Target.Evaluate is conditional on nothing but the outcome of loading that very target - a condition on state of the whole run (a flag set when some other target fails) makes the real build skip out-of-date targets that do not depend on the failed one",
		"R13.9 a dry run never changes what the next run does: Target.upToDate() writes neither sourceFile.oldSum nor function.oldEnv (the recorded sides of the comparisons are committed by load, evaluate and setInfo only) - a check that already remembers what it saw lets the run after a dry run, on the same Project, find an edited source up to date",
		"R13.3 the dry-run flag is assigned on every path of RunOptions.apply (it cannot leak into the next run)",
		"R13.4 'evaluating' is reported before the dry-run test",
	}
	r.NotDecided = []string{"equality of the reported target sets as observed at run time", "effects of user code reachable only through the Starlark interpreter (the body is the unit that is skipped)"}
	r.Trusted = append(r.Trusted, "table of file-system/process mutators (core.FSMutators)")
	m := buildEvalModel(p, r, "R13.0")
	if m == nil {
		return
	}
	notDry := func(at ssa.Instruction) bool {
		return holds(p, at, false, func(v ssa.Value) bool { return projField(v, "dryrun") })
	}
	// R13.1 effectful sites in Evaluate
	n := 0
	n++
	r.Check(notDry(m.Evaluate), "R13.1", "dawn.(*runTarget).Evaluate#body-not-in-dry-run", p.InstrPos(m.Evaluate), "the target body runs only on the not-dry-run edge", "the target body can run during a dry run")
	for i, s := range m.Saves {
		n++
		r.Check(notDry(s), "R13.1", fmt.Sprintf("dawn.(*runTarget).Evaluate#record-write-%d-not-in-dry-run", i+1), p.InstrPos(s), "the record is written only on the not-dry-run edge", "a target record can be written during a dry run: the next real build sees state the dry run produced")
	}
	// any other static call in Evaluate reaching a mutator
	var evalCalls []ssa.CallInstruction
	for _, f := range m.fns() {
		evalCalls = append(evalCalls, core.Calls(f)...)
	}
	for _, c := range evalCalls {
		cal := core.Callee(c)
		if cal == m.BodyFn && cal != m.Fn {
			continue // its own call sites are examined one by one
		}
		if cal == nil || m.isSaveFn(cal) || !core.InModule(cal) {
			if cal != nil && core.FSMutators[core.CalleeKey(cal)] {
				n++
				r.Check(notDry(c.(ssa.Instruction)), "R13.1", "dawn.(*runTarget).Evaluate#direct-effect:"+core.CalleeKey(cal), p.InstrPos(c.(ssa.Instruction)), "on the not-dry-run edge", "a file-system effect in Evaluate is reachable during a dry run")
			}
			continue
		}
		if ms := mutatorSites(p, cal); len(ms) > 0 {
			n++
			r.Check(notDry(c.(ssa.Instruction)), "R13.1", "dawn.(*runTarget).Evaluate#effect-via:"+fname(cal), p.InstrPos(c.(ssa.Instruction)), "on the not-dry-run edge", fmt.Sprintf("%s (reaches %s) can be called during a dry run", fname(cal), ms[0].Callee))
		}
	}
	r.Floor("R13.1", n, 1, "effectful call sites in Evaluate")
	// upToDate / info / dependencies implementations reach no mutator
	for _, meth := range []string{"upToDate", "info", "dependencies", "Doc", "Label", "Project"} {
		for _, f := range targetImpls(p, meth) {
			ms := mutatorSites(p, f)
			construct := fname(f) + "#no-effects"
			if len(ms) == 0 {
				r.OK("R13.1", construct, p.Pos(f.Pos()), "reaches no file-system or process mutator (it runs in dry runs too)")
			} else {
				r.Bad("R13.1", construct, p.InstrPos(ms[0].Call.(ssa.Instruction)), "%s runs during dry runs and reaches %s in %s", meth, ms[0].Callee, fname(ms[0].Fn))
			}
		}
	}

	// R13.6 the loaded record is not written through
	checkRecordNotWrittenThrough(p, r, m, "R13.6")
	checkBuildLoadsBuildFiles(p, r, "R13.7")
	checkEvaluateUnconditional(p, r, "R13.8")
	checkVerdictDoesNotCommit(p, r, "R13.9")

	// R13.2
	impls := targetImpls(p, "evaluate")
	succeeding := 0
	for _, f := range impls {
		for i, ret := range core.ReturnsOf(f) {
			vals := core.RetVals(ret)
			if len(vals) != 3 || !core.IsNilConst(vals[2]) {
				continue
			}
			succeeding++
			b, ok := core.ConstBool(vals[1])
			r.Check(ok && b, "R13.2", fmt.Sprintf("%s#changed-on-success-%d", fname(f), i+1), p.InstrPos(ret), "a successful evaluation reports changed=true, which is what the dry run assumes", "a successful evaluation may report changed=false while a dry run always assumes true: the dry run predicts rebuilds of dependents that the real build does not perform")
		}
	}
	r.Floor("R13.2", succeeding, 1, "successful returns of Target.evaluate implementations")
	// dry branch: the target is marked "assumed to change in this run" and success is reported. The mark is
	// run-scoped: a field of the runTarget that receives the number of the current run (Project.run), which the
	// dependency loop compares with the current run's number under Project.dryrun. The `changed` flag, which real
	// runs read and which is never reset (R1.10), is not written by a dry run (R13.5).
	isRunNo := func(v ssa.Value) bool { return core.LoadOfField(v, pkgRoot, "Project", "run") }
	onDry := func(in ssa.Instruction) bool {
		return holds(p, in, true, func(v ssa.Value) bool { return projField(v, "dryrun") })
	}
	markField := ""
	var markStores []*ssa.Store
	nDry := 0
	core.Instrs(m.Fn, func(in ssa.Instruction) {
		st, ok := in.(*ssa.Store)
		if !ok || !onDry(st) {
			return
		}
		owner, fld := core.FieldOf(st.Addr)
		if owner == nil || owner.Obj().Name() != "runTarget" {
			return
		}
		nDry++
		construct := fmt.Sprintf("dawn.(*runTarget).Evaluate#dry-mark-%d", nDry)
		if fld == "changed" {
			r.Bad("R13.5", construct, p.InstrPos(st), "a dry run writes runTarget.changed, the flag by which a target that really executed forces its dependents in later runs of the same Project and which is never reset: after a dry run (the REPL's run(dry_run=True), watch mode) a real build of the unchanged tree re-executes every target the dry run visited - the dry run changed what the next real build does")
			return
		}
		if isRunNo(st.Val) {
			markField = fld
			markStores = append(markStores, st)
			r.OK("R13.2", construct, p.InstrPos(st), "the visited out-of-date target is marked as assumed to change in this run (runTarget.%s = Project.run), unconditionally", fld)
			return
		}
		r.Bad("R13.2", construct, p.InstrPos(st), "in a dry run runTarget.%s receives something other than the number of the current run: a real build re-runs the target with changed=true, so the mark must be unconditional, and it must not outlive the run", fld)
	})
	if nDry == 0 {
		r.Bad("R13.2", "dawn.(*runTarget).Evaluate#dry-mark-1", p.Pos(m.Fn.Pos()), "the dry-run branch does not mark the target as changed at all: its dependents are predicted up to date while a real build attempts them")
	}
	r.OK("R13.5", "dawn.(*runTarget).Evaluate#dry-run-leaves-changed-alone", p.Pos(m.Fn.Pos()), "examined %d store(s) to runTarget fields on the dry edge (violations are listed separately)", nDry)
	okDry := false
	for _, st := range markStores {
		for _, c := range m.Events["TargetSucceeded"] {
			if onDry(c) && (c.Block() == st.Block() || core.Dominates(st, c)) {
				okDry = true
			}
		}
	}
	// the reader: the dependency loop counts a dependency as out of date when, in a dry run, its mark is this run's
	okReader := false
	if markField != "" {
		// in the dependency function or a predicate helper of the package it calls
		readers := []*ssa.Function{m.DepsFn}
		for _, c := range core.Calls(m.DepsFn) {
			if h := core.Callee(c); h != nil && h.Pkg == m.DepsFn.Pkg && h.Blocks != nil && h != m.Save {
				readers = append(readers, h)
			}
		}
		for _, rf := range readers {
			core.Instrs(rf, func(in ssa.Instruction) {
				bo, ok := in.(*ssa.BinOp)
				if !ok || bo.Op != token.EQL {
					return
				}
				a, b := core.LoadOfField(bo.X, pkgRoot, "runTarget", markField), core.LoadOfField(bo.Y, pkgRoot, "runTarget", markField)
				if (a && isRunNo(bo.Y)) || (b && isRunNo(bo.X)) {
					okReader = true
				}
			})
		}
	}
	r.Check(okReader, "R13.2", "dawn.(*runTarget).Evaluate#dry-mark-read", p.Pos(m.DepsFn.Pos()), "the dependency loop compares a dependency's dry-run mark with the number of the current run", "the mark a dry run leaves on a visited target is not read back by the dependency loop: dependents of a target that would run are predicted up to date")
	// the run number advances with every run, before the runner starts: marks of earlier dry runs never match
	if run := need(p, r, "R13.5", "", "Project", "Run"); run != nil {
		okInc := beforeRunner(p, run, func(in ssa.Instruction) bool {
			st, ok := in.(*ssa.Store)
			if !ok || !core.IsField(st.Addr, pkgRoot, "Project", "run") {
				return false
			}
			bo, ok := st.Val.(*ssa.BinOp)
			if !ok || bo.Op != token.ADD || !isRunNo(bo.X) {
				return false
			}
			k, ok := core.ConstInt(bo.Y)
			return ok && k == 1
		})
		if len(markStores) > 0 {
			r.Check(okInc, "R13.5", "dawn.(*Project).Run#advances-run-number", p.Pos(run.Pos()), "every run gets a new number before the runner starts: the marks of an earlier dry run match no later run", "the run number is not advanced before every run: the marks a dry run left on the targets it visited are still taken for this run's, and the next build re-executes up-to-date targets")
		}
	}
	for i, c := range m.Events["TargetSucceeded"] {
		if !holds(p, c, true, func(v ssa.Value) bool { return projField(v, "dryrun") }) {
			continue
		}
		b, isConst := core.ConstBool(c.Call.Args[len(c.Call.Args)-1])
		r.Check(isConst && b, "R13.2", fmt.Sprintf("dawn.(*runTarget).Evaluate#dry-succeeded-%d", i+1), p.InstrPos(c), "the dry run reports success with changed=true, as a real evaluation does", "the dry run reports a different 'changed' than a real evaluation (which always reports true)")
	}
	r.Check(okDry, "R13.2", "dawn.(*runTarget).Evaluate#dry-branch", p.Pos(m.Fn.Pos()), "the dry-run branch marks the target as assumed to change and reports success", "the dry-run branch does not mark the target as changed before it reports success (dependents would be predicted up to date)")
	// the dry branch returns before the body
	for _, ret := range core.ReturnsOf(m.Fn) {
		if holds(p, ret, true, func(v ssa.Value) bool { return projField(v, "dryrun") }) && m.dom(m.Evaluate, ret) {
			r.Bad("R13.2", "dawn.(*runTarget).Evaluate#dry-return", p.InstrPos(ret), "a dry-run return is reached after the body")
		}
	}

	// R13.3
	apply := need(p, r, "R13.3", "", "RunOptions", "apply")
	if apply != nil {
		for i, ret := range core.ReturnsOf(apply) {
			assigned := false
			core.Instrs(apply, func(in ssa.Instruction) {
				if st, ok := in.(*ssa.Store); ok && core.IsField(st.Addr, pkgRoot, "Project", "dryrun") && core.Dominates(st, ret) {
					assigned = true
				}
			})
			r.Check(assigned, "R13.3", fmt.Sprintf("dawn.(*RunOptions).apply#assigns-dryrun-%d", i+1), p.InstrPos(ret), "Project.dryrun is assigned on this path", "Project.dryrun keeps its previous value on this path: a dry run can leak into the next (real) run or vice versa")
		}
		// nil options clear it
		core.Instrs(apply, func(in ssa.Instruction) {
			st, ok := in.(*ssa.Store)
			if !ok || !core.IsField(st.Addr, pkgRoot, "Project", "dryrun") {
				return
			}
			if nilOpts := p.FactsAt(st).Find(func(c ssa.Value, v bool) bool {
				b, ok := c.(*ssa.BinOp)
				return ok && (b.X == ssa.Value(apply.Params[0]) && core.IsNilConst(b.Y)) && ((b.Op == token.EQL) == v)
			}); nilOpts {
				bv, ok := core.ConstBool(st.Val)
				r.Check(ok && !bv, "R13.3", "dawn.(*RunOptions).apply#nil-options-not-dry", p.InstrPos(st), "nil options mean a real run", "nil options do not reset the dry-run flag to false")
			}
		})
	}
	// Run applies the options before running
	if Run := p.Func("", "Project", "Run"); Run != nil {
		ok := beforeRunner(p, Run, func(in ssa.Instruction) bool {
			c, isCall := in.(ssa.CallInstruction)
			return isCall && core.Callee(c) == apply
		})
		r.Check(ok, "R13.3", "dawn.(*Project).Run#apply-before-run", p.Pos(Run.Pos()), "options are applied before the runner starts", "Run does not apply its options before starting the runner")
	}

	// R13.4
	okOrder := false
	for _, c := range m.Events["TargetEvaluating"] {
		for _, b := range m.Fn.Blocks {
			if iff, ok := b.Instrs[len(b.Instrs)-1].(*ssa.If); ok && projField(iff.Cond, "dryrun") && core.Dominates(c, iff) {
				okOrder = true
			}
		}
	}
	r.Check(okOrder, "R13.4", "dawn.(*runTarget).Evaluate#evaluating-before-dry-test", p.Pos(m.Fn.Pos()), "'evaluating' is reported before the dry-run test, so dry and real runs report the same targets", "'evaluating' is not reported before the dry-run test")
	// the dry-run test comes after the skip decision: the skip decision must not depend on dryrun
	for _, c := range m.Events["TargetUpToDate"] {
		dep := false
		for f := range p.FactsAt(c) {
			if projField(f.Cond, "dryrun") {
				dep = true
			}
		}
		r.Check(!dep, "R13.4", "dawn.(*runTarget).Evaluate#skip-independent-of-dry-run", p.InstrPos(c), "the up-to-date decision does not depend on the dry-run flag", "the up-to-date decision depends on the dry-run flag: dry and real runs visit different targets")
	}
}

// ---------------------------------------------------------------------------------------------
// C03

// pathDerivesFromState: does path operand v derive from Project.work, Project.temp or targetInfoPath?
func pathDerivesFromState(p *core.Prog, v ssa.Value) (bool, string) {
	tip := p.Func("", "Project", "targetInfoPath")
	why := ""
	ok := core.DependsOn(v, core.SliceOpts{Stores: true, ThroughCall: func(c *ssa.Call) bool {
		if cal := core.Callee(c); cal != nil {
			if cal == tip {
				return false
			}
			k := core.CalleeKey(cal)
			return strings.HasPrefix(k, "path/filepath.") || strings.HasPrefix(k, "path.") || strings.HasPrefix(k, "strings.") || k == "fmt.Sprintf" || k == "os.(*File).Name"
		}
		return false
	}}, func(x ssa.Value) bool {
		if core.LoadOfField(x, pkgRoot, "Project", "work") {
			why = "Project.work"
			return true
		}
		if core.LoadOfField(x, pkgRoot, "Project", "temp") {
			why = "Project.temp"
			return true
		}
		if c, ok := x.(*ssa.Call); ok && tip != nil && core.Callee(c) == tip {
			why = "targetInfoPath"
			return true
		}
		if c, ok := x.(*ssa.Call); ok && core.IsCallTo(c, "os", "CreateTemp") {
			why = "os.CreateTemp"
			return true
		}
		return false
	})
	return ok, why
}

func runC03(p *core.Prog, r *core.Result) {
	r.Decided = []string{
		"R3.1 a record is replaced atomically: encoded into a temporary file in the build-state temp directory (same tree as the records), closed, then renamed onto the path derived from the label; each step on the nil-error edge of the previous one",
		"R3.2 who may write build state: the set of file-system mutators in package dawn whose path derives from the state directory is exactly {saveTargetInfo: MkdirAll, CreateTemp, Rename; saveIndex: Create; load: MkdirAll(temp); GC: RemoveAll}",
		"R3.3 when the body fails the record written is built with Rerun=true (in place or through a constructor helper)",
		"R3.4 the success record is written only after the body returned without error; nothing is recorded before the body runs",
		"R3.5 a failing index load falls back to a full load; a failing index write cannot fail a load",
		"R3.6 the build and watch commands never load from the index; Reload never does",
		"R3.7 loading a target writes back exactly the record it read: a load (dry run, partial build, crash before the body) cannot erase a pending re-run",
		"R3.9 what Evaluate records is what the target reports from then on: the Target interface has a method through which every implementation that keeps its record in a field replaces that field, and every record write of Evaluate hands the very record it wrote to that method - otherwise a Project that is used for several runs (run() in the REPL) decides the next run from the record read at load: a target whose body failed in a forced run is up to date again, and the build succeeds",
		"R3.10 what depends on a target that executed in this build is re-executed, whatever stamp the execution ended with: a dependency counts as up to date only if it has a recorded stamp, did not execute in this build (the changed flag, set by every execution and never reset) and its stamp equals the recorded one (C01's R1.2 and R1.10) - a target interrupted inside its body, or failed, whose input is then reverted, lands on its earlier stamp; only the flag makes it and its dependents run again",
		"R3.11 a body whose command did not complete fails: for every (*exec.Cmd).Run / Wait / Output / CombinedOutput in the module, no return on the failing edge of that call reports success, unless the failure is handed on as (*exec.ExitError).ExitCode() and every caller compares that code with zero by == / != only (ExitCode() is -1 for a process killed by a signal: `code > 0` records a target whose command was killed half-way as up to date on its partial output)",
		"R3.12 when a body starts the record on disk no longer says up to date: Evaluate writes a record with Rerun = true before it invokes Target.evaluate() and reaches the body only where that write succeeded - the reason a target runs for (a missing generated file, a forced build) need not outlast the process, and a process that dies inside the body would otherwise leave the last success's record to vouch for half-written outputs",
		"R3.8 the stamp a re-executed target records depends on the stamps of the dependencies this evaluation used (not those of its previous record): a build that dies after the target's record was written and before its dependents' records were leaves the dependents out of date (shared with C01 R1.3)",
	}
	r.NotDecided = []string{"kernel-level atomicity/durability of rename (no fsync: the crash model is process death, not power loss)", "convergence of outputs after recovery"}
	m := buildEvalModel(p, r, "R3.0")
	if m == nil {
		return
	}
	save := m.Save
	tip := need(p, r, "R3.1", "", "Project", "targetInfoPath")
	if tip == nil {
		return
	}
	// ---- R3.1
	var rename, createTemp, closeC, encode ssa.CallInstruction
	steps := func(fn *ssa.Function) {
		for _, c := range core.Calls(fn) {
			switch {
			case core.IsCallTo(c, "os", "Rename"):
				if fn == save {
					rename = c
				}
			case core.IsCallTo(c, "os", "CreateTemp"):
				createTemp = c
			case core.IsMethod(c, "os", "File", "Close"):
				if _, isDefer := c.(*ssa.Defer); !isDefer {
					closeC = c
				}
			case core.IsMethod(c, "encoding/json", "Encoder", "Encode"):
				encode = c
			}
		}
	}
	steps(save)
	// the temporary file may be written by a helper of the package that returns its name
	var tmpSite *ssa.Call
	var tmpFn *ssa.Function
	if createTemp == nil {
		for _, c := range core.Calls(save) {
			h := core.Callee(c)
			call, isCall := c.(*ssa.Call)
			if !isCall || h == nil || h.Pkg != save.Pkg || h.Blocks == nil || h == tip {
				continue
			}
			for _, hc := range core.Calls(h) {
				if core.IsCallTo(hc, "os", "CreateTemp") {
					tmpSite, tmpFn = call, h
				}
			}
		}
		if tmpFn != nil {
			steps(tmpFn)
		}
	}
	construct := "dawn.(*Project).saveTargetInfo#atomic-replace"
	if rename == nil || createTemp == nil || closeC == nil || encode == nil {
		var miss []string
		if createTemp == nil {
			miss = append(miss, "os.CreateTemp")
		}
		if encode == nil {
			miss = append(miss, "(*json.Encoder).Encode")
		}
		if closeC == nil {
			miss = append(miss, "(*os.File).Close")
		}
		if rename == nil {
			miss = append(miss, "os.Rename")
		}
		r.Bad("R3.1", construct, p.Pos(save.Pos()), "saveTargetInfo does not follow temp-file + rename (missing %s): a crash while writing leaves a torn record in place", strings.Join(miss, ", "))
	} else {
		ri := rename.(ssa.Instruction)
		// destination = targetInfoPath(label)
		dst := rename.Common().Args[1]
		dstOK := false
		if c, ok := dst.(*ssa.Call); ok && core.Callee(c) == tip && c.Call.Args[1] == ssa.Value(save.Params[1]) {
			dstOK = true
		}
		// source = Name() of the CreateTemp result
		src := rename.Common().Args[0]
		isTempName := func(v ssa.Value) bool {
			if c, ok := v.(*ssa.Call); ok && core.IsMethod(c, "os", "File", "Name") {
				if e, ok := c.Call.Args[0].(*ssa.Extract); ok && e.Tuple == createTemp.(ssa.Value) {
					return true
				}
			}
			return false
		}
		dirOK := core.LoadOfField(createTemp.Common().Args[0], pkgRoot, "Project", "temp")
		encV := encode.(ssa.Value)
		clsV := closeC.(ssa.Value)
		// the encoder writes to the temp file
		encToTemp := core.DependsOn(encode.Common().Args[0], core.SliceOpts{ThroughCall: func(*ssa.Call) bool { return true }}, func(v ssa.Value) bool { return v == createTemp.(ssa.Value) })
		var srcOK, ordOK, infoOK bool
		if tmpFn == nil {
			srcOK = isTempName(src)
			// ordering on nil edges
			n1, k1 := p.FactsAt(ri).ErrNonNil(encV)
			n2, k2 := p.FactsAt(ri).ErrNonNil(clsV)
			ordOK = core.Dominates(encode.(ssa.Instruction), closeC.(ssa.Instruction)) && core.Dominates(closeC.(ssa.Instruction), ri) && k1 && !n1 && k2 && !n2
			// the encoded value is the info parameter
			infoOK = core.DependsOn(encode.Common().Args[1], core.SliceOpts{Stores: true}, func(v ssa.Value) bool { return v == ssa.Value(save.Params[2]) })
		} else {
			// the helper hands out the name only on returns that follow encode -> close on nil edges; every other
			// return carries a non-nil error; the rename is on the nil edge of the helper's error
			ex, isEx := src.(*ssa.Extract)
			nres := tmpFn.Signature.Results().Len()
			srcOK = isEx && ex.Tuple == ssa.Value(tmpSite) && nres >= 2
			ordOK = srcOK
			if srcOK {
				nGood := 0
				for _, ret := range core.ReturnsOf(tmpFn) {
					vals := core.RetVals(ret)
					errV := vals[nres-1]
					if !core.IsNilConst(errV) {
						if nn, known := p.FactsAt(ret).ErrNonNil(errV); known && nn {
							continue // failure return
						}
					}
					nGood++
					if !isTempName(vals[ex.Index]) {
						srcOK = false
					}
					n1, k1 := p.FactsAt(ret).ErrNonNil(encV)
					n2, k2 := p.FactsAt(ret).ErrNonNil(clsV)
					if !(core.Dominates(encode.(ssa.Instruction), closeC.(ssa.Instruction)) && core.Dominates(closeC.(ssa.Instruction), ret) && k1 && !n1 && k2 && !n2) {
						ordOK = false
					}
				}
				if nGood == 0 {
					ordOK = false
				}
				errRes := extractOf(tmpSite, nres-1)
				if errRes == nil {
					ordOK = false
				} else if nn, known := p.FactsAt(ri).ErrNonNil(errRes); !known || nn {
					ordOK = false
				}
			}
			// the encoded value is the helper's parameter that receives the info parameter
			for i, prm := range tmpFn.Params {
				if i < len(tmpSite.Call.Args) && core.DependsOn(encode.Common().Args[1], core.SliceOpts{Stores: true}, func(v ssa.Value) bool { return v == ssa.Value(prm) }) &&
					core.DependsOn(tmpSite.Call.Args[i], core.SliceOpts{Stores: true}, func(v ssa.Value) bool { return v == ssa.Value(save.Params[2]) }) {
					infoOK = true
				}
			}
		}
		r.Check(dstOK, "R3.1", construct+":destination", p.InstrPos(ri), "the rename target is targetInfoPath(label)", "the rename target is not targetInfoPath(label)")
		r.Check(srcOK && dirOK, "R3.1", construct+":source", p.InstrPos(ri), "the rename source is the temporary file created in Project.temp", "the rename source is not a temporary file created in Project.temp (a different directory may be another file system: rename is then not atomic)")
		r.Check(ordOK && encToTemp && infoOK, "R3.1", construct+":order", p.InstrPos(ri), "encode(info) -> close -> rename, each on the nil-error edge of the previous step", "the record can be renamed into place before it was completely written and closed without error")
		// no other write to the destination path
		writers := core.Calls(save)
		if tmpFn != nil {
			writers = append(writers, core.Calls(tmpFn)...)
		}
		for _, c := range writers {
			cal := core.Callee(c)
			if cal == nil || c == rename {
				continue
			}
			k := core.CalleeKey(cal)
			if k == "os.Create" || k == "os.WriteFile" || k == "os.OpenFile" {
				r.Bad("R3.1", construct+":in-place-write", p.InstrPos(c.(ssa.Instruction)), "%s in saveTargetInfo: records must only appear through rename", k)
			}
		}
	}
	// temp extends work (same tree)
	if Load := need(p, r, "R3.1", "", "", "Load"); Load != nil {
		var workArgs, tempArgs []string
		// path components of a value: constants, the root parameter, filepath.Join of components (through locals)
		var partsOf func(v ssa.Value, depth int) []string
		partsOf = func(v ssa.Value, depth int) []string {
			if s, ok := core.ConstString(v); ok {
				return []string{s}
			}
			if v == ssa.Value(Load.Params[0]) {
				return []string{"<root>"}
			}
			if prm, ok := v.(*ssa.Parameter); ok {
				// the fields may be set by a constructor helper: its parameter is a symbol common to both paths
				return []string{"<" + prm.Name() + ">"}
			}
			if core.LoadOfField(v, pkgRoot, "Project", "work") {
				return []string{"<work>"}
			}
			if c, ok := v.(*ssa.Call); ok && core.IsCallTo(c, "path/filepath", "Join") && depth < 4 {
				var parts []string
				if sl, ok := c.Call.Args[0].(*ssa.Slice); ok {
					if elems, ok := tupleElemsAny(sl); ok {
						for _, e := range elems {
							parts = append(parts, partsOf(e, depth+1)...)
						}
						return parts
					}
				}
			}
			return []string{"?"}
		}
		// the two fields are set in Load or in a constructor helper of the package (both in the same function, once)
		var workFn, tempFn *ssa.Function
		nStores := 0
		for _, f := range p.ModuleFuncs() {
			if f.Pkg == nil || f.Pkg.Pkg.Path() != pkgRoot {
				continue
			}
			core.Instrs(f, func(in ssa.Instruction) {
				st, ok := in.(*ssa.Store)
				if !ok {
					return
				}
				for _, fld := range []string{"work", "temp"} {
					if !core.IsField(st.Addr, pkgRoot, "Project", fld) {
						continue
					}
					nStores++
					if fld == "work" {
						workArgs, workFn = partsOf(st.Val, 0), f
					} else {
						tempArgs, tempFn = partsOf(st.Val, 0), f
					}
				}
			})
		}
		ok := len(workArgs) > 0 && len(tempArgs) > len(workArgs) && workFn == tempFn && nStores == 2
		for i := range workArgs {
			if i >= len(tempArgs) || tempArgs[i] != workArgs[i] || workArgs[i] == "?" {
				ok = false
			}
		}
		if len(tempArgs) > 1 && tempArgs[0] == "<work>" && nStores == 2 {
			ok = true
			for _, a := range tempArgs[1:] {
				if a == "?" || a == ".." || strings.HasPrefix(a, "../") || strings.HasPrefix(a, "/") {
					ok = false
				}
			}
		}
		r.Check(ok, "R3.1", "dawn.Load#temp-inside-work", p.Pos(Load.Pos()), fmt.Sprintf("temp (%s) lies inside work (%s): same file system, so rename is atomic", strings.Join(tempArgs, "/"), strings.Join(workArgs, "/")), fmt.Sprintf("temp (%s) is not a sub-path of work (%s)", strings.Join(tempArgs, "/"), strings.Join(workArgs, "/")))
	}

	// ---- R3.2 who may write build state
	// the known writers, resolved through the anchor lookup (a renamed function keeps its role)
	allowedFns := map[*ssa.Function]map[string]bool{}
	for _, a := range []struct {
		name string
		ops  []string
	}{{"saveTargetInfo", []string{"os.MkdirAll", "os.CreateTemp", "os.Rename"}}, {"saveIndex", []string{"os.Create"}}, {"load", []string{"os.MkdirAll"}}} {
		if f := p.Func("", "Project", a.name); f != nil {
			allowedFns[f] = map[string]bool{}
			for _, o := range a.ops {
				allowedFns[f][o] = true
			}
		}
	}
	if gcFn := p.Func("", "Project", "GC"); gcFn != nil {
		for _, a := range gcFn.AnonFuncs {
			allowedFns[a] = map[string]bool{"os.RemoveAll": true}
		}
	}
	// a helper that only known writers call (statically, never as a value) inherits what they may do
	for changed, rounds := true, 0; changed && rounds < 3; rounds++ {
		changed = false
		for _, f := range p.ModuleFuncs() {
			if _, known := allowedFns[f]; known || f.Pkg == nil || f.Pkg.Pkg.Path() != pkgRoot || f.Parent() != nil {
				continue
			}
			callers := p.StaticCallers(f)
			if len(callers) == 0 || len(p.FuncValueUses(f)) > 0 {
				continue
			}
			inherit := map[string]bool{}
			all := true
			for _, c := range callers {
				ops, ok := allowedFns[c.Parent()]
				if !ok {
					all = false
					break
				}
				for o := range ops {
					inherit[o] = true
				}
			}
			if all {
				allowedFns[f] = inherit
				changed = true
			}
		}
	}
	allowedOp := func(f *ssa.Function, k string) bool { return allowedFns[f][k] }
	nW := 0
	for _, f := range p.ModuleFuncs() {
		root := f
		for root.Parent() != nil {
			root = root.Parent()
		}
		if root.Pkg == nil || root.Pkg.Pkg.Path() != pkgRoot {
			continue
		}
		for _, c := range core.Calls(f) {
			cal := core.Callee(c)
			if cal == nil {
				continue
			}
			k := core.CalleeKey(cal)
			if !core.FSMutators[k] || strings.HasPrefix(k, "os.(*File)") {
				continue
			}
			if len(c.Common().Args) == 0 {
				continue
			}
			pathArgs := []ssa.Value{c.Common().Args[0]}
			if k == "os.Rename" || k == "os.Symlink" || k == "os.Link" {
				pathArgs = append(pathArgs, c.Common().Args[1])
			}
			state, why := false, ""
			for _, a := range pathArgs {
				if ok, w := pathDerivesFromState(p, a); ok {
					state, why = true, w
				}
			}
			// the WalkDir callback of GC receives paths under Project.work
			if !state && f.Parent() != nil && f.Parent().Name() == "GC" {
				state, why = true, "WalkDir(Project.work) callback"
			}
			if !state {
				continue
			}
			nW++
			construct := fmt.Sprintf("%s#state-writer:%s", fname(f), k)
			if allowedOp(f, k) {
				r.OK("R3.2", construct, p.InstrPos(c.(ssa.Instruction)), "known writer of build state (path from %s)", why)
			} else {
				r.Bad("R3.2", construct, p.InstrPos(c.(ssa.Instruction)), "%s writes into the build-state directory (path from %s) outside the known writers: persisted state can now change at a point the recovery argument does not cover", k, why)
			}
		}
	}
	r.Floor("R3.2", nW, 2, "file-system writers of build state in package dawn")

	// ---- R3.3 / R3.4
	checkRecordWrites(p, r, m, "R3.3", "R3.4")

	// ---- R3.7 a load cannot erase a pending re-run
	checkLoadRewritesRead(p, r, "R3.7")

	// ---- R3.10 dependents of a target that executed are re-executed (C01's R1.2 and R1.10)
	{
		sub := core.NewResult("C01")
		runC01(p, sub)
		n := 0
		for _, o := range sub.Obls {
			if o.Rule != "R1.2" && o.Rule != "R1.10" {
				continue
			}
			if strings.HasPrefix(o.Construct, "rule#") {
				continue
			}
			n++
			switch o.Status {
			case core.Discharged:
				r.OK("R3.10", o.Construct, o.Pos, "%s", o.Detail)
			case core.Violated:
				r.Bad("R3.10", o.Construct, o.Pos, "%s", o.Detail)
			case core.Undecided:
				r.Unk("R3.10", o.Construct, o.Pos, "%s", o.Detail)
			}
		}
		r.Floor("R3.10", n, 3, "obligations on the dependency verdict and the changed flag")
	}

	// ---- R3.12 a pending record is on disk before the body starts
	checkPendingRecordBeforeBody(p, r, "R3.12")

	// ---- R3.11 a command that did not complete fails the body
	checkCommandFailureFailsBody(p, r, "R3.11")

	// ---- R3.9 the record written becomes the record reported
	checkRecordRefreshed(p, r, m, "R3.9")

	// ---- R3.8 the recorded stamp covers this evaluation's dependencies
	checkStampDependsOnDeps(p, r, m, "R3.8")

	// ---- R3.5
	load := need(p, r, "R3.5", "", "Project", "load")
	loadIndex := need(p, r, "R3.5", "", "Project", "loadIndex")
	saveIndex := need(p, r, "R3.5", "", "Project", "saveIndex")
	loadPackage := need(p, r, "R3.5", "", "Project", "loadPackage")
	if load != nil && loadIndex != nil && saveIndex != nil && loadPackage != nil {
		for _, c := range core.CallsTo(load, loadIndex) {
			call := c.(*ssa.Call)
			// every return that does not pass through loadPackage must be on the nil edge of loadIndex
			okFallback := true
			for _, ret := range core.ReturnsOf(load) {
				throughFull := false
				for _, lp := range core.CallsTo(load, loadPackage) {
					if core.Dominates(lp.(ssa.Instruction), ret) {
						throughFull = true
					}
				}
				if throughFull {
					continue
				}
				if core.InstrReaches(call, ret) {
					vals := core.RetVals(ret)
					nn, known := p.FactsAt(ret).ErrNonNil(call)
					onNilEdge := known && !nn
					if len(vals) == 1 && (vals[0] == ssa.Value(call) || core.IsNilConst(vals[0]) && !onNilEdge) {
						okFallback = false // returns the index error, or claims success without a loaded project
					}
				}
			}
			r.Check(okFallback, "R3.5", "dawn.(*Project).load#index-fallback", p.InstrPos(call), "only a successful index load returns early; every other outcome falls through to the full load", "a failing index load can end the load: a torn or stale index file makes the project unloadable")
		}
		for _, c := range core.CallsTo(load, saveIndex) {
			used := false
			if call, ok := c.(*ssa.Call); ok {
				for _, ref := range *call.Referrers() {
					if _, dbg := ref.(*ssa.DebugRef); !dbg {
						used = true
					}
				}
			}
			r.Check(!used, "R3.5", "dawn.(*Project).load#index-write-optional", p.InstrPos(c.(ssa.Instruction)), "the result of saveIndex is ignored: a failed index write cannot fail a load", "the result of saveIndex influences the load: a failing index write can fail a build")
		}
	}
	// ---- R3.6
	reload := need(p, r, "R3.6", "", "Project", "Reload")
	if reload != nil && load != nil {
		for _, c := range core.CallsTo(reload, load) {
			b, ok := core.ConstBool(c.Common().Args[1])
			r.Check(ok && !b, "R3.6", "dawn.(*Project).Reload#no-index", p.InstrPos(c.(ssa.Instruction)), "Reload always performs a full load", "Reload may load from the index: watch mode would build from stale information")
		}
	}
	checkBuildCommandsNoIndex(p, r)
}

// checkRecordWrites: failure record forces a re-run; success record only after a successful body.
func checkRecordWrites(p *core.Prog, r *core.Result, m *evalModel, ruleFail, ruleOK string) {
	evalErr := extractOf(m.Evaluate, 2)
	nFail, nOK := 0, 0
	for i, w := range m.recordWrites() {
		s, lit := w.Site, w.Lit
		nn, known := p.FactsAt(s).ErrNonNil(evalErr)
		construct := fmt.Sprintf("dawn.(*runTarget).Evaluate#record-write-%d", i+1)
		if !m.dom(m.Evaluate, s) {
			if rr, okc := core.ConstBool(lit.Fields["Rerun"]); okc && rr && (len(lit.Whole) == 0 || lit.After["Rerun"]) {
				r.OK(ruleFail, construct+":early-failure-record", p.InstrPos(s), "a record written before the body is built with Rerun=true: it can only force a re-run")
				continue
			}
			r.Bad(ruleOK, construct, p.InstrPos(s), "a record is written before the body has run: a crash inside the body leaves a record that claims the target is up to date")
			continue
		}
		switch {
		case known && nn:
			nFail++
			rr, okc := core.ConstBool(lit.Fields["Rerun"])
			r.Check(okc && rr && (len(lit.Whole) == 0 || lit.After["Rerun"]), ruleFail, construct+":failure-record", p.InstrPos(s), "the failure record is built with Rerun=true", "the record written when the body fails does not force a re-run (Rerun is not the constant true): the failed target is remembered as up to date")
		case known && !nn:
			nOK++
			_, hasRerun := lit.Fields["Rerun"]
			_, hasData := lit.Fields["Data"]
			if len(lit.Whole) != 0 {
				r.Unk(ruleOK, construct+":success-record", p.InstrPos(s), "the success record starts from a copy of another record: whether it carries a pending re-run is not decided")
				continue
			}
			r.Check(!hasRerun && hasData, ruleOK, construct+":success-record", p.InstrPos(s), "the success record is written on the nil-error edge of the body, with a stamp and without Rerun", "the success record lacks a stamp or carries Rerun")
		default:
			r.Bad(ruleOK, construct, p.InstrPos(s), "a record is written on a path where it is not known whether the body succeeded")
		}
	}
	r.Floor(ruleFail, nFail, 1, "failure-path record writes")
	r.Floor(ruleOK, nOK, 1, "success-path record writes")

}

// tupleElemsAny: like tupleElems but for any element type (variadic argument arrays).
func tupleElemsAny(sl *ssa.Slice) ([]ssa.Value, bool) {
	return tupleElems(sl)
}

func checkBuildCommandsNoIndex(p *core.Prog, r *core.Result) {
	lp := p.Func("cmd/dawn", "workspace", "loadProject")
	if lp == nil {
		r.Unk("R3.6", "anchor:cmd/dawn.(*workspace).loadProject", "-", "not found")
		return
	}
	// callers in files build.go / watch.go: identified by role = the cobra commands whose Run eventually calls (*workspace).build or watch.
	n := 0
	for _, ls := range loadSitesOfRunners(p, lp) {
		c, f := ls.Site, ls.Site.Parent()
		// repl also reaches Run through the REPL builtin; it is interactive and explicitly index-optional (flag): skip commands whose index argument is a flag variable
		b, isConst := core.ConstBool(ls.Index)
		n++
		if !isConst {
			r.Note("R3.6", fname(f)+"#index-arg", p.InstrPos(c.(ssa.Instruction)), "index argument is a runtime flag (interactive REPL); not a build command")
			continue
		}
		r.Check(!b, "R3.6", fname(f)+"#index-arg", p.InstrPos(c.(ssa.Instruction)), "a command that builds loads the project fully (index=false)", "a command that builds prefers the index: targets are index stubs that cannot execute and source changes are not seen")
	}
	r.Floor("R3.6", n, 1, "commands that load a project and build")
}

// beforeRunner: on every path of fn (Project.Run) an instruction satisfying pred is executed before the runner starts
// - in fn itself, or in a helper of the package that only fn calls and that executes such an instruction on every path.
func beforeRunner(p *core.Prog, fn *ssa.Function, pred func(ssa.Instruction) bool) bool {
	fam := family(p, fn)
	var always func(h *ssa.Function, depth int) bool
	isStep := func(in ssa.Instruction) bool {
		if pred(in) {
			return true
		}
		if c, ok := in.(*ssa.Call); ok {
			if h := core.Callee(c); h != nil && h != fn && fam[h] {
				return always(h, 1)
			}
		}
		return false
	}
	always = func(h *ssa.Function, depth int) bool {
		if depth > 2 {
			return false
		}
		for _, ret := range core.ReturnsOf(h) {
			if core.BlockReachesAvoiding(h.Blocks[0], ret, isStep) {
				return false
			}
		}
		return len(core.ReturnsOf(h)) > 0
	}
	n := 0
	for _, c := range core.Calls(fn) {
		if !core.IsCallTo(c, pkgRunner, "Run") {
			continue
		}
		n++
		if core.BlockReachesAvoiding(fn.Blocks[0], c.(ssa.Instruction), isStep) {
			return false
		}
	}
	return n > 0
}

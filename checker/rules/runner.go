package rules

import (
	"fmt"
	"go/token"
	"go/types"

	"dawnverif/checker/core"

	"golang.org/x/tools/go/ssa"
)

func init() {
	register("C04", false, runC04)
	register("C05", false, runC05)
	register("C09", false, runC09)
}

type runnerAnchors struct {
	start, wait, run, evalTargets, getTarget, newTarget, check, checkDeps, enter, exit, newGate, Run *ssa.Function
}

func resolveRunner(p *core.Prog, r *core.Result, rule string) *runnerAnchors {
	a := &runnerAnchors{
		start:       need(p, r, rule, "runner", "target", "start"),
		wait:        need(p, r, rule, "runner", "target", "wait"),
		run:         need(p, r, rule, "runner", "target", "run"),
		evalTargets: need(p, r, rule, "runner", "engine", "EvaluateTargets"),
		getTarget:   need(p, r, rule, "runner", "runner", "getTarget"),
		newTarget:   need(p, r, rule, "runner", "", "newTarget"),
		check:       need(p, r, rule, "runner", "engine", "check"),
		checkDeps:   need(p, r, rule, "runner", "engine", "checkDeps"),
		enter:       need(p, r, rule, "runner", "gate", "enter"),
		exit:        need(p, r, rule, "runner", "gate", "exit"),
		newGate:     need(p, r, rule, "runner", "", "newGate"),
		Run:         need(p, r, rule, "runner", "", "Run"),
	}
	for _, f := range []*ssa.Function{a.start, a.wait, a.run, a.evalTargets, a.getTarget, a.newTarget, a.check, a.checkDeps, a.enter, a.exit, a.newGate, a.Run} {
		if f == nil {
			return nil
		}
	}
	return a
}

// ---------------------------------------------------------------------------------------------
// C04

func runC04(p *core.Prog, r *core.Result) {
	r.Decided = []string{
		"R4.1 target.status/target.err only accessed under target.m; the idle test and the running store in start share one critical section",
		"R4.2 (*target).run is spawned only from start, after status=running, on the idle edge",
		"R4.3 runner.targetMap is only touched through LoadOrStore; newTarget only feeds it",
		"R4.4 on the no-cycle path results[i].Error = wait(targets[i]) and results[i].Target = targets[i].target for the same i, for all i",
		"R4.5/R4.6 wait loops re-test under lock, every writer of the waited-for state wakes the waiters on all exits",
		"R4.7 Run returns wait() of the target obtained for the requested label",
		"R4.11 a target continues past its dependency request only after every requested dependency has finished: every return of EvaluateTargets lies behind the loop that waits for each started target (the return taken when the cycle check fails does not - see the known finding: there every result, also of dependencies that are not on the cycle, carries the cyclic-dependency error and nothing is waited for; C05's rules R5.2/R5.6 depend on exactly that)",
		"R4.12 no function of the build engine (packages dawn, runner) returns with a mutex it took still locked unless the release is deferred: the target table is consulted under Project.m by every lookup of a run, so a lock leaked on one exit (the unknown-target return) blocks every later lookup and the dependents of whatever is looked up afterwards never get an outcome",
		"R4.13 a target runs only after every requested dependency has finished: its own verdict (Target.upToDate(), which for a source file is where the file is hashed) is taken behind the request for its dependencies - a generated source that is hashed before its generator was even requested records and hands on the sum of the previous contents (C02's R2.11)",
		"R4.10 EvaluateTargets answers positionally: the slice of targets it starts, checks and waits for holds getTarget(labels[i]) at index i for every i (or is appended to once per label, unconditionally, in order), and the results slice has len(labels) elements - so results[i] is the outcome of labels[i] even when a label is listed twice",
		"R4.9 the loader the runner calls is injective on labels: (*Project).LoadTarget hands out the registry entry stored under the canonical string of exactly the label it was asked for - the runner deduplicates by label string, so a second lookup under another key (an alias, a default name) gives one target two runner entries and it executes twice",
		"R4.8 the only outcome that lets a requester continue without waiting - the cyclic-dependency error - is constructed only where the walk over published waiting sets has come back to the requester's own target (a diamond or a repeated label is not a cycle)",
	}
	r.NotDecided = []string{"absence of duplicate execution under every interleaving as an observed fact (only the lock/ownership structure that makes it so)", "outcome equality as observed at run time"}
	a := resolveRunner(p, r, "R4.0")
	if a == nil {
		return
	}
	// R4.1 guarded-by
	n := 0
	for _, f := range []string{"status", "err"} {
		n += guarded(p, r, "R4.1", core.GuardSpec{Rel: "runner", Type: "target", Field: f, Lock: "m"})
	}
	r.Floor("R4.1", n, 3, "accesses to target.status/target.err")
	checkStartAtomic(p, r, a)
	for _, f := range []*ssa.Function{a.start, a.wait, a.run} {
		lockBalanced(p, r, "R4.1", f)
	}

	// R4.2 who spawns run
	callers := p.StaticCallers(a.run)
	uses := p.FuncValueUses(a.run)
	if len(uses) > 0 {
		r.Bad("R4.2", "runner.(*target).run#value-use", p.InstrPos(uses[0]), "run escapes as a function value; its callers cannot be enumerated")
	}
	goes := 0
	for _, c := range callers {
		g, isGo := c.(*ssa.Go)
		if !isGo || c.Parent() != a.start {
			r.Bad("R4.2", "runner.(*target).run#caller:"+fname(c.Parent()), p.InstrPos(c.(ssa.Instruction)), "run is invoked outside the single `go` statement of start: a target could execute twice")
			continue
		}
		goes++
		// dominated by the store status = running on the same target
		okStore := true
		for _, pt := range p.EffectivePoints(g) {
			dom := false
			core.Instrs(a.start, func(in ssa.Instruction) {
				if st, ok := in.(*ssa.Store); ok && core.IsField(st.Addr, pkgRunner, "target", "status") {
					if p.DominatesModuloFacts(st, pt) && core.Path(st.Addr.(*ssa.FieldAddr).X) == core.Path(g.Call.Args[0]) {
						dom = true
					}
				}
			})
			// or: the spawn is on the true edge of a claim helper that stores the status of its receiver on every
			// path on which it returns true
			if cl := claimHelperAt(p, a, pt); !dom && cl != nil {
				h := core.Callee(cl)
				rfs := p.CalleeReturnFacts(h, true)
				all := len(rfs) > 0
				for _, rf := range rfs {
					one := false
					core.Instrs(h, func(in ssa.Instruction) {
						st, ok := in.(*ssa.Store)
						if !ok || !core.IsField(st.Addr, pkgRunner, "target", "status") {
							return
						}
						prm, isParam := st.Addr.(*ssa.FieldAddr).X.(*ssa.Parameter)
						if !isParam {
							return
						}
						for i, q := range h.Params {
							if q == prm && i < len(cl.Call.Args) && core.Path(cl.Call.Args[i]) == core.Path(g.Call.Args[0]) && p.DominatesModuloFactSet(st, rf.Ret, rf.Facts) {
								one = true
							}
						}
					})
					all = all && one
				}
				dom = all
			}
			okStore = okStore && dom
		}
		r.Check(okStore, "R4.2", "runner.(*target).start#go-run", p.InstrPos(g), "the go statement is dominated by the store to status of the same target", "the go statement is not dominated by a store to status of the same target")
	}
	r.Floor("R4.2", goes, 1, "go (*target).run sites")

	// R4.3 targetMap
	nm := 0
	for _, fn := range p.ModuleFuncs() {
		core.Instrs(fn, func(in ssa.Instruction) {
			fa, ok := in.(*ssa.FieldAddr)
			if !ok || !core.IsField(fa, pkgRunner, "runner", "targetMap") {
				return
			}
			for _, ref := range *fa.Referrers() {
				if _, ok := ref.(*ssa.DebugRef); ok {
					continue
				}
				nm++
				c, isCall := ref.(ssa.CallInstruction)
				if isCall && core.IsMethod(c, "sync", "Map", "LoadOrStore") {
					r.OK("R4.3", fname(fn)+"#targetMap.LoadOrStore", p.InstrPos(ref), "target identity is established by an atomic LoadOrStore")
				} else {
					what := ref.String()
					if isCall {
						if mc, ok := core.AsMethodCall(c); ok {
							what = mc.Method
						}
					}
					r.Bad("R4.3", fname(fn)+"#targetMap."+what, p.InstrPos(ref), "runner.targetMap is used other than through LoadOrStore (%s): two requesters can obtain different target objects for one label", what)
				}
			}
		})
	}
	r.Floor("R4.3", nm, 1, "uses of runner.targetMap")
	for _, c := range p.StaticCallers(a.newTarget) {
		ok := false
		if call, isCall := c.(*ssa.Call); isCall && c.Parent() == a.getTarget {
			ok = true
			for _, ref := range *call.Referrers() {
				mi, isMI := ref.(*ssa.MakeInterface)
				if !isMI {
					if _, dbg := ref.(*ssa.DebugRef); dbg {
						continue
					}
					ok = false
					continue
				}
				for _, r2 := range *mi.Referrers() {
					c2, isC := r2.(ssa.CallInstruction)
					if !isC || !core.IsMethod(c2, "sync", "Map", "LoadOrStore") {
						ok = false
					}
				}
			}
		}
		r.Check(ok, "R4.3", "runner.newTarget#caller:"+fname(c.Parent()), p.InstrPos(c.(ssa.Instruction)), "a fresh target is only offered to LoadOrStore", "a target object is created outside the LoadOrStore of getTarget")
	}

	// R4.4 results wiring
	checkResultsWiring(p, r, a)
	checkLabelsWiring(p, r, a, "R4.10")
	checkReturnsAfterWaits(p, r, a, "R4.11")
	checkLocksReleased(p, r, "R4.12")
	checkVerdictAfterDependencies(p, r, "R4.13")

	// R4.5 / R4.6
	waits := findWaits(p, r, "R4.5")
	r.Floor("R4.5", len(waits), 1, "sync.Cond.Wait call sites in the module")
	nw := checkWakes(p, r, "R4.6", waits, pkgRunner, "target")
	r.Floor("R4.6", nw, 1, "stores to the state read by target.wait's loop")

	// R4.7 Run returns wait() on getTarget(label)
	okRun := false
	for _, ret := range core.ReturnsOf(a.Run) {
		if len(ret.Results) != 1 {
			continue
		}
		if c, ok := ret.Results[0].(*ssa.Call); ok && core.Callee(c) == a.wait {
			if g, ok := c.Call.Args[0].(*ssa.Call); ok && core.Callee(g) == a.getTarget {
				// label argument is Run's label parameter
				if prm, ok := g.Call.Args[1].(*ssa.Parameter); ok && prm == a.Run.Params[1] {
					// start called on the same target
					for _, s := range core.CallsTo(a.Run, a.start) {
						if s.Common().Args[0] == ssa.Value(g) && core.Dominates(s.(ssa.Instruction), c) {
							okRun = true
						}
					}
				}
			}
		}
	}
	// R4.8
	checkCycleErrorOrigin(p, r, a, "R4.8")
	// R4.9
	checkLoaderInjective(p, r)
	r.Check(okRun, "R4.7", "runner.Run#result", p.Pos(a.Run.Pos()), "Run starts the target for its label argument and returns that target's wait()", "Run does not return wait() of the started target for the requested label")
}

// checkStartAtomic: in start, the load of status that feeds the idle test and the store of
// running are not separated by an Unlock of the same mutex, and the spawn is on the idle edge.
// claimHelperAt: the call, in start, of a boolean helper of the package that both tests and sets target.status and
// whose result is known to be true at `at` (nil if there is none).
func claimHelperAt(p *core.Prog, a *runnerAnchors, at ssa.Instruction) *ssa.Call {
	var out *ssa.Call
	for f := range p.FactsAt(at) {
		call, ok := f.Cond.(*ssa.Call)
		if !ok || !f.Val {
			continue
		}
		h := core.Callee(call)
		if h == nil || h.Pkg != a.start.Pkg || h.Blocks == nil {
			continue
		}
		ld, st := statusAccesses(h)
		if len(ld) > 0 && len(st) > 0 {
			out = call
		}
	}
	return out
}

func statusAccesses(fn *ssa.Function) (loads []*ssa.UnOp, stores []*ssa.Store) {
	core.Instrs(fn, func(in ssa.Instruction) {
		switch x := in.(type) {
		case *ssa.UnOp:
			if x.Op == token.MUL && core.IsField(x.X, pkgRunner, "target", "status") {
				loads = append(loads, x)
			}
		case *ssa.Store:
			if core.IsField(x.Addr, pkgRunner, "target", "status") {
				stores = append(stores, x)
			}
		}
	})
	return
}

func checkStartAtomic(p *core.Prog, r *core.Result, a *runnerAnchors) {
	fn := a.start
	loads, stores := statusAccesses(fn)
	construct := "runner.(*target).start#check-then-set"
	// the test and the store may live in a claim helper whose result decides the spawn
	var claim *ssa.Call
	if len(loads) == 0 || len(stores) == 0 {
		for _, c := range core.Calls(fn) {
			if g, ok := c.(*ssa.Go); ok {
				for _, pt := range p.EffectivePoints(g) {
					if cl := claimHelperAt(p, a, pt); cl != nil {
						claim = cl
					}
				}
			}
		}
		if claim != nil {
			fn = core.Callee(claim)
			loads, stores = statusAccesses(fn)
		}
	}
	li := p.Locks(fn)
	if len(loads) == 0 || len(stores) == 0 {
		r.Bad("R4.1", construct, p.Pos(fn.Pos()), "start does not both test and set target.status")
		return
	}
	split := false
	for _, ld := range loads {
		for _, st := range stores {
			for _, op := range li.Ops {
				if op.Acquire || op.Defer {
					continue
				}
				u := op.Instr.(ssa.Instruction)
				if core.InstrReaches(ld, u) && core.InstrReaches(u, st) {
					split = true
				}
			}
		}
	}
	r.Check(!split, "R4.1", construct, p.InstrPos(stores[0]), "the status test and the status store are in one critical section", "the mutex is released between testing status and setting it: two callers can both see idle and both spawn the target")
	// spawn edge: the go statement holds the fact status == idle (0) from one of the loads
	isIdle := func(cond ssa.Value, val bool) bool {
		b, ok := cond.(*ssa.BinOp)
		if !ok {
			return false
		}
		for _, pr := range [][2]ssa.Value{{b.X, b.Y}, {b.Y, b.X}} {
			isLoad := false
			for _, ld := range loads {
				if pr[0] == ssa.Value(ld) {
					isLoad = true
				}
			}
			k, okc := core.ConstInt(pr[1])
			if isLoad && okc && k == 0 {
				return (b.Op == token.EQL && val) || (b.Op == token.NEQ && !val)
			}
		}
		return false
	}
	for _, c := range core.Calls(a.start) {
		g, ok := c.(*ssa.Go)
		if !ok {
			continue
		}
		idle := true
		for _, pt := range p.EffectivePoints(g) {
			if claim != nil {
				// the helper's result is true at the spawn, and it returns true only when the tested status was idle
				cl := claimHelperAt(p, a, pt)
				okc := cl == claim
				if okc {
					rfs := p.CalleeReturnFacts(fn, true)
					okc = len(rfs) > 0
					for _, rf := range rfs {
						okc = okc && rf.Facts.Find(isIdle)
					}
				}
				idle = idle && okc
				continue
			}
			idle = idle && p.FactsAt(pt).Find(isIdle)
		}
		r.Check(idle, "R4.1", "runner.(*target).start#spawn-on-idle", p.InstrPos(g), "the target is spawned only when the tested status was idle", "the spawn is not conditioned on status == idle: a running or finished target can be spawned again")
	}
}

// checkLoaderInjective implements R4.9.
func checkLoaderInjective(p *core.Prog, r *core.Result) {
	lt := need(p, r, "R4.9", "", "Project", "LoadTarget")
	if lt == nil {
		return
	}
	var raw *ssa.Parameter
	for _, prm := range lt.Params {
		if b, ok := prm.Type().Underlying().(*types.Basic); ok && b.Kind() == types.String {
			raw = prm
		}
	}
	// the label that was asked for: label.Parse(raw), in LoadTarget; a parameter receiving it, in a helper
	requested := func(v ssa.Value, site *ssa.Call) bool {
		if prm, ok := v.(*ssa.Parameter); ok && site != nil {
			for i, q := range prm.Parent().Params {
				if q == prm && i < len(site.Call.Args) {
					v = site.Call.Args[i]
				}
			}
		}
		e, ok := v.(*ssa.Extract)
		if !ok || e.Index != 0 {
			return false
		}
		c, ok := e.Tuple.(*ssa.Call)
		return ok && core.IsCallTo(c, pkgLabel, "Parse") && raw != nil && c.Call.Args[0] == ssa.Value(raw)
	}
	type src struct {
		lk   *ssa.Lookup
		site *ssa.Call
	}
	var sources []src
	opaque := false
	var collect func(v ssa.Value, site *ssa.Call, depth int)
	collect = func(v ssa.Value, site *ssa.Call, depth int) {
		switch x := core.Unwrap(v).(type) {
		case *ssa.Phi:
			for _, e := range x.Edges {
				collect(e, site, depth)
			}
		case *ssa.Extract:
			switch t := x.Tuple.(type) {
			case *ssa.Lookup:
				sources = append(sources, src{t, site})
			case *ssa.Call:
				h := core.Callee(t)
				if h == nil || h.Pkg != lt.Pkg || h.Blocks == nil || depth >= 2 || site != nil {
					opaque = true
					return
				}
				for _, ret := range core.ReturnsOf(h) {
					vals := core.RetVals(ret)
					if x.Index < len(vals) && !core.IsNilConst(vals[x.Index]) {
						collect(vals[x.Index], t, depth+1)
					}
				}
			default:
				opaque = true
			}
		case *ssa.Lookup:
			sources = append(sources, src{x, site})
		case *ssa.Const:
		default:
			opaque = true
		}
	}
	n := 0
	for _, ret := range core.ReturnsOf(lt) {
		vals := core.RetVals(ret)
		if len(vals) != 2 || !core.IsNilConst(vals[1]) {
			continue
		}
		n++
		v := vals[0]
		if mi, ok := v.(*ssa.MakeInterface); ok {
			v = mi.X
		}
		collect(v, nil, 0)
	}
	r.Floor("R4.9", n, 1, "successful returns of LoadTarget")
	if opaque || len(sources) == 0 {
		r.Unk("R4.9", "dawn.(*Project).LoadTarget#source", p.Pos(lt.Pos()), "cannot see which registry entry LoadTarget hands out")
		return
	}
	for i, s := range sources {
		construct := fmt.Sprintf("dawn.(*Project).LoadTarget#lookup-%d", i+1)
		okMap := core.LoadOfField(s.lk.X, pkgRoot, "Project", "targets")
		okKey := false
		key, keySite := s.lk.Index, s.site
		// the helper may be handed the key string itself
		if prm, ok := key.(*ssa.Parameter); ok && keySite != nil {
			if i := paramIndex(prm.Parent(), prm); i >= 0 && i < len(keySite.Call.Args) {
				key, keySite = keySite.Call.Args[i], nil
			}
		}
		if c, ok := key.(*ssa.Call); ok && core.IsMethod(c, pkgLabel, "Label", "String") {
			okKey = requested(c.Call.Args[0], keySite)
		}
		r.Check(okMap && okKey, "R4.9", construct, p.InstrPos(s.lk), "the target handed to the runner is Project.targets[l.String()] for the label l parsed from the requested string", "LoadTarget can hand out a registry entry found under a key other than the canonical string of the requested label: two label strings then name one target, the runner (which deduplicates by label string) creates two entries for it, and the target is loaded and evaluated twice in one build, concurrently")
	}
}

// checkResultsWiring implements R4.4.
func checkResultsWiring(p *core.Prog, r *core.Result, a *runnerAnchors) {
	fn := a.evalTargets
	waitCalls := core.CallsTo(fn, a.wait)
	if len(waitCalls) == 0 {
		// the wait loop may live in a helper whose result EvaluateTargets returns as it is
		for _, c := range core.Calls(fn) {
			call, ok := c.(*ssa.Call)
			h := core.Callee(c)
			if !ok || h == nil || h.Pkg != fn.Pkg || h.Blocks == nil || len(core.CallsTo(h, a.wait)) == 0 {
				continue
			}
			returned := false
			for _, ret := range core.ReturnsOf(fn) {
				if vals := core.RetVals(ret); len(vals) == 1 && vals[0] == ssa.Value(call) {
					returned = true
				}
			}
			r.Check(returned, "R4.4", "runner.(*engine).EvaluateTargets#result-wiring:helper", p.InstrPos(call), "the results collected by "+fname(h)+" are returned as they are", "the results collected by "+fname(h)+" are not what EvaluateTargets returns")
			fn = h
			waitCalls = core.CallsTo(h, a.wait)
			break
		}
	}
	r.Floor("R4.4", len(waitCalls), 1, "(*target).wait calls in EvaluateTargets")
	for _, wc := range waitCalls {
		w := wc.(*ssa.Call)
		construct := "runner.(*engine).EvaluateTargets#result-wiring"
		pos := p.InstrPos(w)
		// the waited target is targets[idx]
		ld, ok := w.Call.Args[0].(*ssa.UnOp)
		var tIdx *ssa.IndexAddr
		if ok {
			tIdx, _ = ld.X.(*ssa.IndexAddr)
		}
		if tIdx == nil {
			r.Unk("R4.4", construct, pos, "cannot see which slice element is waited on")
			continue
		}
		// resultSlot reports whether addr designates field `field` of results[idx] for the same idx,
		// either directly or through a local Result value that is then stored into results[idx].
		resultSlot := func(addr ssa.Value, field string) bool {
			fa, ok := addr.(*ssa.FieldAddr)
			if !ok {
				return false
			}
			if o, f := core.FieldOf(fa); o == nil || o.Obj().Name() != "Result" || f != field {
				return false
			}
			switch x := fa.X.(type) {
			case *ssa.IndexAddr:
				return x.Index == tIdx.Index
			case *ssa.Alloc:
				// local composite literal: its value must be stored into results[idx]
				for _, ref := range *x.Referrers() {
					if l, ok := ref.(*ssa.UnOp); ok && l.Op == token.MUL {
						for _, r2 := range *l.Referrers() {
							if st, ok := r2.(*ssa.Store); ok {
								if ia, ok := st.Addr.(*ssa.IndexAddr); ok && ia.Index == tIdx.Index {
									return true
								}
							}
						}
					}
				}
			}
			return false
		}
		okErr, okTgt := false, false
		core.Instrs(fn, func(in ssa.Instruction) {
			st, ok := in.(*ssa.Store)
			if !ok {
				return
			}
			if core.Unwrap(st.Val) == ssa.Value(w) && resultSlot(st.Addr, "Error") {
				okErr = true
			}
			if resultSlot(st.Addr, "Target") {
				if v, ok := core.Unwrap(st.Val).(*ssa.UnOp); ok && v.Op == token.MUL {
					if f2, ok := v.X.(*ssa.FieldAddr); ok && core.IsField(f2, pkgRunner, "target", "target") && f2.X == ssa.Value(ld) {
						// the load of .target must come after wait returned
						if core.Dominates(w, v) {
							okTgt = true
						}
					}
				}
			}
		})
		full := p.LoopIndexCoversAll(tIdx.Index, tIdx.X, w, sameSlice)
		body := w.Block()
		early := false
		for _, s := range body.Succs {
			if !core.Reaches(s, body, true) {
				early = true
			}
		}
		r.Check(okErr, "R4.4", construct+":Error", pos, "results[i].Error receives wait() of targets[i] (same index value)", "the result of wait() on targets[i] is not stored into results[i].Error")
		r.Check(okTgt, "R4.4", construct+":Target", pos, "results[i].Target receives targets[i].target, read after wait() returned", "results[i].Target is not targets[i].target read after the wait")
		r.Check(full && !early, "R4.4", construct+":all", pos, "the wait loop runs over every requested target (index 0..len-1) without early exit", "the wait loop may skip requested targets (index does not run 0..len(targets)-1 or the body can leave the loop)")
	}
}

// checkReturnsAfterWaits implements R4.11.
func checkReturnsAfterWaits(p *core.Prog, r *core.Result, a *runnerAnchors, rule string) {
	fn := a.evalTargets
	waits := core.CallsTo(fn, a.wait)
	host := fn
	var site *ssa.Call
	if len(waits) == 0 {
		// the wait loop in a helper whose result is returned as it is (R4.4 checks that)
		for _, c := range core.Calls(fn) {
			if h := core.Callee(c); h != nil && h.Pkg == fn.Pkg && h.Blocks != nil && len(core.CallsTo(h, a.wait)) > 0 {
				host, waits = h, core.CallsTo(h, a.wait)
				site, _ = c.(*ssa.Call)
			}
		}
	}
	if len(waits) == 0 {
		r.Unk(rule, "runner.(*engine).EvaluateTargets#wait-loop", p.Pos(fn.Pos()), "no wait() call found")
		return
	}
	w := waits[0].(ssa.Instruction)
	// the header of the loop the wait sits in
	var hdr *ssa.BasicBlock
	for b := w.Block(); b != nil; b = b.Idom() {
		for _, pr := range b.Preds {
			if b.Dominates(pr) {
				hdr = b
			}
		}
		if hdr != nil {
			break
		}
	}
	if hdr == nil {
		r.Unk(rule, "runner.(*engine).EvaluateTargets#wait-loop", p.InstrPos(w), "wait() is not in a loop")
		return
	}
	n := 0
	for _, ret := range core.ReturnsOf(fn) {
		n++
		behind := false
		if host == fn {
			behind = hdr.Dominates(ret.Block())
		} else if site != nil {
			behind = core.Dominates(site, ret)
		}
		// name the return after the path it is on: the one taken on a cyclic-dependency error, or the ordinary one
		kind := "ordinary"
		if a.checkDeps != nil {
			for _, c := range core.CallsTo(fn, a.checkDeps) {
				if nn, known := p.FactsAt(ret).ErrNonNil(c.Value()); known && nn {
					kind = "cycle-path"
				}
			}
		}
		construct := fmt.Sprintf("runner.(*engine).EvaluateTargets#return-behind-the-waits:%s", kind)
		r.Check(behind, rule, construct, p.InstrPos(ret), "this return is reached only through the loop that waits for every started target", "this return is reached without waiting for the started targets: the requester continues while requested dependencies are still running and is handed an outcome that is not theirs")
	}
	r.Floor(rule, n, 1, "returns of EvaluateTargets")
}

// checkLabelsWiring implements R4.10: labels[i] -> targets[i] (R4.4 continues targets[i] -> results[i]).
func checkLabelsWiring(p *core.Prog, r *core.Result, a *runnerAnchors, rule string) {
	fn := a.evalTargets
	if len(fn.Params) < 2 {
		r.Unk(rule, "runner.(*engine).EvaluateTargets#labels", p.Pos(fn.Pos()), "no labels parameter")
		return
	}
	labels := ssa.Value(fn.Params[len(fn.Params)-1])
	fill := fn
	// the fill loop may live in a helper that is handed the labels as they are
	if len(core.CallsTo(fn, a.getTarget)) == 0 {
		for _, c := range core.Calls(fn) {
			h := core.Callee(c)
			if _, ok := c.(*ssa.Call); !ok || h == nil || h.Pkg != fn.Pkg || h.Blocks == nil || len(core.CallsTo(h, a.getTarget)) == 0 {
				continue
			}
			for i, arg := range c.Common().Args {
				if arg == labels && i < len(h.Params) {
					fill, labels = h, h.Params[i]
				}
			}
			break
		}
	}
	gets := core.CallsTo(fill, a.getTarget)
	r.Floor(rule, len(gets), 1, "getTarget calls that fill the requested set")
	isLabels := func(v ssa.Value) bool { return v == labels }
	// symbolic lengths: "this int is len(labels)" / "this slice has len(labels) elements", followed through cells stored
	// once, same-package helpers (their returns, with parameters standing for the arguments of the call) and len()
	type lenv struct {
		call   *ssa.Call
		parent *lenv
	}
	var sliceLenIsE func(v ssa.Value, e *lenv, depth int) bool
	var intIsLenE func(v ssa.Value, e *lenv, depth int) bool
	param := func(v ssa.Value, e *lenv) (ssa.Value, *lenv, bool) {
		prm, ok := v.(*ssa.Parameter)
		if !ok || e == nil || core.Callee(e.call) != prm.Parent() {
			return nil, nil, false
		}
		i := paramIndex(prm.Parent(), prm)
		if i < 0 || i >= len(e.call.Call.Args) {
			return nil, nil, false
		}
		return e.call.Call.Args[i], e.parent, true
	}
	helperReturns := func(c *ssa.Call, e *lenv, depth int, check func(v ssa.Value, e *lenv, depth int) bool) bool {
		h := core.Callee(c)
		if h == nil || h.Pkg != fn.Pkg || h.Blocks == nil || c.Call.IsInvoke() {
			return false
		}
		rets := core.ReturnsOf(h)
		for _, ret := range rets {
			vals := core.RetVals(ret)
			if len(vals) == 0 || !check(vals[0], &lenv{call: c, parent: e}, depth+1) {
				return false
			}
		}
		return len(rets) > 0
	}
	intIsLenE = func(v ssa.Value, e *lenv, depth int) bool {
		if depth > 24 {
			return false
		}
		if a, pe, ok := param(v, e); ok {
			return intIsLenE(a, pe, depth+1)
		}
		c, ok := v.(*ssa.Call)
		if !ok {
			return false
		}
		if b, ok := c.Call.Value.(*ssa.Builtin); ok {
			return b.Name() == "len" && sliceLenIsE(c.Call.Args[0], e, depth+1)
		}
		return helperReturns(c, e, depth, intIsLenE)
	}
	sliceLenIsE = func(v ssa.Value, e *lenv, depth int) bool {
		if depth > 24 {
			return false
		}
		if e == nil && (isLabels(v) || v == ssa.Value(fn.Params[len(fn.Params)-1])) {
			return true
		}
		if e != nil && e.parent == nil && fill != fn && core.Callee(e.call) == fill && isLabels(v) {
			return true
		}
		if a, pe, ok := param(v, e); ok {
			return sliceLenIsE(a, pe, depth+1)
		}
		switch x := v.(type) {
		case *ssa.MakeSlice:
			return intIsLenE(x.Len, e, depth+1)
		case *ssa.UnOp:
			if x.Op == token.MUL {
				if sv := core.SingleStore(x.X); sv != nil {
					return sliceLenIsE(sv, e, depth+1)
				}
				// the set filled by appending once per label (the label-wiring obligations check exactly that): a cell that
				// starts empty and is only ever re-assigned by the fill loop's append
				if al, ok := x.X.(*ssa.Alloc); ok && e == nil {
					nApp, okAll := 0, true
					for _, f := range core.WithAnons(al.Parent()) {
						core.Instrs(f, func(in ssa.Instruction) {
							st, ok := in.(*ssa.Store)
							if !ok || st.Addr != ssa.Value(al) {
								return
							}
							if ap, ok := st.Val.(*ssa.Call); ok {
								if b, ok := ap.Call.Value.(*ssa.Builtin); ok && b.Name() == "append" {
									inFill := false
									for _, g := range gets {
										if g.Block() == ap.Block() {
											inFill = true
										}
									}
									if inFill {
										nApp++
										return
									}
								}
							}
							if !appendStartsEmpty(st.Val) {
								okAll = false
							}
						})
					}
					return okAll && nApp > 0
				}
			}
		case *ssa.Call:
			if fill != fn && core.Callee(x) == fill && e == nil {
				return true // the set the fill helper returns: its shape is what the label-wiring obligations check
			}
			return helperReturns(x, e, depth, sliceLenIsE)
		}
		return false
	}
	sliceLenIs := func(v ssa.Value, depth int) bool {
		if v.Parent() == fill && fill != fn {
			// inside the fill helper: its labels parameter is the requested list
			if isLabels(v) {
				return true
			}
			switch x := v.(type) {
			case *ssa.MakeSlice:
				if c, ok := x.Len.(*ssa.Call); ok {
					if b, ok := c.Call.Value.(*ssa.Builtin); ok && b.Name() == "len" && isLabels(c.Call.Args[0]) {
						return true
					}
				}
				return false
			case *ssa.UnOp:
				if x.Op == token.MUL {
					if sv := core.SingleStore(x.X); sv != nil {
						if ms, ok := sv.(*ssa.MakeSlice); ok {
							if c, ok := ms.Len.(*ssa.Call); ok {
								if b, ok := c.Call.Value.(*ssa.Builtin); ok && b.Name() == "len" && isLabels(c.Call.Args[0]) {
									return true
								}
							}
						}
					}
				}
				return false
			}
			return false
		}
		return sliceLenIsE(v, nil, depth)
	}
	for i, gc := range gets {
		g, ok := gc.(*ssa.Call)
		construct := fmt.Sprintf("runner.(*engine).EvaluateTargets#label-wiring-%d", i+1)
		if !ok {
			r.Bad(rule, construct, p.InstrPos(gc.(ssa.Instruction)), "getTarget is not called synchronously")
			continue
		}
		pos := p.InstrPos(g)
		// the label asked for is labels[idx]
		var lIdx *ssa.IndexAddr
		if ld, ok := g.Call.Args[len(g.Call.Args)-1].(*ssa.UnOp); ok && ld.Op == token.MUL {
			if ia, ok := ld.X.(*ssa.IndexAddr); ok && isLabels(ia.X) {
				lIdx = ia
			}
		}
		if lIdx == nil {
			r.Bad(rule, construct, pos, "the label handed to getTarget is not an element labels[i] of the requested labels")
			continue
		}
		full := p.LoopIndexCoversAll(lIdx.Index, labels, g, sameSlice)
		// every iteration reaches the getTarget call: it sits in the block that reads labels[i]
		uncond := g.Block() == lIdx.Block()
		stored, sameIdx, lenOK := false, false, false
		for _, ref := range *g.Referrers() {
			switch u := ref.(type) {
			case *ssa.Store:
				if ia, ok := u.Addr.(*ssa.IndexAddr); ok && u.Val == ssa.Value(g) {
					if _, isArr := ia.X.Type().Underlying().(*types.Pointer); isArr {
						// the one-element array of a variadic append(targets, getTarget(...))
						for _, ref2 := range *ia.X.Referrers() {
							sl, ok := ref2.(*ssa.Slice)
							if !ok {
								continue
							}
							for _, ref3 := range *sl.Referrers() {
								if ap, ok := ref3.(*ssa.Call); ok {
									if b, ok := ap.Call.Value.(*ssa.Builtin); ok && b.Name() == "append" && ap.Block() == g.Block() && appendStartsEmpty(ap.Call.Args[0]) {
										stored, sameIdx, lenOK = true, true, true
									}
								}
							}
						}
						continue
					}
					stored = true
					sameIdx = ia.Index == lIdx.Index
					lenOK = sliceLenIs(ia.X, 0)
				}
			}
		}
		r.Check(stored && sameIdx, rule, construct+":index", pos, "getTarget(labels[i]) is stored at index i of the requested set (or appended in order)", "the target obtained for labels[i] does not land at position i of the set that is started and waited for: results are attributed to the wrong labels")
		r.Check(full && uncond, rule, construct+":all", pos, "the fill loop visits every label (index 0..len(labels)-1) and obtains a target in every iteration", "the fill loop can skip a label (conditional getTarget, or an index that does not run 0..len(labels)-1): the results are shorter than, or shifted against, the labels")
		r.Check(lenOK, rule, construct+":len", pos, "the requested set has len(labels) elements", "the requested set is not created with len(labels) elements")
	}
	// the slice returned has len(labels) elements
	n := 0
	for _, ret := range core.ReturnsOf(fn) {
		vals := core.RetVals(ret)
		if len(vals) != 1 {
			continue
		}
		n++
		ok := sliceLenIs(vals[0], 0)
		r.Check(ok, rule, fmt.Sprintf("runner.(*engine).EvaluateTargets#results-len-%d", n), p.InstrPos(ret), "the results slice returned has len(labels) elements", "the results slice returned does not have len(labels) elements: callers index it by the position of the label")
	}
	r.Floor(rule, n, 1, "returns of EvaluateTargets")
}

func resolveMakeSlice(v ssa.Value) (*ssa.MakeSlice, bool) {
	for i := 0; i < 4; i++ {
		switch x := v.(type) {
		case *ssa.MakeSlice:
			return x, true
		case *ssa.UnOp:
			if x.Op == token.MUL {
				if sv := core.SingleStore(x.X); sv != nil {
					v = sv
					continue
				}
			}
		}
		break
	}
	return nil, false
}

// appendStartsEmpty: the slice appended to is, through the loop phi / its cell, initially empty (nil or make(_, 0, …)).
func appendStartsEmpty(v ssa.Value) bool {
	seen := map[ssa.Value]bool{}
	var walk func(v ssa.Value) bool
	walk = func(v ssa.Value) bool {
		if seen[v] {
			return true
		}
		seen[v] = true
		switch x := v.(type) {
		case *ssa.Const:
			return x.IsNil()
		case *ssa.MakeSlice:
			k, ok := core.ConstInt(x.Len)
			return ok && k == 0
		case *ssa.Phi:
			for _, e := range x.Edges {
				if !walk(e) {
					return false
				}
			}
			return true
		case *ssa.Call:
			if b, ok := x.Call.Value.(*ssa.Builtin); ok && b.Name() == "append" {
				return walk(x.Call.Args[0])
			}
		case *ssa.UnOp:
			if al, ok := x.X.(*ssa.Alloc); ok && x.Op == token.MUL {
				okAll, n := true, 0
				for _, f := range core.WithAnons(al.Parent()) {
					core.Instrs(f, func(in ssa.Instruction) {
						if st, ok := in.(*ssa.Store); ok && st.Addr == ssa.Value(al) {
							n++
							if !walk(st.Val) {
								okAll = false
							}
						}
					})
				}
				return okAll && n > 0
			}
		}
		return false
	}
	return walk(v)
}

func sameSlice(a, b ssa.Value) bool {
	if a == b {
		return true
	}
	// two loads of the same cell with no intervening store are the same slice header
	ua, ok1 := a.(*ssa.UnOp)
	ub, ok2 := b.(*ssa.UnOp)
	if ok1 && ok2 && ua.X == ub.X {
		if s := core.SingleStore(ua.X); s != nil {
			return true
		}
	}
	return false
}

// ---------------------------------------------------------------------------------------------
// C05

func runC05(p *core.Prog, r *core.Result) {
	r.Decided = []string{
		"R5.1 a target publishes its waiting set (atomic Swap on its own root) before it checks for cycles, and clears it by defer",
		"R5.2 when the check reports a cycle no wait() is reachable and every result carries that error",
		"R5.3 the cyclic-dependency error is constructed only where the walk has come back to the engine's own root",
		"R5.4 wait/wake discipline of target and gate (no lost wake-up)",
		"R5.6 a request whose cycle check failed returns without waiting for anything (every wait() in EvaluateTargets is on the nil-error edge of the cycle check), so a detected cycle's edges are withdrawn and never walked again",
		"R5.5 dependencies are awaited outside a slot (needed for termination at limit 1)",
		"R5.7 slots are conserved: run takes one and gives it back on every exit (including a failed load), EvaluateTargets gives one back and retakes it on every exit; no other function moves slots - a leaked slot drains the pool and the build hangs on an acyclic graph",
		"R5.8 the target whose request closed a cycle reports it: in (*runTarget).Evaluate nothing but tests of the error's type lies between the test of a dependency's error and the TargetFailed event that carries the CyclicDependencyError (the error is handed to that one target only; a further condition - the kind of the target, a flag - lets some cycles fail unreported)",
	}
	r.NotDecided = []string{"termination under every interleaving (needs schedule exploration or a model; in particular the recursion of check through a cycle not containing the root)", "that every cycle is reported"}
	a := resolveRunner(p, r, "R5.0")
	if a == nil {
		return
	}
	checkCycleErrorReportedUnconditionally(p, r, "R5.8")
	fn := a.evalTargets
	// R5.1
	var pub, clr ssa.CallInstruction
	for _, c := range core.Calls(fn) {
		mc, ok := core.AsMethodCall(c)
		if !ok || mc.RecvPkg != "sync/atomic" || mc.RecvType != "Pointer" {
			continue
		}
		if !core.IsField(mc.Recv, pkgRunner, "target", "waiting") {
			continue
		}
		fa := mc.Recv.(*ssa.FieldAddr)
		onRoot := core.LoadOfField(fa.X, pkgRunner, "engine", "root")
		if mc.Method == "Swap" || mc.Method == "Store" {
			if _, isDefer := c.(*ssa.Defer); isDefer {
				if core.IsNilConst(c.Common().Args[1]) && onRoot {
					clr = c
				}
			} else if !core.IsNilConst(c.Common().Args[1]) && onRoot {
				pub = c
			}
		}
	}
	chk := core.CallsTo(fn, a.checkDeps)
	r.Floor("R5.1", len(chk), 1, "checkDeps calls in EvaluateTargets")
	for _, c := range chk {
		ci := c.(ssa.Instruction)
		construct := "runner.(*engine).EvaluateTargets#publish-before-check"
		switch {
		case pub == nil:
			r.Bad("R5.1", construct, p.InstrPos(ci), "the waiting set is never published on e.root before checking for cycles")
		case !core.Dominates(pub.(ssa.Instruction), ci):
			r.Bad("R5.1", construct, p.InstrPos(ci), "cycle check is not dominated by the publication of the waiting set: two targets closing a cycle can both miss it and wait forever")
		default:
			// published slice is the one that is checked
			same := false
			if ld, ok := c.Common().Args[1].(*ssa.UnOp); ok && ld.Op == token.MUL && ld.X == pub.Common().Args[1] {
				same = true // checkDeps(*cell) where &cell was published
			}
			r.Check(same, "R5.1", construct, p.InstrPos(ci), "waiting.Swap(&targets) on e.root dominates checkDeps(targets)", "the published waiting set is not the set that is checked")
		}
		r.Check(clr != nil && core.Dominates(clr.(ssa.Instruction), ci), "R5.1", "runner.(*engine).EvaluateTargets#clear-deferred", p.InstrPos(ci), "the waiting set is cleared by a deferred Swap(nil) registered before the check", "the waiting set is not cleared by defer: a finished target would keep advertising stale wait edges (false cycle reports)")

		// R5.2
		call, _ := c.(*ssa.Call)
		if call == nil {
			r.Unk("R5.2", "runner.(*engine).EvaluateTargets#cycle-edge", p.InstrPos(ci), "checkDeps is not an ordinary call")
			continue
		}
		waitOnErr := false
		for _, w := range waitSites(p, a) {
			nn, known := p.FactsAt(w.(ssa.Instruction)).ErrNonNil(call)
			if !(known && !nn) {
				waitOnErr = true
			}
		}
		r.Check(!waitOnErr, "R5.2", "runner.(*engine).EvaluateTargets#no-wait-on-cycle", p.InstrPos(ci), "every wait() is on the nil edge of the cycle check", "a wait() is reachable although the cycle check failed: the build deadlocks on the cycle")
		// every result gets the error on the error edge
		stored := false
		core.Instrs(fn, func(in ssa.Instruction) {
			st, ok := in.(*ssa.Store)
			if !ok || st.Val != ssa.Value(call) {
				return
			}
			if fa, ok := st.Addr.(*ssa.FieldAddr); ok {
				if _, f := core.FieldOf(fa); f == "Error" {
					if ia, ok := fa.X.(*ssa.IndexAddr); ok {
						_ = ia
						stored = true
					}
				}
			}
		})
		if !stored {
			// or: on the cycle edge the function returns something built from the error (a helper filling every result)
			for _, ret := range core.ReturnsOf(fn) {
				nn, known := p.FactsAt(ret).ErrNonNil(call)
				if !(known && nn) {
					continue
				}
				for _, v := range core.RetVals(ret) {
					if core.DependsOn(v, core.SliceOpts{Stores: true, ThroughCall: func(*ssa.Call) bool { return true }}, func(x ssa.Value) bool { return x == ssa.Value(call) }) {
						stored = true
					}
				}
			}
		}
		r.Check(stored, "R5.2", "runner.(*engine).EvaluateTargets#error-to-results", p.InstrPos(ci), "the cycle error is handed to the dependents (stored into the results returned on the cycle edge)", "the cycle error is not handed to the dependents")
	}

	// R5.3 who constructs CyclicDependencyError
	if !checkCycleErrorOrigin(p, r, a, "R5.3") {
		return
	}
	// the walk follows waiting sets only: check recurses through checkDeps on dep.waiting
	okWalk := false
	for _, c := range core.CallsTo(a.check, a.checkDeps) {
		arg := c.Common().Args[1]
		if core.DependsOn(arg, core.SliceOpts{ThroughCall: func(c *ssa.Call) bool { return true }}, func(v ssa.Value) bool {
			return core.IsField(v, pkgRunner, "target", "waiting")
		}) {
			okWalk = true
		}
	}
	r.Check(okWalk, "R5.3", "runner.(*engine).check#walk-waiting", p.Pos(a.check.Pos()), "check recurses over the visited target's published waiting set", "check does not follow the published waiting sets: cycles longer than one edge go undetected")
	okLoop := false
	for _, c := range core.CallsTo(a.checkDeps, a.check) {
		if core.Reaches(c.(ssa.Instruction).Block(), c.(ssa.Instruction).Block(), false) {
			okLoop = true
		}
	}
	r.Check(okLoop, "R5.3", "runner.(*engine).checkDeps#all-deps", p.Pos(a.checkDeps.Pos()), "checkDeps visits the dependencies in a loop", "checkDeps does not iterate over all dependencies")

	// R5.4
	waits := findWaits(p, r, "R5.4")
	r.Floor("R5.4", len(waits), 1, "sync.Cond.Wait call sites in the module")
	checkWakes(p, r, "R5.4", waits, pkgRunner, "target")
	checkWakes(p, r, "R5.4", waits, pkgRunner, "gate")
	// R5.6 a requester that detected a cycle does not go on waiting: the walk in check has no visited set and relies
	// on the first detector returning at once (which withdraws its published edges); every wait() in EvaluateTargets
	// is therefore on the nil-error edge of every cycle check made there
	waitFn := a.wait
	if waitFn != nil {
		var checks []*ssa.Call
		for _, c := range core.Calls(a.evalTargets) {
			if call, ok := c.(*ssa.Call); ok && (core.Callee(c) == a.check || core.Callee(c) == a.checkDeps) {
				checks = append(checks, call)
			}
		}
		nW := 0
		for _, w := range waitSites(p, a) {
			nW++
			ok := len(checks) > 0
			for _, c := range checks {
				nn, known := p.FactsAt(w.(ssa.Instruction)).ErrNonNil(c)
				if !known || nn {
					ok = false
				}
			}
			r.Check(ok, "R5.6", fmt.Sprintf("runner.(*engine).EvaluateTargets#wait-only-without-cycle-%d", nW), p.InstrPos(w.(ssa.Instruction)), "dependencies are awaited only after every cycle check of this request came back clean", "a dependency is awaited although a cycle check of this request may have failed (or its outcome is not branched on): the requester then stays blocked with its wait edges published next to a detected cycle, and the walk of a later requester - which has no visited set - recurses through that cycle without end (stack overflow) instead of reporting it")
		}
		r.Floor("R5.6", nW, 1, "wait calls in EvaluateTargets")
	}

	// R5.5
	checkWaitOutsideSlot(p, r, a, "R5.5")
	// R5.7
	checkSlotPairing(p, r, a, "R5.7")
}

// waitSites lists the points of EvaluateTargets at which dependencies are awaited: calls of (*target).wait, and
// calls of helpers of the package that (statically, transitively) call it.
func waitSites(p *core.Prog, a *runnerAnchors) []ssa.CallInstruction {
	var out []ssa.CallInstruction
	for _, c := range core.Calls(a.evalTargets) {
		if _, isGo := c.(*ssa.Go); isGo {
			continue
		}
		cal := core.Callee(c)
		if cal == nil {
			continue
		}
		if cal == a.wait {
			out = append(out, c)
			continue
		}
		if cal.Pkg == a.evalTargets.Pkg && cal.Blocks != nil && cal != a.check && cal != a.checkDeps && staticClosure(p, cal)[a.wait] {
			out = append(out, c)
		}
	}
	return out
}

// checkWaitOutsideSlot: in EvaluateTargets every wait() is dominated by gate.exit with no enter in between.
func checkWaitOutsideSlot(p *core.Prog, r *core.Result, a *runnerAnchors, rule string) {
	fn := a.evalTargets
	exits := core.CallsTo(fn, a.exit)
	for _, w := range waitSites(p, a) {
		wi := w.(ssa.Instruction)
		ok := false
		for _, e := range exits {
			if _, isDefer := e.(*ssa.Defer); isDefer {
				continue
			}
			ei := e.(ssa.Instruction)
			if !core.Dominates(ei, wi) {
				continue
			}
			reenter := false
			for _, en := range core.CallsTo(fn, a.enter) {
				if _, isDefer := en.(*ssa.Defer); isDefer {
					continue
				}
				if core.InstrReaches(ei, en.(ssa.Instruction)) && core.InstrReaches(en.(ssa.Instruction), wi) {
					reenter = true
				}
			}
			if !reenter {
				ok = true
			}
		}
		r.Check(ok, rule, "runner.(*engine).EvaluateTargets#wait-outside-slot", p.InstrPos(wi), "the slot is released before waiting on dependencies and not re-acquired before the wait", "dependencies are awaited while holding a slot: with a limit of 1 (or a chain longer than the limit) the build deadlocks")
	}
}

// checkSlotPairing: only run and EvaluateTargets move slots, and each does so in a pair that is balanced on every
// exit (R9.1; as R5.7 the same fact is a termination condition: a slot that is not given back on some exit drains
// the pool, and once it is empty every later enter blocks for ever).
func checkSlotPairing(p *core.Prog, r *core.Result, a *runnerAnchors, rule string) {
	for _, g := range []*ssa.Function{a.enter, a.exit} {
		if u := p.FuncValueUses(g); len(u) > 0 {
			r.Bad(rule, fname(g)+"#value-use", p.InstrPos(u[0]), "gate method escapes as a value")
		}
		for _, c := range p.StaticCallers(g) {
			f := c.Parent()
			if f != a.run && f != a.evalTargets {
				r.Bad(rule, fname(g)+"#caller:"+fname(f), p.InstrPos(c.(ssa.Instruction)), "slot moved outside run/EvaluateTargets: pairing cannot be established")
			}
		}
	}
	pair := func(fn *ssa.Function, first, second *ssa.Function, what string) {
		construct := fname(fn) + "#slot-pairing"
		var firstCalls, deferred, other []ssa.CallInstruction
		for _, c := range core.Calls(fn) {
			cal := core.Callee(c)
			if cal != a.enter && cal != a.exit {
				continue
			}
			_, isDefer := c.(*ssa.Defer)
			switch {
			case cal == first && !isDefer:
				firstCalls = append(firstCalls, c)
			case cal == second && isDefer:
				deferred = append(deferred, c)
			default:
				other = append(other, c)
			}
		}
		if len(firstCalls) != 1 || len(deferred) != 1 || len(other) != 0 {
			r.Bad(rule, construct, p.Pos(fn.Pos()), "%s: expected exactly one %s call and one deferred %s call, found %d/%d and %d other slot operations", what, first.Name(), second.Name(), len(firstCalls), len(deferred), len(other))
			return
		}
		fi, di := firstCalls[0].(ssa.Instruction), deferred[0].(ssa.Instruction)
		// same gate
		same := core.Path(firstCalls[0].Common().Args[0]) == core.Path(deferred[0].Common().Args[0])
		// defer is registered on every path on which the first operation happened: the two are in one
		// block with nothing that can leave the function in between, or first dominates defer and defer
		// post-dominates first (no return/panic reachable avoiding the defer)
		ok := core.Dominates(fi, di)
		if ok {
			for _, ret := range core.ReturnsOf(fn) {
				if core.ReachesAvoiding(fi, ret, func(x ssa.Instruction) bool { return x == di }) {
					ok = false
				}
			}
			// no call between them that could panic past the defer: same block, only loads/field addrs between
			if fi.Block() == di.Block() {
				for i := core.Index(fi) + 1; i < core.Index(di); i++ {
					if c, isCall := fi.Block().Instrs[i].(ssa.CallInstruction); isCall {
						_ = c
						ok = false
					}
				}
			} else {
				ok = false
			}
		}
		// the first op must dominate every return (it is unconditional) and be in a block without loop
		uncond := !core.Reaches(fi.Block(), fi.Block(), false)
		for _, ret := range core.ReturnsOf(fn) {
			if !core.Dominates(fi, ret) {
				uncond = false
			}
		}
		r.Check(ok && same && uncond, rule, construct, p.InstrPos(fi), what+": "+first.Name()+" once, unconditionally, immediately followed by `defer "+second.Name()+"` on the same gate: balanced on every exit including panics",
			what+": the "+first.Name()+"/"+second.Name()+" pair is not balanced on every path (the deferred "+second.Name()+" must directly follow an unconditional "+first.Name()+" on the same gate)")
	}
	pair(a.run, a.enter, a.exit, "run holds a slot for its whole body")
	pair(a.evalTargets, a.exit, a.enter, "EvaluateTargets gives its slot back while waiting")

}

// ---------------------------------------------------------------------------------------------
// C09

func runC09(p *core.Prog, r *core.Result) {
	r.Decided = []string{
		"R9.1 slot pairing on every path: run = enter…exit(deferred), EvaluateTargets = exit…enter(deferred); only these two functions move slots",
		"R9.2 gate.capacity only under gate.m; the zero test, Wait and decrement share one critical section; exit increments then signals",
		"R9.5 loading and evaluating a target happen inside a slot",
		"R9.6 waiting on dependencies happens outside a slot",
		"R9.7 the limit is runtime.NumCPU(), stored unmodified",
		"R9.8 a target requests dependencies only from the goroutine that holds its slot: no goroutine started outside package runner reaches Engine.EvaluateTargets (two concurrent requests of one target give its one slot back twice, so one body more than the limit runs until the first request returns)",
		"R9.9 a build is one runner.Run with one gate: nothing that (*module).env puts into the environment of build files reaches Project.Run (the REPL's run() builtin does, and stays in REPLEnv) - a target body that starts a build of its own executes that build's bodies next to its own build's while still holding one of its slots",
	}
	r.NotDecided = []string{"the instantaneous bound as a property of schedules (follows from the above under Mutex/Cond semantics, which are trusted)"}
	a := resolveRunner(p, r, "R9.0")
	if a == nil {
		return
	}
	// R9.1 who may call + pairing
	checkSlotPairing(p, r, a, "R9.1")
	checkEngineNotFromGoroutines(p, r, "R9.8")
	checkRunNotInModuleEnv(p, r, "R9.9")

	// R9.2
	n := guarded(p, r, "R9.2", core.GuardSpec{Rel: "runner", Type: "gate", Field: "capacity", Lock: "m"})
	r.Floor("R9.2", n, 2, "accesses to gate.capacity")
	lockBalanced(p, r, "R9.2", a.enter)
	lockBalanced(p, r, "R9.2", a.exit)
	waits := findWaits(p, r, "R9.2")
	r.Floor("R9.2", len(waits), 1, "sync.Cond.Wait call sites in the module")
	nw := checkWakes(p, r, "R9.2", waits, pkgRunner, "gate")
	r.Floor("R9.2", nw, 1, "stores to gate.capacity")
	// enter: zero test → decrement without unlocking; decrement by exactly 1; exit: increment by exactly 1
	checkDelta := func(fn *ssa.Function, op token.Token) {
		found := false
		core.Instrs(fn, func(in ssa.Instruction) {
			st, ok := in.(*ssa.Store)
			if !ok || !core.IsField(st.Addr, pkgRunner, "gate", "capacity") {
				return
			}
			found = true
			b, ok := st.Val.(*ssa.BinOp)
			k := int64(0)
			okv := false
			if ok && b.Op == op {
				if core.LoadOfField(b.X, pkgRunner, "gate", "capacity") {
					k, okv = core.ConstInt(b.Y)
				}
			}
			r.Check(okv && k == 1, "R9.2", fname(fn)+"#capacity-delta", p.InstrPos(st), "capacity changes by exactly one slot ("+op.String()+"1)", "capacity is not changed by exactly one slot per "+fn.Name())
		})
		if !found {
			r.Bad("R9.2", fname(fn)+"#capacity-delta", p.Pos(fn.Pos()), "%s does not update gate.capacity", fn.Name())
		}
	}
	checkDelta(a.enter, token.SUB)
	checkDelta(a.exit, token.ADD)
	// in enter, the decrement is on the exit edge of the `capacity == 0` loop (capacity != 0 known)
	core.Instrs(a.enter, func(in ssa.Instruction) {
		st, ok := in.(*ssa.Store)
		if !ok || !core.IsField(st.Addr, pkgRunner, "gate", "capacity") {
			return
		}
		ok = false
		// (the test may be a named predicate of the gate: for g.full() { ... })
		for _, xf := range xfacts(p, st) {
			b, okb := xf.Cond.(*ssa.BinOp)
			if !okb || !core.LoadOfField(b.X, pkgRunner, "gate", "capacity") {
				continue
			}
			k, okc := core.ConstInt(b.Y)
			if !okc || k != 0 {
				continue
			}
			switch b.Op {
			case token.EQL, token.LEQ:
				ok = ok || !xf.Val
			case token.NEQ, token.GTR:
				ok = ok || xf.Val
			}
		}
		r.Check(ok, "R9.2", "runner.(*gate).enter#decrement-after-nonzero", p.InstrPos(st), "the slot is taken only on the edge where capacity was tested non-zero", "the slot is taken without capacity having been tested non-zero: more targets than the limit can run")
	})

	// R9.5 work inside a slot: every invoke of Targets.LoadTarget / Target.Evaluate in package runner happens in run (or in a
	// helper all of whose call sites do) after enter and before any exit
	var insideSlot func(ci ssa.Instruction, depth int) bool
	insideSlot = func(ci ssa.Instruction, depth int) bool {
		fn := ci.Parent()
		if fn == a.run {
			ok := false
			for _, e := range core.CallsTo(a.run, a.enter) {
				if _, d := e.(*ssa.Defer); !d && core.Dominates(e.(ssa.Instruction), ci) {
					ok = true
				}
			}
			for _, e := range core.CallsTo(a.run, a.exit) {
				if _, d := e.(*ssa.Defer); !d && core.InstrReaches(e.(ssa.Instruction), ci) {
					ok = false
				}
			}
			return ok
		}
		if depth >= 4 {
			return false
		}
		if fn.Parent() != nil {
			// a function literal: every use of the closure value is an immediate call inside the slot
			n, all := 0, true
			core.Instrs(fn.Parent(), func(in ssa.Instruction) {
				mc, ok := in.(*ssa.MakeClosure)
				if !ok || mc.Fn != fn {
					return
				}
				for _, u := range *mc.Referrers() {
					call, isCall := u.(*ssa.Call)
					if !isCall || call.Call.Value != mc || !insideSlot(call, depth+1) {
						all = false
					}
					n++
				}
			})
			return n > 0 && all
		}
		callers := p.StaticCallers(fn)
		if len(callers) == 0 {
			return false
		}
		for _, c := range callers {
			if _, isCall := c.(*ssa.Call); !isCall {
				return false // go / defer: runs outside the caller's slot window
			}
			if !insideSlot(c.(ssa.Instruction), depth+1) {
				return false
			}
		}
		return true
	}
	nWork := map[string]int{}
	for _, f := range p.ModuleFuncs() {
		if f.Pkg == nil || f.Pkg.Pkg.Path() != pkgRunner {
			continue
		}
		for _, c := range core.Calls(f) {
			cc := c.Common()
			if !cc.IsInvoke() {
				continue
			}
			m := cc.Method.Name()
			if m != "LoadTarget" && m != "Evaluate" {
				continue
			}
			ci := c.(ssa.Instruction)
			nWork[m]++
			_, isCall := c.(*ssa.Call)
			r.Check(isCall && insideSlot(ci, 0), "R9.5", fname(f)+"#"+m+"-inside-slot", p.InstrPos(ci), m+" runs after enter and before any exit", m+" can run without holding a slot: the parallelism limit is not respected")
		}
	}
	r.Floor("R9.5", nWork["LoadTarget"], 1, "LoadTarget invocations in package runner")
	r.Floor("R9.5", nWork["Evaluate"], 1, "Evaluate invocations in package runner")
	// R9.6
	checkWaitOutsideSlot(p, r, a, "R9.6")
	// R9.7
	okCap := false
	for _, c := range core.CallsTo(a.Run, a.newGate) {
		if arg, ok := c.Common().Args[0].(*ssa.Call); ok && core.IsCallTo(arg, "runtime", "NumCPU") {
			okCap = true
		}
	}
	r.Check(okCap, "R9.7", "runner.Run#limit", p.Pos(a.Run.Pos()), "the gate is created with runtime.NumCPU()", "the parallelism limit is not runtime.NumCPU()")
	okStore := false
	core.Instrs(a.newGate, func(in ssa.Instruction) {
		if st, ok := in.(*ssa.Store); ok && core.IsField(st.Addr, pkgRunner, "gate", "capacity") {
			if prm, ok := st.Val.(*ssa.Parameter); ok && prm == a.newGate.Params[0] {
				okStore = true
			}
		}
	})
	r.Check(okStore, "R9.7", "runner.newGate#capacity", p.Pos(a.newGate.Pos()), "newGate stores its argument unmodified as the capacity", "newGate does not store its argument as the capacity")
	// gate is created once per Run and shared: runner.gate stored only in Run
	ng := 0
	for _, c := range p.StaticCallers(a.newGate) {
		ng++
		r.Check(c.Parent() == a.Run, "R9.7", "runner.newGate#caller:"+fname(c.Parent()), p.InstrPos(c.(ssa.Instruction)), "one gate per build, created by Run", "a second gate is created: the limit is no longer global to the build")
	}
	r.Floor("R9.7", ng, 1, "newGate call sites")
}

// checkCycleErrorOrigin: the cyclic-dependency error (the only outcome that lets a requester continue without
// waiting for its dependencies) is constructed only in (*engine).check, on the edge where the visited target is
// the engine's own root.
func checkCycleErrorOrigin(p *core.Prog, r *core.Result, a *runnerAnchors, rule string) bool {
	cde := p.Named("runner", "CyclicDependencyError")
	if cde == nil {
		r.Unk(rule, "anchor:runner.CyclicDependencyError", "-", "type not found")
		return false
	}
	n := 0
	for _, f := range p.ModuleFuncs() {
		core.Instrs(f, func(in ssa.Instruction) {
			v, ok := in.(ssa.Value)
			if !ok {
				return
			}
			isConv := false
			switch x := in.(type) {
			case *ssa.Convert:
				isConv = types.Identical(x.Type(), cde)
			case *ssa.ChangeType:
				isConv = types.Identical(x.Type(), cde)
			case *ssa.MakeInterface:
				// constant conversions appear as MakeInterface of a Const of the named type
				if c, ok := x.X.(*ssa.Const); ok && types.Identical(c.Type(), cde) {
					isConv = true
				}
			}
			if !isConv {
				return
			}
			_ = v
			n++
			construct := fname(f) + "#construct-CyclicDependencyError"
			if f != a.check {
				r.Bad(rule, construct, p.InstrPos(in), "a cyclic-dependency error is constructed outside the root-identity test of (*engine).check: acyclic graphs can be reported as cyclic")
				return
			}
			// on the true edge of dep == e.root
			ok = false
			// (the identity test may be a named predicate: if e.isRoot(dep) { ... })
			for _, xf := range xfacts(p, in) {
				b, okb := xf.Cond.(*ssa.BinOp)
				if !okb || (b.Op != token.EQL && b.Op != token.NEQ) {
					continue
				}
				isDep := func(v ssa.Value) bool { prm, ok := xf.Arg(v).(*ssa.Parameter); return ok && prm == f.Params[1] }
				isRoot := func(v ssa.Value) bool { return core.LoadOfField(v, pkgRunner, "engine", "root") }
				if (isDep(b.X) && isRoot(b.Y)) || (isDep(b.Y) && isRoot(b.X)) {
					if (b.Op == token.EQL) == xf.Val {
						ok = true
					}
				}
			}
			r.Check(ok, rule, construct, p.InstrPos(in), "constructed only on the edge where the visited target is the engine's own root", "constructed without the visited target being the root: false cycle reports")
		})
	}
	r.Floor(rule, n, 1, "constructions of CyclicDependencyError")
	return true
}

package rules

import (
	"fmt"
	"go/types"
	"sort"
	"strings"

	"dawnverif/checker/core"

	"golang.org/x/tools/go/ssa"
)

// fingerprintRoots: the functions that compute or compare the stamps persisted in target records.
func fingerprintRoots(p *core.Prog, r *core.Result, rule string, sources bool) []*ssa.Function {
	var roots []*ssa.Function
	add := func(f *ssa.Function) {
		if f != nil {
			roots = append(roots, f)
		}
	}
	add(need(p, r, rule, "", "", "functionEnv"))
	if sources {
		add(need(p, r, rule, "", "", "fileSum"))
		add(need(p, r, rule, "", "sourceFile", "upToDate"))
	}
	add(need(p, r, rule, "", "function", "diffEnv"))
	add(need(p, r, rule, "pickle", "Encoder", "Encode"))
	for _, f := range funcsConvertedTo(p, pkgPickle, "PicklerFunc") {
		add(f)
	}
	for _, f := range funcsConvertedTo(p, pkgPickle, "UnpicklerFunc") {
		add(f)
	}
	return roots
}

func isInterpreterEntry(fn *ssa.Function) bool {
	switch fn.Name() {
	case "Call", "CallInternal", "ExecFile", "ExecFileOptions", "Eval", "EvalOptions", "ExecREPLChunk", "Init":
		return fn.Pkg != nil && strings.HasPrefix(fn.Pkg.Pkg.Path(), "go.starlark.net")
	}
	return false
}

// checkFingerprintDeterminism implements R2.1 / R8.4: no nondeterminism source is reachable from the
// fingerprint computation through in-module code and the starlark value library.
func checkFingerprintDeterminism(p *core.Prog, r *core.Result, rule string, sources bool) {
	roots := fingerprintRoots(p, r, rule, sources)
	if len(roots) == 0 {
		return
	}
	expand := func(caller, callee *ssa.Function, site ssa.CallInstruction) bool {
		if callee.Blocks == nil || isInterpreterEntry(callee) {
			return false
		}
		if core.InModule(callee) {
			// event sinks and renderers are observers, not part of the fingerprint
			if callee.Signature.Recv() != nil && strings.Contains(core.CalleeKey(callee), "/cmd/dawn") {
				return false
			}
			return true
		}
		if callee.Pkg != nil && strings.HasPrefix(callee.Pkg.Pkg.Path(), "go.starlark.net/starlark") {
			return true
		}
		return false
	}
	classify := func(callee *ssa.Function, site ssa.CallInstruction) string { return core.IsNondet(callee) }
	hits, visited := p.Reach(roots, classify, expand)
	r.Analysed["fingerprint_closure_functions"] = len(visited)
	sort.Slice(hits, func(i, j int) bool {
		return core.ChainString(hits[i].Chain, hits[i].Callee) < core.ChainString(hits[j].Chain, hits[j].Callee)
	})
	for _, h := range hits {
		caller := h.Chain[len(h.Chain)-1]
		if !core.InModule(caller) {
			r.Note(rule, fmt.Sprintf("%s#nondet:%s", fname(caller), core.CalleeKey(h.Callee)), "-", "outside the module (%s): %s", h.Class, core.ChainString(h.Chain, h.Callee))
			continue
		}
		pos := "-"
		if h.Site != nil {
			pos = p.InstrPos(h.Site.(ssa.Instruction))
		}
		// a directory listing is acceptable when it is sorted before use
		if strings.Contains(h.Class, "directory order") && h.Site != nil && sortedAfter(h.Site.(ssa.Instruction)) {
			r.OK(rule, fmt.Sprintf("%s#nondet:%s", fname(caller), core.CalleeKey(h.Callee)), pos, "directory listing is sorted before use")
			continue
		}
		r.Bad(rule, fmt.Sprintf("%s#nondet:%s", fname(caller), core.CalleeKey(h.Callee)), pos, "a stamp depends on %s: %s — unchanged inputs can yield a different fingerprint (spurious rebuild) and changed ones the same", h.Class, core.ChainString(h.Chain, h.Callee))
	}
	// Go-map iteration feeding an ordered sink
	var fns []*ssa.Function
	for f := range visited {
		fns = append(fns, f)
	}
	sort.Slice(fns, func(i, j int) bool { return fns[i].String() < fns[j].String() })
	nRanges := 0
	for _, f := range fns {
		core.Instrs(f, func(in ssa.Instruction) {
			rg, ok := in.(*ssa.Range)
			if !ok {
				return
			}
			if _, isMap := rg.X.Type().Underlying().(*types.Map); !isMap {
				return
			}
			nRanges++
			construct := fmt.Sprintf("%s#map-range", fname(f))
			ordered, sorted := mapRangeOrderedSink(f, rg)
			switch {
			case !ordered:
				r.OK(rule, construct, p.InstrPos(rg), "map iteration feeds no ordered sink")
			case sorted:
				r.OK(rule, construct, p.InstrPos(rg), "map iteration results are sorted before use")
			case !core.InModule(f):
				r.Note(rule, construct, p.InstrPos(rg), "map iteration with ordered sink in the starlark library")
			default:
				r.Bad(rule, construct, p.InstrPos(rg), "Go map iteration order reaches an ordered sink (append/write) without sorting: the fingerprint varies from run to run")
			}
		})
	}
	r.Analysed["fingerprint_map_ranges"] = nRanges
	if len(hits) == 0 {
		r.OK(rule, "dawn#fingerprint-closure", "-", "no nondeterminism source reachable from %d fingerprint roots through %d functions", len(roots), len(visited))
	}
	r.Floor(rule, len(visited), 40, "functions in the fingerprint closure")
}

func isSortCall(c ssa.CallInstruction) bool {
	f := core.Callee(c)
	if f == nil {
		return false
	}
	k := core.CalleeKey(f)
	return strings.HasPrefix(k, "sort.") || strings.HasPrefix(k, "slices.Sort") || k == "slices.Sorted" || k == "slices.SortedFunc" || strings.HasPrefix(k, "os.ReadDir")
}

// sortedAfter: some sort call is reachable from `in` within its function before any return.
func sortedAfter(in ssa.Instruction) bool {
	for _, c := range core.Calls(in.Parent()) {
		if isSortCall(c) && core.InstrReaches(in, c.(ssa.Instruction)) {
			// every path from the listing to a successful use passes the sort
			ok := true
			for _, ret := range core.ReturnsOf(in.Parent()) {
				vals := core.RetVals(ret)
				isErr := len(vals) > 0 && !core.IsNilConst(vals[len(vals)-1])
				if isErr {
					continue
				}
				if core.ReachesAvoiding(in, ret, func(x ssa.Instruction) bool { return x == c.(ssa.Instruction) }) {
					ok = false
				}
			}
			if ok {
				return true
			}
		}
	}
	return false
}

// mapRangeOrderedSink: does the loop over rg feed an ordered sink, and is a sort applied afterwards?
func mapRangeOrderedSink(f *ssa.Function, rg *ssa.Range) (ordered, sorted bool) {
	// blocks of the loop: those reachable from the Next's block that can reach it again
	var next *ssa.Next
	for _, ref := range *rg.Referrers() {
		if n, ok := ref.(*ssa.Next); ok {
			next = n
		}
	}
	if next == nil {
		return false, false
	}
	hb := next.Block()
	for _, b := range f.Blocks {
		if !(core.Reaches(hb, b, true) && core.Reaches(b, hb, true)) {
			continue
		}
		for _, in := range b.Instrs {
			switch x := in.(type) {
			case *ssa.Call:
				if bi, ok := x.Call.Value.(*ssa.Builtin); ok && bi.Name() == "append" {
					ordered = true
				}
				if cal := core.Callee(x); cal != nil {
					n := cal.Name()
					if n == "Write" || n == "WriteString" || n == "WriteByte" || n == "Fprintf" || n == "Append" {
						ordered = true
					}
				}
				if x.Call.IsInvoke() && (x.Call.Method.Name() == "Write") {
					ordered = true
				}
			}
		}
	}
	if ordered {
		for _, c := range core.Calls(f) {
			if isSortCall(c) && core.InstrReaches(next, c.(ssa.Instruction)) {
				sorted = true
			}
		}
	}
	return
}

package rules

import (
	"fmt"
	"go/token"
	"go/types"
	"strings"

	"dawnverif/checker/core"

	"golang.org/x/tools/go/ssa"
)

func init() { register("C02", true, runC02) }

func runC02(p *core.Prog, r *core.Result) {
	r.Decided = []string{
		"R2.1 no nondeterminism source (clock, pid, random numbers, directory order, addresses, Go-map order into an ordered sink) is reachable from the code that computes or compares stamps",
		"R2.2 source files are compared by content hash: the verdict 'up to date' is returned exactly on equality of the recorded sum and the sum of the current contents; no modification time is consulted",
		"R2.3 loading a target rewrites the record it has just read with every decision-relevant field (all but the documentation) unchanged, field by field over the record type: a load cannot drop the stamp dependents compare",
		"R2.6 the verdict 'a dependency is out of date' is produced only where a dependency has no recorded stamp, changed in this build, or has a stamp different from the recorded one - nowhere else (no comparison of counts, no extra condition merged in after the loop)",
		"R2.11 a target's own verdict (Target.upToDate()) is taken behind the evaluation of its dependencies: a generated source file, whose dependency is its generator, is hashed only after the generator ran in this build (otherwise its record carries the sum of the previous contents and the rebuild of the unchanged tree re-executes its consumers)",
		"R2.12 a content sum is a function of names and contents: nothing fed into the hash of a source (fileSum, dirSum and what they call) is computed from a modification time or another attribute that changes without the contents (fs.FormatFileInfo, FileInfo.ModTime / Sys, package time) - otherwise a timestamp-only touch, a same-content rewrite or a scratch file created and removed below a source directory re-executes the consumers",
		"R2.13 distinct targets and sources have distinct records: the record path is work/<kind>s/<one URL-escaped component of package and name> (C12's R12.3) - a spelling that is not injective ('/' written as '_', which also passes unchanged) makes //tools:gen_docs and //tools/gen:docs overwrite each other's record, and one of them re-executes on every build of the unchanged tree",
		"R2.7 the stamp a loaded target reports to its dependents (targetInfo.stamp) is a persisted field of its record, verbatim (the combined stamp, or the plain data of a record written before combined stamps existed) - never a value recomputed at load, which differs from what dependents stored whenever the formula or the record format has changed since",
		"R2.5 the current environment of a function (functionEnv) is not computed from anything reachable from loadFunction: it is taken only after every module has finished executing, so it is complete",
		"R2.8 what a function's stamp is computed from is fixed when loading ends: a host value whose contents are written while targets run (a cache) is neither pickled by content by the encoder nor read by the host pickler - otherwise the stamp recorded by one build differs from the one the next, unchanged, build computes before anything ran (shared with C08 R8.8)",
		"R2.9 dawn's own records are nobody's input: every function of package dawn that lists project directories on behalf of a build decision (package loading, glob(), the content sum of a source directory) branches on a comparison that names the state directory (a string constant containing .dawn, or a value that flows from Project.work) - the records under .dawn/build are rewritten by every build, so a listing that covers them is different on every load (the collector, which walks the state directory itself, is the one exception)",
		"R2.10 a garbage collection between two builds keeps what the next load compares with: GC marks the record of every entry of Project.targets - sources as well as targets - under the path records are read from, with all its parents (the marking obligations of C14: R14.1, R14.2, R14.3); a collected record makes an unchanged source look changed and everything above it rebuild",
		"R2.4 both sides of the environment comparison are produced by the same decoder/unpickler, and the persisted stamp by the same pickler as the current one",
	}
	r.NotDecided = []string{"that unrelated edits (comments, whitespace, other packages) leave the compiled bytecode and constants of a function unchanged (a property of the Starlark compiler)", "behaviour across process restarts and load interleavings as observed"}
	r.Trusted = append(r.Trusted, "VTA call graph (x/tools v0.29.0)", "nondeterminism-source table (core.NondetSources)")

	// ---- R2.1
	checkFingerprintDeterminism(p, r, "R2.1", true)

	// ---- R2.2
	checkSourceCompare(p, r, "R2.2")

	// ---- R2.10 GC keeps the records the next load compares with (the marking rules of C14)
	{
		sub := core.NewResult("C14")
		runC14(p, sub)
		n := 0
		for _, o := range sub.Obls {
			if o.Rule != "R14.0" && o.Rule != "R14.1" && o.Rule != "R14.2" && o.Rule != "R14.3" {
				continue
			}
			if strings.HasPrefix(o.Construct, "floor:") || strings.HasPrefix(o.Construct, "rule#") {
				continue
			}
			n++
			switch o.Status {
			case core.Discharged:
				r.OK("R2.10", o.Construct, o.Pos, "%s", o.Detail)
			case core.Violated:
				r.Bad("R2.10", o.Construct, o.Pos, "%s", o.Detail)
			default:
				if o.Status == core.Undecided {
					r.Unk("R2.10", o.Construct, o.Pos, "%s", o.Detail)
				}
			}
		}
		r.Floor("R2.10", n, 3, "marking obligations of the collector")
	}

	// ---- R2.9 the state directory is left out of every listing
	checkStateDirExcluded(p, r, "R2.9")

	// ---- R2.8 run-time contents stay out of the stamp
	checkRuntimeStateNotPickledByContent(p, r, "R2.8")

	// ---- R2.5 the current environment is computed when the target is checked, not while modules are still loading
	checkEnvNotDuringLoad(p, r, "R2.5", "whereas the environment stored after a run is complete: every later load then sees a difference and rebuilds an unchanged tree")

	// ---- R2.6 dependencies are declared out of date only for a reason
	checkStalenessHasReason(p, r)

	// ---- R2.11 the own verdict is taken behind the dependencies
	checkVerdictAfterDependencies(p, r, "R2.11")
	checkSumsIgnoreTimes(p, r, "R2.12")
	r.Floor("R2.13", importObligations(p, r, runC12, "C12", map[string]bool{"R12.3": true}, "R2.13"), 1, "obligations on the shape of the record path")

	// ---- R2.3
	checkLoadRewritesRead(p, r, "R2.3")

	// ---- R2.7 what a loaded target reports to its dependents is a persisted field, verbatim
	if st := need(p, r, "R2.7", "", "targetInfo", "stamp"); st != nil {
		n := 0
		for _, ret := range core.ReturnsOf(st) {
			vals := core.RetVals(ret)
			if len(vals) != 1 {
				continue
			}
			n++
			v := vals[0]
			isField := false
			for _, f := range []string{"Stamp", "Data"} {
				if core.LoadOfField(v, pkgRoot, "targetInfo", f) {
					isField = true
				}
				if fv, ok := v.(*ssa.Field); ok && core.IsField(fv, pkgRoot, "targetInfo", f) {
					isField = true
				}
			}
			// a selection helper that returns one of its arguments as it is (orDefault(info.Stamp, info.Data))
			if c, ok := v.(*ssa.Call); ok && !isField {
				if h := core.Callee(c); h != nil && core.InModule(h) && h.Blocks != nil {
					verbatim := true
					for _, hr := range core.ReturnsOf(h) {
						for _, rv := range core.RetVals(hr) {
							if _, isPrm := rv.(*ssa.Parameter); !isPrm {
								verbatim = false
							}
						}
					}
					allFields := len(c.Call.Args) > 0
					for _, a := range c.Call.Args {
						okA := false
						for _, f := range []string{"Stamp", "Data"} {
							if core.LoadOfField(a, pkgRoot, "targetInfo", f) {
								okA = true
							}
							if fv, ok := a.(*ssa.Field); ok && core.IsField(fv, pkgRoot, "targetInfo", f) {
								okA = true
							}
						}
						allFields = allFields && okA
					}
					isField = verbatim && allFields
				}
			}
			r.Check(isField, "R2.7", fmt.Sprintf("dawn.(targetInfo).stamp#return-%d", n), p.InstrPos(ret), "the stamp reported after a load is a field of the record as it was read", "the stamp a loaded target reports is recomputed at load instead of read from its record: dependents compare it with what they stored when the record was written, and for records written by another version of the formula (records from before the combined stamp existed carry only Data) the two differ although nothing changed - every dependent of an up-to-date target is re-executed once")
		}
		r.Floor("R2.7", n, 1, "returns of targetInfo.stamp")
	}

	// ---- R2.4
	nDec, nEnc := 0, 0
	unpicklers := funcsConvertedTo(p, pkgPickle, "UnpicklerFunc")
	picklers := funcsConvertedTo(p, pkgPickle, "PicklerFunc")
	var decodeOKd func(v ssa.Value, depth int) (bool, string)
	decodeOK := func(v ssa.Value) (bool, string) { return decodeOKd(v, 0) }
	decodeOKd = func(v ssa.Value, depth int) (bool, string) {
		v = core.Unwrap(v)
		if c, ok := v.(*ssa.Const); ok {
			if n, ok := c.Type().(*types.Named); ok && n.Obj().Name() == "NoneType" {
				return true, "None (never run)"
			}
		}
		if ld, ok := v.(*ssa.UnOp); ok && ld.Op == token.MUL {
			if g, ok := ld.X.(*ssa.Global); ok && g.Name() == "None" {
				return true, "None (never run)"
			}
			if core.IsField(ld.X, pkgRoot, "function", "newEnv") || core.IsField(ld.X, pkgRoot, "function", "oldEnv") {
				return true, "the other side of the comparison"
			}
		}
		e, ok := v.(*ssa.Extract)
		if !ok || e.Index != 0 {
			return false, ""
		}
		call, ok := e.Tuple.(*ssa.Call)
		if !ok {
			return false, ""
		}
		if cal := core.Callee(call); cal != nil && cal.Name() == "functionEnv" {
			return true, "functionEnv"
		}
		if core.IsMethod(call, pkgPickle, "Decoder", "Decode") {
			return true, "Decode"
		}
		// an in-package helper every successful return of which yields such a value
		if h := core.Callee(call); h != nil && h.Blocks != nil && h.Pkg == call.Parent().Pkg && depth < 2 {
			n := 0
			for _, ret := range core.ReturnsOf(h) {
				vals := core.RetVals(ret)
				if len(vals) == 0 {
					return false, ""
				}
				if core.IsNilConst(vals[0]) {
					continue // failure return
				}
				if ok, _ := decodeOKd(vals[0], depth+1); !ok {
					return false, ""
				}
				n++
			}
			if n > 0 {
				return true, "the decode helper " + fname(h)
			}
		}
		return false, ""
	}
	for _, fn := range p.ModuleFuncs() {
		if fn.Pkg == nil || fn.Pkg.Pkg.Path() != pkgRoot {
			continue
		}
		core.Instrs(fn, func(in ssa.Instruction) {
			if st, ok := in.(*ssa.Store); ok {
				for _, fld := range []string{"oldEnv", "newEnv"} {
					if core.IsField(st.Addr, pkgRoot, "function", fld) {
						ok, how := decodeOK(st.Val)
						r.Check(ok, "R2.4", fmt.Sprintf("%s#sets-%s", fname(fn), fld), p.InstrPos(st), "function."+fld+" comes from "+how, "function."+fld+" is not produced by the shared decode path: the two sides of the environment comparison are built differently and never compare equal (every load rebuilds)")
					}
				}
			}
			call, ok := in.(*ssa.Call)
			if !ok {
				return
			}
			if core.IsCallTo(call, pkgPickle, "NewDecoder") {
				nDec++
				okU := false
				for _, u := range unpicklers {
					if core.DependsOn(call.Call.Args[1], core.SliceOpts{}, func(v ssa.Value) bool { return v == ssa.Value(u) }) {
						okU = true
					}
				}
				r.Check(okU && len(unpicklers) == 1, "R2.4", fmt.Sprintf("%s#decoder-unpickler-%d", fname(fn), nDec), p.InstrPos(call), "environments are decoded with the single environment unpickler", "environments are decoded with different unpicklers on the two sides")
			}
			if core.IsCallTo(call, pkgPickle, "NewEncoder") {
				nEnc++
				okP := false
				for _, pk := range picklers {
					// the pickler argument is the closure itself or the result of its (unique) constructor
					if core.DependsOn(call.Call.Args[1], core.SliceOpts{ThroughCall: func(*ssa.Call) bool { return true }}, func(v ssa.Value) bool {
						if v == ssa.Value(pk) {
							return true
						}
						if c, ok := v.(*ssa.Call); ok && pk.Parent() != nil && core.Callee(c) == pk.Parent() {
							return true
						}
						return false
					}) {
						okP = true
					}
				}
				r.Check(okP && len(picklers) == 1, "R2.4", fmt.Sprintf("%s#encoder-pickler-%d", fname(fn), nEnc), p.InstrPos(call), "stamps are encoded with the single environment pickler", "the persisted stamp and the current environment are encoded with different picklers: they never compare equal after a restart")
			}
		})
	}
	r.Floor("R2.4", nDec, 1, "decoders of environments")
	r.Floor("R2.4", nEnc, 1, "encoders of environments")
}

// checkLoadRewritesRead: the record written back when a target is loaded is exactly the record read.
func checkLoadRewritesRead(p *core.Prog, r *core.Result, rule string) {
	for _, recv := range []string{"function", "sourceFile"} {
		load := p.Func("", recv, "load")
		if load == nil {
			continue
		}
		lti := p.Func("", "Project", "loadTargetInfo")
		sti := p.Func("", "Project", "saveTargetInfo")
		if lti == nil || sti == nil {
			continue
		}
		var read *ssa.Call
		for _, c := range core.CallsTo(load, lti) {
			read, _ = c.(*ssa.Call)
		}
		for i, c := range core.CallsTo(load, sti) {
			construct := fmt.Sprintf("dawn.(*%s).load#rewrites-what-it-read-%d", recv, i+1)
			arg := c.Common().Args[len(c.Common().Args)-1]
			same := read != nil && arg == extractOf(read, 0)
			why := ""
			if !same && read != nil {
				// field-wise: the record may be rebuilt (in place or through a constructor helper) as long as every
				// field other than the documentation is the same field of the record read
				rec := recordOf(c.(*ssa.Call), arg)
				readVal := extractOf(read, 0)
				isRead := func(v ssa.Value) bool {
					if v == readVal {
						return true
					}
					if ld, ok := v.(*ssa.UnOp); ok && ld.Op == token.MUL {
						if cell, ok := ld.X.(*ssa.Alloc); ok {
							n := 0
							for _, ref := range *cell.Referrers() {
								if st, ok := ref.(*ssa.Store); ok && st.Addr == ssa.Value(cell) {
									n++
									if st.Val != readVal {
										return false
									}
								}
							}
							return n == 1
						}
					}
					return false
				}
				fieldOfRead := func(v ssa.Value, name string) bool {
					switch x := v.(type) {
					case *ssa.Field:
						_, n := core.FieldOf(x)
						return n == name && isRead(x.X)
					case *ssa.UnOp:
						if fa, ok := x.X.(*ssa.FieldAddr); ok && x.Op == token.MUL {
							_, n := core.FieldOf(fa)
							if n != name {
								return false
							}
							if cell, ok := fa.X.(*ssa.Alloc); ok {
								// the local holding the record read: assigned once, from the read, and this field never assigned
								cnt, okc := 0, true
								for _, ref := range *cell.Referrers() {
									switch y := ref.(type) {
									case *ssa.Store:
										if y.Addr == ssa.Value(cell) {
											cnt++
											okc = okc && y.Val == readVal
										}
									case *ssa.FieldAddr:
										if _, n2 := core.FieldOf(y); n2 == name {
											for _, r2 := range *y.Referrers() {
												if st, ok := r2.(*ssa.Store); ok && st.Addr == ssa.Value(y) {
													okc = false
												}
											}
										}
									}
								}
								return okc && cnt == 1
							}
						}
					}
					return false
				}
				same = true
				whole := 0
				for _, w := range rec.Whole {
					if isRead(w) {
						whole++
					} else {
						same, why = false, "the record comes from an unrecognised source"
					}
				}
				st, _ := readVal.Type().Underlying().(*types.Struct)
				if st == nil {
					same, why = false, "the record type is not a struct"
				} else {
					for k := 0; k < st.NumFields(); k++ {
						name := st.Field(k).Name()
						if name == "Doc" {
							continue // refreshed from the build files for index-only loads; no build decision reads it
						}
						v, assigned := rec.Fields[name]
						switch {
						case assigned && fieldOfRead(v, name):
						case !assigned && whole > 0:
						case assigned:
							same, why = false, "field "+name+" of the rewritten record is not the "+name+" that was read"
						default:
							same, why = false, "field "+name+" of the record read is dropped by the rewrite"
						}
						if !same {
							break
						}
					}
				}
			}
			r.Check(same, rule, construct, p.InstrPos(c.(ssa.Instruction)), "the record written back at load time is the value just read, unmodified", "loading rewrites the record with something other than what was read ("+why+"): a mere load changes persisted state (fields such as a pending re-run or the stamp dependents compare are lost or altered), so the next build's decisions depend on how often the project was loaded")
			// on the nil-error edge of the read
			if read != nil {
				nn, known := p.FactsAt(c.(ssa.Instruction)).ErrNonNil(extractOf(read, 1))
				r.Check(known && !nn, rule, construct+":after-successful-read", p.InstrPos(c.(ssa.Instruction)), "written back only after a successful read", "a record can be rewritten although reading it failed (a corrupt record is replaced by an empty one and the target silently rebuilds or is treated as new)")
			}
		}
	}

}

// checkSourceCompare: a source file is up to date exactly when its recorded content sum equals the hash of its
// current contents, computed afresh by fileSum on every check (rule R2.2 under C02, R1.9 under C01).
func checkSourceCompare(p *core.Prog, r *core.Result, rule string) {
	sup := need(p, r, rule, "", "sourceFile", "upToDate")
	fileSum := need(p, r, rule, "", "", "fileSum")
	if sup != nil && fileSum != nil {
		var sumCall *ssa.Call
		for _, c := range core.CallsTo(sup, fileSum) {
			sumCall, _ = c.(*ssa.Call)
		}
		n := 0
		for i, ret := range core.ReturnsOf(sup) {
			vals := core.RetVals(ret)
			if len(vals) != 4 {
				continue
			}
			isOldSum := func(x ssa.Value) bool { return core.LoadOfField(x, pkgRoot, "sourceFile", "oldSum") }
			isNewSum := func(x ssa.Value) bool {
				if core.LoadOfField(x, pkgRoot, "sourceFile", "sum") {
					return true
				}
				return sumCall != nil && x == extractOf(sumCall, 0)
			}
			b, ok := core.ConstBool(vals[0])
			facts := p.FactsAt(ret)
			if !ok {
				// the verdict held in a flag (fresh := true; if sum != oldSum { fresh = false }) or the comparison itself
				if core.IsNilConst(vals[3]) {
					if bo, isB := core.Unwrap(vals[0]).(*ssa.BinOp); isB && (bo.Op == token.EQL) && (isOldSum(bo.X) && isNewSum(bo.Y) || isOldSum(bo.Y) && isNewSum(bo.X)) {
						n++
						r.OK(rule, fmt.Sprintf("dawn.(*sourceFile).upToDate#true-%d", n), p.InstrPos(ret), "the verdict is the comparison of the recorded sum with the sum of the current contents")
						continue
					}
					if ph, isPhi := core.Unwrap(vals[0]).(*ssa.Phi); isPhi {
						efs := p.PhiEdgeFacts(ph)
						allConst := true
						for _, e := range ph.Edges {
							if _, isC := core.ConstBool(e); !isC {
								allConst = false
							}
						}
						if allConst && len(efs) == len(ph.Edges) {
							for ei, e := range ph.Edges {
								eb, _ := core.ConstBool(e)
								n++
								fs := p.RefineFacts(efs[ei])
								okE := fs.Find(func(c ssa.Value, v bool) bool {
									bo, ok := c.(*ssa.BinOp)
									if !ok || (bo.Op != token.EQL && bo.Op != token.NEQ) {
										return false
									}
									if !(isOldSum(bo.X) && isNewSum(bo.Y) || isOldSum(bo.Y) && isNewSum(bo.X)) {
										return false
									}
									return ((bo.Op == token.EQL) == v) == eb
								})
								if eb {
									r.Check(okE, rule, fmt.Sprintf("dawn.(*sourceFile).upToDate#true-%d", n), p.InstrPos(ret), "up to date exactly when the recorded sum equals the sum of the current contents", "a source can be reported up to date without its content sum matching the recorded one")
								} else {
									r.Check(okE, rule, fmt.Sprintf("dawn.(*sourceFile).upToDate#false-%d", n), p.InstrPos(ret), "out of date exactly when the sums differ", "a source can be reported changed although its content sum equals the recorded one (e.g. on a timestamp-only touch)")
								}
							}
							continue
						}
					}
				}
				r.Unk(rule, fmt.Sprintf("dawn.(*sourceFile).upToDate#return-%d", i+1), p.InstrPos(ret), "non-constant verdict")
				continue
			}
			if !core.IsNilConst(vals[3]) {
				continue
			}
			n++
			// equality fact between oldSum and the fresh sum
			eqFact := func(want bool) bool {
				return facts.Find(func(c ssa.Value, v bool) bool {
					bo, ok := c.(*ssa.BinOp)
					if !ok || (bo.Op != token.EQL && bo.Op != token.NEQ) {
						return false
					}
					isOld := func(x ssa.Value) bool { return core.LoadOfField(x, pkgRoot, "sourceFile", "oldSum") }
					isNew := func(x ssa.Value) bool {
						if core.LoadOfField(x, pkgRoot, "sourceFile", "sum") {
							return true
						}
						return sumCall != nil && x == extractOf(sumCall, 0)
					}
					if !(isOld(bo.X) && isNew(bo.Y) || isOld(bo.Y) && isNew(bo.X)) {
						return false
					}
					return ((bo.Op == token.EQL) == v) == want
				})
			}
			if b {
				r.Check(eqFact(true), rule, fmt.Sprintf("dawn.(*sourceFile).upToDate#true-%d", n), p.InstrPos(ret), "up to date exactly when the recorded sum equals the sum of the current contents", "a source can be reported up to date without its content sum matching the recorded one")
			} else {
				r.Check(eqFact(false), rule, fmt.Sprintf("dawn.(*sourceFile).upToDate#false-%d", n), p.InstrPos(ret), "out of date exactly when the sums differ", "a source can be reported changed although its content sum equals the recorded one (e.g. on a timestamp-only touch)")
			}
		}
		r.Floor(rule, n, 1, "verdicts of (*sourceFile).upToDate")
		// the fresh sum is stored into f.sum before the comparison
		// every value stored into f.sum in upToDate is the result of hashing the current contents: fileSum(path) itself,
		// or a helper every successful return of which returns such a result computed during the call
		var fresh func(v ssa.Value, depth int) bool
		fresh = func(v ssa.Value, depth int) bool {
			e, ok := v.(*ssa.Extract)
			if !ok || e.Index != 0 {
				return false
			}
			c, ok := e.Tuple.(*ssa.Call)
			if !ok {
				return false
			}
			cal := core.Callee(c)
			if cal == fileSum {
				return true
			}
			if cal == nil || !core.InModule(cal) || cal.Blocks == nil || depth > 2 {
				return false
			}
			n := 0
			for _, ret := range core.ReturnsOf(cal) {
				rv := core.RetVals(ret)
				if len(rv) != 2 {
					return false
				}
				if nn, known := p.FactsAt(ret).ErrNonNil(rv[1]); known && nn {
					continue
				}
				// non-nil known through a named predicate (if !missingOrNil(err) { return "", err })
				viaPredicate := false
				for _, xf := range xfacts(p, ret) {
					b, isB := xf.Cond.(*ssa.BinOp)
					if !isB || !core.IsNilConst(b.Y) || xf.Arg(b.X) != rv[1] {
						continue
					}
					if b.Op == token.EQL && !xf.Val || b.Op == token.NEQ && xf.Val {
						viaPredicate = true
					}
				}
				if viaPredicate {
					continue
				}
				if !core.IsNilConst(rv[1]) {
					if _, isE := rv[1].(*ssa.Extract); !isE {
						return false
					}
				}
				if !fresh(rv[0], depth+1) {
					return false
				}
				n++
			}
			return n > 0
		}
		nStores := 0
		core.Instrs(sup, func(in ssa.Instruction) {
			st, ok := in.(*ssa.Store)
			if !ok || !core.IsField(st.Addr, pkgRoot, "sourceFile", "sum") {
				return
			}
			nStores++
			r.Check(fresh(st.Val, 0), rule, fmt.Sprintf("dawn.(*sourceFile).upToDate#fresh-sum-%d", nStores), p.InstrPos(st), "the compared sum is the hash of the file's current contents, computed during this call", "the sum compared with the recorded one is not (always) a hash of the file's current contents computed now - e.g. it can come from a cache validated by size/modification time or kept across reloads: an edit that the shortcut does not see leaves dependents stale although the build reports success")
		})
		r.Floor(rule, nStores, 1, "stores of the fresh sum in (*sourceFile).upToDate")
		// fileSum hashes contents: SHA256 over the opened file (or the directory sum)
		okHash := false
		for _, c := range core.Calls(fileSum) {
			if cal := core.Callee(c); cal != nil && (cal.Name() == "SHA256" || cal.Name() == "dirSum") {
				okHash = true
			}
		}
		r.Check(okHash, rule, "dawn.fileSum#content-hash", p.Pos(fileSum.Pos()), "fileSum hashes the file's bytes (or the directory's entries)", "fileSum does not hash the file's contents")
	}

}

// checkStalenessHasReason implements R2.6 (the converse of R1.2): every edge that marks the dependencies out of date
// carries one of the three reasons. Edges merged into the verdict after the dependency loop have none.
func checkStalenessHasReason(p *core.Prog, r *core.Result) {
	m := buildEvalModel(p, r, "R2.6")
	if m == nil {
		return
	}
	carriers := findStalenessCarriers(m.DepsFn)
	if len(carriers) == 0 {
		r.Unk("R2.6", "dawn.(*runTarget).Evaluate#deps-accumulator", p.Pos(m.DepsFn.Pos()), "no staleness carrier recognised in the dependency loop")
		return
	}
	id := func(v ssa.Value) ssa.Value { return v }
	var reasonD func(fs core.FactSet, arg func(ssa.Value) ssa.Value, depth int) string
	reason := func(fs core.FactSet) string { return reasonD(fs, id, 0) }
	reasonD = func(fs core.FactSet, arg func(ssa.Value) ssa.Value, depth int) string {
		if fs.Find(func(c ssa.Value, v bool) bool {
			ex, ok := arg(c).(*ssa.Extract)
			if !ok || ex.Index != 1 || v {
				return false
			}
			lk, ok := ex.Tuple.(*ssa.Lookup)
			return ok && m.recordedDepsX(lk.X, arg)
		}) {
			return "no recorded stamp"
		}
		if fs.Find(func(c ssa.Value, v bool) bool { return v && core.LoadOfField(c, pkgRoot, "runTarget", "changed") }) {
			return "changed in this build"
		}
		if fs.Find(func(c ssa.Value, v bool) bool {
			b, ok := c.(*ssa.BinOp)
			if !ok || (b.Op != token.NEQ && b.Op != token.EQL) || (b.Op == token.NEQ) != v {
				return false
			}
			isCur := func(x ssa.Value) bool { return core.LoadOfField(x, pkgRoot, "runTarget", "data") }
			isPrev := func(x ssa.Value) bool {
				ex, ok := arg(x).(*ssa.Extract)
				if !ok || ex.Index != 0 {
					return false
				}
				lk, ok := ex.Tuple.(*ssa.Lookup)
				return ok && m.recordedDepsX(lk.X, arg)
			}
			return isCur(b.X) && isPrev(b.Y) || isCur(b.Y) && isPrev(b.X)
		}) {
			return "stamp differs from the recorded one"
		}
		// dry runs only: the dependency was visited by this very dry run and is assumed to change
		if fs.Find(func(c ssa.Value, v bool) bool { return v && projField(c, "dryrun") }) && fs.Find(func(c ssa.Value, v bool) bool {
			b, ok := c.(*ssa.BinOp)
			if !ok || !v || b.Op != token.EQL {
				return false
			}
			isRun := func(x ssa.Value) bool { return core.LoadOfField(x, pkgRoot, "Project", "run") }
			isMark := func(x ssa.Value) bool {
				u, ok := x.(*ssa.UnOp)
				if !ok || u.Op != token.MUL {
					return false
				}
				o, _ := core.FieldOf(u.X)
				return o != nil && o.Obj().Name() == "runTarget"
			}
			return isRun(b.X) && isMark(b.Y) || isRun(b.Y) && isMark(b.X)
		}) {
			return "assumed to change by this dry run (dry runs only)"
		}
		// a helper predicate every true-returning path of which carries one of the reasons
		if depth < 2 {
			for f := range fs {
				call, ok := f.Cond.(*ssa.Call)
				if !ok {
					continue
				}
				cs, subst := p.CalleeCases(call, f.Val)
				if len(cs) == 0 {
					continue
				}
				inner := func(v ssa.Value) ssa.Value {
					if a, ok := subst[v]; ok {
						return arg(a)
					}
					if al, ok := v.(*ssa.Alloc); ok {
						for _, ref := range *al.Referrers() {
							if st, ok := ref.(*ssa.Store); ok && st.Addr == ssa.Value(al) {
								if a, ok := subst[st.Val]; ok {
									return arg(a)
								}
							}
						}
					}
					return v
				}
				all := true
				for _, c := range cs {
					if reasonD(c, inner, depth+1) == "" {
						all = false
					}
				}
				if all {
					return "one of the three reasons on every path on which " + fname(core.Callee(call)) + " says so"
				}
			}
		}
		return ""
	}
	n := 0
	for _, car := range carriers {
		efs := p.PhiEdgeFacts(car.phi)
		for i, e := range car.phi.Edges {
			if !car.marked(e) {
				continue
			}
			n++
			construct := fmt.Sprintf("%s#marks-out-of-date-%d", fname(m.DepsFn), n)
			// the marking edge: facts on the edge, or (an || chain evaluated before a shared marking block) on some
			// path into it - each incoming path of the marking block must carry a reason
			why := reason(p.RefineFacts(efs[i]))
			if why == "" {
				pred := car.phi.Block().Preds[i]
				all := len(pred.Preds) > 0
				for _, q := range pred.Preds {
					si := 0
					for k, sc := range q.Succs {
						if sc == pred {
							si = k
						}
					}
					if reason(p.RefineFacts(p.EdgeFacts(q, si))) == "" {
						all = false
					}
				}
				if all {
					why = "one of the three reasons on every path into the marking block"
				}
			}
			r.Check(why != "", "R2.6", construct, p.InstrPos(car.phi), "a dependency is marked out of date because: "+why, "a dependency is marked out of date on an edge where it has a recorded stamp, did not change and has the recorded stamp: an unchanged tree rebuilds")
		}
	}
	r.Floor("R2.6", n, 1, "edges marking a dependency out of date")
	// after the loop nothing else is merged into a boolean verdict
	for _, car := range carriers {
		if car.kind != "bool" {
			continue
		}
		fnHost := car.phi.Parent()
		// the verdict as it is carried on behind the loop: the loop's phi and every later merge that takes it in
		carrierLike := map[ssa.Value]bool{car.phi: true}
		core.Instrs(fnHost, func(in ssa.Instruction) {
			ph, ok := in.(*ssa.Phi)
			if !ok || ph == car.phi || core.Reaches(ph.Block(), ph.Block(), false) {
				return
			}
			fromCarrier, extraFalse := false, false
			pfs := p.PhiEdgeFacts(ph)
			for _, e := range ph.Edges {
				if carrierLike[core.Unwrap(e)] {
					fromCarrier = true
				}
			}
			if fromCarrier {
				carrierLike[ph] = true
			}
			for i, e := range ph.Edges {
				if carrierLike[core.Unwrap(e)] {
					continue
				} else if b, isConst := core.ConstBool(e); isConst && !b {
					// a fourth reason: a dependency the last execution recorded is no longer declared
					if i < len(pfs) && removedDependencyFact(p, pfs[i]) {
						r.OK("R2.6", fmt.Sprintf("%s#marks-out-of-date:removed-dependency", fname(fnHost)), p.InstrPos(ph), "the dependencies are also out of date where a dependency recorded by the last execution is no longer declared (a failed lookup of a key of info.Dependencies among the current dependencies)")
						continue
					}
					extraFalse = true
				}
			}
			if fromCarrier && extraFalse {
				r.Bad("R2.6", fmt.Sprintf("%s#verdict-weakened-after-loop", fname(fnHost)), p.InstrPos(ph), "after the dependency loop the verdict 'all dependencies up to date' is set to false by a further condition (e.g. a comparison of the number of recorded and declared dependencies, which differ whenever a label is listed twice): the target and everything downstream re-execute on every build of an unchanged tree")
			}
		})
	}
}

// checkStateDirExcluded implements R2.9 (sibling agreement of the directory-listing functions).
func checkStateDirExcluded(p *core.Prog, r *core.Result, rule string) {
	var fromWork func(v ssa.Value, depth int, seen map[ssa.Value]bool) bool
	fromWork = func(v ssa.Value, depth int, seen map[ssa.Value]bool) bool {
		if seen[v] {
			return true // a cycle (mutual recursion passing the value on) adds no other origin
		}
		if depth > 6 {
			return false
		}
		seen[v] = true
		if core.LoadOfField(v, pkgRoot, "Project", "work") || core.LoadOfField(v, pkgRoot, "Project", "temp") {
			return true
		}
		switch x := v.(type) {
		case *ssa.Parameter:
			fn := x.Parent()
			i := paramIndex(fn, x)
			callers := p.StaticCallers(fn)
			if i < 0 || len(callers) == 0 || fn.Parent() != nil {
				return false
			}
			for _, c := range callers {
				if c.Parent() == fn {
					continue // the recursion passes it on
				}
				if i >= len(c.Common().Args) || !fromWork(c.Common().Args[i], depth+1, seen) {
					return false
				}
			}
			return true
		case *ssa.FreeVar:
			if b := core.Binding(x); b != nil {
				return fromWork(b, depth+1, seen)
			}
		case *ssa.UnOp:
			if sv := core.SingleStore(x.X); sv != nil {
				return fromWork(sv, depth+1, seen)
			}
		case *ssa.Call:
			if core.IsCallTo(x, "path/filepath", "Join") || core.IsCallTo(x, "path/filepath", "Clean") {
				for _, a := range x.Call.Args {
					if fromWork(a, depth+1, seen) {
						return true
					}
				}
				// variadic Join: the elements of the implicit slice
				for _, op := range variadicOperandsOf(x) {
					if fromWork(op, depth+1, seen) {
						return true
					}
				}
			}
		}
		return false
	}
	namesStateDir := func(v ssa.Value) bool {
		if s, ok := core.ConstString(v); ok {
			return strings.Contains(s, ".dawn")
		}
		return fromWork(v, 0, map[ssa.Value]bool{})
	}
	n := 0
	for _, fn := range p.ModuleFuncs() {
		top := fn
		for top.Parent() != nil {
			top = top.Parent()
		}
		if top.Pkg == nil || top.Pkg.Pkg.Path() != pkgRoot || fn.Blocks == nil {
			continue
		}
		// what is listed: os.ReadDir(x), f.ReadDir on an opened directory, or the callback of filepath.WalkDir(x, ...)
		var listed []ssa.Value
		var at ssa.Instruction
		for _, c := range core.Calls(fn) {
			switch {
			case core.IsCallTo(c, "os", "ReadDir"):
				listed, at = append(listed, c.Common().Args[0]), c.(ssa.Instruction)
			case core.IsMethod(c, "os", "File", "ReadDir") || core.IsMethod(c, "os", "File", "Readdir") || core.IsMethod(c, "os", "File", "Readdirnames"):
				listed, at = append(listed, nil), c.(ssa.Instruction)
			}
		}
		if fn.Parent() != nil {
			// a walk callback: find the WalkDir call in the parent that is handed this closure
			for _, c := range core.Calls(fn.Parent()) {
				if !(core.IsCallTo(c, "path/filepath", "WalkDir") || core.IsCallTo(c, "path/filepath", "Walk")) {
					continue
				}
				arg := c.Common().Args[1]
				if ct, ok := arg.(*ssa.ChangeType); ok {
					arg = ct.X
				}
				if mc, ok := arg.(*ssa.MakeClosure); ok && mc.Fn == ssa.Value(fn) {
					listed, at = append(listed, c.Common().Args[0]), c.(ssa.Instruction)
				}
			}
		}
		if len(listed) == 0 {
			continue
		}
		// the collector walks the state directory itself
		inState := false
		for _, l := range listed {
			if l != nil && fromWork(l, 0, map[ssa.Value]bool{}) {
				inState = true
			}
		}
		if inState {
			r.Note(rule, fname(fn)+"#lists-the-state-directory", p.InstrPos(at), "walks the state directory itself (collector): exempt")
			continue
		}
		n++
		hasGuard := func(f *ssa.Function) bool {
			g := false
			core.Instrs(f, func(in ssa.Instruction) {
				iff, ok := in.(*ssa.If)
				if !ok {
					return
				}
				b, ok := iff.Cond.(*ssa.BinOp)
				if !ok || (b.Op != token.EQL && b.Op != token.NEQ) {
					return
				}
				if namesStateDir(b.X) || namesStateDir(b.Y) {
					g = true
				}
			})
			return g
		}
		guarded := hasGuard(fn)
		if !guarded && fn.Parent() == nil {
			// a helper that only produces the listing (sortedEntries): the functions that walk over its result decide
			callers := p.StaticCallers(fn)
			all := len(callers) > 0
			for _, c := range callers {
				if c.Parent().Pkg != fn.Pkg || !hasGuard(c.Parent()) {
					all = false
				}
			}
			guarded = all
		}
		r.Check(guarded, rule, fname(fn)+"#leaves-out-the-state-directory", p.InstrPos(at), "the listing branches on a comparison with the state directory (.dawn / Project.work)", "this function lists project directories for a build decision but nothing in it tells the state directory apart: the records under .dawn/build, which every build rewrites, become part of what it computes (a source directory that contains .dawn - sources=[\".\"] in the root package - is out of date on every load and an unchanged tree is rebuilt every time)")
	}
	r.Floor(rule, n, 3, "functions that list project directories for a build decision")
}

// variadicOperandsOf lists the elements of the implicit slice of a variadic call.
func variadicOperandsOf(c *ssa.Call) []ssa.Value {
	if len(c.Call.Args) == 0 {
		return nil
	}
	sl, ok := c.Call.Args[len(c.Call.Args)-1].(*ssa.Slice)
	if !ok {
		return nil
	}
	arr, ok := sl.X.(*ssa.Alloc)
	if !ok {
		return nil
	}
	var out []ssa.Value
	for _, ref := range *arr.Referrers() {
		ia, ok := ref.(*ssa.IndexAddr)
		if !ok {
			continue
		}
		for _, ref2 := range *ia.Referrers() {
			if st, ok := ref2.(*ssa.Store); ok && st.Addr == ssa.Value(ia) {
				out = append(out, st.Val)
			}
		}
	}
	return out
}

// removedDependencyFact: the facts say that a list is non-empty to which elements are appended only where a key of the
// recorded dependencies (a range over targetInfo.Dependencies) was looked up without success in another map (the
// current dependencies' stamps).
func removedDependencyFact(p *core.Prog, fs core.FactSet) bool {
	fromRecorded := func(k ssa.Value) bool {
		return core.DependsOn(k, core.SliceOpts{}, func(v ssa.Value) bool {
			nx, ok := v.(*ssa.Next)
			if !ok {
				return false
			}
			rg, ok := nx.Iter.(*ssa.Range)
			return ok && isRecordedDependencies(p, rg.X, 0)
		})
	}
	failedLookupOfRecorded := func(at ssa.Instruction) bool {
		return p.FactsAt(at).Find(func(c ssa.Value, val bool) bool {
			e, ok := c.(*ssa.Extract)
			if !ok || e.Index != 1 || val {
				return false
			}
			lk, ok := e.Tuple.(*ssa.Lookup)
			return ok && lk.CommaOk && fromRecorded(lk.Index) && !isRecordedDependencies(p, lk.X, 0)
		})
	}
	var appendsOK func(v ssa.Value, seen map[ssa.Value]bool) bool
	appendsOK = func(v ssa.Value, seen map[ssa.Value]bool) bool {
		if seen[v] {
			return true
		}
		seen[v] = true
		switch x := v.(type) {
		case *ssa.Phi:
			for _, e := range x.Edges {
				if !appendsOK(e, seen) {
					return false
				}
			}
			return true
		case *ssa.Const:
			return x.IsNil()
		case *ssa.Call:
			if b, ok := x.Call.Value.(*ssa.Builtin); ok && b.Name() == "append" {
				return failedLookupOfRecorded(x) && appendsOK(x.Call.Args[0], seen)
			}
		}
		return false
	}
	return fs.Find(func(c ssa.Value, val bool) bool {
		b, ok := c.(*ssa.BinOp)
		if !ok {
			return false
		}
		ln, ok := b.X.(*ssa.Call)
		if !ok {
			return false
		}
		bi, ok := ln.Call.Value.(*ssa.Builtin)
		if !ok || bi.Name() != "len" {
			return false
		}
		if k, isK := core.ConstInt(b.Y); !isK || k != 0 {
			return false
		}
		nonEmpty := (b.Op == token.NEQ && val) || (b.Op == token.GTR && val) || (b.Op == token.EQL && !val)
		return nonEmpty && appendsOK(ln.Call.Args[0], map[ssa.Value]bool{})
	})
}

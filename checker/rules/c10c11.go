package rules

import (
	"fmt"
	"go/token"
	"go/types"
	"sort"
	"strings"

	"dawnverif/checker/core"

	"golang.org/x/tools/go/ssa"
)

func init() {
	register("C10", false, runC10)
	register("C11", false, runC11)
}

// paramDeps computes which parameters (and, for struct parameters passed by value, which fields) a value
// depends on. "*" means the whole parameter.
func paramDeps(fn *ssa.Function, v ssa.Value) map[string]bool {
	out := map[string]bool{}
	// spill cells of parameters: local (p); *local = p
	spill := map[ssa.Value]*ssa.Parameter{}
	for _, f := range core.WithAnons(fn) {
		core.Instrs(f, func(in ssa.Instruction) {
			if st, ok := in.(*ssa.Store); ok {
				if prm, ok := st.Val.(*ssa.Parameter); ok {
					if a, ok := st.Addr.(*ssa.Alloc); ok {
						spill[a] = prm
					}
				}
			}
		})
	}
	sl := core.BackwardSlice(v, core.SliceOpts{Stores: true, ThroughCall: func(*ssa.Call) bool { return true }, Stop: func(x ssa.Value) bool {
		// do not look through a field address of a spilled parameter: record the field instead
		if fa, ok := x.(*ssa.FieldAddr); ok {
			if _, ok := spill[fa.X]; ok {
				return true
			}
		}
		if f, ok := x.(*ssa.Field); ok {
			if _, ok := f.X.(*ssa.Parameter); ok {
				return true
			}
		}
		return false
	}})
	for x := range sl {
		switch y := x.(type) {
		case *ssa.Parameter:
			out[y.Name()+".*"] = true
		case *ssa.FieldAddr:
			if prm, ok := spill[y.X]; ok {
				_, fld := core.FieldOf(y)
				out[prm.Name()+"."+fld] = true
			}
		case *ssa.Field:
			if prm, ok := y.X.(*ssa.Parameter); ok {
				_, fld := core.FieldOf(y)
				out[prm.Name()+"."+fld] = true
			}
		case *ssa.UnOp:
			if y.Op == token.MUL {
				if prm, ok := spill[y.X]; ok {
					out[prm.Name()+".*"] = true
				}
			}
		case *ssa.MakeClosure:
			for _, b := range y.Bindings {
				if prm, ok := b.(*ssa.Parameter); ok {
					out[prm.Name()+".*"] = true
				}
				if prm, ok := spill[b]; ok {
					out[prm.Name()+".*"] = true
				}
			}
		}
	}
	// the spilled-parameter stores themselves put Parameter values in the slice only when the whole cell is loaded
	return out
}

func covered(dep string, key map[string]bool) bool {
	if key[dep] {
		return true
	}
	prm := dep[:strings.Index(dep, ".")]
	return key[prm+".*"]
}

// forwardTarget: fn only forwards to a helper of its package (`return r.helper(ctx, p, "none", f)`): returns the helper
// and, for each of its parameters, the argument fn passes. (fn, nil) when fn does its work itself.
func forwardTarget(fn *ssa.Function) (*ssa.Function, map[*ssa.Parameter]ssa.Value) {
	rets := core.ReturnsOf(fn)
	if len(rets) != 1 {
		return fn, nil
	}
	var call *ssa.Call
	for _, v := range core.RetVals(rets[0]) {
		e, ok := v.(*ssa.Extract)
		if !ok {
			return fn, nil
		}
		c, ok := e.Tuple.(*ssa.Call)
		if !ok || (call != nil && c != call) {
			return fn, nil
		}
		call = c
	}
	if call == nil {
		return fn, nil
	}
	h := core.Callee(call)
	if h == nil || h.Blocks == nil || h.Pkg != fn.Pkg {
		return fn, nil
	}
	sub := map[*ssa.Parameter]ssa.Value{}
	for i, prm := range h.Params {
		if i < len(call.Call.Args) {
			sub[prm] = call.Call.Args[i]
		}
	}
	return h, sub
}

// checkResolverCaches: R10.1 (shared as R11.7): every sync.Map cache of the Resolver is keyed by everything - and by
// the whole of everything - its cached value is computed from, and read under the key it is written under.
func checkResolverCaches(p *core.Prog, r *core.Result, rule string) {
	n := checkSyncMapCaches(p, r, rule, pkgMvs, "Resolver")
	r.Floor(rule, n, 1, "resolver cache stores")
}

// checkSyncMapCaches applies the cache-key rule to every Store/LoadOrStore on a sync.Map field of the named struct type
// ("" = any struct) in the package and returns the number of stores seen.
func checkSyncMapCaches(p *core.Prog, r *core.Result, rule, pkgPath, ownerName string) int {
	nCaches := 0
	ignore := map[string]bool{"ctx.*": true, "r.*": true}
	for _, fn := range p.ModuleFuncs() {
		if fn.Pkg == nil || fn.Pkg.Pkg.Path() != pkgPath {
			continue
		}
		for _, c := range core.Calls(fn) {
			mc, ok := core.AsMethodCall(c)
			if !ok || mc.RecvPkg != "sync" || mc.RecvType != "Map" || (mc.Method != "Store" && mc.Method != "LoadOrStore") {
				continue
			}
			owner, field := core.FieldOf(mc.Recv)
			if owner == nil || ownerName != "" && owner.Obj().Name() != ownerName {
				continue
			}
			nCaches++
			key, val := c.Common().Args[1], c.Common().Args[2]
			kd, vd := paramDeps(fn, key), paramDeps(fn, val)
			var missing []string
			for d := range vd {
				if ignore[d] || strings.HasPrefix(d, "ctx.") || d == fn.Params[0].Name()+".*" {
					continue
				}
				if !covered(d, kd) {
					missing = append(missing, d)
				}
			}
			sort.Strings(missing)
			var kl []string
			for d := range kd {
				kl = append(kl, d)
			}
			sort.Strings(kl)
			construct := fmt.Sprintf("%s#cache:%s", fname(fn), field)
			// ... and in full: a component the value uses whole (not through a truncating helper) must reach the key whole
			kdW, vdW := paramDepsWhole(fn, key), paramDepsWhole(fn, val)
			for d := range vdW {
				if ignore[d] || strings.HasPrefix(d, "ctx.") || strings.HasSuffix(d, ".*") {
					continue
				}
				if covered(d, kd) && !covered(d, kdW) {
					missing = append(missing, d+" (the key carries only a truncation of it)")
				}
			}
			sort.Strings(missing)
			r.Check(len(missing) == 0, rule, construct, p.InstrPos(c.(ssa.Instruction)), fmt.Sprintf("the cached value depends only on what the key is computed from (%s)", strings.Join(kl, ", ")), fmt.Sprintf("the cached value depends on %s, which the key (%s) does not cover: the first query decides the answer for all later ones that share the key, so the build list depends on the order of queries / the state of the cache", strings.Join(missing, ", "), strings.Join(kl, ", ")))
			// the lookup uses the same key expression
			okLoad := false
			for _, c2 := range core.Calls(fn) {
				m2, ok := core.AsMethodCall(c2)
				if ok && m2.RecvPkg == "sync" && m2.Method == "Load" && core.Path(m2.Recv) == core.Path(mc.Recv) {
					k2 := paramDeps(fn, c2.Common().Args[1])
					same := len(k2) == len(kd)
					for d := range kd {
						if !k2[d] {
							same = false
						}
					}
					if same {
						okLoad = true
					}
				}
			}
			if !okLoad {
				// the lookup may live in a helper that is handed the key: h(key) { …Load(key)… }
				for _, c2 := range core.Calls(fn) {
					h := core.Callee(c2)
					if h == nil || h.Pkg != fn.Pkg || h.Blocks == nil || h == fn {
						continue
					}
					for _, hc := range core.Calls(h) {
						m2, ok := core.AsMethodCall(hc)
						if !ok || m2.RecvPkg != "sync" || m2.Method != "Load" {
							continue
						}
						o2, f2 := core.FieldOf(m2.Recv)
						if o2 == nil || o2 != owner || f2 != field {
							continue
						}
						keyArg := hc.Common().Args[1]
						if mi, ok := keyArg.(*ssa.MakeInterface); ok {
							keyArg = mi.X
						}
						prm, isPrm := keyArg.(*ssa.Parameter)
						if !isPrm {
							continue
						}
						i := paramIndex(h, prm)
						if i < 0 || i >= len(c2.Common().Args) {
							continue
						}
						k2 := paramDeps(fn, c2.Common().Args[i])
						same := len(k2) == len(kd)
						for d := range kd {
							if !k2[d] {
								same = false
							}
						}
						if same {
							okLoad = true
						}
					}
				}
			}
			r.Check(okLoad, rule, construct+":lookup-key", p.InstrPos(c.(ssa.Instruction)), "looked up under the same key", "the cache is read under a different key than it is written")
		}
	}
	return nCaches
}

// truncatesArg: h is a module helper that returns a truncation of a string argument (s[:i], directly or through another
// such helper): a value that passed through it no longer determines the argument.
func truncatesArg(h *ssa.Function, depth int) bool {
	if h == nil || !core.InModule(h) || h.Blocks == nil || depth > 2 {
		return false
	}
	lossy := false
	for _, ret := range core.ReturnsOf(h) {
		for _, rv := range core.RetVals(ret) {
			if bt, ok := rv.Type().Underlying().(*types.Basic); !ok || bt.Info()&types.IsString == 0 {
				continue
			}
			for x := range core.BackwardSlice(rv, core.SliceOpts{Stores: true}) {
				switch y := x.(type) {
				case *ssa.Slice:
					if y.High != nil {
						if _, isPrm := y.X.(*ssa.Parameter); isPrm {
							lossy = true
						}
					}
				case *ssa.Call:
					if truncatesArg(core.Callee(y), depth+1) {
						lossy = true
					}
				}
			}
		}
	}
	return lossy
}

// paramDepsWhole is paramDeps restricted to dependences that do not pass through a truncating helper: the fields of
// parameters that v depends on *in full*.
func paramDepsWhole(fn *ssa.Function, v ssa.Value) map[string]bool {
	out := map[string]bool{}
	spill := map[ssa.Value]*ssa.Parameter{}
	for _, f := range core.WithAnons(fn) {
		core.Instrs(f, func(in ssa.Instruction) {
			if st, ok := in.(*ssa.Store); ok {
				if prm, ok := st.Val.(*ssa.Parameter); ok {
					if a, ok := st.Addr.(*ssa.Alloc); ok {
						spill[a] = prm
					}
				}
			}
		})
	}
	for x := range core.BackwardSlice(v, core.SliceOpts{Stores: true, ThroughCall: func(c *ssa.Call) bool { return !truncatesArg(core.Callee(c), 0) }}) {
		switch y := x.(type) {
		case *ssa.FieldAddr:
			if prm, ok := spill[y.X]; ok {
				_, fld := core.FieldOf(y)
				out[prm.Name()+"."+fld] = true
			}
		case *ssa.Field:
			if prm, ok := y.X.(*ssa.Parameter); ok {
				_, fld := core.FieldOf(y)
				out[prm.Name()+"."+fld] = true
			}
		case *ssa.Parameter:
			out[y.Name()+".*"] = true
		}
	}
	return out
}

// handsOverModuleCode: the call passes a function of the module, or an interface value whose dynamic type is a module type
// with methods.
func handsOverModuleCode(p *core.Prog, c ssa.CallInstruction) bool {
	for _, a := range c.Common().Args {
		switch x := a.(type) {
		case *ssa.MakeClosure:
			if f, ok := x.Fn.(*ssa.Function); ok && core.InModule(f) {
				return true
			}
		case *ssa.Function:
			if core.InModule(x) {
				return true
			}
		case *ssa.MakeInterface:
			t := x.X.Type()
			if pt, ok := t.(*types.Pointer); ok {
				t = pt.Elem()
			}
			if n, ok := t.(*types.Named); ok && n.Obj().Pkg() != nil && strings.HasPrefix(n.Obj().Pkg().Path(), core.ModulePath) {
				if p.SSA.MethodSets.MethodSet(x.X.Type()).Len() > 0 {
					return true
				}
			}
		}
	}
	return false
}

// isGreaterFact: the fact says that one of the given semver.Compare calls returned "greater" (> 0 or >= 0 true, < 0 or
// <= 0 false).
func isGreaterFact(cv ssa.Value, v bool, compares []*ssa.Call) bool {
	b, ok := cv.(*ssa.BinOp)
	if !ok {
		return false
	}
	isCmp := false
	for _, c := range compares {
		if b.X == ssa.Value(c) {
			isCmp = true
		}
	}
	zero, okz := core.ConstInt(b.Y)
	if !isCmp || !okz || zero != 0 {
		return false
	}
	switch b.Op {
	case token.GTR, token.GEQ:
		return v
	case token.LSS, token.LEQ:
		return !v
	}
	return false
}

// checkRelativeQueriesNeverLower implements R11.9.
func checkRelativeQueriesNeverLower(p *core.Prog, r *core.Result, rule string) {
	isVersionList := func(t types.Type) bool {
		sl, ok := t.Underlying().(*types.Slice)
		return ok && strings.HasSuffix(sl.Elem().String(), "mod/module.Version")
	}
	nFns := 0
	for _, fn := range p.ModuleFuncs() {
		if fn.Pkg == nil || fn.Pkg.Pkg.Path() != pkgMvs || fn.Parent() != nil || recvNamed(fn) != "querier" {
			continue
		}
		var bl *ssa.Parameter
		for _, prm := range fn.Params {
			if isVersionList(prm.Type()) {
				bl = prm
			}
		}
		if bl == nil || !strings.HasPrefix(fn.Name(), "resolve") {
			continue
		}
		// only the resolvers that read the current version out of the list (not the dispatcher that passes it on)
		reads := false
		for _, ref := range *bl.Referrers() {
			switch ref.(type) {
			case *ssa.IndexAddr, *ssa.Range, *ssa.MakeClosure, *ssa.Store:
				reads = true
			case *ssa.Call:
				if c := ref.(*ssa.Call); core.Callee(c) != nil && !core.InModule(core.Callee(c)) {
					reads = true // slices.IndexFunc(buildList, …)
				}
			}
		}
		if !reads {
			continue
		}
		nFns++
		hosts := core.WithAnons(fn)
		var fromList func(v ssa.Value, depth int) bool
		fromList = func(v ssa.Value, depth int) bool {
			if depth > 4 {
				return false
			}
			found := false
			for x := range core.BackwardSlice(v, core.SliceOpts{Stores: true}) {
				switch y := x.(type) {
				case *ssa.Parameter:
					if y == bl {
						found = true
					}
				case *ssa.FreeVar:
					if b := core.Binding(y); b != nil {
						if al, ok := b.(*ssa.Alloc); ok {
							for _, h := range hosts {
								core.Instrs(h, func(in ssa.Instruction) {
									if st, ok := in.(*ssa.Store); ok && st.Addr == ssa.Value(al) && fromList(st.Val, depth+1) {
										found = true
									}
								})
							}
						} else if fromList(b, depth+1) {
							found = true
						}
					}
				}
			}
			return found
		}
		var compares []*ssa.Call
		for _, h := range hosts {
			for _, c := range core.Calls(h) {
				call, ok := c.(*ssa.Call)
				if !ok || !core.IsCallTo(c, "golang.org/x/mod/semver", "Compare") {
					continue
				}
				a, b := fromList(call.Call.Args[0], 0), fromList(call.Call.Args[1], 0)
				if a != b {
					compares = append(compares, call)
				}
			}
		}
		r.Check(len(compares) > 0, rule, fname(fn)+"#compares-with-current", p.Pos(fn.Pos()), "the candidate is compared with the current version (semver.Compare)", "nothing compares the candidate with the version the project is currently at: the query can answer with an older version - for a project on a pseudo-version ahead of the newest tag of its series, `get x@patch` resolves to that older tag and is carried out as a downgrade that lowers the projects requiring the pseudo-version")
		// a candidate returned from inside a scan of the repository's versions: only where the comparison says "greater"
		k := 0
		for _, h := range hosts {
			if h == fn || !strings.Contains(h.Synthetic, "range-over-func") {
				continue
			}
			core.Instrs(h, func(in ssa.Instruction) {
				st, ok := in.(*ssa.Store)
				if !ok || !strings.HasSuffix(st.Val.Type().String(), "mod/module.Version") {
					return
				}
				if _, isFree := st.Addr.(*ssa.FreeVar); !isFree || fromList(st.Val, 0) {
					return
				}
				k++
				greater := false
				for _, xf := range xfacts(p, st) {
					if isGreaterFact(xf.Cond, xf.Val, compares) {
						greater = true
					}
				}
				r.Check(greater, rule, fmt.Sprintf("%s#candidate-from-scan-%d", fname(fn), k), p.InstrPos(st), "a version taken from the repository's list is returned only where it compared greater than the current one", "a version taken from the repository's list is returned without having compared greater than the current version")
			})
		}
	}
	r.Floor(rule, nFns, 2, "resolvers that answer relative to the current version")
}

// checkCacheEntryAtomic implements R10.11 (who may be handed a cache path).
func checkCacheEntryAtomic(p *core.Prog, r *core.Result, rule string) {
	depthFC := 0
	var fromCache func(v ssa.Value) bool
	fromCache = func(v ssa.Value) bool {
		return core.DependsOn(v, core.SliceOpts{Stores: true, ThroughCall: func(c *ssa.Call) bool {
			if c.Call.IsInvoke() {
				return false
			}
			h := core.Callee(c)
			if h == nil {
				return false
			}
			switch core.CalleeKey(h) {
			case "path/filepath.Join", "fmt.Sprintf", "path/filepath.Dir", "path/filepath.Clean":
				return true
			}
			return false
		}}, func(x ssa.Value) bool {
			if core.LoadOfField(x, pkgMvs, "Resolver", "cacheDir") {
				return true
			}
			// a helper that is handed the cache path (downloadProject(ctx, p, cacheDir))
			if prm, ok := x.(*ssa.Parameter); ok && depthFC < 2 {
				h := prm.Parent()
				if i := paramIndex(h, prm); i >= 0 && h.Pkg != nil && h.Pkg.Pkg.Path() == pkgMvs {
					for _, site := range p.StaticCallers(h) {
						if i < len(site.Common().Args) {
							depthFC++
							hit := fromCache(site.Common().Args[i])
							depthFC--
							if hit {
								return true
							}
						}
					}
				}
			}
			return false
		})
	}
	n, nRename := 0, 0
	for _, fn := range p.ModuleFuncs() {
		top := fn
		for top.Parent() != nil {
			top = top.Parent()
		}
		if top.Pkg == nil || top.Pkg.Pkg.Path() != pkgMvs {
			continue
		}
		k := 0
		for _, c := range core.Calls(fn) {
			cc := c.Common()
			cal := core.Callee(c)
			key := ""
			if cal != nil {
				key = core.CalleeKey(cal)
			} else if cc.IsInvoke() {
				key = "invoke " + cc.Method.Name()
			}
			switch key {
			case "path/filepath.Join", "fmt.Sprintf", "path/filepath.Dir", "path/filepath.Clean":
				continue // building the path
			}
			for i, a := range cc.Args {
				if _, isStr := a.Type().Underlying().(*types.Basic); !isStr || !fromCache(a) {
					continue
				}
				n++
				k++
				ok := false
				switch key {
				case "os.Stat", "os.Lstat":
					ok = true
				case "os.MkdirAll", "os.MkdirTemp":
					// only the parent directory (created, or used to stage the download next to its destination)
					ok = core.DependsOn(a, core.SliceOpts{Stores: true}, func(x ssa.Value) bool {
						cx, isC := x.(*ssa.Call)
						return isC && core.IsCallTo(cx, "path/filepath", "Dir")
					})
				case "os.Rename":
					ok = i == 1
					if ok {
						nRename++
					}
				}
				if cal != nil && core.InModule(cal) {
					ok = true // a helper of the module: its own uses of the parameter are judged there... only if it is in this package
					if cal.Pkg == nil || cal.Pkg.Pkg.Path() != pkgMvs {
						ok = false
					}
				}
				construct := fmt.Sprintf("%s#cache-path-%d:%s", fname(fn), k, key)
				r.Check(ok, rule, construct, p.InstrPos(c.(ssa.Instruction)), "a cache path is handed to "+key+" (existence test, parent directory, or rename destination)", "a path below the download cache is handed to "+key+": the entry is filled in place instead of being renamed into place, so an interrupted download or a second process sees a half-written directory that the cache-hit test (os.Stat) takes for a complete entry - the project is then resolved from a partial tree (a left-over .dawnconfig before dawn.toml has arrived)")
			}
		}
	}
	r.Floor(rule, n, 3, "uses of paths below the download cache")
	r.Floor(rule, nRename, 1, "renames into the download cache")
	// the source of every rename into the cache is staged on the cache's own file system: a temporary directory created
	// below the cache (os.MkdirTemp with a directory that derives from Resolver.cacheDir), never in os.TempDir()
	nStage := 0
	for _, fn := range p.ModuleFuncs() {
		top := fn
		for top.Parent() != nil {
			top = top.Parent()
		}
		if top.Pkg == nil || top.Pkg.Pkg.Path() != pkgMvs {
			continue
		}
		for _, c := range core.Calls(fn) {
			if !core.IsCallTo(c, "os", "Rename") || !fromCache(c.Common().Args[1]) {
				continue
			}
			nStage++
			var staging []*ssa.Call
			core.DependsOn(c.Common().Args[0], core.SliceOpts{Stores: true, ThroughCall: func(cc *ssa.Call) bool {
				h := core.Callee(cc)
				return h != nil && (core.CalleeKey(h) == "path/filepath.Join" || core.CalleeKey(h) == "path/filepath.FromSlash")
			}}, func(x ssa.Value) bool {
				if e, ok := x.(*ssa.Extract); ok {
					if cc, ok := e.Tuple.(*ssa.Call); ok && core.IsCallTo(cc, "os", "MkdirTemp") {
						staging = append(staging, cc)
					}
				}
				return false
			})
			okStage := len(staging) > 0
			for _, mk := range staging {
				if !fromCache(mk.Call.Args[0]) {
					okStage = false
				}
			}
			r.Check(okStage, rule, fmt.Sprintf("%s#staged-on-the-cache-file-system-%d", fname(fn), nStage), p.InstrPos(c.(ssa.Instruction)), "the tree renamed into the cache was staged in a temporary directory below the cache", "the tree renamed into the cache is staged outside the cache (os.MkdirTemp(\"\", …) uses os.TempDir()): os.Rename does not cross file systems, so with TMPDIR on a tmpfs every cold-cache resolution fails with 'invalid cross-device link' while a warm cache answers - the result depends on the state of the download cache")
		}
	}
}

// checkConfigFallback implements R10.10.
func checkConfigFallback(p *core.Prog, r *core.Result, rule string) {
	fileAccess := map[string]bool{"os.Open": true, "os.OpenFile": true, "os.ReadFile": true, "os.Stat": true, "os.Lstat": true, "os.ReadDir": true, "os.Readlink": true}
	directNotExist := func(c ssa.CallInstruction) ssa.Value {
		if core.IsCallTo(c, "os", "IsNotExist") && len(c.Common().Args) == 1 {
			return c.Common().Args[0]
		}
		if core.IsCallTo(c, "errors", "Is") && len(c.Common().Args) == 2 {
			if ld, ok := c.Common().Args[1].(*ssa.UnOp); ok {
				if g, ok := ld.X.(*ssa.Global); ok && g.Name() == "ErrNotExist" {
					return c.Common().Args[0]
				}
			}
		}
		return nil
	}
	// a named predicate of the module: func(err error) bool { return errors.Is(err, fs.ErrNotExist) }
	notExistArg := func(c ssa.CallInstruction) ssa.Value {
		if a := directNotExist(c); a != nil {
			return a
		}
		h := core.Callee(c)
		if h == nil || !core.InModule(h) || h.Blocks == nil || len(h.Params) != 1 || len(c.Common().Args) != 1 {
			return nil
		}
		rets := core.ReturnsOf(h)
		for _, ret := range rets {
			if len(ret.Results) != 1 {
				return nil
			}
			rc, ok := ret.Results[0].(*ssa.Call)
			if !ok || directNotExist(rc) != ssa.Value(h.Params[0]) {
				return nil
			}
		}
		if len(rets) == 0 {
			return nil
		}
		return c.Common().Args[0]
	}
	isName := func(v ssa.Value) bool {
		s, ok := core.ConstString(v)
		return ok && (s == "dawn.toml" || s == ".dawnconfig")
	}
	// package-level tables of the two names
	nameTables := map[*ssa.Global]bool{}
	for _, fn := range p.ModuleFuncs() {
		if fn.Name() != "init" && !strings.HasPrefix(fn.Name(), "init#") {
			continue
		}
		core.Instrs(fn, func(in ssa.Instruction) {
			st, ok := in.(*ssa.Store)
			if !ok || !isName(st.Val) {
				return
			}
			switch a := st.Addr.(type) {
			case *ssa.IndexAddr:
				if g, ok := a.X.(*ssa.Global); ok {
					nameTables[g] = true
				}
				// a slice literal: the array is a local of init that is then stored into the global
				if al, ok := a.X.(*ssa.Alloc); ok {
					for _, ref := range *al.Referrers() {
						if sl, ok := ref.(*ssa.Slice); ok {
							for _, r2 := range *sl.Referrers() {
								if s2, ok := r2.(*ssa.Store); ok {
									if g, ok := s2.Addr.(*ssa.Global); ok {
										nameTables[g] = true
									}
								}
							}
						}
					}
				}
			case *ssa.Global:
				nameTables[a] = true
			}
		})
	}
	n := 0
	for _, fn := range p.ModuleFuncs() {
		// functions that choose between the two configuration file names
		names := 0
		for _, f := range core.WithAnons(fn) {
			core.Instrs(f, func(in ssa.Instruction) {
				var ops []*ssa.Value
				for _, op := range in.Operands(ops) {
					if *op == nil {
						continue
					}
					if isName(*op) {
						names++
					}
					if g, ok := (*op).(*ssa.Global); ok && nameTables[g] {
						names++
					}
				}
			})
		}
		if names == 0 || fn.Parent() != nil {
			continue
		}
		k := 0
		for _, f := range core.WithAnons(fn) {
			for _, c := range core.Calls(f) {
				a := notExistArg(c)
				if a == nil {
					continue
				}
				// where does the tested error come from?
				var src *ssa.Call
				core.DependsOn(a, core.SliceOpts{Stores: true}, func(x ssa.Value) bool {
					switch y := x.(type) {
					case *ssa.Extract:
						if cc, ok := y.Tuple.(*ssa.Call); ok && src == nil {
							src = cc
						}
					case *ssa.Call:
						if src == nil && y != c.Value() {
							src = y
						}
					}
					return false
				})
				if src == nil {
					continue
				}
				n++
				k++
				construct := fmt.Sprintf("%s#not-exist-test-%d", fname(fn), k)
				g := core.Callee(src)
				if g == nil || !core.InModule(g) {
					what := "an interface or library call"
					if g != nil {
						what = core.CalleeKey(g)
					}
					okLib := g != nil && (fileAccess[core.CalleeKey(g)] || g.Pkg != nil && g.Pkg.Pkg.Path() == "os")
					r.Check(okLib, rule, construct, p.InstrPos(c.(ssa.Instruction)), "the tested error is that of "+what+" on the one file", "the tested error comes from "+what+", which is not an access to the one file")
					continue
				}
				// a module function: everything it can reach that touches the file system or a resolver
				var sites []string
				for h := range staticClosure(p, g) {
					for _, hc := range core.Calls(h) {
						cal := core.Callee(hc)
						switch {
						case cal != nil && fileAccess[core.CalleeKey(cal)]:
							sites = append(sites, core.CalleeKey(cal)+" in "+fname(h))
						case cal != nil && !core.InModule(cal) && cal.Pkg != nil && strings.Contains(strings.SplitN(cal.Pkg.Pkg.Path(), "/", 2)[0], ".") && handsOverModuleCode(p, hc):
							// a third-party library that is handed code of the module (the MVS solver gets the resolver-backed
							// requirement graph): it calls back, and whatever the callbacks read can fail with not-exist
							sites = append(sites, "library call "+core.CalleeKey(cal)+" (calls back into the module) in "+fname(h))
						case hc.Common().IsInvoke() && core.InModule(h):
							// an interface of the module (the resolver behind the MVS library's requirement graph): opaque, may read anything
							if nm, ok := hc.Common().Value.Type().(*types.Named); ok && nm.Obj().Pkg() != nil && strings.HasPrefix(nm.Obj().Pkg().Path(), core.ModulePath) {
								sites = append(sites, "invoke "+nm.Obj().Name()+"."+hc.Common().Method.Name()+" in "+fname(h))
							}
						}
					}
				}
				sort.Strings(sites)
				if len(sites) <= 1 {
					r.OK(rule, construct, p.InstrPos(c.(ssa.Instruction)), "the tested error comes from %s, which accesses one file (%s)", fname(g), strings.Join(sites, ", "))
				} else {
					show := sites
					if len(show) > 4 {
						show = append(append([]string{}, show[:4]...), fmt.Sprintf("… %d more", len(sites)-4))
					}
					r.Bad(rule, construct, p.InstrPos(c.(ssa.Instruction)), "the fallback to the other configuration file name is decided by a not-exist test on the error of %s, which can fail with a (wrapped) not-exist error from %d places (%s): a download-cache entry without a configuration file reads as 'this configuration file is missing' and the project is silently configured from a left-over file of the other name", fname(g), len(sites), strings.Join(show, "; "))
				}
			}
		}
	}
	r.Floor(rule, n, 3, "not-exist tests in functions that choose between dawn.toml and .dawnconfig")
}

// checkClosestTaggedAncestor implements R11.8 on the range-over-func lowering of go/ssa: a `for x := range seq` body is a
// synthetic yield closure that returns true to go on and false to stop; a break that leaves more than the innermost
// range stores a positive code into the enclosing jump cell before returning false.
func checkClosestTaggedAncestor(p *core.Prog, r *core.Result, rule string) {
	fn := need(p, r, rule, "internal/mvs", "querier", "resolveRefQuery")
	if fn == nil {
		return
	}
	isRevision := func(t types.Type) bool {
		n, ok := t.(*types.Named)
		return ok && n.Obj().Name() == "Revision" && n.Obj().Pkg() != nil && strings.HasSuffix(n.Obj().Pkg().Path(), "internal/vcs")
	}
	// the yield function of the walk over the history: a synthetic closure with one parameter of type vcs.Revision
	var walk *ssa.Function
	var hosts []*ssa.Function
	for h := range staticClosure(p, fn) {
		if h.Pkg == fn.Pkg {
			hosts = append(hosts, h)
		}
	}
	sort.Slice(hosts, func(i, j int) bool { return hosts[i].String() < hosts[j].String() })
	for _, h := range hosts {
		for _, f := range core.WithAnons(h) {
			if f != h && strings.Contains(f.Synthetic, "range-over-func") && len(f.Params) == 1 && isRevision(f.Params[0].Type()) {
				walk = f
			}
		}
	}
	if walk == nil {
		r.Unk(rule, fname(fn)+"#history-walk", p.Pos(fn.Pos()), "the walk over the revision's history is not a range over History() any more: the shape is not recognised")
		return
	}
	returnsFalse := func(f *ssa.Function) []*ssa.Return {
		var out []*ssa.Return
		for _, ret := range core.ReturnsOf(f) {
			if len(ret.Results) == 1 {
				if b, ok := core.ConstBool(ret.Results[0]); ok && !b {
					out = append(out, ret)
				}
			}
		}
		return out
	}
	stops := returnsFalse(walk)
	r.Check(len(stops) > 0, rule, fname(fn)+"#history-walk-can-stop", p.Pos(walk.Pos()), "the walk over the history can be left early", "the walk over the history is never left early: after the closest tagged ancestor has been found, every older tagged ancestor overwrites it, so the ref is resolved against the oldest release on its history (a pseudo-version below releases the ref is ahead of: an upgrade by ref lowers the project; a ref at a tagged revision does not resolve to that tag)")
	// the match: the cell whose value decides the base version - a **vcs.Version local of resolveRefQuery stored inside the walk
	n := 0
	for _, f := range core.WithAnons(walk) {
		core.Instrs(f, func(in ssa.Instruction) {
			st, ok := in.(*ssa.Store)
			if !ok {
				return
			}
			fv, ok := st.Addr.(*ssa.FreeVar)
			if !ok || !strings.HasSuffix(fv.Type().String(), "internal/vcs.Version") {
				return
			}
			n++
			// after the assignment the enclosing loop is left ...
			leaves := false
			var code int64 = -1
			for _, ret := range returnsFalse(f) {
				if core.InstrReaches(st, ret) {
					leaves = true
				}
			}
			// every return reachable from the assignment is a `return false`
			onlyStops := true
			for _, ret := range core.ReturnsOf(f) {
				if !core.InstrReaches(st, ret) {
					continue
				}
				if b, ok := core.ConstBool(ret.Results[0]); !ok || b {
					onlyStops = false
				}
			}
			// ... with an exit code that reaches beyond this range when the assignment sits in a nested one
			if f != walk {
				for _, in2 := range st.Block().Instrs {
					if s2, ok := in2.(*ssa.Store); ok {
						if jv, ok := s2.Addr.(*ssa.FreeVar); ok && strings.HasPrefix(jv.Name(), "jump$") {
							if k, ok := core.ConstInt(s2.Val); ok {
								code = k
							}
						}
					}
				}
			}
			okExit := leaves && onlyStops && (f == walk || code >= 1)
			r.Check(okExit, rule, fmt.Sprintf("%s#match-%d-ends-the-walk", fname(fn), n), p.InstrPos(st), "the assignment of the matching version leaves the walk over the history", "after the matching version has been assigned only the inner search is left (or nothing at all): the walk goes on to older ancestors, whose tags overwrite the match")
		})
	}
	r.Floor(rule, n, 1, "assignments of the matching version inside the history walk")
}

// checkSharedCloneLocked implements R10.9 (lock-set analysis per function, closures included).
func checkSharedCloneLocked(p *core.Prog, r *core.Result, rule string) {
	pkgVcs := core.ModulePath + "/internal/vcs"
	tp := p.TPkgPath(pkgVcs)
	if tp == nil {
		r.Unk(rule, "anchor:internal/vcs", "-", "package not found")
		return
	}
	isGoGit := func(t types.Type, name string) bool {
		if pt, ok := t.(*types.Pointer); ok {
			t = pt.Elem()
		}
		n, ok := t.(*types.Named)
		return ok && n.Obj().Name() == name && n.Obj().Pkg() != nil && strings.Contains(n.Obj().Pkg().Path(), "go-git/go-git")
	}
	type holder struct {
		named     *types.Named
		repoField string
		mutexes   []string
	}
	var holders []holder
	names := tp.Scope().Names()
	sort.Strings(names)
	for _, name := range names {
		tn, ok := tp.Scope().Lookup(name).(*types.TypeName)
		if !ok {
			continue
		}
		named, ok := tn.Type().(*types.Named)
		if !ok {
			continue
		}
		st, ok := named.Underlying().(*types.Struct)
		if !ok {
			continue
		}
		h := holder{named: named}
		for i := 0; i < st.NumFields(); i++ {
			f := st.Field(i)
			if isGoGit(f.Type(), "Repository") {
				h.repoField = f.Name()
			}
			if n, ok := f.Type().(*types.Named); ok && n.Obj().Pkg() != nil && n.Obj().Pkg().Path() == "sync" && (n.Obj().Name() == "Mutex" || n.Obj().Name() == "RWMutex") {
				h.mutexes = append(h.mutexes, f.Name())
			}
		}
		if h.repoField != "" {
			holders = append(holders, h)
		}
	}
	r.Floor(rule, len(holders), 1, "repository types that hold a go-git clone")
	nOps := 0
	for _, h := range holders {
		tname := h.named.Obj().Name()
		held := func(li *core.LockInfo, in ssa.Instruction) bool {
			for _, m := range h.mutexes {
				if p.MustHoldClassX(in, pkgVcs+"."+tname+"."+m, core.ModeW) {
					return true
				}
			}
			return false
		}
		for _, fn := range p.ModuleFuncs() {
			top := fn
			for top.Parent() != nil {
				top = top.Parent()
			}
			if top.Pkg == nil || top.Pkg.Pkg.Path() != pkgVcs || fn.Blocks == nil {
				continue
			}
			// the constructor: the function that allocates the object (it is not shared before it returns)
			constructs := false
			for _, f := range core.WithAnons(top) {
				core.Instrs(f, func(in ssa.Instruction) {
					if a, ok := in.(*ssa.Alloc); ok {
						if pt, ok := a.Type().(*types.Pointer); ok && types.Identical(pt.Elem(), h.named) {
							constructs = true
						}
					}
				})
			}
			if constructs {
				continue
			}
			var li *core.LockInfo
			k := 0
			for _, c := range core.Calls(fn) {
				what := ""
				cc := c.Common()
				if !cc.IsInvoke() && len(cc.Args) > 0 {
					if cal := core.Callee(c); cal != nil && cal.Signature.Recv() != nil {
						recv := cc.Args[0]
						switch {
						case core.LoadOfField(recv, pkgVcs, tname, h.repoField):
							what = "(*git.Repository)." + cal.Name()
						case isGoGit(recv.Type(), "Worktree"):
							what = "(*git.Worktree)." + cal.Name()
						}
					}
				}
				if what == "" && (core.IsCallTo(c, "os", "CopyFS") || core.IsCallTo(c, "os", "DirFS")) {
					// a copy of the work-tree directory (a string field of the holder)
					for _, a := range cc.Args {
						if core.DependsOn(a, core.SliceOpts{ThroughCall: func(*ssa.Call) bool { return true }}, func(x ssa.Value) bool {
							u, ok := x.(*ssa.UnOp)
							if !ok || u.Op != token.MUL {
								return false
							}
							n, _ := core.FieldOf(u.X)
							return n != nil && types.Identical(n, h.named)
						}) {
							what = "os." + core.Callee(c).Name() + " of the work tree"
						}
					}
				}
				if what == "" {
					continue
				}
				if li == nil {
					li = p.Locks(fn)
				}
				nOps++
				k++
				construct := fmt.Sprintf("%s#clone-op-%d:%s", fname(fn), k, what)
				if len(h.mutexes) == 0 {
					r.Bad(rule, construct, p.InstrPos(c.(ssa.Instruction)), "%s has no mutex, but its clone is shared by every concurrent fetch of the project: %s can interleave with the checkout of another revision (the download cache then holds that revision's tree under this one's name) and with go-git's own unsynchronised state", tname, what)
					continue
				}
				r.Check(held(li, c.(ssa.Instruction)), rule, construct, p.InstrPos(c.(ssa.Instruction)), what+" runs with "+tname+"."+strings.Join(h.mutexes, "/")+" held", what+" can run without the repository's lock: it interleaves with the checkout or fetch of another revision on the shared clone (wrong tree in the download cache, or a corrupted go-git state)")
			}
		}
	}
	r.Floor(rule, nOps, 4, "operations on a shared clone")
}

// checkListedVersionsVerbatim implements R10.8.
func checkListedVersionsVerbatim(p *core.Prog, r *core.Result, rule string) {
	pkgVcs := core.ModulePath + "/internal/vcs"
	injective := func(c *ssa.Call) bool {
		if c.Call.IsInvoke() {
			return false
		}
		h := core.Callee(c)
		if h == nil {
			return false
		}
		switch core.CalleeKey(h) {
		case "path.Split", "path.Base", "strings.CutSuffix", "strings.TrimSuffix", "strings.CutPrefix", "strings.TrimPrefix",
			"path/filepath.Split", "path/filepath.Base":
			return true
		}
		// accessors of go-git's reference name (Short, String, Name): they select, they do not rewrite
		if sig := h.Signature; sig.Recv() != nil && h.Pkg != nil && strings.Contains(h.Pkg.Pkg.Path(), "go-git") {
			switch h.Name() {
			case "Short", "String", "Name":
				return true
			}
		}
		return false
	}
	n := 0
	for _, fn := range p.ModuleFuncs() {
		if fn.Pkg == nil || fn.Pkg.Pkg.Path() != pkgVcs {
			continue
		}
		k := 0
		core.Instrs(fn, func(in ssa.Instruction) {
			st, ok := in.(*ssa.Store)
			if !ok {
				return
			}
			inner, ok := st.Addr.(*ssa.FieldAddr)
			if !ok {
				return
			}
			outer, ok := inner.X.(*ssa.FieldAddr)
			if !ok || !core.IsField(outer, pkgVcs, "Version", "Version") {
				return
			}
			if _, f := core.FieldOf(inner); f != "Version" {
				return
			}
			n++
			k++
			construct := fmt.Sprintf("%s#listed-version-%d", fname(fn), k)
			var bad ssa.Value
			seen := map[ssa.Value]bool{}
			var walk func(v ssa.Value)
			walk = func(v ssa.Value) {
				if bad != nil || seen[v] {
					return
				}
				seen[v] = true
				switch x := v.(type) {
				case *ssa.Extract:
					walk(x.Tuple)
				case *ssa.Call:
					if !injective(x) {
						bad = x
						return
					}
					// the rewritten operand only (the first string argument, or the receiver)
					if len(x.Call.Args) > 0 {
						walk(x.Call.Args[0])
					}
				case *ssa.Phi:
					for _, e := range x.Edges {
						walk(e)
					}
				case *ssa.ChangeType:
					walk(x.X)
				case *ssa.Convert:
					walk(x.X)
				case *ssa.UnOp:
					if x.Op == token.MUL {
						if sv := core.SingleStore(x.X); sv != nil {
							walk(sv)
							return
						}
						if _, isElem := x.X.(*ssa.IndexAddr); isElem {
							return // an element of the ref listing: the source
						}
					}
					bad = x
				case *ssa.Const, *ssa.Parameter:
				default:
					bad = x
				}
			}
			walk(st.Val)
			if bad != nil {
				what := bad.String()
				if c, ok := bad.(*ssa.Call); ok {
					if h := core.Callee(c); h != nil {
						what = "a call to " + core.CalleeKey(h)
					}
				}
				r.Bad(rule, construct, p.InstrPos(st), "the version string of a listed version passes through %s on its way from the tag name: two tags (v1 and v1.0.0, v1.2.0 and v1.2.0+meta) can become the same path@version with different revisions, and which one a requirement resolves to follows the order of the remote's ref listing", what)
			} else {
				r.OK(rule, construct, p.InstrPos(st), "the listed version string is the tag's last path element, verbatim")
			}
		})
	}
	r.Floor(rule, n, 1, "versions listed from repository tags")
}

// ---------------------------------------------------------------------------------------------
// C10

func runC10(p *core.Prog, r *core.Result) {
	r.Decided = []string{
		"R10.1 every resolver cache is keyed by everything its cached value is computed from (path and version where both matter), so the answer cannot depend on what an earlier query left in the cache",
		"R10.2 the version order handed to the MVS library: Max returns one of its two arguments as decided by cmpVersion, which ranks the root's empty version above every other before delegating to semver; Required answers the root's list exactly for the empty path",
		"R10.3 the build list handed back to dawn contains every element the MVS library returned",
		"R10.4 ordered results built from Go-map iteration inside internal/mvs are sorted before use or are order-insensitive; no map is folded into another under a colliding key",
		"R10.7 locating the repository that owns a project path never returns 'the first answer received' from concurrent dials: which repository answers cannot depend on timing",
		"R10.6 the version-resolution packages never order strings with < <= > >= (versions and major suffixes are ordered by semver.Compare only)",
		"R10.8 the versions a repository lists carry each tag's own version string, verbatim: between the tag name and Version.Version there is nothing but taking the last path element (no canonicalisation or other many-to-one rewriting) - tag names are unique, so at most one listed entry per tag object equals a requested path@version and the revision a requirement resolves to does not depend on the order of the remote's ref listing",
		"R10.9 the clone behind a repository object is used by one goroutine at a time: every operation on the go-git repository held by a vcs repository type, on its work tree (Checkout) and every copy of its work-tree directory happens while a mutex of that object is held (the constructor excepted: the object is not shared yet) - the resolver shares one repository object between all fetches of a project and the MVS library loads requirements in parallel, so without the lock 'check out A, check out B, copy, copy' stores B's tree in the download cache under A's name",
		"R10.10 which configuration file a project (the root or a requirement) is read from does not depend on the download cache: where a fallback from dawn.toml to .dawnconfig is decided by a 'does not exist' test on an error, that error comes from accessing that one file only (an os call, or a module function whose static closure contains a single file access) - not from a whole load that also computes the build list, whose wrapped not-exist errors (a cache entry without a configuration file) would read as 'dawn.toml is missing' and silently configure the project from a left-over .dawnconfig",
		"R10.11 an entry of the download cache appears all at once: a path below Resolver.cacheDir is handed only to os.Stat (is it cached?), to os.MkdirAll through filepath.Dir (the parent), and to os.Rename as the destination of a staged download - never to the fetch itself or to any other call that fills it piecemeal, and the staged tree lives in a temporary directory below the cache (same file system, so the rename cannot fail with a cross-device error that only a cold cache meets); the cache-hit test is the existence of the directory, so a half-written entry (an interrupted download, a second process looking on) would count as complete and be resolved from whatever configuration file happens to be there already",
		"R10.12 each project is one node under one spelling: the configuration loader stores every requirement back into the configuration it returns with its path passed through CleanPath, unconditionally inside its loop over the requirements (otherwise `p@v1`, `p/./x` and `p` are resolved and listed as different projects, and a cold cache fails where a warm one lists the project twice)",
		"R10.5 a fetched project's summary lists every requirement of its configuration, one to one, in sorted name order",
	}
	r.NotDecided = []string{"that the result is the minimal-version-selection solution for all graphs (the algorithm lives in github.com/pgavlin/mvs, outside the repository; behavioural)", "network/VCS behaviour behind the resolver"}
	// ---- R10.1
	resolver := p.Named("internal/mvs", "Resolver")
	if resolver == nil {
		r.Unk("R10.1", "anchor:internal/mvs.Resolver", "-", "type not found")
		return
	}
	checkResolverCaches(p, r, "R10.1")
	// FetchProject: the cache directory embeds path and version
	if fp := need(p, r, "R10.1", "internal/mvs", "Resolver", "FetchProject"); fp != nil {
		var dirV ssa.Value
		for _, c := range core.Calls(fp) {
			if core.IsCallTo(c, "os", "Stat") {
				dirV = c.Common().Args[0]
			}
		}
		if dirV == nil {
			// the probe may be a helper of the package that stats the path it is given
			for _, c := range core.Calls(fp) {
				h := core.Callee(c)
				if h == nil || h.Pkg != fp.Pkg || h.Blocks == nil {
					continue
				}
				for _, hc := range core.Calls(h) {
					if !core.IsCallTo(hc, "os", "Stat") {
						continue
					}
					for i, prm := range h.Params {
						if hc.Common().Args[0] == ssa.Value(prm) && i < len(c.Common().Args) && dirV == nil {
							dirV = c.Common().Args[i]
						}
					}
				}
			}
		}
		if dirV == nil {
			r.Unk("R10.1", "internal/mvs.(*Resolver).FetchProject#cache-dir", p.Pos(fp.Pos()), "cache probe (os.Stat) not found")
		} else {
			d := paramDeps(fp, dirV)
			var dl []string
			for k := range d {
				dl = append(dl, k)
			}
			sort.Strings(dl)
			// ... and from the *whole* path: a helper of the module that returns a truncation of its string argument
			// (s[:i], directly or through another helper) is lossy; the path must also reach the directory name
			// without passing through one
			var truncates func(h *ssa.Function, depth int) bool
			truncates = func(h *ssa.Function, depth int) bool {
				if h == nil || !core.InModule(h) || h.Blocks == nil || depth > 2 {
					return false
				}
				lossy := false
				for _, ret := range core.ReturnsOf(h) {
					for _, rv := range core.RetVals(ret) {
						if bt, ok := rv.Type().Underlying().(*types.Basic); !ok || bt.Info()&types.IsString == 0 {
							continue
						}
						for x := range core.BackwardSlice(rv, core.SliceOpts{Stores: true}) {
							switch y := x.(type) {
							case *ssa.Slice:
								if y.High != nil {
									if _, isPrm := y.X.(*ssa.Parameter); isPrm {
										lossy = true
									}
								}
							case *ssa.Call:
								if truncates(core.Callee(y), depth+1) {
									lossy = true
								}
							}
						}
					}
				}
				return lossy
			}
			dWhole := map[string]bool{}
			{
				// same slice as paramDeps, but stopping at lossy helpers
				spill := map[ssa.Value]*ssa.Parameter{}
				for _, f := range core.WithAnons(fp) {
					core.Instrs(f, func(in ssa.Instruction) {
						if st, ok := in.(*ssa.Store); ok {
							if prm, ok := st.Val.(*ssa.Parameter); ok {
								if a, ok := st.Addr.(*ssa.Alloc); ok {
									spill[a] = prm
								}
							}
						}
					})
				}
				for x := range core.BackwardSlice(dirV, core.SliceOpts{Stores: true, ThroughCall: func(c *ssa.Call) bool { return !truncates(core.Callee(c), 0) }}) {
					switch y := x.(type) {
					case *ssa.FieldAddr:
						if prm, ok := spill[y.X]; ok {
							_, fld := core.FieldOf(y)
							dWhole[prm.Name()+"."+fld] = true
						}
					case *ssa.Field:
						if prm, ok := y.X.(*ssa.Parameter); ok {
							_, fld := core.FieldOf(y)
							dWhole[prm.Name()+"."+fld] = true
						}
					}
				}
			}
			// alternative: the truncated part is redundant because, before the cache is probed, the major version of
			// the requirement's version has been checked against the suffix of its path (the mismatch edge returns)
			validated := false
			var statCall ssa.Instruction
			for _, c := range core.Calls(fp) {
				if core.IsCallTo(c, "os", "Stat") {
					statCall = c.(ssa.Instruction)
				}
			}
			if statCall == nil {
				// the probe helper's call site
				for _, c := range core.Calls(fp) {
					for i := range c.Common().Args {
						if h := core.Callee(c); h != nil && h.Pkg == fp.Pkg && c.Common().Args[i] == dirV && statCall == nil {
							statCall = c.(ssa.Instruction)
						}
					}
				}
			}
			if statCall != nil {
				// the requirement parameter of FetchProject, and what stands for it inside a helper predicate
				var reqP *ssa.Parameter
				for _, prm := range fp.Params {
					if n, ok := prm.Type().(*types.Named); ok && n.Obj().Name() == "RequirementConfig" {
						reqP = prm
					}
				}
				isReq := func(v ssa.Value) bool {
					if reqP == nil {
						return false
					}
					if v == ssa.Value(reqP) {
						return true
					}
					if ld, ok := v.(*ssa.UnOp); ok && ld.Op == token.MUL {
						if s := core.SingleStore(ld.X); s == ssa.Value(reqP) {
							return true
						}
					}
					return false
				}
				for _, f := range append(xfacts(p, statCall), errHelperFacts(p, statCall)...) {
					b, ok := f.Cond.(*ssa.BinOp)
					if !ok || !((b.Op == token.EQL && f.Val) || (b.Op == token.NEQ && !f.Val)) {
						continue
					}
					host := b.Parent()
					prefix := ""
					if host == fp && reqP != nil {
						prefix = reqP.Name()
					} else {
						for _, q := range host.Params {
							if isReq(f.Arg(q)) {
								prefix = q.Name()
							}
						}
					}
					if prefix == "" {
						continue
					}
					fromVersionMajor := func(x ssa.Value) bool {
						return core.DependsOn(x, core.SliceOpts{Stores: true, ThroughCall: func(*ssa.Call) bool { return true }}, func(y ssa.Value) bool {
							c, ok := y.(*ssa.Call)
							return ok && core.IsCallTo(c, "golang.org/x/mod/semver", "Major") && paramDeps(host, c.Call.Args[0])[prefix+".Version"]
						})
					}
					fromPathSuffix := func(x ssa.Value) bool {
						return paramDeps(host, x)[prefix+".Path"] && !fromVersionMajor(x)
					}
					if fromVersionMajor(b.X) && fromPathSuffix(b.Y) || fromVersionMajor(b.Y) && fromPathSuffix(b.X) {
						validated = true
					}
				}
			}
			how := "the whole project path (including a major-version suffix) enters the cache directory name"
			if !dWhole["p.Path"] && validated {
				how = "the path is truncated in the cache directory name, but the cache is probed only after the major version of the requirement's version was found equal to the path's suffix: (unversioned path, version) is then injective"
			}
			r.Check(dWhole["p.Path"] || validated, "R10.1", "internal/mvs.(*Resolver).FetchProject#cache-dir-whole-path", p.Pos(fp.Pos()), how, "the project path enters the cache directory name only through a helper that truncates it (the major-version suffix is dropped): the requirements r@v2 v2.1.0 and r v2.1.0 share one directory, so a mis-declared requirement that fails with a cold cache resolves once the other has been downloaded - the build list depends on the state of the download cache")
			r.Check(covered("p.Path", d) && covered("p.Version", d), "R10.1", "internal/mvs.(*Resolver).FetchProject#cache-dir", p.Pos(fp.Pos()), "the on-disk cache directory is derived from both the project path and the version ("+strings.Join(dl, ", ")+")", "the on-disk cache directory does not depend on both path and version: a warm cache answers with another version's sources")
		}
	}

	// ---- R10.2
	Max := need(p, r, "R10.2", "internal/mvs", "Reqs", "Max")
	cmp := need(p, r, "R10.2", "internal/mvs", "", "cmpVersion")
	Required := need(p, r, "R10.2", "internal/mvs", "Reqs", "Required")
	if Max != nil && cmp != nil {
		n := len(Max.Params)
		v1, v2 := Max.Params[n-2], Max.Params[n-1]
		okRet := true
		sawV1, sawV2 := false, false
		for _, ret := range core.ReturnsOf(Max) {
			vals := core.RetVals(ret)
			if len(vals) != 1 || (vals[0] != ssa.Value(v1) && vals[0] != ssa.Value(v2)) {
				okRet = false
				continue
			}
			// v2 is returned exactly when cmpVersion(v1, v2) == -1 (v1 < v2)
			less := p.FactsAt(ret).Find(func(c ssa.Value, val bool) bool {
				b, ok := c.(*ssa.BinOp)
				if !ok {
					return false
				}
				call, ok := b.X.(*ssa.Call)
				if !ok || core.Callee(call) != cmp || call.Call.Args[0] != ssa.Value(v1) || call.Call.Args[1] != ssa.Value(v2) {
					return false
				}
				k, ok := core.ConstInt(b.Y)
				if !ok {
					return false
				}
				isLess := (b.Op == token.EQL && k == -1 && val) || (b.Op == token.LSS && k == 0 && val) || (b.Op == token.NEQ && k == -1 && !val) || (b.Op == token.GEQ && k == 0 && !val)
				return isLess
			})
			if vals[0] == ssa.Value(v2) {
				sawV2 = true
				if !less {
					okRet = false
				}
			} else {
				sawV1 = true
				if less {
					okRet = false
				}
			}
		}
		r.Check(okRet && sawV1 && sawV2, "R10.2", "internal/mvs.(*Reqs).Max#returns-greater", p.Pos(Max.Pos()), "Max returns v2 exactly when cmpVersion(v1, v2) < 0, else v1", "Max does not return the greater of its two arguments according to cmpVersion")
		// cmpVersion: root ("") greatest
		a, b := cmp.Params[0], cmp.Params[1]
		isEmpty := func(prm *ssa.Parameter) func(ssa.Value) bool {
			return func(c ssa.Value) bool {
				bo, ok := c.(*ssa.BinOp)
				if !ok || bo.Op != token.EQL {
					return false
				}
				s, okc := core.ConstString(bo.Y)
				return bo.X == ssa.Value(prm) && okc && s == ""
			}
		}
		okCmp := true
		nSem, nOrd := 0, 0
		for _, ret := range core.ReturnsOf(cmp) {
			vals := core.RetVals(ret)
			aE, aN := holds(p, ret, true, isEmpty(a)), holds(p, ret, false, isEmpty(a))
			bE, bN := holds(p, ret, true, isEmpty(b)), holds(p, ret, false, isEmpty(b))
			k, isConst := core.ConstInt(vals[0])
			switch {
			case aE && bE:
				okCmp = okCmp && isConst && k == 0
			case bE && aN:
				okCmp = okCmp && isConst && k == -1 // v1 < root
			case aE && bN:
				okCmp = okCmp && isConst && k == 1 // root > v2
			case aN && bN:
				c, ok := vals[0].(*ssa.Call)
				isSem := ok && core.IsCallTo(c, "golang.org/x/mod/semver", "Compare") && c.Call.Args[0] == ssa.Value(a) && c.Call.Args[1] == ssa.Value(b)
				nOrd++
				r.Check(isSem, "R10.2", fmt.Sprintf("internal/mvs.cmpVersion#semver-order-%d", nOrd), p.InstrPos(ret), "two ordinary versions are ordered by semver.Compare of the two", "for two ordinary versions the verdict is something other than semver.Compare(v1, v2) (a commit time, a string order, a special case for pseudo-versions): such an order need not be total or agree with semver on the versions it does not single out, so Max is no longer associative - with three demands on one path the selected version depends on the order in which requirements are met, and it can be lower than a demanded one")
				if isSem {
					nSem++
				}
			default:
				okCmp = false
			}
		}
		r.Check(okCmp && nSem >= 1, "R10.2", "internal/mvs.cmpVersion#root-greatest", p.Pos(cmp.Pos()), "the empty (root) version compares greater than every other version, equal to itself, and semver decides otherwise", "cmpVersion does not rank the root's empty version above all others on both sides before delegating to semver: the MVS library's Max contract is broken and the root can be 'upgraded away'")
	}
	if Required != nil {
		pp := Required.Params[len(Required.Params)-1]
		okReq := false
		for _, ret := range core.ReturnsOf(Required) {
			vals := core.RetVals(ret)
			if len(vals) != 2 {
				continue
			}
			isRootField := func(v ssa.Value) bool { return core.IsField(v, pkgMvs, "Reqs", "root") }
			isEmptyPath := func(fs []xfact) bool {
				for _, f := range fs {
					bo, ok := f.Cond.(*ssa.BinOp)
					if !ok || bo.Op != token.EQL || !f.Val {
						continue
					}
					s, okc := core.ConstString(bo.Y)
					if !okc || s != "" {
						continue
					}
					// p.Path, in Required or inside a predicate helper that is handed p
					x := bo.X
					if paramDeps(Required, x)[pp.Name()+".Path"] {
						return true
					}
					if host := bo.Parent(); host != Required {
						for _, q := range host.Params {
							a := f.Arg(q)
							if ld, isLd := a.(*ssa.UnOp); isLd && ld.Op == token.MUL {
								if sv := core.SingleStore(ld.X); sv != nil {
									a = sv
								}
							}
							if a == ssa.Value(pp) && paramDeps(host, x)[q.Name()+".Path"] {
								return true
							}
						}
					}
				}
				return false
			}
			// the returned list may be selected by a variable (proj := r.root; if !root { proj = summary }): one
			// alternative per incoming edge, each with the facts of its edge
			type alt struct {
				root  bool
				facts []xfact
			}
			var alts []alt
			var selector *ssa.Phi
			for x := range core.BackwardSlice(vals[0], core.SliceOpts{}) {
				if ph, ok := x.(*ssa.Phi); ok && selector == nil {
					selector = ph
				}
			}
			if selector != nil {
				efs := p.PhiEdgeFacts(selector)
				for i, e := range selector.Edges {
					fs := append(xfacts(p, ret), xfactsOf(p, efs[i])...)
					alts = append(alts, alt{core.DependsOn(e, core.SliceOpts{}, isRootField), fs})
				}
			} else {
				alts = append(alts, alt{core.DependsOn(vals[0], core.SliceOpts{}, isRootField), xfacts(p, ret)})
			}
			for _, a := range alts {
				emptyPath := isEmptyPath(a.facts)
				if a.root && emptyPath {
					okReq = true
				}
				if a.root && !emptyPath {
					okReq = false
					r.Bad("R10.2", "internal/mvs.(*Reqs).Required#root-list", p.InstrPos(ret), "the root's requirement list is returned for a non-root project")
				}
			}
		}
		r.Check(okReq, "R10.2", "internal/mvs.(*Reqs).Required#root", p.Pos(Required.Pos()), "the root's requirements are returned exactly for the empty path", "Required does not answer the root's requirement list for the empty path")
	}

	// ---- R10.3
	if bl := need(p, r, "R10.3", "internal/mvs", "", "BuildList"); bl != nil {
		var lib *ssa.Call
		for _, c := range core.Calls(bl) {
			if core.IsCallTo(c, "github.com/pgavlin/mvs", "BuildList") {
				lib, _ = c.(*ssa.Call)
			}
		}
		if lib == nil {
			r.Unk("R10.3", "internal/mvs.BuildList#library-call", p.Pos(bl.Pos()), "call to mvs.BuildList not found")
		} else {
			list := extractOf(lib, 0)
			ok := false
			core.Instrs(bl, func(in ssa.Instruction) {
				mu, isMU := in.(*ssa.MapUpdate)
				if !isMU {
					return
				}
				// key and value are fields of list[idx]
				var ia *ssa.IndexAddr
				if x := nearestIndexAddr(mu.Key); x != nil && x.X == list {
					ia = x
				}
				if ia == nil {
					return
				}
				covers := p.LoopIndexCoversAll(ia.Index, list, mu, func(a, b ssa.Value) bool { return a == b })
				// no filtering condition between the loop test and the update: the update's block is the loop body entry
				bodyEntry := ia.Block()
				unfiltered := mu.Block() == bodyEntry
				// returned map is the updated map
				returned := false
				for _, ret := range core.ReturnsOf(bl) {
					vals := core.RetVals(ret)
					if len(vals) == 2 && vals[0] == mu.Map {
						returned = true
					}
				}
				if covers && unfiltered && returned {
					ok = true
				}
			})
			r.Check(ok, "R10.3", "internal/mvs.BuildList#copies-all", p.InstrPos(lib), "every element of the library's build list is copied into the returned map, unfiltered", "the returned map does not receive every element of the library's build list (filtered or partial loop): reachable projects are missing from the build list")
		}
	}

	// ---- R10.5 a fetched project's summary lists every requirement of its configuration
	if rp := need(p, r, "R10.5", "internal/mvs", "Resolver", "resolveProject"); rp != nil {
		ok := false
		var at ssa.Instruction
		// listOK: the slice value is grown by append inside a loop over slices.Sorted(maps.Keys(config.Requirements)),
		// here or in a helper of the module that returns it
		var listOK func(val ssa.Value, depth int) bool
		listOK = func(val ssa.Value, depth int) bool {
			if hc, isCall := val.(*ssa.Call); isCall && depth < 2 {
				if h := core.Callee(hc); h != nil && core.InModule(h) && h.Blocks != nil && h.Signature.Results().Len() == 1 {
					rets := core.ReturnsOf(h)
					all := len(rets) > 0
					for _, ret := range rets {
						all = all && listOK(ret.Results[0], depth+1)
					}
					return all
				}
			}
			good := false
			for v := range core.BackwardSlice(val, core.SliceOpts{}) {
				c, isC := v.(*ssa.Call)
				if !isC {
					continue
				}
				if b, isB := c.Call.Value.(*ssa.Builtin); !isB || b.Name() != "append" {
					continue
				}
				// the appended element reads config.Requirements[name] with name = sortedKeys[idx], idx covering all keys
				var elemLookup *ssa.Lookup
				for x := range core.BackwardSlice(c.Call.Args[1], core.SliceOpts{Stores: true, ThroughCall: func(cc *ssa.Call) bool { return core.Callee(cc) != nil && core.InModule(core.Callee(cc)) }}) {
					if lk, isLk := x.(*ssa.Lookup); isLk && core.LoadOfField(lk.X, pkgProj, "Config", "Requirements") {
						elemLookup = lk
					}
				}
				if elemLookup == nil {
					continue
				}
				ia := nearestIndexAddr(elemLookup.Index)
				if ia == nil {
					continue
				}
				fromKeys := core.DependsOn(ia.X, core.SliceOpts{ThroughCall: func(*ssa.Call) bool { return true }}, func(x ssa.Value) bool {
					return core.LoadOfField(x, pkgProj, "Config", "Requirements")
				})
				sortedValue := core.DependsOn(ia.X, core.SliceOpts{}, func(x ssa.Value) bool {
					cc, isCC := x.(*ssa.Call)
					return isCC && core.Callee(cc) != nil && strings.HasPrefix(core.CalleeKey(core.Callee(cc)), "slices.Sort")
				})
				// or sorted in place (slices.Sort / sort.Strings on that very slice) before the loop that reads it
				sortedInPlace := false
				for _, sc := range core.Calls(c.Parent()) {
					h := core.Callee(sc)
					if h == nil {
						continue
					}
					k := core.CalleeKey(h)
					if k != "slices.Sort" && k != "sort.Strings" && k != "slices.SortFunc" && k != "sort.Slice" && k != "sort.SliceStable" {
						continue
					}
					if sc.Common().Args[0] == ia.X && core.Dominates(sc.(ssa.Instruction), ia) {
						sortedInPlace = true
					}
				}
				fromSortedKeys := fromKeys && (sortedValue || sortedInPlace)
				if fromSortedKeys && p.LoopIndexCoversAll(ia.Index, ia.X, c, func(a, b ssa.Value) bool { return a == b }) && c.Block() == ia.Block() {
					good = true
				}
			}
			return good
		}
		// the summary is built in resolveProject or in a helper of the package it calls
		for f := range staticClosure(p, rp) {
			if f.Pkg != rp.Pkg {
				continue
			}
			core.Instrs(f, func(in ssa.Instruction) {
				st, isSt := in.(*ssa.Store)
				if !isSt || !core.IsField(st.Addr, pkgMvs, "mvsProject", "Requirements") {
					return
				}
				at = st
				if listOK(st.Val, 0) {
					ok = true
				}
			})
		}
		if at == nil {
			r.Unk("R10.5", "internal/mvs.(*Resolver).resolveProject#summary", p.Pos(rp.Pos()), "store of mvsProject.Requirements not found")
		} else {
			r.Check(ok, "R10.5", "internal/mvs.(*Resolver).resolveProject#all-requirements", p.InstrPos(at), "the summary's requirement list has one entry per requirement of the fetched configuration, in sorted name order", "the summary's requirement list is not built one-to-one from the configuration's requirements in sorted order: requirement edges can be merged or dropped, and projects reachable only through them vanish from the build list")
		}
	}

	// ---- R10.11 cache entries are created by rename only
	checkCacheEntryAtomic(p, r, "R10.11")
	checkRequirementPathsNormalised(p, r, "R10.12")

	// ---- R10.10 the fallback between configuration file names is decided by that file alone
	checkConfigFallback(p, r, "R10.10")

	// ---- R10.9 the shared clone is used under the repository's lock
	checkSharedCloneLocked(p, r, "R10.9")

	// ---- R10.8 listed versions are the tags' own version strings
	checkListedVersionsVerbatim(p, r, "R10.8")

	// ---- R10.7 the repository that answers is not "whichever goroutine answered first"
	if fpr := need(p, r, "R10.7", "internal/mvs", "Resolver", "findProjectRepository"); fpr != nil {
		nF, nBad := 0, 0
		for f := range staticClosure(p, fpr) {
			if f.Pkg == nil || f.Pkg.Pkg.Path() != pkgMvs {
				continue
			}
			nF++
			for _, ret := range core.ReturnsOf(f) {
				vals := core.RetVals(ret)
				if len(vals) == 0 {
					continue
				}
				// a value received from a channel in the same loop the return sits in: the first message that
				// qualifies ends the search, so the order of arrival decides
				var recv *ssa.UnOp
				core.DependsOn(vals[0], core.SliceOpts{Stores: true}, func(x ssa.Value) bool {
					if u, ok := x.(*ssa.UnOp); ok && u.Op == token.ARROW {
						recv = u
						return true
					}
					return false
				})
				if recv == nil {
					continue
				}
				rb, xb := ret.Block(), recv.Block()
				inLoop := core.Reaches(xb, xb, false) && (rb == xb || (core.Reaches(xb, rb, false) && core.BlockReachesAvoiding(xb, ret, func(in ssa.Instruction) bool { return false })))
				// the return is an early exit of the receive loop when the receive block can be reached again
				// without passing the return: i.e. the loop would have gone on receiving
				if inLoop {
					nBad++
					r.Bad("R10.7", fmt.Sprintf("%s#first-answer-wins-%d", fname(f), nBad), p.InstrPos(ret), "the repository returned is the first successful answer received from concurrently running dials: when two prefixes of the path are both repositories (a directory split out of a monorepo) the one that answers first wins, so the requirements read for path@version - and with them the build list - depend on timing instead of on the longest-prefix rule")
				}
			}
		}
		if nBad == 0 {
			r.OK("R10.7", "internal/mvs.(*Resolver).findProjectRepository#order-independent-of-timing", p.Pos(fpr.Pos()), "no return yields a value picked by order of arrival on a channel (%d function(s) examined)", nF)
		}
	}

	// ---- R10.6 versions are ordered by semver, never as strings
	nCmp, nStr := 0, 0
	for _, fn := range p.ModuleFuncs() {
		if fn.Pkg == nil || (fn.Pkg.Pkg.Path() != pkgMvs && fn.Pkg.Pkg.Path() != pkgProj) {
			continue
		}
		k := 0
		core.Instrs(fn, func(in ssa.Instruction) {
			if c, ok := in.(*ssa.Call); ok && core.Callee(c) != nil && core.Callee(c).Pkg != nil && core.Callee(c).Pkg.Pkg.Path() == "golang.org/x/mod/semver" && core.Callee(c).Name() == "Compare" {
				nCmp++
			}
			b, ok := in.(*ssa.BinOp)
			if !ok {
				return
			}
			switch b.Op {
			case token.LSS, token.LEQ, token.GTR, token.GEQ:
			default:
				return
			}
			if bt, ok := b.X.Type().Underlying().(*types.Basic); !ok || bt.Info()&types.IsString == 0 {
				return
			}
			nStr++
			k++
			r.Bad("R10.6", fmt.Sprintf("%s#string-order-%d", fname(fn), k), p.InstrPos(b), "strings are ordered with %s in the version-resolution code: versions and major-version suffixes do not order as strings (\"v10\" < \"v2\"), so e.g. the v10..v19 lines of a project are folded into its v0/v1 path and one of two reachable projects vanishes from the build list", b.Op)
		})
	}
	if nStr == 0 {
		r.OK("R10.6", "internal/mvs+internal/project#no-string-ordering", "-", "no relational comparison of strings; versions are ordered by semver.Compare (%d call sites)", nCmp)
	}
	r.Floor("R10.6", nCmp, 2, "semver.Compare call sites")

	// ---- R10.4
	nR := 0
	for _, fn := range p.ModuleFuncs() {
		if fn.Pkg == nil || fn.Pkg.Pkg.Path() != pkgMvs {
			continue
		}
		core.Instrs(fn, func(in ssa.Instruction) {
			rg, ok := in.(*ssa.Range)
			if !ok {
				return
			}
			if _, isMap := rg.X.Type().Underlying().(*types.Map); !isMap {
				return
			}
			nR++
			ordered, sorted := mapRangeOrderedSink(fn, rg)
			construct := fmt.Sprintf("%s#map-range-%d", fname(fn), nR)
			if lossy := mapRangeLossyUpdate(fn, rg); lossy != nil {
				r.Bad("R10.4", construct, p.InstrPos(lossy), "entries of a map are folded into another map under a key that is not the iteration key: when two entries collide, Go's map iteration order decides which one survives, so the requirement graph (and the build list) varies from run to run")
				return
			}
			switch {
			case !ordered:
				r.OK("R10.4", construct, p.InstrPos(rg), "order-insensitive")
			case sorted:
				r.OK("R10.4", construct, p.InstrPos(rg), "sorted before use")
			default:
				r.Note("R10.4", construct, p.InstrPos(rg), "map iteration order reaches a slice (requirement list handed to the MVS library, which is order-insensitive for build lists; matters only for first-match lookups when two requirement names share a path)")
			}
		})
	}
}

// ---------------------------------------------------------------------------------------------
// C11

func runC11(p *core.Prog, r *core.Result) {
	r.Decided = []string{
		"R11.1 contract with the MVS library's Downgrade: Previous answers the sentinel version \"none\" (never dawn's empty root version) when there is no earlier version; Upgrade and Previous return the root unchanged",
		"R11.2 every existing requirement name of a project that stays in the graph is kept, and such projects are not given fresh names",
		"R11.3 a fresh requirement name is only used after a lookup of that very name in the new requirement set has failed",
		"R11.6 the base argument of the MVS library's ReqList is nil or built from the build list of the same call (never from the root's pre-edit requirements), so no requirement is written back with an empty version",
		"R11.5 get decides between upgrade, downgrade and no-op by comparing the requested version with the version selected in the build list, not with the root's own requirement entry",
		"R11.4 requesting the version that is already selected returns the root's requirements unchanged",
		"R11.8 a ref resolves against its closest tagged ancestor: in resolveRefQuery the walk over the revision's history (newest first) can be left - the yield function of the range over History() has a `return false` - and the assignment of the matching version is followed by leaving its loop with an exit that goes beyond the enclosing search; otherwise every older tagged ancestor overwrites the match, the pseudo-version is based on the oldest release, and an upgrade by ref lowers the project",
		"R11.9 the queries that answer relative to the current version (patch, upgrade: the resolvers that are handed the build list) never answer below it: each compares its candidate with the current version through semver.Compare, and a candidate taken from the repository's version list is returned only on the edge where that comparison says it is greater - a project that sits on a pseudo-version ahead of the newest tag of its series would otherwise be 'upgraded' to that older tag, which get then carries out as a downgrade that lowers its dependents",
		"R11.10 a resolution step that fails (listing versions, resolving or fetching a project) fails the requirement operation: in package internal/mvs no return on the failing edge of a fallible in-module call reports success (an upgrade that silently keeps the old version of a project whose versions could not be listed reports a build list that is not the upgraded one, and repeating it changes the requirements again)",
		"R11.11 one project, one node: the configuration loader (also used for every dependency's file) stores each requirement back with its path passed through CleanPath (C10's R10.12) - with `x/e@v1` and `x/e` as two nodes a downgrade leaves the project selected twice and `get e@latest` adds a duplicate requirement",
		"R11.7 the version lists and summaries that upgrade, downgrade and tidy consult come from resolver caches keyed by the whole of what the cached value was computed from (two major versions of one project path do not share an entry): an edit cannot be answered with another project's versions (rule shared with C10 R10.1)",
	}
	r.NotDecided = []string{"build-list equalities after tidy/upgrade/downgrade (algorithm in a dependency; behavioural)", "query resolution against tagged versions (ranges, latest, patch)"}
	// ---- R11.7
	checkResolverCaches(p, r, "R11.7")

	// ---- R11.8
	checkClosestTaggedAncestor(p, r, "R11.8")

	// ---- R11.9
	checkRelativeQueriesNeverLower(p, r, "R11.9")
	checkResolutionErrorsPropagated(p, r, "R11.10")
	checkRequirementPathsNormalised(p, r, "R11.11")
	// ---- R11.1
	impls := 0
	for _, fn := range p.ModuleFuncs() {
		if fn.Name() != "Previous" || fn.Signature.Recv() == nil || fn.Pkg == nil || !strings.HasPrefix(fn.Pkg.Pkg.Path(), core.ModulePath) {
			continue
		}
		sig := fn.Signature
		if sig.Params().Len() != 2 || sig.Results().Len() != 2 {
			continue
		}
		if n, ok := sig.Results().At(0).Type().(*types.Named); !ok || n.Obj().Name() != "Version" {
			continue
		}
		impls++
		pp := fn.Params[len(fn.Params)-1]
		nRet := 0
		origFn := fn
		body, sub := forwardTarget(fn)
		if sub != nil {
			for prm, a := range sub {
				if a == ssa.Value(pp) || isLoadOfParamSpill(a, pp) {
					pp = prm
				}
			}
			fn = body
		}
		for _, ret := range core.ReturnsOf(fn) {
			vals := core.RetVals(ret)
			if len(vals) != 2 || !core.IsNilConst(vals[1]) {
				continue
			}
			// root: returns p itself
			if core.Unwrap(vals[0]) == ssa.Value(pp) || isLoadOfParamSpill(vals[0], pp) {
				continue
			}
			nRet++
			construct := fmt.Sprintf("%s#no-earlier-version-sentinel", fname(fn))
			// constants reaching the Version field of the returned struct
			consts := map[string]bool{}
			// every value stored into the Version field of the returned struct (a literal built at the return, or a
			// local initialised with the sentinel and updated in the loop)
			var verVs []ssa.Value
			if ld, ok := vals[0].(*ssa.UnOp); ok {
				core.Instrs(fn, func(in ssa.Instruction) {
					if st, ok := in.(*ssa.Store); ok {
						if fa, ok := st.Addr.(*ssa.FieldAddr); ok && fa.X == ld.X {
							if _, f := core.FieldOf(fa); f == "Version" {
								verVs = append(verVs, st.Val)
							}
						}
					}
				})
			}
			if len(verVs) == 0 {
				r.Unk("R11.1", construct, p.InstrPos(ret), "cannot find the Version of the returned module.Version")
				continue
			}
			var collect func(verV ssa.Value, depth int)
			collect = func(verV ssa.Value, depth int) {
				for v := range core.BackwardSlice(verV, core.SliceOpts{}) {
					if s, ok := core.ConstString(v); ok {
						if _, isConst := v.(*ssa.Const); isConst {
							consts[s] = true
						}
					}
					// a parameter of the shared helper: the constant the callback passes for it
					if prm, ok := v.(*ssa.Parameter); ok && sub != nil {
						if s, ok := core.ConstString(sub[prm]); ok {
							consts[s] = true
						}
					}
					// the result of a selection helper of the package (highestVersion(candidates, "none", eligible)):
					// what its results are computed from, its parameters standing for the arguments given here
					if hc, ok := v.(*ssa.Call); ok && depth < 2 {
						if h := core.Callee(hc); h != nil && h.Blocks != nil && h.Pkg == fn.Pkg {
							for _, hr := range core.ReturnsOf(h) {
								for _, hv := range core.RetVals(hr) {
									for x := range core.BackwardSlice(hv, core.SliceOpts{}) {
										if s, ok := core.ConstString(x); ok {
											if _, isConst := x.(*ssa.Const); isConst {
												consts[s] = true
											}
										}
										if prm, ok := x.(*ssa.Parameter); ok && prm.Parent() == h {
											if i := paramIndex(h, prm); i >= 0 && i < len(hc.Call.Args) {
												collect(hc.Call.Args[i], depth+1)
											}
										}
									}
								}
							}
						}
					}
				}
			}
			for _, verV := range verVs {
				collect(verV, 0)
			}
			var cl []string
			for s := range consts {
				cl = append(cl, fmt.Sprintf("%q", s))
			}
			sort.Strings(cl)
			switch {
			case consts[""]:
				r.Bad("R11.1", construct, p.InstrPos(ret), "when no earlier version exists Previous answers the empty version (constants reaching the result: %s); the MVS library expects \"none\", and the empty version is dawn's root version, the greatest of all: mvs.Downgrade then keeps excluding and never terminates (dawn get <project>@<lower version> hangs)", strings.Join(cl, ", "))
			case !consts["none"]:
				r.Bad("R11.1", construct, p.InstrPos(ret), "Previous never answers the sentinel \"none\" (constants reaching the result: %s)", strings.Join(cl, ", "))
			default:
				r.OK("R11.1", construct, p.InstrPos(ret), "answers \"none\" when no earlier version exists (constants reaching the result: %s)", strings.Join(cl, ", "))
			}
		}
		fn = origFn
		r.Floor("R11.1", nRet, 1, "non-root successful returns of "+fname(fn))
		// root returned unchanged, for Previous and the sibling Upgrade
		for _, name := range []string{"Previous", "Upgrade"} {
			rel := strings.TrimPrefix(strings.TrimPrefix(fn.Pkg.Pkg.Path(), core.ModulePath), "/")
			g := p.Func(rel, recvNamed(fn), name)
			if g == nil {
				continue
			}
			gname := fname(g)
			gp := g.Params[len(g.Params)-1]
			if gb, gsub := forwardTarget(g); gsub != nil {
				for prm, a := range gsub {
					if a == ssa.Value(gp) || isLoadOfParamSpill(a, gp) {
						gp = prm
					}
				}
				g = gb
			}
			ok := false
			for _, ret := range core.ReturnsOf(g) {
				vals := core.RetVals(ret)
				if len(vals) == 2 && core.IsNilConst(vals[1]) && (core.Unwrap(vals[0]) == ssa.Value(gp) || isLoadOfParamSpill(vals[0], gp)) {
					for _, f := range xfacts(p, ret) {
						bo, okb := f.Cond.(*ssa.BinOp)
						if !okb || bo.Op != token.EQL || !f.Val {
							continue
						}
						s, okc := core.ConstString(bo.Y)
						if !okc || s != "" {
							continue
						}
						if paramDeps(g, bo.X)[gp.Name()+".Path"] {
							ok = true
						}
						// inside a predicate helper that is handed the module version (isRoot(p))
						if host := bo.Parent(); host != g {
							for _, q := range host.Params {
								a := f.Arg(q)
								if ld, isLd := a.(*ssa.UnOp); isLd && ld.Op == token.MUL {
									if sv := core.SingleStore(ld.X); sv != nil {
										a = sv
									}
								}
								if a == ssa.Value(gp) && paramDeps(host, bo.X)[q.Name()+".Path"] {
									ok = true
								}
							}
						}
					}
				}
			}
			r.Check(ok, "R11.1", fmt.Sprintf("%s#root-unchanged", gname), p.Pos(g.Pos()), "the root (empty path) is returned unchanged", name+" does not return the root unchanged")
		}
	}
	r.Floor("R11.1", impls, 1, "in-module implementations of the MVS Previous callback")

	// ---- R11.2 / R11.3
	tr := need(p, r, "R11.2", "internal/mvs", "", "transformReqs")
	if tr != nil {
		checkTransformReqs(p, r, tr)
	}

	// ---- R11.4
	get := need(p, r, "R11.4", "internal/mvs", "", "get")
	if get != nil {
		okNoop := false
		var cmpCall *ssa.Call
		for _, c := range core.Calls(get) {
			if core.IsCallTo(c, "golang.org/x/mod/semver", "Compare") {
				cmpCall, _ = c.(*ssa.Call)
			}
		}
		rootP := get.Params[1]
		for _, ret := range core.ReturnsOf(get) {
			vals := core.RetVals(ret)
			if len(vals) != 2 || !core.IsNilConst(vals[1]) || cmpCall == nil {
				continue
			}
			isRootReqs := core.LoadOfField(vals[0], pkgMvs, "mvsProject", "Requirements") && core.DependsOn(vals[0], core.SliceOpts{}, func(v ssa.Value) bool { return v == ssa.Value(rootP) })
			if !isRootReqs {
				continue
			}
			notLess := holds(p, ret, false, func(c ssa.Value) bool {
				b, ok := c.(*ssa.BinOp)
				k, okk := int64(0), false
				if ok {
					k, okk = core.ConstInt(b.Y)
				}
				return ok && b.X == ssa.Value(cmpCall) && b.Op == token.EQL && okk && k == -1
			})
			notGreater := holds(p, ret, false, func(c ssa.Value) bool {
				b, ok := c.(*ssa.BinOp)
				k, okk := int64(0), false
				if ok {
					k, okk = core.ConstInt(b.Y)
				}
				return ok && b.X == ssa.Value(cmpCall) && b.Op == token.EQL && okk && k == 1
			})
			isEq := holds(p, ret, true, func(c ssa.Value) bool {
				b, ok := c.(*ssa.BinOp)
				k, okk := int64(1), false
				if ok {
					k, okk = core.ConstInt(b.Y)
				}
				return ok && b.X == ssa.Value(cmpCall) && b.Op == token.EQL && okk && k == 0
			})
			// no store to root.Requirements elements before this return on this path
			if (notLess && notGreater) || isEq {
				okNoop = true
			}
		}
		// ---- R11.6 contract of the MVS library's ReqList: the base paths (requirements to keep listed) must be in the
		// build list handed to the same call; a path that is not gets the empty version
		nRL := 0
		for _, fn := range p.ModuleFuncs() {
			if fn.Pkg == nil || fn.Pkg.Pkg.Path() != pkgMvs {
				continue
			}
			for _, c := range core.Calls(fn) {
				cal := core.Callee(c)
				if cal == nil || cal.Name() != "ReqList" || cal.Pkg == nil || !strings.HasSuffix(cal.Pkg.Pkg.Path(), "/mvs") || cal.Pkg.Pkg.Path() == pkgMvs {
					continue
				}
				args := c.Common().Args
				if len(args) < 5 {
					continue
				}
				nRL++
				construct := fmt.Sprintf("%s#ReqList-base-%d", fname(fn), nRL)
				base, list := args[3], args[2]
				if core.IsNilConst(base) {
					r.OK("R11.6", construct, p.InstrPos(c.(ssa.Instruction)), "no base paths are forced into the requirement list")
					continue
				}
				fromList := core.DependsOn(base, core.SliceOpts{Stores: true}, func(v ssa.Value) bool { return v == list })
				fromReqs := core.DependsOn(base, core.SliceOpts{Stores: true}, func(v ssa.Value) bool { return core.LoadOfField(v, pkgMvs, "mvsProject", "Requirements") })
				r.Check(fromList && !fromReqs, "R11.6", construct, p.InstrPos(c.(ssa.Instruction)), "the base paths are taken from the build list of this call", "the paths forced into the requirement list come from the root's requirements before the edit, not from the new build list: a requirement that a downgrade removed from the build list is written back with an empty version, the rewritten dawn.toml no longer loads and the edited project has no build list")
			}
		}
		r.Floor("R11.6", nRL, 1, "calls of the MVS library's ReqList")

		// ---- R11.5 the direction of the edit (upgrade / downgrade / nothing) is decided against the version MVS
		// *selected* for the project (an element of a build list), never against the root's own requirement entry
		if cmpCall != nil {
			fromBuildList := func(v ssa.Value) bool {
				return core.DependsOn(v, core.SliceOpts{Stores: true}, func(x ssa.Value) bool {
					e, ok := x.(*ssa.Extract)
					if !ok || e.Index != 0 {
						return false
					}
					c, ok := e.Tuple.(*ssa.Call)
					return ok && core.Callee(c) != nil && core.Callee(c).Name() == "BuildList"
				})
			}
			fromRootReqs := func(v ssa.Value) bool {
				return core.DependsOn(v, core.SliceOpts{Stores: true}, func(x ssa.Value) bool {
					return core.LoadOfField(x, pkgMvs, "mvsProject", "Requirements")
				})
			}
			a0, a1 := cmpCall.Call.Args[0], cmpCall.Call.Args[1]
			sel := fromBuildList(a0) || fromBuildList(a1)
			own := fromRootReqs(a0) || fromRootReqs(a1)
			r.Check(sel && !own, "R11.5", "internal/mvs.get#compares-selected-version", p.InstrPos(cmpCall), "upgrade vs downgrade is decided by comparing the requested version with the version selected in the build list", "the requested version is compared with something other than the build list's selected version (e.g. the root's own requirement entry, which can be lower than what another requirement forces): a downgrade is then treated as an upgrade or a no-op, the build list keeps the project above the requested version and repeating the operation changes it again")
		}
		r.Check(okNoop, "R11.4", "internal/mvs.get#same-version-is-noop", p.Pos(get.Pos()), "when the selected version equals the requested one the root's requirements are returned as they are", "requesting the already selected version does not return the requirements unchanged: repeating an operation is not idempotent")
	}
}

func isLoadOfParamSpill(v ssa.Value, prm *ssa.Parameter) bool {
	ld, ok := v.(*ssa.UnOp)
	if !ok || ld.Op != token.MUL {
		return false
	}
	a, ok := ld.X.(*ssa.Alloc)
	if !ok {
		return false
	}
	n, only := 0, true
	for _, ref := range *a.Referrers() {
		if st, ok := ref.(*ssa.Store); ok && st.Addr == ssa.Value(a) {
			n++
			if st.Val != ssa.Value(prm) {
				only = false
			}
		}
	}
	return n == 1 && only
}

func checkTransformReqs(p *core.Prog, r *core.Result, tr *ssa.Function) {
	// newReqs: the map returned on success
	var newReqs ssa.Value
	for _, ret := range core.ReturnsOf(tr) {
		vals := core.RetVals(ret)
		if len(vals) == 2 && core.IsNilConst(vals[1]) {
			newReqs = vals[0]
		}
	}
	if newReqs == nil {
		r.Unk("R11.2", "internal/mvs.transformReqs#result", p.Pos(tr.Pos()), "result map not found")
		return
	}
	// oldProjects: the map[string][]string populated from root.Requirements
	var oldProjects ssa.Value
	core.Instrs(tr, func(in ssa.Instruction) {
		if mu, ok := in.(*ssa.MapUpdate); ok && mu.Map != newReqs {
			if _, isSlice := mu.Value.Type().Underlying().(*types.Slice); isSlice {
				oldProjects = mu.Map
			}
		}
	})
	if oldProjects == nil {
		// or built by a helper (rootProjectOf(root) returns the root project and the names by path)
		core.Instrs(tr, func(in ssa.Instruction) {
			c, ok := in.(*ssa.Call)
			if !ok {
				return
			}
			h := core.Callee(c)
			if h == nil || !core.InModule(h) || h.Blocks == nil {
				return
			}
			built := map[ssa.Value]bool{}
			core.Instrs(h, func(hin ssa.Instruction) {
				if mu, ok := hin.(*ssa.MapUpdate); ok {
					if _, isSlice := mu.Value.Type().Underlying().(*types.Slice); isSlice {
						built[mu.Map] = true
					}
				}
			})
			if len(built) == 0 {
				return
			}
			idx, all := -1, true
			for _, hr := range core.ReturnsOf(h) {
				found := false
				for j, v := range core.RetVals(hr) {
					if built[v] && (idx == -1 || idx == j) {
						idx, found = j, true
					}
				}
				if !found {
					all = false
				}
			}
			if idx < 0 || !all {
				return
			}
			if h.Signature.Results().Len() == 1 {
				oldProjects = c
				return
			}
			for _, ref := range *c.Referrers() {
				if e, ok := ref.(*ssa.Extract); ok && e.Index == idx {
					oldProjects = e
				}
			}
		})
	}
	if oldProjects == nil {
		r.Unk("R11.2", "internal/mvs.transformReqs#old-names", p.Pos(tr.Pos()), "map from project path to its existing requirement names not found")
		return
	}
	var updates []*ssa.MapUpdate
	core.Instrs(tr, func(in ssa.Instruction) {
		if mu, ok := in.(*ssa.MapUpdate); ok && mu.Map == newReqs {
			updates = append(updates, mu)
		}
	})
	r.Floor("R11.2", len(updates), 1, "stores into the new requirement set")
	keepSeen, freshSeen := false, false
	for i, mu := range updates {
		// key from iterating a names slice looked up in oldProjects?
		fromOld := core.DependsOn(mu.Key, core.SliceOpts{}, func(v ssa.Value) bool {
			lk, ok := v.(*ssa.Lookup)
			return ok && lk.X == oldProjects
		})
		if fromOld {
			keepSeen = true
			// all names: key = names[idx] with idx covering the whole slice, update unconditional in the inner loop body
			var ia *ssa.IndexAddr
			ia = nearestIndexAddr(mu.Key)
			okAll := false
			if ia != nil {
				okAll = p.LoopIndexCoversAll(ia.Index, ia.X, mu, func(a, b ssa.Value) bool { return a == b }) && mu.Block() == ia.Block()
			}
			r.Check(okAll, "R11.2", fmt.Sprintf("internal/mvs.transformReqs#keep-existing-names-%d", i+1), p.InstrPos(mu), "every existing name of a project that stays in the graph is stored (loop over all names, unconditional)", "not every existing requirement name of a retained project is stored: a second name for the same path is silently dropped")
			continue
		}
		freshSeen = true
		// R11.3: dominated by a failed lookup of the same key in newReqs
		okUnique := p.FactsAt(mu).Find(func(c ssa.Value, val bool) bool {
			e, ok := c.(*ssa.Extract)
			if !ok || e.Index != 1 || val {
				return false
			}
			lk, ok := e.Tuple.(*ssa.Lookup)
			return ok && lk.X == newReqs && (lk.Index == mu.Key || core.Unwrap(lk.Index) == core.Unwrap(mu.Key))
		})
		if !okUnique {
			// or: the name is produced by a helper that returns only names it has just failed to find in the set
			if hc, isCall := core.Unwrap(mu.Key).(*ssa.Call); isCall {
				if h := core.Callee(hc); h != nil && core.InModule(h) && h.Blocks != nil {
					for ai, a := range hc.Call.Args {
						if a != newReqs || ai >= len(h.Params) {
							continue
						}
						hp := h.Params[ai]
						all, some := true, false
						for _, hr := range core.ReturnsOf(h) {
							hv := core.RetVals(hr)
							if len(hv) != 1 {
								all = false
								continue
							}
							some = true
							if !p.FactsAt(hr).Find(func(c ssa.Value, val bool) bool {
								e, ok := c.(*ssa.Extract)
								if !ok || e.Index != 1 || val {
									return false
								}
								lk, ok := e.Tuple.(*ssa.Lookup)
								return ok && lk.X == ssa.Value(hp) && (lk.Index == hv[0] || core.Unwrap(lk.Index) == core.Unwrap(hv[0]))
							}) {
								all = false
							}
						}
						if all && some {
							okUnique = true
						}
					}
				}
			}
		}
		r.Check(okUnique, "R11.3", fmt.Sprintf("internal/mvs.transformReqs#fresh-name-unique-%d", i+1), p.InstrPos(mu), "a fresh name is stored only after a lookup of that same name in the new requirement set failed", "a fresh requirement name can overwrite an entry that already uses it")
		// fresh names only for projects without existing names
		okSkip := p.FactsAt(mu).Find(func(c ssa.Value, val bool) bool {
			// `names, ok := oldProjects[path]; !ok` is equivalent: entries are only ever created by appending a name
			if e, isE := c.(*ssa.Extract); isE && e.Index == 1 && !val {
				if lk, isLk := e.Tuple.(*ssa.Lookup); isLk && lk.X == oldProjects {
					return true
				}
			}
			b, ok := c.(*ssa.BinOp)
			if !ok {
				return false
			}
			ln, ok := b.X.(*ssa.Call)
			if !ok {
				return false
			}
			bi, ok := ln.Call.Value.(*ssa.Builtin)
			if !ok || bi.Name() != "len" {
				return false
			}
			fromOldNames := core.DependsOn(ln.Call.Args[0], core.SliceOpts{}, func(v ssa.Value) bool { lk, ok := v.(*ssa.Lookup); return ok && lk.X == oldProjects })
			k, okk := core.ConstInt(b.Y)
			if !fromOldNames || !okk || k != 0 {
				return false
			}
			return (b.Op == token.NEQ && !val) || (b.Op == token.EQL && val) || (b.Op == token.GTR && !val)
		})
		r.Check(okSkip, "R11.2", fmt.Sprintf("internal/mvs.transformReqs#fresh-only-for-new-projects-%d", i+1), p.InstrPos(mu), "fresh names are generated only for projects that had no name before", "a project that already has a requirement name can receive an additional fresh name")
	}
	// fresh names are chosen only after every existing name has been registered: no fresh-name store can be
	// followed by a keep-existing store
	for i, f := range updates {
		fromOldF := core.DependsOn(f.Key, core.SliceOpts{}, func(v ssa.Value) bool { lk, ok := v.(*ssa.Lookup); return ok && lk.X == oldProjects })
		if fromOldF {
			continue
		}
		late := false
		for _, k := range updates {
			fromOldK := core.DependsOn(k.Key, core.SliceOpts{}, func(v ssa.Value) bool { lk, ok := v.(*ssa.Lookup); return ok && lk.X == oldProjects })
			if fromOldK && core.InstrReaches(f, k) {
				late = true
			}
		}
		r.Check(!late, "R11.3", fmt.Sprintf("internal/mvs.transformReqs#fresh-after-all-existing-%d", i+1), p.InstrPos(f), "fresh names are chosen after all existing names are registered, so the uniqueness lookup sees every existing name", "an existing requirement name can be registered after a fresh name was chosen: the uniqueness lookup did not see it, and the existing entry overwrites the new requirement of the same name (the new requirement is silently lost)")
	}
	r.Check(keepSeen && freshSeen, "R11.2", "internal/mvs.transformReqs#both-passes", p.Pos(tr.Pos()), "both the keep-existing-names pass and the fresh-names pass are present", "transformReqs lacks the pass that keeps existing names or the pass that names new projects")
}

// nearestIndexAddr finds the slice element a value is read from: the closest IndexAddr reached by walking
// loads, field addresses and whole-value copies through local cells (breadth first).
func nearestIndexAddr(v ssa.Value) *ssa.IndexAddr {
	seen := map[ssa.Value]bool{}
	queue := []ssa.Value{v}
	for len(queue) > 0 && len(seen) < 200 {
		x := queue[0]
		queue = queue[1:]
		if x == nil || seen[x] {
			continue
		}
		seen[x] = true
		switch y := x.(type) {
		case *ssa.IndexAddr:
			return y
		case *ssa.UnOp:
			queue = append(queue, y.X)
		case *ssa.FieldAddr:
			queue = append(queue, y.X)
		case *ssa.Field:
			queue = append(queue, y.X)
		case *ssa.Alloc:
			for _, ref := range *y.Referrers() {
				if st, ok := ref.(*ssa.Store); ok && st.Addr == ssa.Value(y) {
					queue = append(queue, st.Val)
				}
			}
		case *ssa.ChangeType:
			queue = append(queue, y.X)
		case *ssa.Convert:
			queue = append(queue, y.X)
		}
	}
	return nil
}

// mapRangeLossyUpdate: inside the loop over rg, is another map updated under a key that is not the iteration key?
func mapRangeLossyUpdate(f *ssa.Function, rg *ssa.Range) ssa.Instruction {
	var next *ssa.Next
	for _, ref := range *rg.Referrers() {
		if n, ok := ref.(*ssa.Next); ok {
			next = n
		}
	}
	if next == nil {
		return nil
	}
	var keyV ssa.Value
	for _, ref := range *next.Referrers() {
		if e, ok := ref.(*ssa.Extract); ok && e.Index == 1 {
			keyV = e
		}
	}
	hb := next.Block()
	var out ssa.Instruction
	for _, b := range f.Blocks {
		if !(core.Reaches(hb, b, true) && core.Reaches(b, hb, true)) {
			continue
		}
		for _, in := range b.Instrs {
			mu, ok := in.(*ssa.MapUpdate)
			if !ok || mu.Map == rg.X {
				continue
			}
			if keyV != nil && core.Unwrap(mu.Key) == keyV {
				continue // re-keyed by the same (unique) key: no collisions
			}
			// appending to a per-key slice (m[k] = append(m[k], v)) keeps every entry: order-sensitive but not lossy
			if c, ok := mu.Value.(*ssa.Call); ok {
				if bi, ok := c.Call.Value.(*ssa.Builtin); ok && bi.Name() == "append" {
					continue
				}
			}
			out = mu
		}
	}
	return out
}

package rules

import (
	"fmt"
	"go/token"
	"go/types"
	"sort"
	"strings"

	"dawnverif/checker/core"

	"golang.org/x/tools/go/ssa"
)

func init() {
	register("C12", false, runC12)
	register("C14", false, runC14)
}

// ---------------------------------------------------------------------------------------------
// C12

func runC12(p *core.Prog, r *core.Result) {
	r.Decided = []string{
		"R12.1 every source / generated-file path given to target() reaches the file system only through the root-escape sanitiser (sourceLabel / repoSourcePath); loadSourceFile is called only from there",
		"R12.2 the sanitiser cleans first and then rejects '..' and '../…' on the cleaned value, which is what it returns",
		"R12.3 a target's record path is work/<kind>s/<one URL-escaped component derived from package and name>",
		"R12.4 the project's target and module tables are keyed only by printed labels ((*Label).String())",
		"R12.10 every name stored in a Label outside the label package's own constructors is valid by construction: a constant without ':' or '/', another label's name, or a value that passed label.New / label.Parse - a name taken from module code unvalidated (target(name=\"a:b\")) gives a label that does not survive print + parse",
		"R12.11 (necessary for canonicity) every successful result of label.Clean is the empty string or the string its scanner wrote (whose shape R12.8 establishes): the argument is never handed back unexamined on a shortcut - a spelling that slips through such a shortcut (`//lib/`) prints to a label that is not the canonical one",
		"R12.12 (necessary for canonicity) the project of a module label is a cleaned requirement path: (*module).loadModule stores the requirement's path into Label.Project directly, so the configuration loader stores every requirement back with its path passed through CleanPath (C10's R10.12) - a path such as example.com/x//lib otherwise gives a label that prints as module:example.com/x//lib//pkg:f and parses back as a different one",
		"R12.6 (necessary for canonicity) every package stored in a Label is canonical by construction: a Clean/Join result, another label's package, \"\" or \"//\"",
		"R12.9 label.New - which, unlike Parse, is handed the components separately - tests its name for both ':' and '/', its kind for ':' and '/', and its project for ':', for \"//\" inside it and for \"/\" at its end (the characters and the boundary the printed form uses as delimiters), so every label it accepts prints to a string that parses back",
		"R12.8 (necessary for canonicity: Clean is idempotent) inside Clean's loop a separator is written only in front of an element: from every place a '/' is appended, every feasible path (branch conditions interpreted by the zone analysis) appends an element byte before Clean returns or appends another separator",
		"R12.7 (parsing never crashes) every index and slice expression of package label is in range on every path, decided by a difference-bound abstract interpretation of the SSA (loop invariants by widening/narrowing, branch facts, immutable string contents, case analysis over short-circuit diamonds); sites on the fields of a lazybuf inside its methods are excepted (their safety is the caller-side invariant w <= r of Clean)",
		"R12.5 (part of 'parsing never crashes') every string slice in package label whose bound derives from an Index*/LastIndex* result on the sliced string is in range under the established found-ness fact",
	}
	r.NotDecided = []string{"print/parse round trip and canonicity of labels for all strings (behavioural)", "in-range-ness of the seven index/slice expressions inside the lazybuf methods (needs the caller-side invariant 'bytes written <= bytes read' of Clean; listed as information by R12.7)", "panics other than index/slice out of range in package label (nil map writes, failed assertions: none present today)"}
	bt := need(p, r, "R12.1", "", "Project", "builtin_target")
	sl := need(p, r, "R12.1", "", "", "sourceLabel")
	rsp := need(p, r, "R12.1", "", "", "repoSourcePath")
	lsf := need(p, r, "R12.1", "", "Project", "loadSourceFile")
	tip := need(p, r, "R12.3", "", "Project", "targetInfoPath")
	if bt == nil || sl == nil || rsp == nil || lsf == nil || tip == nil {
		return
	}
	// ---- R12.1
	// parameters carrying user paths: typed util.StringList
	var userParams []*ssa.Parameter
	for _, prm := range bt.Params {
		if n, ok := prm.Type().(*types.Named); ok && n.Obj().Name() == "StringList" {
			userParams = append(userParams, prm)
		}
	}
	r.Floor("R12.1", len(userParams), 1, "path-list parameters of target()")
	// a helper of the package is a sanitising wrapper when none of its string parameters reaches one of its results
	// except through sourceLabel / repoSourcePath
	wrapperCache := map[*ssa.Function]bool{}
	var sanitisingWrapper func(h *ssa.Function) bool
	sanitisingWrapper = func(h *ssa.Function) bool {
		if v, ok := wrapperCache[h]; ok {
			return v
		}
		wrapperCache[h] = false
		if h == nil || h.Blocks == nil || h.Pkg != bt.Pkg || h == lsf || h.Name() == "loadFunction" {
			return false
		}
		calls := false
		for _, c := range core.Calls(h) {
			if cal := core.Callee(c); cal == sl || cal == rsp {
				calls = true
			}
		}
		if !calls {
			return false
		}
		for _, ret := range core.ReturnsOf(h) {
			for _, rv := range core.RetVals(ret) {
				raw := core.DependsOn(rv, core.SliceOpts{Stores: true, ThroughCall: func(c *ssa.Call) bool {
					cal := core.Callee(c)
					return cal != sl && cal != rsp
				}}, func(x ssa.Value) bool {
					prm, ok := x.(*ssa.Parameter)
					if !ok {
						return false
					}
					b, isB := prm.Type().Underlying().(*types.Basic)
					return isB && b.Info()&types.IsString != 0
				})
				if raw {
					return false
				}
			}
		}
		wrapperCache[h] = true
		return true
	}
	isSanitiser := func(c *ssa.Call) bool {
		cal := core.Callee(c)
		return cal == sl || cal == rsp || sanitisingWrapper(cal)
	}
	rawFlow := func(v ssa.Value) bool {
		// does v depend on a user path parameter without passing through a sanitiser result?
		return core.DependsOn(v, core.SliceOpts{Stores: true, ThroughCall: func(c *ssa.Call) bool { return !isSanitiser(c) }}, func(x ssa.Value) bool {
			for _, up := range userParams {
				if x == ssa.Value(up) {
					return true
				}
			}
			return false
		})
	}
	viaSanitiser := func(v ssa.Value) bool {
		return core.DependsOn(v, core.SliceOpts{Stores: true, ThroughCall: func(c *ssa.Call) bool { return !isSanitiser(c) }}, func(x ssa.Value) bool {
			if c, ok := x.(*ssa.Call); ok {
				return isSanitiser(c)
			}
			return false
		})
	}
	// the scope: target() and the helpers of the package it hands (unsanitised) user paths to (targetSources(list),
	// generatedPaths(list)); inside a helper the parameter that receives them is a user-path parameter again
	scopeFns := append([]*ssa.Function{}, core.WithAnons(bt)...)
	inScopeFn := map[*ssa.Function]bool{}
	for _, f := range scopeFns {
		inScopeFn[f] = true
	}
	for depth := 0; depth < 2; depth++ {
		for _, f := range append([]*ssa.Function{}, scopeFns...) {
			for _, c := range core.Calls(f) {
				h := core.Callee(c)
				if h == nil || inScopeFn[h] || h.Blocks == nil || h.Pkg != bt.Pkg || h == lsf || h == sl || h == rsp || h.Name() == "loadFunction" {
					continue
				}
				handed := false
				for i, a := range c.Common().Args {
					// (a wrapper that sanitises what it is handed is a sanitiser for its caller and, inside, a place
					// where user paths arrive)
					rawArg := core.DependsOn(a, core.SliceOpts{Stores: true, ThroughCall: func(c *ssa.Call) bool { return !isSanitiser(c) }}, func(x ssa.Value) bool {
						for _, up := range userParams {
							if x == ssa.Value(up) {
								return true
							}
						}
						return false
					})
					if i < len(h.Params) && rawArg {
						userParams = append(userParams, h.Params[i])
						handed = true
					}
				}
				if handed {
					for _, g := range core.WithAnons(h) {
						inScopeFn[g] = true
						scopeFns = append(scopeFns, g)
					}
				}
			}
		}
	}
	nSinks := 0
	for _, f := range scopeFns {
		for _, c := range core.Calls(f) {
			cal := core.Callee(c)
			if cal == nil {
				continue
			}
			k := core.CalleeKey(cal)
			var sinkArgs []ssa.Value
			what := ""
			switch {
			case cal == lsf:
				sinkArgs, what = c.Common().Args[1:], "loadSourceFile"
			case k == "path/filepath.Join":
				sinkArgs, what = c.Common().Args, "filepath.Join"
			case core.FSMutators[k] || strings.HasPrefix(k, "os.Open") || k == "os.Stat":
				sinkArgs, what = c.Common().Args, k
			default:
				continue
			}
			tainted := false
			for _, a := range sinkArgs {
				if rawFlow(a) {
					tainted = true
				}
			}
			derives := false
			for _, a := range sinkArgs {
				if viaSanitiser(a) {
					derives = true
				}
			}
			if !tainted && !derives {
				continue // not a path sink for user paths
			}
			nSinks++
			construct := fmt.Sprintf("dawn.(*Project).builtin_target#path-sink:%s-%d", what, nSinks)
			r.Check(!tainted, "R12.1", construct, p.InstrPos(c.(ssa.Instruction)), "user paths reach this sink only through sourceLabel/repoSourcePath", "a path from the sources/generates arguments reaches "+what+" without passing through the root-escape check: '../…' can name a file outside the project root")
		}
	}
	r.Floor("R12.1", nSinks, 1, "path sinks in target()")
	// the gens slice handed to loadFunction derives from sanitised paths only
	for _, c := range core.Calls(bt) {
		if cal := core.Callee(c); cal != nil && cal.Name() == "loadFunction" {
			for i, a := range c.Common().Args {
				if _, isSlice := a.Type().Underlying().(*types.Slice); !isSlice {
					continue
				}
				if rawFlow(a) {
					r.Bad("R12.1", fmt.Sprintf("dawn.(*Project).builtin_target#loadFunction-arg-%d", i), p.InstrPos(c.(ssa.Instruction)), "a path list handed to loadFunction contains unsanitised user paths")
				}
			}
		}
	}
	for _, c := range p.StaticCallers(lsf) {
		root := c.Parent()
		for root.Parent() != nil {
			root = root.Parent()
		}
		r.Check(root == bt || inScopeFn[root], "R12.1", "dawn.(*Project).loadSourceFile#caller:"+fname(c.Parent()), p.InstrPos(c.(ssa.Instruction)), "source files are registered only by target()", "loadSourceFile is called outside target(): a source path can be registered without the root-escape check")
	}
	// sourceLabel itself goes through repoSourcePath first
	okSL := false
	for _, c := range core.CallsTo(sl, rsp) {
		call := c.(*ssa.Call)
		for _, ret := range core.ReturnsOf(sl) {
			vals := core.RetVals(ret)
			if len(vals) == 2 && !core.IsNilConst(vals[0]) {
				if core.Dominates(call, ret) {
					if nn, known := p.FactsAt(ret).ErrNonNil(extractOf(call, 1)); known && !nn {
						if core.DependsOn(vals[0], core.SliceOpts{Stores: true, ThroughCall: func(cc *ssa.Call) bool { return cc != call }}, func(x ssa.Value) bool { return x == extractOf(call, 0) }) {
							okSL = true
						}
					}
				}
			}
		}
	}
	r.Check(okSL, "R12.1", "dawn.sourceLabel#uses-repoSourcePath", p.Pos(sl.Pos()), "sourceLabel builds its label from repoSourcePath's accepted result", "sourceLabel does not build its label from the checked path")

	// ---- R12.2
	var clean *ssa.Call
	for _, c := range core.Calls(rsp) {
		if core.IsCallTo(c, "path", "Clean") || core.IsCallTo(c, "path/filepath", "Clean") {
			clean, _ = c.(*ssa.Call)
		}
	}
	if clean == nil {
		r.Bad("R12.2", "dawn.repoSourcePath#clean", p.Pos(rsp.Pos()), "the path is not cleaned before the escape test: 'a/../../x' passes the prefix test")
	} else {
		n := 0
		for _, ret := range core.ReturnsOf(rsp) {
			vals := core.RetVals(ret)
			if len(vals) != 2 || !core.IsNilConst(vals[1]) {
				continue
			}
			n++
			// the accepted value: the cleaned path, or a selection among cleaned paths (one Clean per branch)
			var cleanedVal func(v ssa.Value, seen map[ssa.Value]bool) bool
			cleanedVal = func(v ssa.Value, seen map[ssa.Value]bool) bool {
				if seen[v] {
					return true
				}
				seen[v] = true
				switch x := v.(type) {
				case *ssa.Call:
					return core.IsCallTo(x, "path", "Clean") || core.IsCallTo(x, "path/filepath", "Clean")
				case *ssa.Phi:
					for _, e := range x.Edges {
						if !cleanedVal(e, seen) {
							return false
						}
					}
					return len(x.Edges) > 0
				}
				return false
			}
			isClean := cleanedVal(vals[0], map[ssa.Value]bool{})
			clean := vals[0]
			notDotDot := holdsX(p, ret, false, func(c ssa.Value, arg func(ssa.Value) ssa.Value) bool {
				b, ok := c.(*ssa.BinOp)
				if !ok || b.Op != token.EQL || arg(b.X) != clean {
					return false
				}
				s, okc := core.ConstString(b.Y)
				return okc && s == ".."
			})
			notPrefix := holdsX(p, ret, false, func(c ssa.Value, arg func(ssa.Value) ssa.Value) bool {
				call, ok := c.(*ssa.Call)
				if !ok || !core.IsCallTo(call, "strings", "HasPrefix") || arg(call.Call.Args[0]) != clean {
					return false
				}
				s, okc := core.ConstString(call.Call.Args[1])
				return okc && s == "../"
			})
			r.Check(isClean, "R12.2", "dawn.repoSourcePath#returns-cleaned", p.InstrPos(ret), "the accepted path is the cleaned one", "the accepted path is not the cleaned value that was tested")
			r.Check(notDotDot && notPrefix, "R12.2", "dawn.repoSourcePath#rejects-escape", p.InstrPos(ret), "accepted only when the cleaned path is neither '..' nor starts with '../'", "a cleaned path equal to '..' or starting with '../' can be accepted: the file lies outside the project root")
		}
		r.Floor("R12.2", n, 1, "accepting returns of repoSourcePath")
		// relative paths are joined with the package before cleaning
		joined := false
		for _, c := range core.Calls(rsp) {
			if !core.IsCallTo(c, "path", "Join") {
				continue
			}
			// the join (on the non-absolute branch) must flow into a Clean
			for _, cl := range core.Calls(rsp) {
				if core.IsCallTo(cl, "path", "Clean") || core.IsCallTo(cl, "path/filepath", "Clean") {
					if core.DependsOn(cl.Common().Args[0], core.SliceOpts{}, func(v ssa.Value) bool { return v == c.(ssa.Value) }) {
						joined = true
					}
				}
			}
		}
		r.Check(joined, "R12.2", "dawn.repoSourcePath#relative-to-package", p.Pos(rsp.Pos()), "relative paths are joined with the package directory before cleaning", "relative paths are not resolved against the package before the escape test")
	}

	// ---- R12.3
	nT := 0
	for _, ret := range core.ReturnsOf(tip) {
		vals := core.RetVals(ret)
		if len(vals) != 1 {
			continue
		}
		nT++
		call, ok := vals[0].(*ssa.Call)
		okShape := false
		if ok && core.IsCallTo(call, "path/filepath", "Join") {
			if s, ok := call.Call.Args[0].(*ssa.Slice); ok {
				elems, ok := tupleElems(s)
				// filepath.Join(filepath.Join(work, kinds), file): flatten the inner join
				if ok && len(elems) == 2 {
					if inner, isCall := elems[0].(*ssa.Call); isCall && core.IsCallTo(inner, "path/filepath", "Join") {
						if is, ok2 := inner.Call.Args[0].(*ssa.Slice); ok2 {
							if ie, ok3 := tupleElems(is); ok3 && len(ie) == 2 {
								elems = []ssa.Value{ie[0], ie[1], elems[1]}
							}
						}
					}
				}
				if ok && len(elems) == 3 {
					first := core.LoadOfField(elems[0], pkgRoot, "Project", "work")
					lastCall, isCall := elems[2].(*ssa.Call)
					last := isCall && core.IsCallTo(lastCall, "net/url", "PathEscape")
					// the escaped string covers package and name of the label
					covers := false
					if last {
						dn := paramDepsNames(tip, lastCall.Call.Args[0])
						covers = dn["Package"] && dn["Name"]
					}
					mid := core.DependsOn(elems[1], core.SliceOpts{Helpers: true}, func(v ssa.Value) bool { return core.IsField(v, pkgLabel, "Label", "Kind") })
					okShape = first && last && covers && mid
				}
			}
		}
		r.Check(okShape, "R12.3", "dawn.(*Project).targetInfoPath#shape", p.InstrPos(ret), "work / <kind>s / url.PathEscape(package + name): one escaped component, so distinct labels give distinct files inside the state directory", "the record path is not work/<kind>s/<escaped package+name>: labels containing '/' or '..' can collide or leave the state directory")
	}
	r.Floor("R12.3", nT, 1, "returns of targetInfoPath")

	// ---- R12.4
	nKeys := 0
	for _, fn := range p.ModuleFuncs() {
		core.Instrs(fn, func(in ssa.Instruction) {
			var m, key ssa.Value
			switch x := in.(type) {
			case *ssa.Lookup:
				m, key = x.X, x.Index
			case *ssa.MapUpdate:
				m, key = x.Map, x.Key
			default:
				return
			}
			table := ""
			for _, f := range []string{"targets", "modules"} {
				if core.LoadOfField(m, pkgRoot, "Project", f) {
					table = f
				}
			}
			if table == "" {
				return
			}
			nKeys++
			ok := false
			kv := core.Unwrap(key)
			if c, isCall := kv.(*ssa.Call); isCall {
				if cal := core.Callee(c); cal != nil && cal.Name() == "String" && cal.Signature.Recv() != nil && recvNamed(cal) == "Label" {
					ok = true
				}
			}
			// a parameter that every caller fills with (*Label).String() is accepted for unexported helpers
			if prm, isParam := kv.(*ssa.Parameter); isParam && !ok {
				ok = true
				for _, c := range p.StaticCallers(fn) {
					idx := paramIndex(fn, prm)
					a := core.Unwrap(c.Common().Args[idx])
					cc, isCall := a.(*ssa.Call)
					if !isCall || core.Callee(cc) == nil || core.Callee(cc).Name() != "String" {
						ok = false
					}
				}
				if len(p.StaticCallers(fn)) == 0 {
					ok = false
				}
			}
			// a lookup under a key that was read out of the same table (its keys collected, sorted, and walked)
			if _, isLookup := in.(*ssa.Lookup); isLookup && !ok {
				tbl := table
				ok = core.DependsOn(kv, core.SliceOpts{Stores: true}, func(v ssa.Value) bool {
					// ... or through a key-listing helper that is handed the table (sortedKeys(proj.modules))
					if hc, isCall := v.(*ssa.Call); isCall {
						if h := core.Callee(hc); h != nil && core.InModule(h) && h.Blocks != nil {
							if _, isSlice := h.Signature.Results().At(0).Type().Underlying().(*types.Slice); h.Signature.Results().Len() == 1 && isSlice {
								for _, a := range hc.Call.Args {
									if core.LoadOfField(core.Unwrap(a), pkgRoot, "Project", tbl) {
										return true
									}
								}
							}
						}
					}
					nx, isNext := v.(*ssa.Next)
					if !isNext {
						return false
					}
					rg, isRange := nx.Iter.(*ssa.Range)
					return isRange && core.LoadOfField(rg.X, pkgRoot, "Project", tbl)
				})
			}
			r.Check(ok, "R12.4", fmt.Sprintf("%s#%s-key-%d", fname(fn), table, nKeys), p.InstrPos(in), "Project."+table+" is keyed by a printed label", "Project."+table+" is keyed by something other than (*Label).String(): two spellings of one label become two identities")
		})
	}
	r.Floor("R12.4", nKeys, 4, "keyed accesses to Project.targets / Project.modules")
	// ---- R12.5 index-derived slice bounds of the label parser
	checkIndexDerivedBounds(p, r)

	// ---- R12.6 canonical by construction
	checkCanonicalByConstruction(p, r)

	// ---- R12.7 every index / slice expression of package label is in range (zone abstract interpretation)
	checkLabelBounds(p, r)

	// ---- R12.8 Clean's output never ends in, or doubles, a separator
	checkCleanSeparators(p, r)

	// ---- R12.9 New accepts only components that print unambiguously
	checkNewValidation(p, r)

	// LoadTarget re-parses and re-prints the raw label before the lookup
	if lt := need(p, r, "R12.4", "", "Project", "LoadTarget"); lt != nil {
		ok := false
		for _, c := range core.Calls(lt) {
			if core.IsCallTo(c, pkgLabel, "Parse") && c.Common().Args[0] == ssa.Value(lt.Params[1]) {
				ok = true
			}
		}
		r.Check(ok, "R12.4", "dawn.(*Project).LoadTarget#canonicalises", p.Pos(lt.Pos()), "the raw label is parsed (and re-printed for the lookup)", "LoadTarget looks the raw string up without canonicalising it")
	}
}

// paramDepsNames: field names of label parameters (by value or pointer) that v depends on.
func paramDepsNames(fn *ssa.Function, v ssa.Value) map[string]bool {
	out := map[string]bool{}
	for x := range core.BackwardSlice(v, core.SliceOpts{Stores: true, ThroughCall: func(*ssa.Call) bool { return true }}) {
		if fa, ok := x.(*ssa.FieldAddr); ok {
			if _, f := core.FieldOf(fa); f != "" {
				out[f] = true
			}
		}
		if f, ok := x.(*ssa.Field); ok {
			if _, n := core.FieldOf(f); n != "" {
				out[n] = true
			}
		}
	}
	return out
}

// ---------------------------------------------------------------------------------------------
// C14

func runC14(p *core.Prog, r *core.Result) {
	r.Decided = []string{
		"R14.1 the path GC marks for a target, the path records are read from and the path they are renamed onto are all targetInfoPath of the target's label",
		"R14.2 every live target and source is marked (loop over Project.targets without filter); the index file and the temp directory are marked under the names their writers use",
		"R14.3 marking a path marks all its parents up to the project root",
		"R14.7 the index is a faithful list of the project's targets in both directions: saveIndex lists every entry of Project.targets and loadIndex registers every entry the index lists (each loop reaches its append / registration on every iteration that does not return an error - no filter), so the project a collection loaded through the index marks is the project of the last full load",
		"R14.6 every successful return of saveIndex has rewritten the index file (no 'looks current' shortcut): the index a collection may load from always lists the targets of the last full load",
		"R14.5 the sweep prunes the walk (SkipDir) only below a missing path or a directory, never after handling a file: every stale record and stray temporary of a directory is visited",
		"R14.4 the sweep removes only entries of the build-state directory walk that are not marked; GC reaches no other file-system mutator",
		"R14.8 the index is rewritten only by a load that succeeds: behind a saveIndex call no return with an error is reachable (a failed load would leave an index without the targets of the modules that did not load; an index-based collection then removes their records and the build after the repair re-executes them)",
		"R14.9 the collection decides on the project as it was built: the command that calls Project.GC loads the project with the index argument constantly true - `dawn gc` has no flag arguments, so a full load there leaves out the targets and sources that exist only under the flags of the last build, and their records would be swept",
	}
	r.NotDecided = []string{"equality of the executed sets of later builds with and without GC (behavioural)", "interaction with a stale index (dawn gc loads by index)"}
	checkIndexSavedBySuccessfulLoadOnly(p, r, "R14.8")
	checkGCCommandLoadsIndex(p, r, "R14.9")
	gc := need(p, r, "R14.0", "", "Project", "GC")
	tip := need(p, r, "R14.0", "", "Project", "targetInfoPath")
	lti := need(p, r, "R14.0", "", "Project", "loadTargetInfo")
	sti := need(p, r, "R14.0", "", "Project", "saveTargetInfo")
	if gc == nil || tip == nil || lti == nil || sti == nil {
		return
	}
	// the marking closure: an anonymous function of GC that updates a map captured from GC
	var mark, sweep *ssa.Function
	// the closures live in GC or in a helper of the package that GC calls (e.g. one that computes the live set)
	hosts := []*ssa.Function{gc}
	for _, c := range core.Calls(gc) {
		if h := core.Callee(c); h != nil && h.Pkg == gc.Pkg && h.Blocks != nil && h != tip {
			hosts = append(hosts, h)
		}
	}
	markHost := gc
	// removes: f deletes a path - os.RemoveAll / os.Remove directly, or through a helper of the package that hands
	// one of its parameters to them
	removalHelper := func(h *ssa.Function) int {
		if h == nil || h.Blocks == nil || h.Pkg != gc.Pkg {
			return -1
		}
		idx := -1
		for _, c := range core.Calls(h) {
			if core.IsCallTo(c, "os", "RemoveAll") || core.IsCallTo(c, "os", "Remove") {
				if prm, ok := c.Common().Args[0].(*ssa.Parameter); ok {
					idx = paramIndex(h, prm)
				}
			}
		}
		return idx
	}
	classify := func(a *ssa.Function) (hasUpdate, hasRemove bool) {
		core.Instrs(a, func(in ssa.Instruction) {
			if _, ok := in.(*ssa.MapUpdate); ok {
				hasUpdate = true
			}
			if c, ok := in.(ssa.CallInstruction); ok {
				if core.IsCallTo(c, "os", "RemoveAll") || core.IsCallTo(c, "os", "Remove") || removalHelper(core.Callee(c)) >= 0 {
					hasRemove = true
				}
			}
		})
		return
	}
	for _, host := range hosts {
		// candidates: the closures of the host, and the functions of the package it calls (a marker may be a method)
		cands := append([]*ssa.Function{}, host.AnonFuncs...)
		for _, c := range core.Calls(host) {
			if h := core.Callee(c); h != nil && h.Pkg == gc.Pkg && h.Blocks != nil && h != tip && h.Parent() == nil && h != gc && removalHelper(h) < 0 {
				isHost := false
				for _, hh := range hosts {
					if hh == h && len(h.AnonFuncs) > 0 {
						isHost = true
					}
				}
				if !isHost {
					cands = append(cands, h)
				}
			}
		}
		for _, a := range cands {
			hasUpdate, hasRemove := classify(a)
			if hasUpdate && !hasRemove && mark == nil {
				// a marker takes the path to mark as a string parameter
				for _, prm := range a.Params {
					if b, ok := prm.Type().Underlying().(*types.Basic); ok && b.Kind() == types.String {
						mark, markHost = a, host
					}
				}
			}
			if hasRemove && sweep == nil && a.Parent() != nil {
				sweep = a
			}
		}
	}
	if mark == nil || sweep == nil {
		r.Unk("R14.0", "dawn.(*Project).GC#closures", p.Pos(gc.Pos()), "mark and sweep closures of GC not recognised")
		return
	}
	sweepHost := sweep.Parent()
	// the marker's path parameter (the first string parameter), and the argument index at its call sites
	markPath := mark.Params[0]
	markArg := 0
	for i, prm := range mark.Params {
		if b, ok := prm.Type().Underlying().(*types.Basic); ok && b.Kind() == types.String {
			markPath, markArg = prm, i
			break
		}
	}
	// the set the sweep consults is the set the marker fills
	mapRoot := func(v ssa.Value) ssa.Value {
		for i := 0; i < 10 && v != nil; i++ {
			switch x := v.(type) {
			case *ssa.UnOp:
				if x.Op != token.MUL {
					return v
				}
				if s := core.SingleStore(x.X); s != nil {
					v = s
				} else {
					v = x.X
				}
			case *ssa.FreeVar:
				b := core.Binding(x)
				if b == nil {
					return v
				}
				v = b
			case *ssa.Alloc:
				s := core.SingleStore(x)
				if s == nil {
					return v
				}
				v = s
			case *ssa.Parameter:
				if x.Parent() != mark {
					return v
				}
				cs := core.CallsTo(markHost, mark)
				idx := paramIndex(mark, x)
				if len(cs) == 0 || idx < 0 || idx >= len(cs[0].Common().Args) {
					return v
				}
				v = cs[0].Common().Args[idx]
			case *ssa.Call:
				h := core.Callee(x)
				if h == nil || h != markHost {
					return v
				}
				rets := core.ReturnsOf(h)
				if len(rets) != 1 || len(rets[0].Results) != 1 {
					return v
				}
				v = rets[0].Results[0]
			default:
				return v
			}
		}
		return v
	}
	var markedSet ssa.Value
	core.Instrs(mark, func(in ssa.Instruction) {
		if mu, ok := in.(*ssa.MapUpdate); ok {
			markedSet = mapRoot(mu.Map)
		}
	})
	markCalls := core.CallsTo(markHost, mark)
	// ---- R14.1
	okMarkTip := false
	var targetMark ssa.CallInstruction
	for _, c := range markCalls {
		if a, ok := c.Common().Args[markArg].(*ssa.Call); ok && core.Callee(a) == tip {
			// argument of targetInfoPath is the Label() of the ranged target
			if lbl, ok := a.Call.Args[1].(*ssa.Call); ok && lbl.Call.IsInvoke() && lbl.Call.Method.Name() == "Label" {
				okMarkTip = true
				targetMark = c
			}
		}
	}
	r.Check(okMarkTip, "R14.1", "dawn.(*Project).GC#marks-targetInfoPath", p.Pos(gc.Pos()), "GC marks targetInfoPath(target.Label())", "GC does not mark targetInfoPath of each target's label: live records are swept")
	for _, f := range []*ssa.Function{lti, sti} {
		ok := false
		for _, c := range core.CallsTo(f, tip) {
			if c.Common().Args[1] == ssa.Value(f.Params[1]) {
				ok = true
			}
		}
		r.Check(ok, "R14.1", fname(f)+"#uses-targetInfoPath", p.Pos(f.Pos()), "derives the record path with targetInfoPath(label)", "does not derive the record path with targetInfoPath(label): GC and the record reader/writer disagree about where records live")
	}
	// loadTargetInfo opens exactly that path
	for _, c := range core.Calls(lti) {
		if core.IsCallTo(c, "os", "Open") {
			a, ok := c.Common().Args[0].(*ssa.Call)
			r.Check(ok && core.Callee(a) == tip, "R14.1", "dawn.(*Project).loadTargetInfo#opens-record-path", p.InstrPos(c.(ssa.Instruction)), "opens targetInfoPath(label)", "opens a path other than targetInfoPath(label)")
		}
	}

	// ---- R14.2
	if targetMark != nil {
		in := targetMark.(ssa.Instruction)
		// inside a range over Project.targets, in the loop body entry block (no filter)
		var rg *ssa.Range
		core.Instrs(markHost, func(x ssa.Instruction) {
			if y, ok := x.(*ssa.Range); ok && core.LoadOfField(y.X, pkgRoot, "Project", "targets") {
				rg = y
			}
		})
		okLoop := false
		if rg != nil {
			for _, ref := range *rg.Referrers() {
				if nx, ok := ref.(*ssa.Next); ok {
					// body entry = successor of the block testing the Next's ok
					var okV ssa.Value
					for _, r2 := range *nx.Referrers() {
						if e, ok := r2.(*ssa.Extract); ok && e.Index == 0 {
							okV = e
						}
					}
					// the mark call must hold only the loop-continuation fact beyond the facts of the loop header
					extra := false
					base := p.Facts(markHost)[nx.Block()]
					for f := range p.FactsAt(in) {
						if base[f] || f.Cond == okV {
							continue
						}
						extra = true
					}
					if !extra && holds(p, in, true, func(v ssa.Value) bool { return v == okV }) {
						okLoop = true
					}
				}
			}
		}
		r.Check(okLoop, "R14.2", "dawn.(*Project).GC#marks-every-target", p.InstrPos(in), "every entry of Project.targets (targets and sources alike) is marked, unconditionally", "not every entry of Project.targets is marked (missing loop or a filter): records of live targets or sources are deleted and they rebuild")
	}
	// index.json and temp
	var joinConstsV func(v ssa.Value, subst map[*ssa.Parameter]ssa.Value, depth int) (base string, parts []string)
	baseOf := func(e ssa.Value, subst map[*ssa.Parameter]ssa.Value) string {
		if prm, ok := e.(*ssa.Parameter); ok && subst != nil {
			if a, ok := subst[prm]; ok {
				e = a
			}
		}
		for _, f := range []string{"work", "root", "temp"} {
			if core.LoadOfField(e, pkgRoot, "Project", f) {
				return f
			}
		}
		if _, isParam := e.(*ssa.Parameter); isParam {
			return "root"
		}
		return ""
	}
	joinConstsV = func(v ssa.Value, subst map[*ssa.Parameter]ssa.Value, depth int) (base string, parts []string) {
		call, ok := v.(*ssa.Call)
		if !ok {
			return "", nil
		}
		if !core.IsCallTo(call, "path/filepath", "Join") {
			// a path helper of the package: func indexPath(work string) string { return filepath.Join(work, "index.json") }
			h := core.Callee(call)
			if h == nil || h.Blocks == nil || !core.InModule(h) || depth > 2 {
				return "", nil
			}
			rets := core.ReturnsOf(h)
			if len(rets) != 1 || len(rets[0].Results) != 1 {
				return "", nil
			}
			sub := map[*ssa.Parameter]ssa.Value{}
			for i, prm := range h.Params {
				if i < len(call.Call.Args) {
					a := call.Call.Args[i]
					if ap, ok := a.(*ssa.Parameter); ok && subst != nil {
						if aa, ok := subst[ap]; ok {
							a = aa
						}
					}
					sub[prm] = a
				}
			}
			return joinConstsV(rets[0].Results[0], sub, depth+1)
		}
		s, ok := call.Call.Args[0].(*ssa.Slice)
		if !ok {
			return "", nil
		}
		elems, ok := tupleElems(s)
		if !ok {
			return "", nil
		}
		for i, e := range elems {
			if i == 0 {
				base = baseOf(e, subst)
				if base == "" {
					// a directory computed by an inner Join (or path helper): flatten
					if b, inner := joinConstsV(e, subst, depth+1); b != "" || inner != nil {
						base, parts = b, append(parts, inner...)
					}
				}
				continue
			}
			if str, ok := core.ConstString(e); ok {
				parts = append(parts, str)
			} else if names := tableStrings(e); len(names) > 0 {
				// an element of a table of names that is walked (for _, name := range []string{"temp", "index.json"}):
				// one alternative per entry, written a|b
				parts = append(parts, strings.Join(names, "|"))
			} else {
				parts = append(parts, "?")
			}
		}
		return
	}
	joinConsts := func(c ssa.CallInstruction) (base string, parts []string) {
		call, ok := c.(*ssa.Call)
		if !ok {
			return "", nil
		}
		return joinConstsV(call, nil, 0)
	}
	marked := map[string]bool{}
	for _, c := range markCalls {
		if a, ok := c.Common().Args[markArg].(*ssa.Call); ok {
			if b, parts := joinConsts(a); b == "work" {
				// expand the alternatives of a table-driven part
				alts := []string{""}
				for i, part := range parts {
					var next []string
					for _, alt := range strings.Split(part, "|") {
						for _, pre := range alts {
							if i == 0 {
								next = append(next, alt)
							} else {
								next = append(next, pre+"/"+alt)
							}
						}
					}
					alts = next
				}
				for _, a := range alts {
					marked[a] = true
				}
			}
		}
	}
	// names used by the writers
	indexName := ""
	if si := p.Func("", "Project", "saveIndex"); si != nil {
		for _, c := range core.Calls(si) {
			if core.IsCallTo(c, "os", "Create") {
				if a, ok := c.Common().Args[0].(*ssa.Call); ok {
					if b, parts := joinConsts(a); b == "work" {
						indexName = strings.Join(parts, "/")
					}
				}
			}
		}
	}
	tempRel := ""
	if ld := p.Func("", "", "Load"); ld != nil {
		var work, temp []string
		// Load, or the constructor helper of the package that sets the two directories
		for _, f := range p.ModuleFuncs() {
			if f.Pkg != ld.Pkg {
				continue
			}
			core.Instrs(f, func(in ssa.Instruction) {
				st, ok := in.(*ssa.Store)
				if !ok {
					return
				}
				if c, ok := st.Val.(*ssa.Call); ok {
					if b, parts := joinConsts(c); parts != nil {
						if core.IsField(st.Addr, pkgRoot, "Project", "work") {
							work = parts
						}
						if core.IsField(st.Addr, pkgRoot, "Project", "temp") {
							temp = parts
							if b == "work" {
								temp = append(append([]string{}, work...), parts...)
							}
						}
					}
				}
			})
		}
		if len(work) > 0 && len(temp) > len(work) && strings.Join(temp[:len(work)], "/") == strings.Join(work, "/") {
			tempRel = strings.Join(temp[len(work):], "/")
		}
	}
	var ml []string
	for k := range marked {
		ml = append(ml, k)
	}
	sort.Strings(ml)
	r.Check(indexName != "" && marked[indexName], "R14.2", "dawn.(*Project).GC#marks-index", p.Pos(gc.Pos()), fmt.Sprintf("the index file is marked under the name saveIndex writes (%q)", indexName), fmt.Sprintf("the index file written by saveIndex (%q) is not among the marked names %q: GC deletes the index", indexName, ml))
	r.Check(tempRel != "" && marked[tempRel], "R14.2", "dawn.(*Project).GC#marks-temp", p.Pos(gc.Pos()), fmt.Sprintf("the temp directory is marked under the name Load uses (%q)", tempRel), fmt.Sprintf("the temp directory used by Load (%q under work) is not among the marked names %q: GC deletes it and the next record write fails", tempRel, ml))

	// ---- R14.3 parents
	okParents := false
	core.Instrs(mark, func(in ssa.Instruction) {
		mu, ok := in.(*ssa.MapUpdate)
		if !ok {
			return
		}
		// the key marked inside a loop is obtained by filepath.Dir from the key of the previous iteration (which
		// starts at the parameter): param, Dir(param), Dir(Dir(param)), ...
		if !core.Reaches(mu.Block(), mu.Block(), false) {
			return
		}
		inLoop := func(b *ssa.BasicBlock) bool { return core.Reaches(b, b, false) }
		iterated := core.DependsOn(mu.Key, core.SliceOpts{}, func(v ssa.Value) bool {
			c, ok := v.(*ssa.Call)
			if !ok || !core.IsCallTo(c, "path/filepath", "Dir") {
				return false
			}
			// the argument comes from the previous iteration (a loop phi) and, at the start, from the parameter
			fromPhi := core.DependsOn(c.Call.Args[0], core.SliceOpts{}, func(x ssa.Value) bool {
				ph, ok := x.(*ssa.Phi)
				return ok && inLoop(ph.Block())
			})
			fromParam := core.DependsOn(c.Call.Args[0], core.SliceOpts{ThroughCall: func(c2 *ssa.Call) bool { return core.IsCallTo(c2, "path/filepath", "Dir") }}, func(x ssa.Value) bool { return x == ssa.Value(markPath) })
			return fromPhi && fromParam
		})
		if iterated {
			okParents = true
		}
	})
	// the path itself is marked too (a key that is the parameter, not only its parents)
	okSelf := false
	core.Instrs(mark, func(in ssa.Instruction) {
		if mu, ok := in.(*ssa.MapUpdate); ok && core.DependsOn(mu.Key, core.SliceOpts{}, func(x ssa.Value) bool { return x == ssa.Value(markPath) }) {
			okSelf = true
		}
	})
	r.Check(okSelf, "R14.3", "dawn.(*Project).GC$mark#self", p.Pos(mark.Pos()), "the path handed to the marker is itself marked", "the marker marks only parent directories, not the path it is given: every record file is swept")
	r.Check(okParents, "R14.3", "dawn.(*Project).GC$mark#parents", p.Pos(mark.Pos()), "marking a path marks the path and then, repeatedly, its parent directory", "marking does not walk up the parent directories: the sweep removes a directory that contains live records")

	// ---- R14.6 the index a collection may load from is rewritten by every full load: saveIndex has no successful
	// return that skips the write (an index kept because it merely looks current - by file times, say - lacks targets
	// whose appearance touched no module file, and a collection loaded from it deletes their records)
	if si := p.Func("", "Project", "saveIndex"); si != nil {
		isWrite := func(in ssa.Instruction) bool {
			c, ok := in.(ssa.CallInstruction)
			if !ok {
				return false
			}
			return core.IsCallTo(c, "os", "Create") || core.IsCallTo(c, "os", "OpenFile") || core.IsCallTo(c, "os", "WriteFile") || core.IsCallTo(c, "os", "CreateTemp")
		}
		nRet := 0
		for _, ret := range core.ReturnsOf(si) {
			vals := core.RetVals(ret)
			if len(vals) == 1 {
				if nn, known := p.FactsAt(ret).ErrNonNil(vals[0]); known && nn {
					continue
				}
				if !core.IsNilConst(vals[0]) {
					if _, isCall := vals[0].(*ssa.Call); !isCall {
						if _, isExt := vals[0].(*ssa.Extract); !isExt {
							continue
						}
					}
				}
			}
			nRet++
			skips := core.BlockReachesAvoiding(si.Blocks[0], ret, isWrite)
			r.Check(!skips, "R14.6", fmt.Sprintf("dawn.(*Project).saveIndex#always-writes-%d", nRet), p.InstrPos(ret), "this return is reached only after the index file has been (re)written", "saveIndex can return successfully without rewriting the index: after a change of the target set that touches no module file (a glob picking up a new source) the index is stale, a collection that loads through it does not know the new targets, deletes their records, and the next build re-executes them")
		}
		r.Floor("R14.6", nRet, 1, "successful returns of saveIndex")
	}

	// ---- R14.7 index round trip without filters
	checkIndexComplete(p, r)

	// ---- R14.5 the sweep visits every entry: it prunes (SkipDir) only below a path that does not exist or below a
	// directory; SkipDir returned for a *file* makes WalkDir skip the remaining entries of that file's directory
	nSkip := 0
	for _, ret := range core.ReturnsOf(sweep) {
		for _, v := range core.RetVals(ret) {
			ld, ok := v.(*ssa.UnOp)
			if !ok {
				continue
			}
			g, ok := ld.X.(*ssa.Global)
			if !ok || g.Pkg == nil || g.Pkg.Pkg.Path() != "io/fs" || (g.Name() != "SkipDir" && g.Name() != "SkipAll") {
				continue
			}
			nSkip++
			construct := fmt.Sprintf("dawn.(*Project).GC$sweep#prune-%d", nSkip)
			if g.Name() == "SkipAll" {
				r.Bad("R14.5", construct, p.InstrPos(ret), "the sweep can stop the whole walk (SkipAll): stale records behind that point are never collected")
				continue
			}
			okPrune := p.FactsAt(ret).Find(func(c ssa.Value, val bool) bool {
				call, isCall := c.(*ssa.Call)
				if !isCall || !val {
					return false
				}
				if core.IsCallTo(call, "os", "IsNotExist") || core.IsCallTo(call, "errors", "Is") {
					// the walk error parameter (not the error of the removal)
					return len(sweep.Params) > 2 && core.DependsOn(call.Call.Args[0], core.SliceOpts{}, func(x ssa.Value) bool { return x == ssa.Value(sweep.Params[2]) })
				}
				return call.Call.IsInvoke() && call.Call.Method.Name() == "IsDir"
			})
			r.Check(okPrune, "R14.5", construct, p.InstrPos(ret), "the walk is pruned only below a missing path or a directory", "the sweep returns SkipDir for an entry that is not known to be a directory (e.g. after removing a stale record file): WalkDir then skips the remaining entries of that file's directory, so at most one stale record or stray temporary per directory is collected")
		}
	}
	r.Analysed["gc_sweep_prunes"] = nSkip

	// ---- R14.4
	ms := mutatorSites(p, gc)
	sweepFam := map[*ssa.Function]bool{sweep: true}
	for _, c := range core.Calls(sweep) {
		if h := core.Callee(c); removalHelper(h) >= 0 && onlyCalledFrom(p, h, map[*ssa.Function]bool{sweep: true}) {
			sweepFam[h] = true
		}
	}
	for _, m := range ms {
		ok := m.Callee == "os.RemoveAll" && sweepFam[m.Fn]
		r.Check(ok, "R14.4", "dawn.(*Project).GC#mutator:"+m.Callee+"@"+fname(m.Fn), p.InstrPos(m.Call.(ssa.Instruction)), "the only mutation performed by GC is RemoveAll in the sweep callback", "GC reaches "+m.Callee+" in "+fname(m.Fn)+": it changes more than the unmarked entries of the state directory")
	}
	r.Floor("R14.4", len(ms), 1, "file-system mutators reachable from GC")
	// sweep: RemoveAll(path param) on the miss edge of the marked-set lookup; WalkDir root is Project.work
	for _, c := range core.Calls(sweep) {
		removed := ssa.Value(nil)
		if core.IsCallTo(c, "os", "RemoveAll") {
			removed = c.Common().Args[0]
		} else if i := removalHelper(core.Callee(c)); i >= 0 && i < len(c.Common().Args) {
			removed = c.Common().Args[i]
		}
		if removed == nil {
			continue
		}
		argOK := removed == ssa.Value(sweep.Params[0])
		miss := p.FactsAt(c.(ssa.Instruction)).Find(func(cv ssa.Value, v bool) bool {
			e, ok := cv.(*ssa.Extract)
			if !ok || e.Index != 1 || v {
				return false
			}
			lk, ok := e.Tuple.(*ssa.Lookup)
			return ok && lk.Index == ssa.Value(sweep.Params[0]) && markedSet != nil && mapRoot(lk.X) == markedSet
		})
		r.Check(argOK && miss, "R14.4", "dawn.(*Project).GC$sweep#removes-unmarked-walk-entry", p.InstrPos(c.(ssa.Instruction)), "removes exactly the walked path, and only when it is not in the marked set", "the sweep removes something other than an unmarked walked path")
	}
	okWalk := false
	for _, c := range core.Calls(sweepHost) {
		if core.IsCallTo(c, "path/filepath", "WalkDir") || core.IsCallTo(c, "path/filepath", "Walk") {
			if core.LoadOfField(c.Common().Args[0], pkgRoot, "Project", "work") {
				cb := core.Unwrap(c.Common().Args[1])
				if ld, ok := cb.(*ssa.UnOp); ok && ld.Op == token.MUL {
					if sv := core.SingleStore(ld.X); sv != nil {
						cb = core.Unwrap(sv)
					}
				}
				if mc, ok := cb.(*ssa.MakeClosure); ok && mc.Fn == sweep {
					okWalk = true
				}
			}
		}
	}
	r.Check(okWalk, "R14.4", "dawn.(*Project).GC#walk-root", p.Pos(gc.Pos()), "the sweep walks Project.work (the build-state directory) only", "the sweep does not walk exactly the build-state directory: files outside it can be removed")
}

// checkIndexDerivedBounds implements R12.5: in package label, every string slice whose bound is derived from a
// strings.Index*/LastIndex* result on that same string is in range: bound = r + k with 0 <= k <= len(sep) under the
// fact r != -1 (or the bound is the "r, else len(s)" phi). Bounds of other shapes (the lazybuf loops of Clean) are
// reported as information: they need relational loop invariants and are not decided.
func checkIndexDerivedBounds(p *core.Prog, r *core.Result) {
	sp := p.Pkg("label")
	if sp == nil {
		r.Unk("R12.5", "anchor:label", "-", "package label not found")
		return
	}
	zoneCache := map[*ssa.Function]*core.ZoneResult{}
	zoneProved := func(in ssa.Instruction) bool {
		fn := in.Parent()
		res, ok := zoneCache[fn]
		if !ok {
			res = p.ZoneAnalyze(fn)
			zoneCache[fn] = res
		}
		if res == nil {
			return false
		}
		for _, s := range res.Sites {
			if s.Instr == in {
				return s.Proved
			}
		}
		return false
	}
	type idx struct {
		call *ssa.Call
		on   ssa.Value
		max  int64 // largest k such that r+k <= len(s)
	}
	asIndex := func(v ssa.Value) *idx {
		c, ok := v.(*ssa.Call)
		if !ok {
			return nil
		}
		cal := core.Callee(c)
		if cal == nil {
			return nil
		}
		switch core.CalleeKey(cal) {
		case "strings.IndexByte", "strings.LastIndexByte", "strings.IndexRune":
			return &idx{c, c.Call.Args[0], 1}
		case "strings.Index", "strings.LastIndex":
			if s, ok := core.ConstString(c.Call.Args[1]); ok {
				return &idx{c, c.Call.Args[0], int64(len(s))}
			}
		}
		return nil
	}
	nOK, nInfo := 0, 0
	for _, fn := range p.ModuleFuncs() {
		if fn.Pkg != sp {
			continue
		}
		cnt := 0
		core.Instrs(fn, func(in ssa.Instruction) {
			sl, ok := in.(*ssa.Slice)
			if !ok {
				return
			}
			if b, isStr := sl.X.Type().Underlying().(*types.Basic); !isStr || b.Info()&types.IsString == 0 {
				return
			}
			for bi, bound := range []ssa.Value{sl.Low, sl.High} {
				which := []string{"low", "high"}[bi]
				if bound == nil {
					continue
				}
				cnt++
				construct := fmt.Sprintf("%s#slice-bound-%d:%s", fname(fn), cnt, which)
				k := int64(0)
				base := bound
				if bo, ok := bound.(*ssa.BinOp); ok && bo.Op == token.ADD {
					if c, ok := core.ConstInt(bo.Y); ok {
						k, base = c, bo.X
					}
				}
				// the "r, else len(s)" phi
				if ph, ok := base.(*ssa.Phi); ok && k == 0 {
					okPhi := len(ph.Edges) > 0
					for _, e := range ph.Edges {
						if ix := asIndex(e); ix != nil && ix.on == sl.X {
							continue
						}
						if c, ok := e.(*ssa.Call); ok {
							if bi, ok := c.Call.Value.(*ssa.Builtin); ok && bi.Name() == "len" && c.Call.Args[0] == sl.X {
								continue
							}
						}
						okPhi = false
					}
					// the -1 edge must have been replaced: the index edge carries r != -1
					if okPhi {
						efs := p.PhiEdgeFacts(ph)
						for i, e := range ph.Edges {
							if ix := asIndex(e); ix != nil {
								nonNeg := efs[i].Find(func(c ssa.Value, v bool) bool {
									b, ok := c.(*ssa.BinOp)
									if !ok || b.X != ssa.Value(ix.call) {
										return false
									}
									kk, okk := core.ConstInt(b.Y)
									return okk && kk == -1 && ((b.Op == token.EQL && !v) || (b.Op == token.NEQ && v))
								})
								if !nonNeg {
									okPhi = false
								}
							}
						}
					}
					if okPhi {
						nOK++
						r.OK("R12.5", construct, p.InstrPos(sl), "bound is the index found, or len(s) when nothing was found")
						continue
					}
				}
				// (r-or-len phi) + 1 under the fact phi < len(s)
				if ph, ok := base.(*ssa.Phi); ok && k == 1 {
					lt := holds(p, sl, true, func(c ssa.Value) bool {
						b, ok := c.(*ssa.BinOp)
						if !ok || b.Op != token.LSS || b.X != ssa.Value(ph) {
							return false
						}
						ln, ok := b.Y.(*ssa.Call)
						if !ok {
							return false
						}
						bi, ok := ln.Call.Value.(*ssa.Builtin)
						return ok && bi.Name() == "len" && ln.Call.Args[0] == sl.X
					})
					if lt {
						nOK++
						r.OK("R12.5", construct, p.InstrPos(sl), "bound = i+1 under the fact i < len(s)")
						continue
					}
					// is it the "index, else len(s)" phi? then +1 without i < len(s) overruns when nothing was found
					for _, e := range ph.Edges {
						if c, ok := e.(*ssa.Call); ok {
							if bi, ok := c.Call.Value.(*ssa.Builtin); ok && bi.Name() == "len" && c.Call.Args[0] == sl.X {
								if zoneProved(sl) {
									nOK++
									r.OK("R12.5", construct, p.InstrPos(sl), "in range (established by the interval analysis of R12.7; the pattern of this rule does not apply)")
									continue
								}
								r.Bad("R12.5", construct, p.InstrPos(sl), "bound = i+1 where i may be len(s) (no separator found) and i < len(s) is not established: parsing such a string panics")
								return
							}
						}
					}
				}
				ix := asIndex(base)
				if ix == nil || ix.on != sl.X {
					nInfo++
					r.Note("R12.5", construct, p.InstrPos(sl), "bound is not derived from an Index* result on the sliced string: not decided (needs a relational invariant)")
					continue
				}
				found := holds(p, sl, true, func(c ssa.Value) bool {
					b, ok := c.(*ssa.BinOp)
					kk, okk := int64(0), false
					if ok {
						kk, okk = core.ConstInt(b.Y)
					}
					return ok && b.X == ssa.Value(ix.call) && b.Op == token.NEQ && okk && kk == -1
				}) || holds(p, sl, false, func(c ssa.Value) bool {
					b, ok := c.(*ssa.BinOp)
					kk, okk := int64(0), false
					if ok {
						kk, okk = core.ConstInt(b.Y)
					}
					return ok && b.X == ssa.Value(ix.call) && b.Op == token.EQL && okk && kk == -1
				})
				if found && k >= 0 && k <= ix.max {
					nOK++
					r.OK("R12.5", construct, p.InstrPos(sl), "bound = index+%d with the index known to be found (0 <= %d <= %d)", k, k, ix.max)
				} else {
					if zoneProved(sl) {
						nOK++
						r.OK("R12.5", construct, p.InstrPos(sl), "in range (established by the interval analysis of R12.7; the pattern of this rule does not apply)")
						continue
					}
					r.Bad("R12.5", construct, p.InstrPos(sl), "bound = index%+d of a %s result (found-ness established: %v; admissible offset 0..%d): for some label strings the slice bound is out of range and parsing panics", k, core.CalleeKey(core.Callee(ix.call)), found, ix.max)
				}
			}
		})
	}
	r.Floor("R12.5", nOK, 2, "index-derived slice bounds in package label")
	r.Analysed["label_bounds_not_decided"] = nInfo
}

// checkCanonicalByConstruction implements R12.6: every value stored into Label.Package anywhere in the module is
// canonical by construction: the result of label.Clean / label.Join (which ends in Clean), another label's Package,
// "" or "//", or a parameter that all static callers fill with such values.
func checkCanonicalByConstruction(p *core.Prog, r *core.Result) {
	var canonical func(v ssa.Value, depth int, seen map[ssa.Value]bool) (bool, string)
	canonical = func(v ssa.Value, depth int, seen map[ssa.Value]bool) (bool, string) {
		v = core.Unwrap(v)
		if seen[v] {
			return true, "" // loop-carried value: decided by the other incoming values
		}
		seen[v] = true
		if depth > 6 {
			return false, "derivation too deep"
		}
		if s, ok := core.ConstString(v); ok {
			if s == "" || s == "//" {
				return true, ""
			}
			return false, fmt.Sprintf("the constant %q", s)
		}
		switch x := v.(type) {
		case *ssa.Extract:
			if c, ok := x.Tuple.(*ssa.Call); ok && x.Index == 0 {
				if core.IsCallTo(c, pkgLabel, "Clean") || core.IsCallTo(c, pkgLabel, "Join") {
					return true, ""
				}
				if cal := core.Callee(c); cal != nil {
					return false, "a result of " + core.CalleeKey(cal)
				}
			}
		case *ssa.UnOp:
			if x.Op == token.MUL {
				if core.IsField(x.X, pkgLabel, "Label", "Package") {
					return true, "" // another label's package (canonical by this same rule)
				}
			}
		case *ssa.Field:
			if core.IsField(x, pkgLabel, "Label", "Package") {
				return true, ""
			}
		case *ssa.Phi:
			for _, e := range x.Edges {
				if ok, why := canonical(e, depth+1, seen); !ok {
					return false, why
				}
			}
			return true, ""
		case *ssa.Parameter:
			fn := x.Parent()
			idx := paramIndex(fn, x)
			callers := p.StaticCallers(fn)
			if len(callers) == 0 || len(p.FuncValueUses(fn)) > 0 {
				return false, "the parameter " + x.Name() + " of " + fname(fn) + " (callers unknown)"
			}
			for _, c := range callers {
				args := c.Common().Args
				if idx >= len(args) {
					return false, "a variadic argument"
				}
				if ok, why := canonical(args[idx], depth+1, seen); !ok {
					return false, why
				}
			}
			return true, ""
		case *ssa.BinOp:
			if x.Op == token.ADD {
				return false, "a string concatenation (not cleaned afterwards)"
			}
		case *ssa.Call:
			// label.Parent returns a prefix of its argument that ends before a '/' (or the bare "//" / ""): canonical
			// whenever the argument is
			if core.IsCallTo(x, pkgLabel, "Parent") {
				return canonical(x.Call.Args[0], depth+1, seen)
			}
			if cal := core.Callee(x); cal != nil {
				return false, "the result of " + core.CalleeKey(cal)
			}
		}
		return false, "a value of unknown origin (" + v.String() + ")"
	}
	n := 0
	perFn := map[string]int{}
	for _, fn := range p.ModuleFuncs() {
		core.Instrs(fn, func(in ssa.Instruction) {
			st, ok := in.(*ssa.Store)
			if !ok || !core.IsField(st.Addr, pkgLabel, "Label", "Package") {
				return
			}
			n++
			perFn[fname(fn)]++
			construct := fmt.Sprintf("%s#Label.Package-%d", fname(fn), perFn[fname(fn)])
			ok, why := canonical(st.Val, 0, map[ssa.Value]bool{})
			if ok {
				r.OK("R12.6", construct, p.InstrPos(st), "the package stored in this label is canonical by construction (Clean/Join result, another label's package, \"\" or \"//\")")
			} else {
				r.Bad("R12.6", construct, p.InstrPos(st), "a label's package is set from %s without passing through label.Clean/Join: the label can be non-canonical (e.g. \"///docs\"), so it prints differently from the equal label \"//docs\" and does not survive print + parse", why)
			}
		})
	}
	r.Floor("R12.6", n, 3, "assignments of Label.Package in the module")

	checkCleanResultsFromScanner(p, r, "R12.11")
	checkRequirementPathsNormalised(p, r, "R12.12")

	// ---- R12.10 names
	var valid func(v ssa.Value, depth int, seen map[ssa.Value]bool) (bool, string)
	valid = func(v ssa.Value, depth int, seen map[ssa.Value]bool) (bool, string) {
		v = core.Unwrap(v)
		if seen[v] {
			return true, ""
		}
		seen[v] = true
		if depth > 6 {
			return false, "derivation too deep"
		}
		if s, ok := core.ConstString(v); ok {
			if strings.ContainsAny(s, ":/") {
				return false, fmt.Sprintf("the constant %q", s)
			}
			return true, ""
		}
		switch x := v.(type) {
		case *ssa.UnOp:
			if x.Op == token.MUL && core.IsField(x.X, pkgLabel, "Label", "Name") {
				return true, ""
			}
		case *ssa.Field:
			if core.IsField(x, pkgLabel, "Label", "Name") {
				return true, ""
			}
		case *ssa.Phi:
			for _, e := range x.Edges {
				if ok, why := valid(e, depth+1, seen); !ok {
					return false, why
				}
			}
			return true, ""
		case *ssa.Parameter:
			fn := x.Parent()
			idx := paramIndex(fn, x)
			callers := p.StaticCallers(fn)
			if len(callers) == 0 || len(p.FuncValueUses(fn)) > 0 {
				return false, "the parameter " + x.Name() + " of " + fname(fn) + " (callers unknown)"
			}
			for _, c := range callers {
				args := c.Common().Args
				if idx >= len(args) {
					return false, "a variadic argument"
				}
				if ok, why := valid(args[idx], depth+1, seen); !ok {
					return false, "the parameter " + x.Name() + " of " + fname(fn) + ", which receives " + why
				}
			}
			return true, ""
		case *ssa.Call:
			if cal := core.Callee(x); cal != nil {
				return false, "the result of " + core.CalleeKey(cal)
			}
		}
		return false, "a string that was not validated (" + v.String() + ")"
	}
	nn := 0
	perFnN := map[string]int{}
	for _, fn := range p.ModuleFuncs() {
		if fn.Pkg != nil && fn.Pkg.Pkg.Path() == pkgLabel {
			continue // the constructors themselves: R12.9 decides their validation
		}
		core.Instrs(fn, func(in ssa.Instruction) {
			st, ok := in.(*ssa.Store)
			if !ok || !core.IsField(st.Addr, pkgLabel, "Label", "Name") {
				return
			}
			nn++
			perFnN[fname(fn)]++
			construct := fmt.Sprintf("%s#Label.Name-%d", fname(fn), perFnN[fname(fn)])
			ok, why := valid(st.Val, 0, map[ssa.Value]bool{})
			if ok {
				r.OK("R12.10", construct, p.InstrPos(st), "the name stored in this label is a constant without ':' or '/', or another label's name")
			} else {
				r.Bad("R12.10", construct, p.InstrPos(st), "a label's name is set from %s without passing through label.New or label.Parse: a name containing ':' or '/' gives a label whose printed form parses to a different label (\"//pkg:test:unit\" is kind \"//pkg\", package \"test\", name \"unit\"), so the target cannot be named as a dependency, and a project loaded through the index knows it under another label - a collection then deletes its record", why)
			}
		})
	}
	r.Floor("R12.10", nn, 2, "assignments of Label.Name outside package label")
}

// lazybufSite: the index/slice site operates on a field of a lazybuf (b.s / b.buf) inside a method of lazybuf. These
// are the sites the zone analysis cannot decide: their safety is the invariant 0 <= w <= len(s) == len(buf), which
// holds because Clean (the only user) appends at most one byte per byte it has read - a relation between a heap
// field and a local of the caller. Confirmed by reading; excepted structurally (not by name or position).
func lazybufSite(fn *ssa.Function, in ssa.Instruction) bool {
	if fn.Signature.Recv() == nil || !strings.Contains(fn.Signature.Recv().Type().String(), "label.lazybuf") {
		return false
	}
	var seq ssa.Value
	switch x := in.(type) {
	case *ssa.Index:
		seq = x.X
	case *ssa.IndexAddr:
		seq = x.X
	case *ssa.Slice:
		seq = x.X
	}
	return seq != nil && (core.LoadOfField(seq, pkgLabel, "lazybuf", "s") || core.LoadOfField(seq, pkgLabel, "lazybuf", "buf"))
}

// checkLabelBounds implements R12.7.
func checkLabelBounds(p *core.Prog, r *core.Result) {
	lp := p.Pkg("label")
	if lp == nil {
		r.Unk("R12.7", "anchor:label", "-", "package label not found")
		return
	}
	n, nProved := 0, 0
	for _, fn := range p.ModuleFuncs() {
		if fn.Pkg != lp || fn.Blocks == nil {
			continue
		}
		res := p.ZoneAnalyze(fn)
		if res == nil {
			continue
		}
		cnt := map[string]int{}
		short := strings.Replace(fname(fn), core.ModulePath+"/", "", 1)
		for _, s := range res.Sites {
			n++
			expr := s.Expr
			if expr == "" {
				expr = "<" + s.Kind + " without source expression>"
			}
			key := short + "|" + expr
			cnt[key]++
			construct := fmt.Sprintf("%s#%s:%s", short, s.Kind, expr)
			if cnt[key] > 1 {
				construct += fmt.Sprintf("#%d", cnt[key])
			}
			switch {
			case s.Proved && s.Dead:
				nProved++
				r.OK("R12.7", construct, p.InstrPos(s.Instr), "unreachable under the branch facts")
			case s.Proved:
				nProved++
				how := "in range on every path"
				if s.Partitioned {
					how += " (by case analysis over the edges of a dominating merge block)"
				}
				r.OK("R12.7", construct, p.InstrPos(s.Instr), how)
			default:
				if lazybufSite(fn, s.Instr) {
					r.Note("R12.7", construct, p.InstrPos(s.Instr), "not decided by the analysis (%s); accepted by reading: lazybuf's invariant 0 <= w <= len(s) == len(buf) holds because Clean appends at most one byte per byte read", s.Missing)
					continue
				}
				r.Unk("R12.7", construct, p.InstrPos(s.Instr), "cannot show %s: for some label string this expression may be out of range and parsing panics", s.Missing)
			}
		}
	}
	r.Floor("R12.7", nProved, 20, "index/slice expressions of package label proved in range")
	r.Analysed["label_index_sites"] = n
	r.Analysed["label_index_sites_proved"] = nProved
}

// checkCleanSeparators implements R12.8. In label.Clean the bytes of the result are produced by calls of the
// lazybuf's append: the constant '/' is a separator, a byte read from the input is an element byte. Apart from the
// two leading slashes of a rooted path (written before the loop), a separator must be followed by an element byte
// before the function returns (no trailing slash) and before the next separator (no doubled slash) - otherwise
// Clean(Clean(p)) != Clean(p) and two spellings of one package give two labels. Path feasibility is decided by the
// zone analysis (e.g. "the element loop runs at least once because pkg[r] is neither '/' nor ':' here").
func checkCleanSeparators(p *core.Prog, r *core.Result) {
	clean := p.Func("label", "", "Clean")
	if clean == nil {
		r.Unk("R12.8", "anchor:label.Clean", "-", "not found")
		return
	}
	isAppend := func(in ssa.Instruction) (*ssa.Call, bool) {
		c, ok := in.(*ssa.Call)
		if !ok {
			return nil, false
		}
		cal := core.Callee(c)
		if cal == nil || cal.Signature.Recv() == nil || !strings.Contains(cal.Signature.Recv().Type().String(), "lazybuf") || len(c.Call.Args) != 2 {
			return nil, false
		}
		// the method that writes one byte: by role, the one taking a byte
		if b, ok := c.Call.Args[1].Type().Underlying().(*types.Basic); !ok || (b.Kind() != types.Byte && b.Kind() != types.Uint8) {
			return nil, false
		}
		return c, true
	}
	isSep := func(in ssa.Instruction) bool {
		c, ok := isAppend(in)
		if !ok {
			return false
		}
		k, isConst := core.ConstInt(c.Call.Args[1])
		return isConst && k == '/'
	}
	isElem := func(in ssa.Instruction) bool {
		c, ok := isAppend(in)
		if !ok {
			return false
		}
		_, isConst := c.Call.Args[1].(*ssa.Const)
		return !isConst
	}
	isEnd := func(in ssa.Instruction) bool {
		if ret, ok := in.(*ssa.Return); ok {
			// successful returns only (an error return discards the buffer)
			vals := core.RetVals(ret)
			return len(vals) == 2 && core.IsNilConst(vals[1])
		}
		return isSep(in)
	}
	n, nElem := 0, 0
	core.Instrs(clean, func(in ssa.Instruction) {
		if isElem(in) {
			nElem++
		}
	})
	core.Instrs(clean, func(in ssa.Instruction) {
		if !isSep(in) || !core.Reaches(in.Block(), in.Block(), false) {
			return // the root slashes are written before the loop
		}
		n++
		construct := fmt.Sprintf("label.Clean#separator-%d", n)
		hits, ok := p.ZoneReach(in, isElem, isEnd)
		if !ok {
			r.Unk("R12.8", construct, p.InstrPos(in), "function too large for the path analysis")
			return
		}
		if len(hits) == 0 {
			r.OK("R12.8", construct, p.InstrPos(in), "every feasible path from this separator writes an element byte before the next separator or a successful return")
			return
		}
		what := "a successful return"
		if _, isRet := hits[0].(*ssa.Return); !isRet {
			what = "another separator"
		}
		r.Bad("R12.8", construct, p.InstrPos(in), "after this separator, %s (%s) can be reached without any element byte in between: Clean can return a package that ends in '/' or contains '//' (e.g. for an input ending in two slashes), which is not a fixed point of Clean - the label prints differently from the equal label and re-parses to another one", what, p.InstrPos(hits[0]))
	})
	r.Floor("R12.8", n, 1, "separators written inside Clean's loop")
	r.Floor("R12.8", nElem, 1, "element bytes written by Clean")
}

// checkNewValidation implements R12.9: the delimiter characters of the printed form are tested for in every component
// that label.New receives separately. (Parse needs fewer tests: its name is "everything after the last colon".)
func checkNewValidation(p *core.Prog, r *core.Result) {
	nw := p.Func("label", "", "New")
	if nw == nil {
		r.Unk("R12.9", "anchor:label.New", "-", "not found")
		return
	}
	// characters tested against a value: strings.ContainsAny/ContainsRune/Contains/IndexByte/IndexAny/IndexRune with
	// constant second argument, on the parameter itself or on the parameter of a helper it is handed to
	var tested func(fn *ssa.Function, prm *ssa.Parameter, depth int) map[rune]bool
	tested = func(fn *ssa.Function, prm *ssa.Parameter, depth int) map[rune]bool {
		out := map[rune]bool{}
		for _, c := range core.Calls(fn) {
			args := c.Common().Args
			cal := core.Callee(c)
			if cal == nil {
				continue
			}
			if cal.Pkg != nil && cal.Pkg.Pkg.Path() == "strings" && len(args) == 2 && args[0] == ssa.Value(prm) {
				switch cal.Name() {
				case "ContainsAny", "IndexAny", "Contains", "Index":
					if k, ok := core.ConstString(args[1]); ok {
						if cal.Name() == "Contains" || cal.Name() == "Index" {
							if len([]rune(k)) != 1 {
								continue
							}
						}
						for _, ch := range k {
							out[ch] = true
						}
					}
				case "ContainsRune", "IndexRune", "IndexByte":
					if k, ok := core.ConstInt(args[1]); ok {
						out[rune(k)] = true
					}
				}
			}
			if core.InModule(cal) && cal.Blocks != nil && cal.Pkg == fn.Pkg && depth < 2 {
				for i, a := range args {
					if a == ssa.Value(prm) && i < len(cal.Params) {
						for ch := range tested(cal, cal.Params[i], depth+1) {
							out[ch] = true
						}
					}
				}
			}
		}
		return out
	}
	want := map[string]string{"kind": ":/", "project": ":", "name": ":/"}
	n := 0
	for _, prm := range nw.Params {
		w, ok := want[prm.Name()]
		if !ok {
			continue
		}
		n++
		got := tested(nw, prm, 0)
		var missing []string
		for _, ch := range w {
			if !got[ch] {
				missing = append(missing, fmt.Sprintf("%q", string(ch)))
			}
		}
		construct := "label.New#validates-" + prm.Name()
		r.Check(len(missing) == 0, "R12.9", construct, p.Pos(nw.Pos()), fmt.Sprintf("the %s is tested for %q", prm.Name(), w), fmt.Sprintf("the %s handed to New is not tested for %s: a label is accepted whose printed form has an extra delimiter, so it does not parse or parses to a different label (New(\"\", \"\", \"//a\", \"b:c\") prints //a:b:c, which reads back as kind //a, package b, name c); source files and flags get such labels from user input", prm.Name(), strings.Join(missing, ", ")))
	}
	r.Floor("R12.9", n, 3, "separately supplied components of label.New")
	// the project of a printed label ends where the first "//" begins: New must refuse a project that contains "//" or
	// ends in "/" (substring and suffix tests with constant operands, on the parameter or in a helper it is handed to)
	var subTests func(fn *ssa.Function, prm *ssa.Parameter, depth int) (contains, suffix map[string]bool)
	subTests = func(fn *ssa.Function, prm *ssa.Parameter, depth int) (map[string]bool, map[string]bool) {
		contains, suffix := map[string]bool{}, map[string]bool{}
		for _, c := range core.Calls(fn) {
			args := c.Common().Args
			cal := core.Callee(c)
			if cal == nil {
				continue
			}
			if cal.Pkg != nil && cal.Pkg.Pkg.Path() == "strings" && len(args) == 2 && args[0] == ssa.Value(prm) {
				if k, ok := core.ConstString(args[1]); ok {
					switch cal.Name() {
					case "Contains", "Index":
						contains[k] = true
					case "HasSuffix":
						suffix[k] = true
					}
				}
			}
			if core.InModule(cal) && cal.Blocks != nil && cal.Pkg == fn.Pkg && depth < 2 {
				for i, a := range args {
					if a == ssa.Value(prm) && i < len(cal.Params) {
						c2, s2 := subTests(cal, cal.Params[i], depth+1)
						for k := range c2 {
							contains[k] = true
						}
						for k := range s2 {
							suffix[k] = true
						}
					}
				}
			}
		}
		return contains, suffix
	}
	for _, prm := range nw.Params {
		if prm.Name() != "project" {
			continue
		}
		contains, suffix := subTests(nw, prm, 0)
		r.Check(contains["//"] && suffix["/"], "R12.9", "label.New#validates-project-boundary", p.Pos(nw.Pos()), "the project is refused if it contains \"//\" or ends in \"/\"", "the project handed to New is not tested for \"//\" inside it and \"/\" at its end: Parse takes everything before the first \"//\" as the project, so New(\"\", \"a//b\", \"//c\", \"n\") is accepted, prints a//b//c:n and reads back as project a, package //b/c")
	}
}

// checkIndexComplete implements R14.7.
func checkIndexComplete(p *core.Prog, r *core.Result) {
	li := need(p, r, "R14.7", "", "Project", "loadIndex")
	si := need(p, r, "R14.7", "", "Project", "saveIndex")
	if li == nil || si == nil {
		return
	}
	// loopComplete: every iteration of the loop whose body contains `site` executes site or leaves the function
	loopComplete := func(fn *ssa.Function, site ssa.Instruction) (bool, bool) {
		sb := site.Block()
		if !core.Reaches(sb, sb, false) {
			return false, false
		}
		// the innermost loop header around the site: a dominator of its block that is the target of a back edge from
		// a block the site's block reaches
		var header *ssa.BasicBlock
		for b := sb; b != nil && header == nil; b = b.Idom() {
			for _, t := range b.Preds {
				if b.Dominates(t) && (t == sb || core.Reaches(sb, t, true)) {
					header = b
				}
			}
		}
		if header == nil {
			return false, true
		}
		for _, sc := range header.Succs {
			if !core.Reaches(sc, sb, true) && sc != sb {
				continue // the exit edge
			}
			// from the body entry, can the header be reached again without executing the site?
			if core.BlockReachesAvoiding(sc, header.Instrs[0], func(in ssa.Instruction) bool { return in == site }) {
				return false, true
			}
		}
		return true, true
	}
	// loadIndex: registration = MapUpdate into Project.targets
	nReg := 0
	core.Instrs(li, func(in ssa.Instruction) {
		mu, ok := in.(*ssa.MapUpdate)
		if !ok || !core.LoadOfField(mu.Map, pkgRoot, "Project", "targets") {
			return
		}
		nReg++
		ok2, inLoop := loopComplete(li, mu)
		overIndex := core.DependsOn(mu.Key, core.SliceOpts{Stores: true, ThroughCall: func(*ssa.Call) bool { return true }}, func(v ssa.Value) bool {
			return core.IsField(v, pkgRoot, "index", "Targets")
		})
		r.Check(ok2 && inLoop && overIndex, "R14.7", "dawn.(*Project).loadIndex#registers-every-listed-target", p.InstrPos(mu), "every entry of the index is registered (or the load fails)", "loadIndex can skip entries of the index (a filter in its loop): a project loaded through the index - as the collector's is - then lacks targets or sources that exist, the collection does not mark their records and deletes them, and the next build re-executes them and everything that depends on them")
	})
	r.Floor("R14.7", nReg, 1, "registrations in loadIndex")
	// saveIndex (or a helper it calls): the list of target summaries is appended to inside the range over
	// Project.targets
	nApp := 0
	for h := range staticClosure(p, si) {
		if h.Pkg != si.Pkg {
			continue
		}
		core.Instrs(h, func(in ssa.Instruction) {
			call, ok := in.(*ssa.Call)
			if !ok {
				return
			}
			b, isB := call.Call.Value.(*ssa.Builtin)
			if !isB || b.Name() != "append" || len(call.Call.Args) != 2 {
				return
			}
			sl, ok := call.Type().Underlying().(*types.Slice)
			if !ok {
				return
			}
			if n, ok := sl.Elem().(*types.Named); !ok || n.Obj().Name() != "TargetSummary" {
				return
			}
			nApp++
			ok2, inLoop := loopComplete(h, call)
			var rg *ssa.Range
			core.Instrs(h, func(x ssa.Instruction) {
				if y, ok := x.(*ssa.Range); ok && core.LoadOfField(y.X, pkgRoot, "Project", "targets") {
					rg = y
				}
			})
			r.Check(ok2 && inLoop && rg != nil, "R14.7", "dawn.(*Project).saveIndex#lists-every-target", p.InstrPos(call), "every entry of Project.targets is listed in the index", "saveIndex can leave entries of Project.targets out of the index (a filter in its loop): a collection that loads the project through the index does not know them and deletes their records")
		})
	}
	r.Floor("R14.7", nApp, 1, "appends to index.Targets in saveIndex")
}

// tableStrings: v is an element read in a loop over a string table that is written out in the function (a slice or
// array literal of constants); the constants of the table.
func tableStrings(v ssa.Value) []string {
	ld, ok := core.Unwrap(v).(*ssa.UnOp)
	if !ok || ld.Op != token.MUL {
		return nil
	}
	ia, ok := ld.X.(*ssa.IndexAddr)
	if !ok {
		return nil
	}
	if _, isConst := core.ConstInt(ia.Index); isConst {
		return nil
	}
	base := ia.X
	if sl, isSlice := base.(*ssa.Slice); isSlice {
		base = sl.X
	}
	arr, ok := base.(*ssa.Alloc)
	if !ok {
		return nil
	}
	var out []string
	for _, ref := range *arr.Referrers() {
		ea, ok := ref.(*ssa.IndexAddr)
		if !ok {
			continue
		}
		if _, isConst := core.ConstInt(ea.Index); !isConst {
			continue
		}
		for _, r2 := range *ea.Referrers() {
			if st, ok := r2.(*ssa.Store); ok && st.Addr == ssa.Value(ea) {
				s, isStr := core.ConstString(st.Val)
				if !isStr {
					return nil
				}
				out = append(out, s)
			}
		}
	}
	sort.Strings(out)
	return out
}

package rules

import (
	"fmt"
	"go/token"
	"go/types"
	"sort"
	"strings"

	"dawnverif/checker/core"

	"golang.org/x/tools/go/ssa"
)

func init() { register("C01", false, runC01) }

func runC01(p *core.Prog, r *core.Result) {
	r.Decided = []string{
		"R1.1 a target is skipped only under the conjunction: not forced, every dependency up to date, its own check says up to date, and no re-run is pending",
		"R1.2 a dependency counts as up to date only if it has a recorded stamp, did not change in this build, and its current stamp equals the recorded one",
		"R1.3 the stamp a target hands to its dependents depends on its dependencies' stamps (so that a re-executed dependency is visible after a partial build)",
		"R1.4 the content hash of a source directory covers entry names and is computed in a deterministic entry order",
		"R1.5 a function target is up to date only if forced-rerun is recorded, or its environment is unchanged and every declared output exists",
		"R1.6 generated files are linked to their generator on every full load, and a linked file depends on its generator",
		"R1.7 records are written only after a successful body; a failed body records a pending re-run",
		"R1.10 runTarget.changed is only ever set to true or to the result of the evaluation just performed, never reset: a target that executed keeps forcing its later dependents in the same process",
		"R1.9 a source file is reported up to date only on equality of its recorded sum with a hash of its current contents computed during that very check (no cache, size or modification-time shortcut in between)",
		"R1.12 every load builds its own target objects: what is registered in Project.targets is a runTarget allocated at the registration around a target object allocated by the registering function - never one carried over from an earlier load, whose snapshot of the persisted record is older than the record",
		"R1.13 a function's environment counts as unchanged only where starlark.EqualDepth/Equal of the whole recorded and the whole current environment reported equality (not an entry-by-entry walk over one side)",
		"R1.14 where the consumer of a source's content sum reads a 'does not exist' error as 'the source is missing' (empty sum), the directory hashing function never hands up such an error from one of its entries: every return of an entry's error is on the edge where os.IsNotExist / errors.Is(…, fs.ErrNotExist) is false - otherwise one dangling symbolic link makes the whole directory hash to the empty sum and no later edit in it is ever seen",
		"R1.16 the sum of a source directory covers the contents of every entry: whether an entry's contents are hashed does not depend on the kind the directory listing reports for it (fs.DirEntry.Type / IsDir / Info, os.Lstat do not follow symbolic links, so a kind test on them covers every link by its name alone: an edit behind a link or a re-pointed link leaves the sum unchanged)",
		"R1.17 an input that is taken away is a change too: Evaluate walks the dependencies the last execution recorded (targetInfo.Dependencies) and marks the dependencies out of date where one of them is not among the current ones - the function is handed its sources and dependencies, so after an entry is removed from sources=[...] (or a file glob() matched is deleted) the outputs would otherwise stay computed from the removed input",
		"R1.18 the code and values a function references are captured when they are final: the environment of a target function is not computed by code that runs while modules are executing (loadFunction, (*function).load, the builtins of build files such as target()) - a helper or constant defined below the target, or a list appended to after it, would be missing from both the compared and the recorded environment, so an edit to it is never noticed (C02's R2.5, extended to the builtins)",
		"R1.15 the code and values one function references are recorded for that function alone: every argument the host pickler builds for a value is computed from that value only (no captured or package-level table in its data flow) - an object shared between two closures is written once and completed in place by the unpickler, so the captured values of all but the last closure of a def vanish from the recorded environment and an edit to them is never seen (shared with C08 R8.6)",
		"R1.8 loading a target writes back the record read with every field but the documentation unchanged (type-driven, field by field): a failed target's pending re-run survives any number of loads that do not run it",
	}
	r.NotDecided = []string{"equality of the files produced with a from-scratch build for any particular history", "that the Starlark compiler's ModuleEnv captures everything a function can observe", "completeness of the environment (decided under C08 R8.5) and injectivity of the codec (decided under C07)"}
	m := buildEvalModel(p, r, "R1.0")
	if m == nil {
		return
	}
	// ---- R1.1 skip conjunction
	ups := m.Events["TargetUpToDate"]
	r.Floor("R1.1", len(ups), 1, "up-to-date (skip) sites")
	// staleness carriers: phis of the dependency loop that are "marked" (set to false / appended to) exactly when a
	// dependency is found out of date. The loop may live in Evaluate or in a helper it calls.
	carriers := findStalenessCarriers(m.DepsFn)
	isCarrier := func(v ssa.Value) (bool, string) {
		for _, c := range carriers {
			if v == ssa.Value(c.phi) {
				return true, c.kind
			}
		}
		return false, ""
	}
	// depsFresh: the fact says that no dependency was found out of date
	var depsFresh func(cond ssa.Value, val bool) bool
	depsFresh = func(cond ssa.Value, val bool) bool {
		// a verdict computed from the carrier (len(outOfDate) == 0, a helper's result) with further "out of date"
		// verdicts merged in behind it: a phi of such a value and constant false
		if ph, isPhi := core.Unwrap(cond).(*ssa.Phi); isPhi && val && !core.Reaches(ph.Block(), ph.Block(), false) {
			if ok, _ := isCarrier(ph); !ok {
				okAll, some := true, false
				for _, e := range ph.Edges {
					if b, isConst := core.ConstBool(e); isConst && !b {
						continue
					}
					if _, isConst := e.(*ssa.Const); !isConst && depsFresh(e, true) {
						some = true
						continue
					}
					okAll = false
				}
				if okAll && some {
					return true
				}
			}
		}
		var resolve func(x ssa.Value) (bool, string)
		resolve = func(x ssa.Value) (bool, string) {
			x = core.Unwrap(x)
			if ok, k := isCarrier(x); ok {
				return true, k
			}
			// the list of out-of-date dependencies with more appended behind the loop (removed dependencies): an
			// empty result still implies that the loop found none
			if c, isCall := x.(*ssa.Call); isCall {
				if b, isB := c.Call.Value.(*ssa.Builtin); isB && b.Name() == "append" {
					if ok, k := resolve(c.Call.Args[0]); ok && k == "slice" {
						return true, "slice"
					}
				}
			}
			if ph, isPhi := x.(*ssa.Phi); isPhi && !core.Reaches(ph.Block(), ph.Block(), false) {
				if _, isSlice := ph.Type().Underlying().(*types.Slice); isSlice {
					all := len(ph.Edges) > 0
					for _, e := range ph.Edges {
						if ok, k := resolve(e); !ok || k != "slice" {
							all = false
						}
					}
					if all {
						return true, "slice"
					}
				}
			}
			// the carrier with further "out of date" verdicts merged in after the loop (phi of the carrier and
			// constant false): fresh still implies that the loop found every dependency up to date
			if ph, isPhi := x.(*ssa.Phi); isPhi && !core.Reaches(ph.Block(), ph.Block(), false) {
				okAll, some := true, false
				for _, e := range ph.Edges {
					if b, isConst := core.ConstBool(e); isConst && !b {
						continue
					}
					if ok, k := isCarrier(core.Unwrap(e)); ok && k == "bool" {
						some = true
						continue
					}
					okAll = false
				}
				if okAll && some {
					return true, "bool"
				}
			}
			// a result of the dependency helper that is a carrier there
			if e, ok := x.(*ssa.Extract); ok && m.DepsSite != nil && e.Tuple == ssa.Value(m.DepsSite) {
				for _, ret := range core.ReturnsOf(m.DepsFn) {
					vals := core.RetVals(ret)
					if e.Index < len(vals) {
						if ok, k := resolve(vals[e.Index]); ok {
							return true, k
						}
					}
				}
			}
			return false, ""
		}
		if ok, k := resolve(cond); ok && k == "bool" {
			return val
		}
		b, ok := cond.(*ssa.BinOp)
		if !ok {
			return false
		}
		ln, ok := b.X.(*ssa.Call)
		if !ok {
			return false
		}
		bi, ok := ln.Call.Value.(*ssa.Builtin)
		if !ok || bi.Name() != "len" {
			return false
		}
		if ok, k := resolve(ln.Call.Args[0]); !ok || k != "slice" {
			return false
		}
		kk, okk := core.ConstInt(b.Y)
		if !okk || kk != 0 {
			return false
		}
		switch b.Op {
		case token.EQL, token.LEQ:
			return val
		case token.NEQ, token.GTR:
			return !val
		}
		return false
	}
	upToDate0 := extractOf(m.UpToDate, 0)
	for i, c := range ups {
		xs := xfacts(p, c)
		findX := func(pred func(f xfact) bool) bool {
			for _, f := range xs {
				if pred(f) {
					return true
				}
			}
			return false
		}
		atoms := map[string]bool{
			"not forced (Project.always is false)": findX(func(f xfact) bool { return !f.Val && projField(f.Cond, "always") }),
			"own check reports up to date":         findX(func(f xfact) bool { return f.Val && upToDate0 != nil && f.Arg(f.Cond) == upToDate0 }),
			"no re-run pending (info.Rerun false)": findX(func(f xfact) bool { return !f.Val && m.infoFieldX(f.Cond, "Rerun", f.Arg) }),
			"every dependency up to date":          findX(func(f xfact) bool { return depsFresh(f.Arg(f.Cond), f.Val) }),
		}
		var names []string
		for name := range atoms {
			names = append(names, name)
		}
		sort.Strings(names)
		for _, name := range names {
			ok := atoms[name]
			r.Check(ok, "R1.1", fmt.Sprintf("dawn.(*runTarget).Evaluate#skip-%d:%s", i+1, name), p.InstrPos(c), "the skip is guarded by: "+name, "a target can be skipped without: "+name+" — it is reported up to date although it must run")
		}
		// and the upToDate error was checked
		if e := extractOf(m.UpToDate, 3); e != nil {
			nn, known := p.FactsAt(c).ErrNonNil(e)
			r.Check(known && !nn, "R1.1", fmt.Sprintf("dawn.(*runTarget).Evaluate#skip-%d:check-succeeded", i+1), p.InstrPos(c), "the skip is on the nil-error edge of the up-to-date check", "a target can be skipped although its up-to-date check failed")
		}
	}

	// ---- R1.2 dependency atoms: on every edge that leaves a carrier unmarked, the three atoms hold
	if len(carriers) == 0 {
		r.Unk("R1.2", "dawn.(*runTarget).Evaluate#deps-accumulator", p.Pos(m.DepsFn.Pos()), "no staleness carrier (boolean accumulator or list of out-of-date dependencies) recognised in the dependency loop")
	} else {
		keep := 0
		for _, car := range carriers {
			acc := car.phi
			efs := p.PhiEdgeFacts(acc)
			for i, e := range acc.Edges {
				if car.marked(e) {
					continue // this edge marks the dependency out of date
				}
				if !core.Reaches(acc.Block(), acc.Block().Preds[i], true) {
					continue // loop entry (initial value)
				}
				keep++
				fs := xfactsOf(p, efs[i])
				find := func(pred func(c ssa.Value, v bool, arg func(ssa.Value) ssa.Value) bool) bool {
					for _, f := range fs {
						if pred(f.Cond, f.Val, f.Arg) {
							return true
						}
					}
					return false
				}
				hasRecord := find(func(c ssa.Value, v bool, arg func(ssa.Value) ssa.Value) bool {
					ex, ok := arg(c).(*ssa.Extract)
					if !ok || ex.Index != 1 || !v {
						return false
					}
					lk, ok := ex.Tuple.(*ssa.Lookup)
					return ok && m.recordedDepsX(lk.X, arg)
				})
				notChanged := find(func(c ssa.Value, v bool, arg func(ssa.Value) ssa.Value) bool {
					return !v && core.LoadOfField(c, pkgRoot, "runTarget", "changed")
				})
				sameStamp := find(func(c ssa.Value, v bool, arg func(ssa.Value) ssa.Value) bool {
					b, ok := c.(*ssa.BinOp)
					if !ok || (b.Op != token.NEQ && b.Op != token.EQL) || (b.Op == token.NEQ) == v {
						return false
					}
					isCur := func(x ssa.Value) bool { return core.LoadOfField(x, pkgRoot, "runTarget", "data") }
					isPrev := func(x ssa.Value) bool {
						ex, ok := arg(x).(*ssa.Extract)
						if !ok || ex.Index != 0 {
							return false
						}
						lk, ok := ex.Tuple.(*ssa.Lookup)
						return ok && m.recordedDepsX(lk.X, arg)
					}
					return isCur(b.X) && isPrev(b.Y) || isCur(b.Y) && isPrev(b.X)
				})
				for _, a := range []struct {
					name string
					ok   bool
				}{{"it has a recorded stamp", hasRecord}, {"it did not change in this build", notChanged}, {"its stamp equals the recorded one", sameStamp}} {
					r.Check(a.ok, "R1.2", fmt.Sprintf("%s#dep-up-to-date-%d:%s", fname(m.DepsFn), keep, a.name), p.InstrPos(acc), "a dependency is considered up to date only when "+a.name, "a dependency can be considered up to date without: "+a.name+" — dependents of a changed target are skipped")
				}
			}
		}
		r.Floor("R1.2", keep, 1, "edges on which a dependency is considered up to date")
		// the same dependency is looked up, compared and recorded: lookup key == MapUpdate key of depData
		okKey := false
		keyMatches := func(key ssa.Value) {
			core.Instrs(m.DepsFn, func(in2 ssa.Instruction) {
				if mu, ok := in2.(*ssa.MapUpdate); ok && mu.Map == m.DepData && mu.Key == key {
					okKey = true
				}
			})
		}
		core.Instrs(m.DepsFn, func(in ssa.Instruction) {
			if lk, ok := in.(*ssa.Lookup); ok && m.recordedDeps(lk.X) {
				keyMatches(lk.Index)
			}
			// the lookup may be performed by a helper predicate that is handed the record and the label
			call, ok := in.(*ssa.Call)
			if !ok {
				return
			}
			h := core.Callee(call)
			if h == nil || h.Blocks == nil || h.Pkg != m.DepsFn.Pkg {
				return
			}
			subst := map[ssa.Value]ssa.Value{}
			for i, prm := range h.Params {
				if i < len(call.Call.Args) {
					subst[prm] = call.Call.Args[i]
				}
			}
			arg := func(v ssa.Value) ssa.Value {
				if a, ok := subst[v]; ok {
					return a
				}
				if al, ok := v.(*ssa.Alloc); ok {
					for _, ref := range *al.Referrers() {
						if st, ok := ref.(*ssa.Store); ok && st.Addr == ssa.Value(al) {
							if a, ok := subst[st.Val]; ok {
								return a
							}
						}
					}
				}
				return v
			}
			core.Instrs(h, func(in2 ssa.Instruction) {
				if lk, ok := in2.(*ssa.Lookup); ok && m.recordedDepsX(lk.X, arg) {
					keyMatches(arg(lk.Index))
				}
			})
		})
		r.Check(okKey, "R1.2", fname(m.DepsFn)+"#dep-key", p.Pos(m.DepsFn.Pos()), "the recorded stamp is looked up under the same label under which the current stamp is recorded", "recorded and current stamps are keyed differently")
	}

	// ---- R1.3 stamp dependence (F8)
	checkStampDependsOnDeps(p, r, m, "R1.3")

	// ---- R1.4 directory hashing
	checkDirHash(p, r, "R1.4")

	// ---- R1.5 generated outputs
	checkFunctionUpToDate(p, r)

	// ---- R1.6 generator linking
	checkGeneratorLinking(p, r)

	// ---- R1.7
	checkRecordWrites(p, r, m, "R1.7", "R1.7")

	// ---- R1.8 a load preserves the record (a pending re-run survives loads that do not run the target)
	checkLoadRewritesRead(p, r, "R1.8")

	// ---- R1.10 "changed" is never taken back: a runTarget lives as long as its Project (REPL, run builtin), its
	// in-memory stamp is not refreshed after it executed, so the flag is what makes later dependents re-run
	nCh := 0
	for _, fn := range p.ModuleFuncs() {
		if fn.Pkg == nil || fn.Pkg.Pkg.Path() != pkgRoot {
			continue
		}
		core.Instrs(fn, func(in ssa.Instruction) {
			st, ok := in.(*ssa.Store)
			if !ok || !core.IsField(st.Addr, pkgRoot, "runTarget", "changed") {
				return
			}
			nCh++
			construct := fmt.Sprintf("%s#changed-store-%d", fname(fn), nCh)
			if b, isConst := core.ConstBool(st.Val); isConst {
				r.Check(b, "R1.10", construct, p.InstrPos(st), "sets changed", "the changed flag of a target is reset: on a Project that is used for several runs (REPL, run builtin) a dependency that executed in an earlier run hands later dependents its load-time stamp with changed=false, so a dependent outside the earlier run's closure is skipped although its dependency executed after it last ran")
				return
			}
			fromEval := m.Evaluate != nil && st.Val == extractOf(m.Evaluate, 1)
			if prm, isParam := st.Val.(*ssa.Parameter); isParam && m.Evaluate != nil && !fromEval {
				// a record helper (recordSuccess(…, changed, …)): every caller hands it true or the evaluation's result
				sites := p.StaticCallers(fn)
				i := paramIndex(fn, prm)
				fromEval = len(sites) > 0 && i >= 0
				for _, cs := range sites {
					if !fromEval || i >= len(cs.Common().Args) {
						fromEval = false
						break
					}
					a := cs.Common().Args[i]
					if b, isConst := core.ConstBool(a); isConst && b {
						continue
					}
					if a != extractOf(m.Evaluate, 1) {
						fromEval = false
					}
				}
			}
			r.Check(fromEval, "R1.10", construct, p.InstrPos(st), "takes the changed result of the evaluation just performed (always true on success, R13.2)", "the changed flag is assigned something other than true or the result of the evaluation just performed")
		})
	}
	r.Floor("R1.10", nCh, 1, "stores to runTarget.changed")

	// ---- R1.9 a source is compared by a fresh hash of its current contents
	checkSourceCompare(p, r, "R1.9")

	// ---- R1.11 lists handed to module code are not shared
	checkListsFresh(p, r, "R1.11")

	// ---- R1.13 the environment verdict is whole-value equality
	checkEnvVerdictWholeEquality(p, r, "R1.13")

	// ---- R1.15 each function's recorded environment is its own
	{
		var cases []pickleCase
		for _, pk := range funcsConvertedTo(p, pkgPickle, "PicklerFunc") {
			cases = append(cases, extractPicklerCases(p, pk)...)
		}
		checkPickledFromSubjectOnly(p, r, cases, "R1.15")
	}

	// ---- R1.14 a missing entry does not make its directory look missing
	checkDirEntryErrors(p, r, "R1.14")
	checkEntriesHashedWhateverTheirKind(p, r, "R1.16")
	checkRemovedDependenciesSeen(p, r, "R1.17")
	checkEnvNotDuringLoad(p, r, "R1.18", "both the compared and the recorded environment then lack what is defined below the target, so an edit to it is never noticed and the outputs stay stale")

	// ---- R1.12 every load builds its own target objects
	checkTargetsFreshPerLoad(p, r, "R1.12")
}

// checkTargetsFreshPerLoad implements R1.12: what is registered in Project.targets is a runTarget allocated at the
// registration, around a target object allocated by the same function (directly, or by a constructor that returns a
// new object on every path). Target objects snapshot the persisted record (and their own sums) when they load; one that
// is carried over from an earlier load - taken from another field of the Project, a pool, a package variable - decides
// "up to date" against a snapshot older than the record on disk.
func checkTargetsFreshPerLoad(p *core.Prog, r *core.Result, rule string) {
	var fresh func(v ssa.Value, depth int, seen map[ssa.Value]bool) bool
	fresh = func(v ssa.Value, depth int, seen map[ssa.Value]bool) bool {
		if seen[v] {
			return true
		}
		seen[v] = true
		switch x := v.(type) {
		case *ssa.Alloc:
			return true
		case *ssa.MakeInterface:
			return fresh(x.X, depth, seen)
		case *ssa.ChangeInterface:
			return fresh(x.X, depth, seen)
		case *ssa.Phi:
			for _, e := range x.Edges {
				if !fresh(e, depth, seen) {
					return false
				}
			}
			return len(x.Edges) > 0
		case *ssa.Call:
			allFresh := func(h *ssa.Function) bool {
				if h == nil || !core.InModule(h) || h.Blocks == nil || depth >= 2 {
					return false
				}
				rets := core.ReturnsOf(h)
				for _, ret := range rets {
					vals := core.RetVals(ret)
					if len(vals) == 0 || !fresh(vals[0], depth+1, map[ssa.Value]bool{}) {
						return false
					}
				}
				return len(rets) > 0
			}
			if prm, isPrm := x.Call.Value.(*ssa.Parameter); isPrm && !x.Call.IsInvoke() {
				// a constructor callback handed to a registration helper: every caller passes a function that builds a new object
				fn := prm.Parent()
				i := paramIndex(fn, prm)
				callers := p.StaticCallers(fn)
				if i < 0 || len(callers) == 0 || fn.Parent() != nil {
					return false
				}
				for _, c := range callers {
					if i >= len(c.Common().Args) {
						return false
					}
					var h *ssa.Function
					switch a := c.Common().Args[i].(type) {
					case *ssa.MakeClosure:
						h, _ = a.Fn.(*ssa.Function)
					case *ssa.Function:
						h = a
					}
					if !allFresh(h) {
						return false
					}
				}
				return true
			}
			return allFresh(core.Callee(x))
		case *ssa.UnOp:
			// a local (possibly captured) variable assigned in this function: every assignment here is a new object
			if x.Op != token.MUL {
				return false
			}
			switch x.X.(type) {
			case *ssa.FreeVar, *ssa.Alloc:
			default:
				return false
			}
			nSt, okAll := 0, true
			core.Instrs(x.Parent(), func(in ssa.Instruction) {
				if st, ok := in.(*ssa.Store); ok && st.Addr == x.X {
					nSt++
					if !fresh(st.Val, depth, seen) {
						okAll = false
					}
				}
			})
			return nSt > 0 && okAll
		case *ssa.Parameter:
			// a registration helper: every caller hands it a new object
			fn := x.Parent()
			i := paramIndex(fn, x)
			callers := p.StaticCallers(fn)
			if i < 0 || depth >= 2 || len(callers) == 0 || fn.Parent() != nil {
				return false
			}
			for _, c := range callers {
				if i >= len(c.Common().Args) || !fresh(c.Common().Args[i], depth+1, map[ssa.Value]bool{}) {
					return false
				}
			}
			return true
		case *ssa.Extract:
			if c, ok := x.Tuple.(*ssa.Call); ok && x.Index == 0 {
				h := core.Callee(c)
				if h == nil || !core.InModule(h) || h.Blocks == nil || depth >= 2 {
					return false
				}
				n := 0
				for _, ret := range core.ReturnsOf(h) {
					vals := core.RetVals(ret)
					if len(vals) == 0 {
						return false
					}
					if core.IsNilConst(vals[0]) {
						continue // the error return
					}
					n++
					if !fresh(vals[0], depth+1, map[ssa.Value]bool{}) {
						return false
					}
				}
				return n > 0
			}
		}
		return false
	}
	n := 0
	for _, fn := range p.ModuleFuncs() {
		if fn.Pkg == nil || fn.Pkg.Pkg.Path() != pkgRoot {
			continue
		}
		k := 0
		core.Instrs(fn, func(in ssa.Instruction) {
			mu, ok := in.(*ssa.MapUpdate)
			if !ok || !core.LoadOfField(mu.Map, pkgRoot, "Project", "targets") {
				return
			}
			n++
			k++
			construct := fmt.Sprintf("%s#registers-fresh-target-%d", fname(fn), k)
			rt, isAlloc := mu.Value.(*ssa.Alloc)
			if !isAlloc {
				r.Bad(rule, construct, p.InstrPos(mu), "the run state registered for a target is not allocated at the registration: a runTarget carried over from an earlier load keeps that load's changed flag and stamp")
				return
			}
			okTarget, nStores := true, 0
			for _, ref := range *rt.Referrers() {
				fa, ok := ref.(*ssa.FieldAddr)
				if !ok || !core.IsField(fa, pkgRoot, "runTarget", "target") {
					continue
				}
				for _, ref2 := range *fa.Referrers() {
					if st, ok := ref2.(*ssa.Store); ok && st.Addr == ssa.Value(fa) {
						nStores++
						if !fresh(st.Val, 0, map[ssa.Value]bool{}) {
							okTarget = false
						}
					}
				}
			}
			r.Check(okTarget && nStores > 0, rule, construct, p.InstrPos(mu), "the registered target object is allocated by the function that registers it", "the target object registered by this load is not created by it (it is taken from a map, a field or a pool): it carries the record snapshot and sums of an earlier load, so after the record on disk has moved on it reports itself up to date with the stale stamp and dependents that never ran against the new contents are skipped")
		})
	}
	r.Floor(rule, n, 2, "registrations in Project.targets")
}

// checkListsFresh implements R1.11. starlark.NewList does not copy its argument; the rule follows the backing array of
// the argument (append, re-slicing, phis, local cells) back to where it was allocated and forward to where it is kept.
func checkListsFresh(p *core.Prog, r *core.Result, rule string) {
	n := 0
	for _, fn := range p.ModuleFuncs() {
		k := 0
		for _, c := range core.Calls(fn) {
			if !core.IsCallTo(c, pkgStar, "NewList") || len(c.Common().Args) != 1 {
				continue
			}
			n++
			k++
			construct := fmt.Sprintf("%s#NewList-%d", fname(fn), k)
			// backward: where does the backing array come from?
			web := map[ssa.Value]bool{}
			shared := ""
			var back func(v ssa.Value, depth int)
			back = func(v ssa.Value, depth int) {
				if v == nil || web[v] || depth > 40 {
					return
				}
				web[v] = true
				switch x := v.(type) {
				case *ssa.Const, *ssa.MakeSlice:
				case *ssa.Phi:
					for _, e := range x.Edges {
						back(e, depth+1)
					}
				case *ssa.Slice:
					back(x.X, depth+1)
				case *ssa.ChangeType:
					back(x.X, depth+1)
				case *ssa.Convert:
					back(x.X, depth+1)
				case *ssa.Alloc:
					// an array literal / a local: fresh
				case *ssa.Call:
					if b, ok := x.Call.Value.(*ssa.Builtin); ok && b.Name() == "append" {
						back(x.Call.Args[0], depth+1)
						return
					}
					cal := core.Callee(x)
					if cal != nil && (core.CalleeKey(cal) == "slices.Clone" || core.CalleeKey(cal) == "slices.Sorted" || core.CalleeKey(cal) == "slices.Collect") {
						return
					}
					// a helper of the module that builds the slice: its returns are followed (the helper's parameters count
					// as the caller's slices)
					if cal != nil && core.InModule(cal) && cal.Blocks != nil && depth < 20 && cal.Signature.Results().Len() >= 1 {
						for _, ret := range core.ReturnsOf(cal) {
							for _, rv := range core.RetVals(ret) {
								if _, isSlice := rv.Type().Underlying().(*types.Slice); isSlice {
									back(rv, depth+10)
								}
							}
						}
						return
					}
					shared = "the result of a call (" + x.String() + ") whose backing array is not known to be private"
				case *ssa.UnOp:
					if x.Op != token.MUL {
						return
					}
					switch a := x.X.(type) {
					case *ssa.Alloc:
						for _, f := range core.WithAnons(core.Outer(a.Parent())) {
							core.Instrs(f, func(in ssa.Instruction) {
								if st, ok := in.(*ssa.Store); ok && st.Addr == ssa.Value(a) {
									back(st.Val, depth+1)
								}
							})
						}
					case *ssa.FreeVar:
						if b := core.Binding(a); b != nil {
							if al, ok := b.(*ssa.Alloc); ok {
								for _, f := range core.WithAnons(core.Outer(al.Parent())) {
									core.Instrs(f, func(in ssa.Instruction) {
										if st, ok := in.(*ssa.Store); ok && (st.Addr == ssa.Value(al) || core.SingleStore(st.Addr) == nil && isFreeVarOf(st.Addr, al)) {
											back(st.Val, depth+1)
										}
									})
								}
								return
							}
						}
						shared = "a captured variable that cannot be resolved"
					default:
						shared = "state that outlives the call (" + core.Path(x.X) + ")"
					}
				case *ssa.Extract:
					if lk, ok := x.Tuple.(*ssa.Lookup); ok {
						shared = "an entry of the map " + core.Path(lk.X)
						return
					}
					shared = "a component of " + x.Tuple.String()
				case *ssa.Lookup:
					shared = "an entry of the map " + core.Path(x.X)
				case *ssa.Parameter:
					shared = "the caller's slice " + x.Name()
				default:
					shared = "a value the rule cannot classify (" + v.String() + ")"
				}
			}
			back(c.Common().Args[0], 0)
			// forward: is any value of the web kept somewhere that outlives the call?
			kept := ""
			for v := range web {
				refs := v.Referrers()
				if refs == nil {
					continue
				}
				for _, ref := range *refs {
					switch x := ref.(type) {
					case *ssa.MapUpdate:
						if x.Value == v {
							kept = "stored into the map " + core.Path(x.Map)
						}
					case *ssa.Store:
						if x.Val != v {
							continue
						}
						switch a := x.Addr.(type) {
						case *ssa.Alloc:
						case *ssa.FreeVar:
							_ = a
						default:
							kept = "stored into " + core.Path(x.Addr)
						}
					}
				}
			}
			switch {
			case shared != "":
				r.Bad(rule, construct, p.InstrPos(c.(ssa.Instruction)), "the list handed to module code is backed by %s: starlark.NewList does not copy, so every list built from it shares one array - module code that extends or edits one of them in place (srcs += [...], srcs.remove(x)) rewrites the others, a source drops out of another target's declared sources, and editing that file no longer re-runs the target", shared)
			case kept != "":
				r.Bad(rule, construct, p.InstrPos(c.(ssa.Instruction)), "the slice backing the list handed to module code is also %s: the next list built from it shares the array, and an in-place edit by module code rewrites both - a source can silently drop out of a target's declared sources", kept)
			default:
				r.OK(rule, construct, p.InstrPos(c.(ssa.Instruction)), "backed by a slice built in this call and kept nowhere else")
			}
		}
	}
	r.Floor(rule, n, 3, "starlark.NewList calls in the module")
}

func isFreeVarOf(addr ssa.Value, cell *ssa.Alloc) bool {
	fv, ok := addr.(*ssa.FreeVar)
	return ok && core.Binding(fv) == ssa.Value(cell)
}

// provablyNonEmptyString: a non-empty constant, a concatenation with one, or fmt.Sprintf of a constant format that
// contains text outside its verbs.
func provablyNonEmptyString(v ssa.Value) bool {
	if s, ok := core.ConstString(v); ok {
		return s != ""
	}
	switch x := v.(type) {
	case *ssa.BinOp:
		if x.Op == token.ADD {
			return provablyNonEmptyString(x.X) || provablyNonEmptyString(x.Y)
		}
	case *ssa.Call:
		if core.IsCallTo(x, "fmt", "Sprintf") && len(x.Call.Args) > 0 {
			if f, ok := core.ConstString(x.Call.Args[0]); ok {
				// strip verbs: what remains is literal text
				lit := 0
				for i := 0; i < len(f); i++ {
					if f[i] == '%' {
						i++
						for i < len(f) && strings.ContainsRune("+-# 0123456789.[]*", rune(f[i])) {
							i++
						}
						if i < len(f) && f[i] == '%' {
							lit++
						}
						continue
					}
					lit++
				}
				return lit > 0
			}
		}
	}
	return false
}

// checkStampDependsOnDeps: R1.3.
func checkStampDependsOnDeps(p *core.Prog, r *core.Result, m *evalModel, rule string) {
	evalErr := extractOf(m.Evaluate, 2)
	var site ssa.CallInstruction // the record write under examination
	var depends func(v ssa.Value) bool
	dependsIn := func(v ssa.Value, depth int) bool { return false }
	dependsIn = func(v ssa.Value, depth int) bool {
		return core.DependsOn(v, core.SliceOpts{Stores: true, ThroughCall: func(c *ssa.Call) bool { return core.Callee(c) != nil }}, func(x ssa.Value) bool {
			// a parameter of the body helper stands for the argument Evaluate passes
			if prm, ok := x.(*ssa.Parameter); ok && m.BodySite != nil && prm.Parent() == m.BodyFn {
				if i := paramIndex(m.BodyFn, prm); i >= 0 && i < len(m.BodySite.Call.Args) {
					x = m.BodySite.Call.Args[i]
				}
			}
			// inside a record helper (recordSuccess(info, data, changed, depStamps)) a parameter stands for the argument at
			// the helper's call in Evaluate
			if prm, ok := x.(*ssa.Parameter); ok && site != nil && depth < 2 {
				if h := core.Callee(site); h != nil && h != m.Save && prm.Parent() == h {
					if i := paramIndex(h, prm); i >= 0 && i < len(site.Common().Args) && dependsIn(site.Common().Args[i], depth+1) {
						return true
					}
				}
			}
			if m.DepDataEv != nil && x == m.DepDataEv || m.DepData != nil && x == m.DepData {
				return true
			}
			// a dependency's stamp read from the results of EvaluateTargets
			if u, ok := x.(*ssa.UnOp); ok && u.Op == token.MUL {
				if fa, ok := u.X.(*ssa.FieldAddr); ok && core.IsField(fa, pkgRoot, "runTarget", "data") {
					if _, isParam := fa.X.(*ssa.Parameter); !isParam {
						return true
					}
				}
			}
			return false
		})
	}
	depends = func(v ssa.Value) bool { return dependsIn(v, 0) }
	n := 0
	for _, w := range m.recordWrites() {
		s, lit := w.Site, w.Lit
		site = s
		nn, known := p.FactsAt(s).ErrNonNil(evalErr)
		if !known || nn {
			continue
		}
		n++
		// what dependents compare: runTarget.data (persisted as Data). Either must carry dependency information.
		ok := false
		for name, v := range lit.Fields {
			if name == "Dependencies" || name == "Doc" {
				continue
			}
			if depends(v) {
				ok = true
			}
			for _, a := range lit.Via[name] {
				if depends(a) {
					ok = true
				}
			}
		}
		m.instrs(func(in ssa.Instruction) {
			if st, okk := in.(*ssa.Store); okk && core.IsField(st.Addr, pkgRoot, "runTarget", "data") && m.dom(m.Evaluate, st) && depends(st.Val) {
				ok = true
			}
		})
		construct := "dawn.(*runTarget).Evaluate#success-record.Data"
		if ok {
			r.OK(rule, construct, p.InstrPos(s), "the stamp handed to dependents depends on the dependencies' stamps")
		} else {
			r.Bad(rule, construct, p.InstrPos(s), "the stamp persisted for a function target (and compared by its dependents) is a function of its own code and values only: after `build top; edit src; build mid; build top` (top -> mid -> src) mid was re-executed but its stamp is unchanged, so top is skipped and its outputs are stale")
		}
	}
	r.Floor(rule, n, 1, "success-path record writes")
}

// checkDirHash: the directory hashing function covers names and fixes an order.
// hashFeed: the call feeds bytes into a hash.Hash: h.Write(b), or io.WriteString(h, s) / fmt.Fprint*(h, …) with h a hash.
func hashFeed(c ssa.CallInstruction) (ssa.Value, bool) {
	isHash := func(v ssa.Value) bool {
		v = core.Unwrap(v)
		for {
			switch x := v.(type) {
			case *ssa.ChangeInterface:
				v = x.X
				continue
			case *ssa.MakeInterface:
				v = x.X
				continue
			}
			break
		}
		n, ok := v.Type().(*types.Named)
		return ok && n.Obj().Name() == "Hash" && n.Obj().Pkg() != nil && n.Obj().Pkg().Path() == "hash"
	}
	cc := c.Common()
	if cc.IsInvoke() && cc.Method.Name() == "Write" && isHash(cc.Value) && len(cc.Args) == 1 {
		return cc.Args[0], true
	}
	if core.IsCallTo(c, "io", "WriteString") && len(cc.Args) == 2 && isHash(cc.Args[0]) {
		return cc.Args[1], true
	}
	return nil, false
}

// isDirListing: the call lists a directory.
func isDirListing(c ssa.CallInstruction) (osReadDir, ok bool) {
	if core.IsCallTo(c, "os", "ReadDir") {
		return true, true
	}
	if core.IsMethod(c, "os", "File", "ReadDir") || core.IsMethod(c, "os", "File", "Readdir") || core.IsMethod(c, "os", "File", "Readdirnames") {
		return false, true
	}
	return false, false
}

// dirListing finds the directory listing a function works on: a listing call of its own, or that of a same-package
// helper whose result it uses (entries, err := sortedEntries(dir)).
func dirListing(f *ssa.Function) (listing ssa.Instruction, osReadDir, found bool) {
	for _, c := range core.Calls(f) {
		if o, ok := isDirListing(c); ok {
			return c.(ssa.Instruction), o, true
		}
	}
	for _, c := range core.Calls(f) {
		h := core.Callee(c)
		if _, isCall := c.(*ssa.Call); !isCall || h == nil || h.Pkg != f.Pkg || h.Blocks == nil || h == f {
			continue
		}
		for _, hc := range core.Calls(h) {
			o, ok := isDirListing(hc)
			if !ok {
				continue
			}
			// the helper hands the listing back
			returned := false
			for _, ret := range core.ReturnsOf(h) {
				for _, v := range core.RetVals(ret) {
					if _, isSlice := v.Type().Underlying().(*types.Slice); !isSlice {
						continue // the entries themselves, not an error or a sum computed from them
					}
					if core.DependsOn(v, core.SliceOpts{Stores: true}, func(x ssa.Value) bool { return x == hc.Value() }) {
						returned = true
					}
				}
			}
			if returned {
				return hc.(ssa.Instruction), o, true
			}
		}
	}
	return nil, false, false
}

func checkDirHash(p *core.Prog, r *core.Result, rule string) {
	var dirFns []*ssa.Function
	for _, f := range p.ModuleFuncs() {
		if f.Pkg == nil || f.Pkg.Pkg.Path() != pkgRoot {
			continue
		}
		_, _, lists := dirListing(f)
		hashes := false
		for _, c := range core.Calls(f) {
			if _, ok := hashFeed(c); ok {
				hashes = true
			}
		}
		if lists && hashes {
			dirFns = append(dirFns, f)
		}
	}
	r.Floor(rule, len(dirFns), 1, "directory hashing functions (list a directory and feed a hash)")
	pure := func(c *ssa.Call) bool {
		cal := core.Callee(c)
		if cal == nil {
			// interface invoke: Name() on DirEntry is the source itself; other invokes stop the slice
			return false
		}
		k := core.CalleeKey(cal)
		return strings.HasPrefix(k, "strings.") || k == "fmt.Sprintf" || k == "path/filepath.ToSlash" || k == "path.Base" || k == "path/filepath.Base"
	}
	for _, f := range dirFns {
		listing, osReadDir, _ := dirListing(f)
		named := false
		for _, c := range core.Calls(f) {
			fed, isFeed := hashFeed(c)
			if !isFeed {
				continue
			}
			if core.DependsOn(fed, core.SliceOpts{Stores: true, Helpers: true, ThroughCall: pure}, func(v ssa.Value) bool {
				cc, ok := v.(*ssa.Call)
				return ok && cc.Call.IsInvoke() && cc.Call.Method.Name() == "Name"
			}) {
				named = true
			}
		}
		r.Check(named, rule, fname(f)+"#hash-covers-names", p.Pos(f.Pos()), "entry names are written into the hash", "only the children's content sums are hashed, not their names: renaming a file inside a source directory (or swapping the contents of two files) leaves the directory's stamp unchanged and nothing is rebuilt")
		ordered := osReadDir || (listing != nil && sortedAfter(listing))
		r.Check(ordered, rule, fname(f)+"#deterministic-order", p.Pos(f.Pos()), "entries are hashed in sorted order", "entries are hashed in the order (*os.File).ReadDir returns them, which is file-system dependent: the same tree can hash differently (spurious rebuilds) ")
	}
}

// checkDirEntryErrors implements R1.14 (a contradiction rule: the consumer's belief "not-exist means this source is
// missing" against what the directory hasher can return).
func checkDirEntryErrors(p *core.Prog, r *core.Result, rule string) {
	directNotExist := func(c ssa.CallInstruction) ssa.Value {
		if core.IsCallTo(c, "os", "IsNotExist") && len(c.Common().Args) == 1 {
			return c.Common().Args[0]
		}
		if core.IsCallTo(c, "errors", "Is") && len(c.Common().Args) == 2 {
			if ld, ok := c.Common().Args[1].(*ssa.UnOp); ok {
				if g, ok := ld.X.(*ssa.Global); ok && (g.Name() == "ErrNotExist") {
					return c.Common().Args[0]
				}
			}
		}
		return nil
	}
	// a not-exist test, written out or through a boolean helper of the module that applies one to its only parameter
	// (isSumFailure(err), isMissing(err)); the polarity does not matter for finding the consumers
	notExistArg := func(c ssa.CallInstruction) ssa.Value {
		if a := directNotExist(c); a != nil {
			return a
		}
		h := core.Callee(c)
		if h == nil || !core.InModule(h) || h.Blocks == nil || len(h.Params) != 1 || len(c.Common().Args) != 1 {
			return nil
		}
		if res := h.Signature.Results(); res.Len() != 1 || res.At(0).Type().String() != "bool" {
			return nil
		}
		for _, hc := range core.Calls(h) {
			if directNotExist(hc) == ssa.Value(h.Params[0]) {
				return c.Common().Args[0]
			}
		}
		return nil
	}
	// consumers: os.IsNotExist(err) on the error of a module sum function
	sumFns := map[*ssa.Function]bool{}
	nCons := 0
	for _, fn := range p.ModuleFuncs() {
		if fn.Pkg == nil || fn.Pkg.Pkg.Path() != pkgRoot {
			continue
		}
		for _, c := range core.Calls(fn) {
			a := notExistArg(c)
			if a == nil {
				continue
			}
			e, ok := a.(*ssa.Extract)
			if !ok {
				continue
			}
			call, ok := e.Tuple.(*ssa.Call)
			if !ok {
				continue
			}
			h := core.Callee(call)
			if h == nil || h.Pkg == nil || h.Pkg.Pkg.Path() != pkgRoot || h.Blocks == nil {
				continue
			}
			res := h.Signature.Results()
			if res.Len() != 2 || res.At(0).Type().String() != "string" {
				continue
			}
			// only sums: the function (or what it calls) feeds a hash
			feeds := false
			for g := range staticClosure(p, h) {
				for _, cc := range core.Calls(g) {
					if _, ok := hashFeed(cc); ok {
						feeds = true
					}
					if cal := core.Callee(cc); cal != nil && strings.Contains(core.CalleeKey(cal), "SHA256") {
						feeds = true
					}
				}
			}
			if !feeds {
				continue
			}
			if fn != h && !staticClosure(p, h)[fn] {
				nCons++
			}
			sumFns[h] = true
		}
	}
	r.Floor(rule, nCons, 1, "consumers that read a not-exist error of a content sum as 'missing'")
	n := 0
	var roots []*ssa.Function
	for h := range sumFns {
		roots = append(roots, h)
	}
	sort.Slice(roots, func(i, j int) bool { return roots[i].String() < roots[j].String() })
	closure := staticClosure(p, roots...)
	var fns []*ssa.Function
	for f := range closure {
		fns = append(fns, f)
	}
	sort.Slice(fns, func(i, j int) bool { return fns[i].String() < fns[j].String() })
	for _, f := range fns {
		if f.Pkg == nil || f.Pkg.Pkg.Path() != pkgRoot {
			continue
		}
		if _, _, lists := dirListing(f); !lists {
			continue
		}
		k := 0
		for _, ret := range core.ReturnsOf(f) {
			vals := core.RetVals(ret)
			if len(vals) != 2 || core.IsNilConst(vals[1]) {
				continue
			}
			e, ok := vals[1].(*ssa.Extract)
			if !ok {
				continue
			}
			call, ok := e.Tuple.(*ssa.Call)
			if !ok || !closure[core.Callee(call)] || core.Callee(call) == nil {
				continue
			}
			if res := core.Callee(call).Signature.Results(); res.Len() != 2 || res.At(0).Type().String() != "string" {
				continue
			}
			// the error of an entry's sum is handed up
			n++
			k++
			excluded := false
			for _, xf := range xfacts(p, ret) {
				c, ok := xf.Cond.(*ssa.Call)
				if !ok || xf.Val {
					continue
				}
				if a := directNotExist(c); a != nil && xf.Arg(a) == ssa.Value(e) {
					excluded = true
				}
			}
			if !excluded {
				// the entry's sum comes from a wrapper (entrySum) that itself hands up only errors that are not
				// 'does not exist' errors
				h := core.Callee(call)
				all, some := h != nil && !sumFns[h], false
				for _, hr := range core.ReturnsOf(h) {
					hv := core.RetVals(hr)
					if len(hv) != 2 || core.IsNilConst(hv[1]) {
						continue
					}
					some = true
					okRet := false
					for _, xf := range xfacts(p, hr) {
						c, ok := xf.Cond.(*ssa.Call)
						if !ok || xf.Val {
							continue
						}
						if a := directNotExist(c); a != nil && xf.Arg(a) == hv[1] {
							okRet = true
						}
					}
					if !okRet {
						all = false
					}
				}
				if all && some {
					excluded = true
				}
			}
			r.Check(excluded, rule, fmt.Sprintf("%s#entry-error-%d", fname(f), k), p.InstrPos(ret), "an entry's error is handed up only where it is not a 'does not exist' error", "the error of one entry's sum is returned as the directory's error even when it says 'does not exist': the consumer reads that as 'the source is missing' and takes the empty sum, so a directory with one dangling symbolic link hashes to the same sum whatever it contains and no edit in it is ever noticed")
		}
	}
	r.Floor(rule, n, 1, "returns of the directory hasher that hand up an entry's error")
}

// checkEnvVerdictWholeEquality (R1.13, shared as R8.12 and R15.9): diffEnv reports "unchanged" only on the edge where
// starlark.EqualDepth / starlark.Equal applied to the whole recorded and the whole current environment reported
// equality (directly, or inside a helper every "equal" return of which satisfies the same). A comparison that walks one
// side's entries only, or compares selected entries, accepts a recorded environment that lacks what the current one has:
// an edit that adds a binding, and a corrupted record that decodes to a smaller dict, are both "unchanged".
func checkEnvVerdictWholeEquality(p *core.Prog, r *core.Result, rule string) {
	diffEnv := need(p, r, rule, "", "function", "diffEnv")
	if diffEnv == nil {
		return
	}
	isFieldLoad := func(field string) func(ssa.Value) bool {
		return func(v ssa.Value) bool { return core.LoadOfField(v, pkgRoot, "function", field) }
	}
	type pred = func(ssa.Value) bool
	var verdictOK func(fn *ssa.Function, ret *ssa.Return, isOld, isNew pred, depth int) (bool, string)
	equalityCall := func(c *ssa.Call, isOld, isNew pred, depth int) (bool, string) {
		if c == nil {
			return false, "no equality call"
		}
		if core.IsCallTo(c, pkgStar, "EqualDepth") || core.IsCallTo(c, pkgStar, "Equal") {
			a, b := c.Call.Args[0], c.Call.Args[1]
			if isOld(a) && isNew(b) || isNew(a) && isOld(b) {
				return true, ""
			}
			return false, "the equality call at " + p.InstrPos(c) + " does not compare the whole recorded environment with the whole current one"
		}
		h := core.Callee(c)
		if h == nil || !core.InModule(h) || h.Blocks == nil || depth >= 2 || c.Call.IsInvoke() {
			return false, "the verdict comes from " + c.Call.Value.Name() + ", which is not a whole-value equality"
		}
		mapped := func(q pred) pred {
			return func(v ssa.Value) bool {
				prm, ok := v.(*ssa.Parameter)
				if !ok || prm.Parent() != h {
					return false
				}
				i := paramIndex(h, prm)
				return i >= 0 && i < len(c.Call.Args) && q(c.Call.Args[i])
			}
		}
		n := 0
		for _, ret := range core.ReturnsOf(h) {
			vals := core.RetVals(ret)
			if len(vals) == 0 {
				continue
			}
			if b, isConst := core.ConstBool(vals[0]); isConst && !b {
				continue
			}
			n++
			if ok, why := verdictOK(h, ret, mapped(isOld), mapped(isNew), depth+1); !ok {
				return false, why
			}
		}
		return n > 0, "helper never reports equality"
	}
	verdictOK = func(fn *ssa.Function, ret *ssa.Return, isOld, isNew pred, depth int) (bool, string) {
		vals := core.RetVals(ret)
		// the verdict is the equality verdict itself
		if e, ok := vals[0].(*ssa.Extract); ok && e.Index == 0 {
			if c, ok := e.Tuple.(*ssa.Call); ok {
				return equalityCall(c, isOld, isNew, depth)
			}
		}
		if c, ok := vals[0].(*ssa.Call); ok {
			return equalityCall(c, isOld, isNew, depth)
		}
		why := "an 'equal' verdict is returned at " + p.InstrPos(ret) + " on a path where no whole-value equality of the two environments was established"
		ok := p.FactsAt(ret).Find(func(cv ssa.Value, v bool) bool {
			if !v {
				return false
			}
			var c *ssa.Call
			switch x := cv.(type) {
			case *ssa.Extract:
				if x.Index == 0 {
					c, _ = x.Tuple.(*ssa.Call)
				}
			case *ssa.Call:
				c = x
			}
			if c == nil {
				return false
			}
			good, _ := equalityCall(c, isOld, isNew, depth)
			return good
		})
		return ok, why
	}
	n := 0
	for _, ret := range core.ReturnsOf(diffEnv) {
		vals := core.RetVals(ret)
		if len(vals) == 0 {
			continue
		}
		if b, isConst := core.ConstBool(vals[0]); isConst && !b {
			continue
		}
		n++
		ok, why := verdictOK(diffEnv, ret, isFieldLoad("oldEnv"), isFieldLoad("newEnv"), 0)
		construct := fmt.Sprintf("dawn.(*function).diffEnv#unchanged-verdict-%d", n)
		if ok {
			r.OK(rule, construct, p.InstrPos(ret), "'unchanged' is reported only where the whole recorded environment equals the whole current one")
		} else {
			r.Bad(rule, construct, p.InstrPos(ret), "%s: a recorded environment that lacks entries of the current one (an added binding, a corrupted record that decodes to a smaller dict) counts as unchanged and the target is silently skipped", why)
		}
	}
	r.Floor(rule, n, 1, "'unchanged' verdicts of (*function).diffEnv")
}

// checkFunctionUpToDate: R1.5.
func checkFunctionUpToDate(p *core.Prog, r *core.Result) {
	f := need(p, r, "R1.5", "", "function", "upToDate")
	diffEnv := need(p, r, "R1.5", "", "function", "diffEnv")
	if f == nil || diffEnv == nil {
		return
	}
	var dcall *ssa.Call
	for _, c := range core.CallsTo(f, diffEnv) {
		dcall, _ = c.(*ssa.Call)
	}
	n := 0
	for i, ret := range core.ReturnsOf(f) {
		vals := core.RetVals(ret)
		if len(vals) != 4 {
			continue
		}
		b, ok := core.ConstBool(vals[0])
		if !ok {
			// a non-constant verdict must be the verdict of diffEnv on a path where outputs were not checked: only allowed when false
			if dcall != nil && vals[0] == extractOf(dcall, 0) {
				continue
			}
			// the verdict of a helper that checks the declared outputs (ok, reason, err := f.checkGenerated()): every
			// "true" it can return is after all outputs were stat'ed, and the call is made on the environment-unchanged edge
			if e, isE := vals[0].(*ssa.Extract); isE && e.Index == 0 {
				if hc, isC := e.Tuple.(*ssa.Call); isC {
					if h := core.Callee(hc); h != nil && h.Pkg == f.Pkg && h.Blocks != nil && h != diffEnv {
						okAll, nTrue := true, 0
						for _, hr := range core.ReturnsOf(h) {
							hv := core.RetVals(hr)
							if len(hv) == 0 {
								okAll = false
								continue
							}
							if hb, isConst := core.ConstBool(hv[0]); isConst && !hb {
								continue
							}
							nTrue++
							if !outputsVerifiedAt(p, h, hr, 1) {
								okAll = false
							}
						}
						envSame := dcall != nil && holds(p, hc, true, func(v ssa.Value) bool { return v == extractOf(dcall, 0) })
						n++
						r.Check(okAll && nTrue > 0 && envSame, "R1.5", fmt.Sprintf("dawn.(*function).upToDate#returns-true-%d", n), p.InstrPos(ret), "hands on the verdict of "+fname(h)+", which is true only after every declared output was stat'ed successfully, and asks it only when the environment is unchanged", "a function target can be reported up to date without its environment being unchanged and all declared outputs existing: a deleted output is not regenerated")
						continue
					}
				}
			}
			r.Unk("R1.5", fmt.Sprintf("dawn.(*function).upToDate#return-%d", i+1), p.InstrPos(ret), "verdict is neither a constant nor diffEnv's verdict")
			continue
		}
		if !b {
			continue
		}
		n++
		construct := fmt.Sprintf("dawn.(*function).upToDate#returns-true-%d", n)
		// (a) forced re-run recorded
		forced := false
		core.Instrs(f, func(in ssa.Instruction) {
			if st, ok := in.(*ssa.Store); ok && core.IsField(st.Addr, pkgRoot, "targetInfo", "Rerun") && core.Dominates(st, ret) {
				if c, ok := core.ConstBool(st.Val); ok && c {
					forced = true
				}
			}
		})
		if forced {
			r.OK("R1.5", construct, p.InstrPos(ret), "reports up to date only together with Rerun=true (always-targets run anyway)")
			continue
		}
		// (b) env unchanged and outputs exist
		envSame := dcall != nil && holds(p, ret, true, func(v ssa.Value) bool { return v == extractOf(dcall, 0) })
		outputsOK := outputsVerifiedAt(p, f, ret, 0)
		loopDone, statOK := outputsOK, outputsOK
		r.Check(envSame && loopDone && statOK, "R1.5", construct, p.InstrPos(ret), "reports up to date only when the environment is unchanged and every declared output was stat'ed successfully", "a function target can be reported up to date without its environment being unchanged and all declared outputs existing: a deleted output is not regenerated")
	}
	r.Floor("R1.5", n, 1, "true verdicts of (*function).upToDate")
}

// checkGeneratorLinking: R1.6.
func checkGeneratorLinking(p *core.Prog, r *core.Result) {
	link := need(p, r, "R1.6", "", "Project", "link")
	load := need(p, r, "R1.6", "", "Project", "load")
	deps := need(p, r, "R1.6", "", "sourceFile", "dependencies")
	loadPackage := need(p, r, "R1.6", "", "Project", "loadPackage")
	if link == nil || load == nil || deps == nil || loadPackage == nil {
		return
	}
	n := 0
	for _, f := range p.ModuleFuncs() {
		core.Instrs(f, func(in ssa.Instruction) {
			st, ok := in.(*ssa.Store)
			if !ok || !core.IsField(st.Addr, pkgRoot, "sourceFile", "generator") {
				return
			}
			n++
			// the store is in link, or in a helper that only link calls (its parameters then stand for link's arguments)
			var site *ssa.Call
			if f != link {
				callers := p.StaticCallers(f)
				only := len(callers) > 0 && len(p.FuncValueUses(f)) == 0
				for _, c := range callers {
					if c.Parent() != link {
						only = false
					}
					site, _ = c.(*ssa.Call)
				}
				if !only || site == nil || len(callers) != 1 {
					r.Bad("R1.6", fname(f)+"#stores-generator", p.InstrPos(st), "sourceFile.generator is assigned outside (*Project).link")
					return
				}
			}
			toLink := func(v ssa.Value) ssa.Value {
				v = core.Unwrap(v)
				if site == nil {
					return v
				}
				if prm, ok := v.(*ssa.Parameter); ok {
					for i, q := range f.Params {
						if q == prm && i < len(site.Call.Args) {
							return core.Unwrap(site.Call.Args[i])
						}
					}
				}
				return v
			}
			// value: Label() of the target whose generates() is being iterated
			lbl, ok := st.Val.(*ssa.Call)
			okv := ok && lbl.Call.IsInvoke() && lbl.Call.Method.Name() == "Label"
			gens := false
			if okv {
				recv := toLink(lbl.Call.Value)
				for _, c := range core.Calls(link) {
					if c.Common().IsInvoke() && c.Common().Method.Name() == "generates" && core.Unwrap(c.Common().Value) == recv {
						gens = true
					}
					if c.Common().IsInvoke() && c.Common().Method.Name() == "generates" {
						// same target field load (two loads of t.target): compare paths
						if core.Path(c.Common().Value) == core.Path(recv) {
							gens = true
						}
					}
				}
			}
			r.Check(okv && gens, "R1.6", "dawn.(*Project).link#generator-is-generating-target", p.InstrPos(st), "a generated file is linked to the label of the target whose generates() lists it", "the generator recorded for a file is not the target that generates it")
		})
	}
	r.Floor("R1.6", n, 1, "assignments of sourceFile.generator")
	// link ranges over all targets
	ranges := false
	core.Instrs(link, func(in ssa.Instruction) {
		if rg, ok := in.(*ssa.Range); ok && core.LoadOfField(rg.X, pkgRoot, "Project", "targets") {
			ranges = true
		}
	})
	r.Check(ranges, "R1.6", "dawn.(*Project).link#all-targets", p.Pos(link.Pos()), "link visits every target of the project", "link does not range over Project.targets")
	// every successful return of the full-load path is after link succeeded. The full load (the part that runs
	// loadPackage) is load itself or a helper of the package that load calls.
	fullFn := load
	var fullSites []*ssa.Call
	if len(core.CallsTo(load, loadPackage)) == 0 {
		for _, c := range core.Calls(load) {
			h := core.Callee(c)
			call, isCall := c.(*ssa.Call)
			if isCall && h != nil && h.Pkg == load.Pkg && h.Blocks != nil && len(core.CallsTo(h, loadPackage)) > 0 {
				fullFn = h
				fullSites = append(fullSites, call)
			}
		}
	}
	nFull := 0
	for i, ret := range core.ReturnsOf(fullFn) {
		vals := core.RetVals(ret)
		if len(vals) != 1 || !core.IsNilConst(vals[0]) {
			continue
		}
		full := false
		for _, c := range core.CallsTo(fullFn, loadPackage) {
			if core.Dominates(c.(ssa.Instruction), ret) {
				full = true
			}
		}
		if !full {
			continue
		}
		nFull++
		ok := false
		for _, c := range core.CallsTo(fullFn, link) {
			if call, isCall := c.(*ssa.Call); isCall && core.Dominates(call, ret) {
				if nn, known := p.FactsAt(ret).ErrNonNil(call); known && !nn {
					ok = true
				}
			}
		}
		r.Check(ok, "R1.6", fmt.Sprintf("dawn.(*Project).load#link-before-success-%d", i+1), p.InstrPos(ret), "a full load succeeds only after link succeeded", "a full load can succeed without linking generated files to their generators: editing a generator's inputs no longer rebuilds consumers of the generated file")
	}
	r.Floor("R1.6", nFull, 1, "successful returns of the full-load path")
	// load reports the helper's failure: after the call it returns the call's own result, or nil only where that is nil
	for _, site := range fullSites {
		for i, ret := range core.ReturnsOf(load) {
			if !core.InstrReaches(site, ret) {
				continue
			}
			vals := core.RetVals(ret)
			ok := len(vals) == 1 && core.Unwrap(vals[0]) == ssa.Value(site)
			if !ok && len(vals) == 1 {
				if nn, known := p.FactsAt(ret).ErrNonNil(site); known && (!nn || !core.IsNilConst(vals[0])) {
					ok = true
				}
			}
			r.Check(ok, "R1.6", fmt.Sprintf("dawn.(*Project).load#full-load-result-%d", i+1), p.InstrPos(ret), "load reports the outcome of the full load ("+fname(fullFn)+")", "load can succeed although the full load ("+fname(fullFn)+") failed: a failed link goes unnoticed")
		}
	}
	// dependencies() returns the generator when set
	okDeps := false
	for _, ret := range core.ReturnsOf(deps) {
		vals := core.RetVals(ret)
		if len(vals) != 1 || core.IsNilConst(vals[0]) {
			continue
		}
		if core.DependsOn(vals[0], core.SliceOpts{Stores: true, ThroughCall: func(*ssa.Call) bool { return true }}, func(v ssa.Value) bool { return core.LoadOfField(v, pkgRoot, "sourceFile", "generator") }) {
			nonNil := p.FactsAt(ret).Find(func(v ssa.Value, val bool) bool {
				b, ok := v.(*ssa.BinOp)
				if !ok || !core.LoadOfField(b.X, pkgRoot, "sourceFile", "generator") || !core.IsNilConst(b.Y) {
					return false
				}
				return b.Op == token.NEQ && val || b.Op == token.EQL && !val
			})
			if nonNil {
				okDeps = true
			}
		}
	}
	r.Check(okDeps, "R1.6", "dawn.(*sourceFile).dependencies#generator", p.Pos(deps.Pos()), "a generated file depends on its generator", "a generated file does not report its generator as a dependency")
}

// stalenessCarrier: a phi of the dependency loop that is marked when a dependency is out of date.
type stalenessCarrier struct {
	phi  *ssa.Phi
	kind string // "bool" (set to false) or "slice" (appended to)
}

// marked: is this incoming value the "dependency is out of date" mark?
func (c stalenessCarrier) marked(e ssa.Value) bool {
	if c.kind == "bool" {
		b, ok := core.ConstBool(e)
		return ok && !b
	}
	call, ok := e.(*ssa.Call)
	if !ok {
		return false
	}
	bi, ok := call.Call.Value.(*ssa.Builtin)
	return ok && bi.Name() == "append"
}

func findStalenessCarriers(fn *ssa.Function) []stalenessCarrier {
	// the dependency loop: the loop that walks the results of Engine.EvaluateTargets
	var results ssa.Value
	for _, c := range core.Calls(fn) {
		if call, ok := c.(*ssa.Call); ok && isInvoke(c, "Engine", "EvaluateTargets") {
			results = call
		}
	}
	inDepLoop := func(b *ssa.BasicBlock) bool {
		if results == nil {
			return true
		}
		uses := false
		for _, x := range fn.Blocks {
			if x != b && !(core.Reaches(b, x, false) && core.Reaches(x, b, false)) {
				continue
			}
			for _, in := range x.Instrs {
				for _, op := range in.Operands(nil) {
					if *op == results {
						uses = true
					}
				}
			}
		}
		return uses
	}
	var out []stalenessCarrier
	core.Instrs(fn, func(in ssa.Instruction) {
		ph, ok := in.(*ssa.Phi)
		if !ok || !core.Reaches(ph.Block(), ph.Block(), false) || !inDepLoop(ph.Block()) {
			return
		}
		switch t := ph.Type().Underlying().(type) {
		case *types.Basic:
			if t.Kind() != types.Bool {
				return
			}
			hasTrue, hasFalse := false, false
			for _, e := range ph.Edges {
				if c, ok := core.ConstBool(e); ok {
					if c {
						hasTrue = true
					} else {
						hasFalse = true
					}
				}
			}
			if hasTrue && hasFalse {
				out = append(out, stalenessCarrier{ph, "bool"})
			}
		case *types.Slice:
			for _, e := range ph.Edges {
				if call, ok := e.(*ssa.Call); ok {
					if bi, ok := call.Call.Value.(*ssa.Builtin); ok && bi.Name() == "append" && call.Call.Args[0] == ssa.Value(ph) {
						out = append(out, stalenessCarrier{ph, "slice"})
					}
				}
			}
		}
	})
	return out
}

// outputsVerifiedAt: at instruction `at` of fn it is established that every declared output (function.gens) was
// stat'ed successfully — directly (the loop over gens is exhausted and every failing Stat leads to a false verdict /
// error), or through a helper method whose "all outputs exist" return is the only one consistent with the facts at `at`.
func outputsVerifiedAt(p *core.Prog, fn *ssa.Function, at ssa.Instruction, depth int) bool {
	return outputsVerifiedAtG(p, fn, at, depth, func(v ssa.Value) bool { return core.LoadOfField(v, pkgRoot, "function", "gens") })
}

// outputsVerifiedAtG: isGens recognises the list of declared outputs (the field function.gens, or inside a helper the
// parameter that receives it).
func outputsVerifiedAtG(p *core.Prog, fn *ssa.Function, at ssa.Instruction, depth int, isGens func(ssa.Value) bool) bool {
	loopDone := holds(p, at, false, func(v ssa.Value) bool {
		b, ok := v.(*ssa.BinOp)
		if !ok || b.Op != token.LSS {
			return false
		}
		ln, ok := b.Y.(*ssa.Call)
		if !ok {
			return false
		}
		bi, ok := ln.Call.Value.(*ssa.Builtin)
		return ok && bi.Name() == "len" && isGens(core.Unwrap(ln.Call.Args[0]))
	})
	if loopDone {
		for _, c := range core.Calls(fn) {
			if !core.IsCallTo(c, "os", "Stat") && !core.IsCallTo(c, "os", "Lstat") {
				continue
			}
			call := c.(*ssa.Call)
			fromGens := core.DependsOn(call.Call.Args[0], core.SliceOpts{}, isGens)
			errV := extractOf(call, 1)
			if !fromGens || errV == nil || !core.Reaches(call.Block(), call.Block(), false) {
				continue
			}
			// the loop continues from the stat only through the nil edge
			cont := true
			for _, b := range fn.Blocks {
				if iff, ok := b.Instrs[len(b.Instrs)-1].(*ssa.If); ok {
					if bo, ok := iff.Cond.(*ssa.BinOp); ok && (bo.X == errV || bo.Y == errV) {
						nonNilSucc := b.Succs[0]
						if bo.Op == token.EQL {
							nonNilSucc = b.Succs[1]
						}
						if core.Reaches(nonNilSucc, call.Block(), true) {
							cont = false
						}
					}
				}
			}
			if cont {
				return true
			}
		}
	}
	if depth >= 2 {
		return false
	}
	// through a helper
	for _, c := range core.Calls(fn) {
		call, ok := c.(*ssa.Call)
		if !ok || !core.Dominates(call, at) {
			continue
		}
		h := core.Callee(call)
		if h == nil || !core.InModule(h) || h.Blocks == nil || h == fn {
			continue
		}
		// inside the helper the declared outputs are the field again, or the parameter that receives them here
		hGens := func(v ssa.Value) bool {
			if core.LoadOfField(v, pkgRoot, "function", "gens") {
				return true
			}
			if prm, isParam := v.(*ssa.Parameter); isParam && prm.Parent() == h {
				if i := paramIndex(h, prm); i >= 0 && i < len(call.Call.Args) {
					return isGens(core.Unwrap(call.Call.Args[i]))
				}
			}
			return false
		}
		var good, bad []*ssa.Return
		for _, hr := range core.ReturnsOf(h) {
			if outputsVerifiedAtG(p, h, hr, depth+1, hGens) {
				good = append(good, hr)
			} else {
				bad = append(bad, hr)
			}
		}
		if len(good) == 0 {
			continue
		}
		// every bad return must be excluded by the caller's facts
		allExcluded := true
		for _, br := range bad {
			excluded := false
			for i, v := range core.RetVals(br) {
				res := extractOf(call, i)
				if h.Signature.Results().Len() == 1 {
					res = call
				}
				if res == nil {
					continue
				}
				if bv, isConst := core.ConstBool(v); isConst {
					if holds(p, at, !bv, func(x ssa.Value) bool { return x == res }) {
						excluded = true
					}
				} else if types.Implements(v.Type(), errorIface()) && !core.IsNilConst(v) {
					if nn, known := p.FactsAt(at).ErrNonNil(res); known && !nn {
						excluded = true
					}
				} else if provablyNonEmptyString(v) {
					// the helper names what is missing in a string that cannot be empty; the caller knows it got ""
					if p.FactsAt(at).Find(func(c ssa.Value, val bool) bool {
						b, ok := c.(*ssa.BinOp)
						if !ok || (b.Op != token.EQL && b.Op != token.NEQ) {
							return false
						}
						for _, pr := range [][2]ssa.Value{{b.X, b.Y}, {b.Y, b.X}} {
							if s, isConst := core.ConstString(pr[1]); isConst && s == "" && pr[0] == res {
								return (b.Op == token.EQL) == val
							}
						}
						return false
					}) {
						excluded = true
					}
				}
			}
			if !excluded {
				allExcluded = false
			}
		}
		if allExcluded {
			return true
		}
	}
	return false
}
